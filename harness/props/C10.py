"""C10 -- decoders accept exactly what the format allows; damage is never mis-decoded.
Bech32 / Bech32m / SegWit / CashAddr, Base58Check and WIF part.

Every decoder is compared three ways: extracted Coq model vs implementation (correspondence), and the
implementation vs an independent acceptor written here from the published specifications (BIP-173,
BIP-350, the cashaddr spec, the Bitcoin wiki's WIF description) with hand-typed constants and hashlib --
nothing imported from bip_utils on the reference side."""
import hashlib

from framework import Func
from modeldrv import T
from bip_utils import (Bech32Encoder, Bech32Decoder, SegwitBech32Encoder, SegwitBech32Decoder,
                       BchBech32Encoder, BchBech32Decoder, Base58Encoder, Base58Decoder,
                       WifEncoder, WifDecoder, WifPubKeyModes)
from bip_utils.bech32.bech32 import Bech32Utils, Bech32Encodings
from bip_utils.bech32.bech32_base import Bech32BaseUtils
from bip_utils.bech32.bch_bech32 import BchBech32Utils
from bip_utils.utils.misc import AlgoUtils

MANIFEST = {
    "text": "Coq theorems over all strings for the Bech32/Bech32m/SegWit/CashAddr/Base58Check/WIF decoders "
            "(acceptance iff the format rules, round trips, canonicity, only ValueError/checksum errors) and a "
            "kernel-evaluated BCH distance certificate with a soundness proof (any 1..4 substituted data "
            "characters within 89 symbols are detected), over constants regenerated from the source; plus "
            "extracted-model/implementation correspondence and an independent specification acceptor on the "
            "neighbourhood of valid strings.",
    "note": "SHA-256 and secp256k1 key validity are oracles; str.lower/islower/isupper are tables regenerated "
            "from the running interpreter.",
    "technique": "Coq proof (GF(2)-linearity of polymod + vm_compute distance certificate + soundness lemma) + "
                 "generated-constant obligations + extracted-model differential run + independent acceptor",
    "ref": "7/C10",
}
RULE = ("Neighbourhood of valid strings: all single substitutions over the charset, adjacent transpositions, "
        "insertions, deletions, case flips, truncations for a sample; double substitutions for short strings "
        "(all of them in the thorough tier); mixed case; non-ASCII look-alikes from the interpreter's lower() "
        "table; wrong HRP; Bech32/Bech32m confusion; witness versions 0..31 x program lengths 0..42; "
        "ConvertBits exhaustively on short inputs.")
TRUSTED = ["sha256 is an oracle (hashlib); secp256k1 private-key validity is an oracle (32 bytes, 0 < k < n with the "
           "reference group order); the WIF theorems assume |sha256 x| = 32 and that valid keys have 32 bytes",
           "Gen/CaseTables.v: chr(c).lower()/upper()/islower()/isupper() enumerated over the whole code space of the "
           "interpreter that runs the library; str.lower() is modelled per code point (the generator checks that "
           "U+03A3 is the only context-dependent code point: final sigma, which only chooses between two non-ASCII "
           "results)",
           "Gen/Bech32Consts.v: constants inside PolyMod/HrpExpand/ComputeChecksum/_DecodeBech32 bodies are located by "
           "an exact AST shape match (harness/gen_bech32.py); any other shape aborts the check",
           "the three distance certificates (Lemmas/Bech32CertB32.v, Bech32CertX.v, Bech32CertCash.v) are evaluated "
           "by the kernel's VM (vm_cast_no_check + Qed), re-run whenever the generator words change",
           "SegwitBech32Encoder.Encode is modelled for wit_ver >= 0 only (Python's negative indexing of CHARSET is "
           "not modelled); ConvertBits with to_bits = 0 (non-terminating in Python) returns OutOfFuel in the model"]
ASSUMPTIONS = ["hash output length 32 bytes", "valid secp256k1 private keys have 32 bytes"]
BUDGET = {"quick": 170, "thorough": 600}

# ------------------------------------------------------------------ independent reference (from the specs)

CHARSET = "qpzry9x8gf2tvdw0s3jn54khce6mua7l"
B32_GEN = [0x3b6a57b2, 0x26508e6d, 0x1ea119fa, 0x3d4233dd, 0x2a1462b3]
BECH32_CONST, BECH32M_CONST = 1, 0x2bc830a3
CASH_GEN = [0x98f2bc8e61, 0x79b76d99e2, 0xf33e5fb3c4, 0xae2eabe2a8, 0x1e4f43e470]
B58 = "123456789ABCDEFGHJKLMNPQRSTUVWXYZabcdefghijkmnopqrstuvwxyz"
SECP_N = 0xFFFFFFFFFFFFFFFFFFFFFFFFFFFFFFFEBAAEDCE6AF48A03BBFD25E8CD0364141


def ref_polymod(values):
    chk = 1
    for v in values:
        b = chk >> 25
        chk = (chk & 0x1ffffff) << 5 ^ v
        for i in range(5):
            chk ^= B32_GEN[i] if ((b >> i) & 1) else 0
    return chk


def ref_hrp_expand(s):
    return [ord(x) >> 5 for x in s] + [0] + [ord(x) & 31 for x in s]


def ref_cash_polymod(values):
    c = 1
    for d in values:
        c0 = c >> 35
        c = ((c & 0x07ffffffff) << 5) ^ d
        for i in range(5):
            if c0 & (1 << i):
                c ^= CASH_GEN[i]
    return c ^ 1


def ref_convertbits(data, frombits, tobits, pad=True):
    acc, bits, ret = 0, 0, []
    maxv = (1 << tobits) - 1
    max_acc = (1 << (frombits + tobits - 1)) - 1
    for value in data:
        if value < 0 or (value >> frombits):
            return None
        acc = ((acc << frombits) | value) & max_acc
        bits += frombits
        while bits >= tobits:
            bits -= tobits
            ret.append((acc >> bits) & maxv)
    if pad:
        if bits:
            ret.append((acc << (tobits - bits)) & maxv)
    elif bits >= frombits or ((acc << (tobits - bits)) & maxv):
        return None
    return ret


def ref_split(s, sep, cklen):
    """BIP-173 string layer: printable ASCII only, no mixed case, last separator, >= 1 HRP char,
    >= cklen data chars over the charset.  Returns (hrp, symbols) or None."""
    if any(ord(x) < 33 or ord(x) > 126 for x in s):
        return None
    if s.lower() != s and s.upper() != s:
        return None
    s = s.lower()
    pos = s.rfind(sep)
    if pos < 1 or pos + 1 + cklen > len(s):
        return None
    if not all(x in CHARSET for x in s[pos + 1:]):
        return None
    return s[:pos], [CHARSET.find(x) for x in s[pos + 1:]]


def ref_bech32_decode(hrp, s):
    r = ref_split(s, "1", 6)
    if r is None or r[0] != hrp or ref_polymod(ref_hrp_expand(r[0]) + r[1]) != BECH32_CONST:
        return None
    d = ref_convertbits(r[1][:-6], 5, 8, False)
    return None if d is None else bytes(d)


def ref_segwit_decode(hrp, s):
    r = ref_split(s, "1", 6)
    if r is None or r[0] != hrp or len(r[1]) < 7:
        return None
    data = r[1]
    const = ref_polymod(ref_hrp_expand(r[0]) + data)
    if const not in (BECH32_CONST, BECH32M_CONST):
        return None
    data = data[:-6]
    prog = ref_convertbits(data[1:], 5, 8, False)
    if prog is None or len(prog) < 2 or len(prog) > 40 or data[0] > 16:
        return None
    if data[0] == 0 and len(prog) not in (20, 32):
        return None
    if (data[0] == 0) != (const == BECH32_CONST):
        return None
    return [data[0], bytes(prog)]


def ref_cash_decode(hrp, s):
    r = ref_split(s, ":", 8)
    if r is None or r[0] != hrp:
        return None
    if ref_cash_polymod([ord(x) & 31 for x in r[0]] + [0] + r[1]) != 0:
        return None
    d = ref_convertbits(r[1][:-8], 5, 8, False)
    if d is None or len(d) < 1:
        return None
    return [bytes(d[:1]), bytes(d[1:])]


def ref_bech32_encode(hrp, symbols, const, sep="1"):
    pm = ref_polymod(ref_hrp_expand(hrp) + symbols + [0] * 6) ^ const
    cs = [(pm >> 5 * (5 - i)) & 31 for i in range(6)]
    return hrp + sep + "".join(CHARSET[d] for d in symbols + cs)


def ref_cash_encode(hrp, symbols):
    pm = ref_cash_polymod([ord(x) & 31 for x in hrp] + [0] + symbols + [0] * 8)
    cs = [(pm >> 5 * (7 - i)) & 31 for i in range(8)]
    return hrp + ":" + "".join(CHARSET[d] for d in symbols + cs)


def ref_b58decode(s):
    v = 0
    for c in s:
        i = B58.find(c)
        if i < 0:
            return None
        v = v * 58 + i
    body = v.to_bytes((v.bit_length() + 7) // 8, "big")
    return bytes(len(s) - len(s.lstrip("1"))) + body


def ref_b58check_decode(s):
    b = ref_b58decode(s)
    if b is None:
        return None
    data, ck = b[:-4], b[-4:]     # for fewer than 4 bytes: empty data, the whole string as "checksum"
    return data if hashlib.sha256(hashlib.sha256(data).digest()).digest()[:4] == ck else None


def ref_key_valid(k):
    return len(k) == 32 and 0 < int.from_bytes(k, "big") < SECP_N


def ref_wif_decode(s, net_ver):
    b = ref_b58check_decode(s)
    if b is None or len(net_ver) != 1 or len(b) < 1 or b[:1] != net_ver:
        return None
    k = b[1:]
    if len(k) == 33 and ref_key_valid(k[:32]):
        return [k[:32], True] if k[32] == 1 else None
    if ref_key_valid(k):
        return [k, False]
    return None


# ------------------------------------------------------------------ implementation wrappers

def opt(v):
    return [] if v is None else [T(v)]


def impl_call(f, *a):
    try:
        return ("ok", f(*a))
    except Exception as e:  # noqa
        return ("err", type(e).__name__)


def hrp_encodable(h):
    """HRPs for which the encoders' output is a well-formed string (what the round trip presupposes)."""
    return len(h) > 0 and all(33 <= ord(c) <= 126 and not ("A" <= c <= "Z") for c in h)


def cmp_ref(what, got, ref):
    """got: ('ok', v) | ('err', name) from the implementation; ref: payload or None."""
    if got[0] == "ok" and ref is None:
        return "%s accepted by the implementation (-> %r) but rejected by the specification acceptor" % (what, got[1])
    if got[0] == "err" and ref is not None:
        return "%s rejected by the implementation (%s) but valid per the specification (payload %r)" % (what, got[1], ref)
    if got[0] == "ok":
        g = got[1]
        g = list(g) if isinstance(g, tuple) else g
        if g != ref:
            return "%s decoded to %r, specification payload is %r" % (what, g, ref)
    return None


def seg_impl(h, s):
    v, p = SegwitBech32Decoder.Decode(h, s)
    return [v, p]


def cash_impl(h, s):
    n, d = BchBech32Decoder.Decode(h, s)
    return [n, d]


def wif_dec_impl(s, nv):
    k, m = WifDecoder.Decode(s, nv)
    return [k, m == WifPubKeyModes.COMPRESSED]


def d_bech32_decode(a):
    return cmp_ref("Bech32 string", impl_call(Bech32Decoder.Decode, a[0], a[1]), ref_bech32_decode(a[0], a[1]))


def d_segwit_decode(a):
    return cmp_ref("SegWit address", impl_call(seg_impl, a[0], a[1]), ref_segwit_decode(a[0], a[1]))


def d_cash_decode(a):
    return cmp_ref("CashAddr string", impl_call(cash_impl, a[0], a[1]), ref_cash_decode(a[0], a[1]))


def d_wif_decode(a):
    return cmp_ref("WIF string", impl_call(wif_dec_impl, a[0], a[1]), ref_wif_decode(a[0], a[1]))


def d_b58check_decode(a):
    return cmp_ref("Base58Check string", impl_call(Base58Decoder.CheckDecode, a[0]), ref_b58check_decode(a[0]))


def d_bech32_encode(a):
    h, d = a
    if not hrp_encodable(h):
        return None
    s = Bech32Encoder.Encode(h, d)
    r = impl_call(Bech32Decoder.Decode, h, s)
    if r != ("ok", d):
        return "Bech32 decode(encode(%r, %s)) = %r; encoded string %r" % (h, d.hex(), r, s)
    r = impl_call(Bech32Decoder.Decode, h.upper().lower(), s.upper())
    if h.upper().lower() == h and r != ("ok", d):
        return "upper-cased encoding %r decodes to %r" % (s.upper(), r)
    return None


def d_segwit_encode(a):
    h, v, p = a
    if not hrp_encodable(h):
        return None
    e = impl_call(SegwitBech32Encoder.Encode, h, v, p)
    allowed = 0 <= v <= 16 and 2 <= len(p) <= 40 and (v != 0 or len(p) in (20, 32))
    if e[0] != "ok":
        return None if v > 31 else "encoder raised %s" % e[1]
    r = impl_call(seg_impl, h, e[1])
    if allowed and r != ("ok", [v, p]):
        return "SegWit decode(encode(%r, %d, %s)) = %r" % (h, v, p.hex(), r)
    if not allowed and r[0] == "ok":
        return "SegWit decoder accepts version %d with a %d-byte program" % (v, len(p))
    return None


def d_cash_encode(a):
    h, n, d = a
    if not hrp_encodable(h) or len(n) != 1:
        return None
    s = BchBech32Encoder.Encode(h, n, d)
    r = impl_call(cash_impl, h, s)
    return None if r == ("ok", [n, d]) else "CashAddr decode(encode(%r, %s, %s)) = %r" % (h, n.hex(), d.hex(), r)


def d_wif_encode(a):
    k, nv, c = a
    e = impl_call(WifEncoder.Encode, k, nv, WifPubKeyModes.COMPRESSED if c else WifPubKeyModes.UNCOMPRESSED)
    if ref_key_valid(k) != (e[0] == "ok"):
        return "WIF encoder %s a key whose validity is %s" % ("accepts" if e[0] == "ok" else "rejects", ref_key_valid(k))
    if e[0] != "ok" or len(nv) != 1:
        return None
    r = impl_call(wif_dec_impl, e[1], nv)
    return None if r == ("ok", [k, bool(c)]) else "WIF decode(encode(k)) = %r" % (r,)


def data_part_diff(a, b, sep):
    """number of differing characters if a, b have equal length and share everything up to the last separator
    of a (compared case-insensitively on ASCII); None otherwise"""
    if len(a) != len(b):
        return None
    la, lb = a.lower(), b.lower()
    if len(la) != len(a) or len(lb) != len(b):
        return None
    p = la.rfind(sep)
    if p < 0 or la[:p + 1] != lb[:p + 1]:
        return None
    return sum(x != y for x, y in zip(la[p + 1:], lb[p + 1:]))


def mk_mut(dec, sep, segwit=False):
    def direct(a):
        h, orig, mut = a
        k = data_part_diff(orig, mut, sep)
        if k is None or not (1 <= k <= 4):
            return None
        if len(orig) - orig.lower().rfind(sep) - 1 > 89:
            return None
        r0 = impl_call(dec, h, orig)
        if r0[0] != "ok":
            return None
        if segwit and k == 4:
            p = orig.lower().rfind(sep)
            if (orig.lower()[p + 1] == "q") != (mut.lower()[p + 1] == "q"):
                return None          # four substitutions switching Bech32 <-> Bech32m: outside the code's
                                     # guarantee (Props/C10.v segwit_detects_4_refuted); three are guaranteed
        r1 = impl_call(dec, h, mut)
        if r1[0] == "ok":
            return "%d substituted data characters not detected: %r -> %r decodes to %r" % (k, orig, mut, r1[1])
        return None
    return direct


def d_convert_bits(a):
    f, t, pad, data = a
    got = Bech32BaseUtils.ConvertBits(list(data), f, t, bool(pad))
    if got is None:
        return None
    if any(x >> t for x in got):
        return "ConvertBits emitted a value >= 2**%d" % t
    if pad and (f, t) == (8, 5):
        back = Bech32BaseUtils.ConvertBits(got, 5, 8, False)
        if back != list(data):
            return "ConvertBits 8->5->8 round trip gives %r" % (back,)
    if not pad and (f, t) == (5, 8):
        back = Bech32BaseUtils.ConvertBits(got, 8, 5, True)
        if back != list(data):
            return "ConvertBits 5->8 accepted a non-canonical symbol string (re-encodes to %r)" % (back,)
    return None


ENC = [Bech32Encodings.BECH32, Bech32Encodings.BECH32M]


def d_verify(a):
    e, h, d = a
    want = ref_polymod(ref_hrp_expand(h) + list(d)) == (BECH32_CONST, BECH32M_CONST)[e]
    got = Bech32Utils.VerifyChecksum(h, list(d), ENC[e])
    return None if got == want else "VerifyChecksum = %r, specification says %r" % (got, want)


def d_compute(a):
    e, h, d = a
    cs = Bech32Utils.ComputeChecksum(h, list(d), ENC[e])
    ok = ref_polymod(ref_hrp_expand(h) + list(d) + cs) == (BECH32_CONST, BECH32M_CONST)[e]
    return None if ok and len(cs) == 6 else "computed checksum %r does not verify per the specification" % (cs,)


def d_cash_verify(a):
    h, d = a
    want = ref_cash_polymod([ord(x) & 31 for x in h] + [0] + list(d)) == 0
    got = BchBech32Utils.VerifyChecksum(h, list(d))
    return None if got == want else "VerifyChecksum = %r, specification says %r" % (got, want)


def d_cash_compute(a):
    h, d = a
    cs = BchBech32Utils.ComputeChecksum(h, list(d))
    ok = ref_cash_polymod([ord(x) & 31 for x in h] + [0] + list(d) + cs) == 0
    return None if ok and len(cs) == 8 else "computed checksum %r does not verify per the specification" % (cs,)


def mode(c):
    return WifPubKeyModes.COMPRESSED if c else WifPubKeyModes.UNCOMPRESSED


FUNCS = {
    "b32_convert_bits": Func(model=lambda m, a: m.call("b32_convert_bits", a[0], a[1], a[2], T(a[3])),
                             impl=lambda a: opt(Bech32BaseUtils.ConvertBits(list(a[3]), a[0], a[1], bool(a[2]))),
                             direct=d_convert_bits),
    "py_lower": Func(model=lambda m, a: m.call("py_lower", a[0]), impl=lambda a: a[0].lower()),
    "py_upper": Func(model=lambda m, a: m.call("py_upper", a[0]), impl=lambda a: a[0].upper()),
    "is_string_mixed": Func(model=lambda m, a: m.call("is_string_mixed", a[0]),
                            impl=lambda a: AlgoUtils.IsStringMixed(a[0])),
    "b32_polymod": Func(model=lambda m, a: m.call("b32_polymod", T(a[0])),
                        impl=lambda a: Bech32Utils.PolyMod(list(a[0])),
                        direct=lambda a: None if Bech32Utils.PolyMod(list(a[0])) == ref_polymod(a[0]) else "PolyMod differs from BIP-173"),
    "cash_polymod": Func(model=lambda m, a: m.call("cash_polymod", T(a[0])),
                         impl=lambda a: BchBech32Utils.PolyMod(list(a[0])),
                         direct=lambda a: None if BchBech32Utils.PolyMod(list(a[0])) == ref_cash_polymod(a[0]) else "PolyMod differs from the cashaddr spec"),
    "b32_compute_checksum": Func(model=lambda m, a: m.call("b32_compute_checksum", a[0], a[1], T(a[2])),
                                 impl=lambda a: T(Bech32Utils.ComputeChecksum(a[1], list(a[2]), ENC[a[0]])), direct=d_compute),
    "b32_verify_checksum": Func(model=lambda m, a: m.call("b32_verify_checksum", a[0], a[1], T(a[2])),
                                impl=lambda a: Bech32Utils.VerifyChecksum(a[1], list(a[2]), ENC[a[0]]), direct=d_verify),
    "cash_compute_checksum": Func(model=lambda m, a: m.call("cash_compute_checksum", a[0], T(a[1])),
                                  impl=lambda a: T(BchBech32Utils.ComputeChecksum(a[0], list(a[1]))), direct=d_cash_compute),
    "cash_verify_checksum": Func(model=lambda m, a: m.call("cash_verify_checksum", a[0], T(a[1])),
                                 impl=lambda a: BchBech32Utils.VerifyChecksum(a[0], list(a[1])), direct=d_cash_verify),
    "bech32_encode": Func(model=lambda m, a: m.call("bech32_encode", a[0], a[1]),
                          impl=lambda a: Bech32Encoder.Encode(a[0], a[1]), direct=d_bech32_encode),
    "bech32_decode": Func(model=lambda m, a: m.call("bech32_decode", a[0], a[1]),
                          impl=lambda a: Bech32Decoder.Decode(a[0], a[1]), direct=d_bech32_decode),
    "bech32_mut": Func(model=lambda m, a: m.call("bech32_decode", a[0], a[2]),
                       impl=lambda a: Bech32Decoder.Decode(a[0], a[2]), direct=mk_mut(Bech32Decoder.Decode, "1")),
    "segwit_encode": Func(model=lambda m, a: m.call("segwit_encode", a[0], a[1], a[2]),
                          impl=lambda a: SegwitBech32Encoder.Encode(a[0], a[1], a[2]), direct=d_segwit_encode),
    "segwit_decode": Func(model=lambda m, a: m.call("segwit_decode", a[0], a[1]),
                          impl=lambda a: seg_impl(a[0], a[1]), direct=d_segwit_decode),
    "segwit_mut": Func(model=lambda m, a: m.call("segwit_decode", a[0], a[2]),
                       impl=lambda a: seg_impl(a[0], a[2]), direct=mk_mut(seg_impl, "1", segwit=True)),
    "cash_encode": Func(model=lambda m, a: m.call("cash_encode", a[0], a[1], a[2]),
                        impl=lambda a: BchBech32Encoder.Encode(a[0], a[1], a[2]), direct=d_cash_encode),
    "cash_decode": Func(model=lambda m, a: m.call("cash_decode", a[0], a[1]),
                        impl=lambda a: cash_impl(a[0], a[1]), direct=d_cash_decode),
    "cash_mut": Func(model=lambda m, a: m.call("cash_decode", a[0], a[2]),
                     impl=lambda a: cash_impl(a[0], a[2]), direct=mk_mut(cash_impl, ":")),
    "b58_check_decode": Func(model=lambda m, a: m.call("b58_check_decode", 0, a[0]),
                             impl=lambda a: Base58Decoder.CheckDecode(a[0]), direct=d_b58check_decode),
    "wif_encode": Func(model=lambda m, a: m.call("wif_encode", a[0], a[1], int(a[2])),
                       impl=lambda a: WifEncoder.Encode(a[0], a[1], mode(a[2])), direct=d_wif_encode),
    "wif_decode": Func(model=lambda m, a: m.call("wif_decode", a[0], a[1]),
                       impl=lambda a: wif_dec_impl(a[0], a[1]), direct=d_wif_decode),
}


# ------------------------------------------------------------------ known findings

KELVIN = "K"


def _last_data_part(s, sep):
    t = s.lower()
    p = t.rfind(sep)
    return None if p < 0 else t[p + 1:]


def match_F11(fn, args, record):
    """Bech32Decoder rejects a string whose data part is exactly the 6-character checksum (empty payload)."""
    if fn == "bech32_encode":
        return record.get("kind") == "direct" and args[1] == b"" and hrp_encodable(args[0])
    if fn == "bech32_decode" and record.get("kind") == "direct":
        dp = _last_data_part(args[1], "1")
        return dp is not None and len(dp) == 6 and ref_bech32_decode(args[0], args[1]) == b""
    return False


def match_F11_replay():
    r = impl_call(Bech32Decoder.Decode, "a", "a12uel5l")
    return None if r == ("ok", b"") else "Bech32Decoder.Decode('a', 'a12uel5l') -> %s" % (r[1],)


def match_F16(fn, args, record):
    """A Bech32-family decoder accepts a string containing U+212A KELVIN SIGN (and no other non-ASCII)."""
    if record.get("kind") != "direct":
        return False
    if fn in ("bech32_decode", "segwit_decode", "cash_decode"):
        s = args[1]
    elif fn in ("bech32_mut", "segwit_mut", "cash_mut"):
        s = args[2]
    else:
        return False
    if KELVIN not in s or any(ord(c) > 127 and c != KELVIN for c in s):
        return False
    ref = {"bech32": ref_bech32_decode, "segwit": ref_segwit_decode, "cash": ref_cash_decode}[fn.split("_")[0]]
    return ref(args[0], s) is None and ref(args[0], s.replace(KELVIN, "K")) is not None


def match_F16_replay():
    s = "BC1PCQQFEZX" + KELVIN + "E"
    r = impl_call(Bech32Decoder.Decode, "bc", s)
    return "Bech32Decoder.Decode('bc', 'BC1PCQQFEZX\\u212aE') -> %r" % (r[1],) if r[0] == "ok" else None


# ------------------------------------------------------------------ generators

HRPS = ["a", "bc", "tb", "bcrt", "cosmos", "k", "ak", "1", "a1b", "x-_~!", "split1checkupstagehandshakeupstreamerranterredcaperred"]
BAD_HRPS = ["", "BC", "Bc", "a b", "a\x7f", "K", "bé", "a\x20"]
CASH_HRPS = ["bitcoincash", "bchtest", "k", "ergon", "a:b", "simpleledger"]


def rbytes(rng, n):
    return bytes(rng.randrange(256) for _ in range(n))


def lookalikes():
    """every non-ASCII code point whose lower() contains an ASCII letter or digit, from the running interpreter"""
    return [c for c in range(128, 0x110000) if any(x.isascii() and x.isalnum() for x in chr(c).lower())]


def neighbourhood(ctx, fdec, fmut, h, s, sep, subst_chars, full):
    """the neighbourhood of the valid string s (expected HRP h)"""
    rng = ctx.rng
    p = s.rfind(sep)
    pos = range(len(s)) if full else sorted(rng.sample(range(len(s)), min(len(s), 10)))
    for i in pos:
        for c in subst_chars:
            if s[i] != c:
                t = s[:i] + c + s[i + 1:]
                ctx.run(fmut if i > p else fdec, [h, s, t] if i > p else [h, t], "subst1")
    for i in range(len(s) - 1):
        if s[i] != s[i + 1]:
            ctx.run(fdec, [h, s[:i] + s[i + 1] + s[i] + s[i + 2:]], "transpose")
    for i in range(len(s) + 1):
        for c in (rng.choice(CHARSET), sep, rng.choice("bio1BIO ")):
            ctx.run(fdec, [h, s[:i] + c + s[i:]], "insert")
    for i in range(len(s)):
        ctx.run(fdec, [h, s[:i] + s[i + 1:]], "delete")
        ctx.run(fdec, [h, s[:i]], "truncate")
        ctx.run(fdec, [h, s[i:]], "truncate-front")
        if s[i].isalpha():
            ctx.run(fdec, [h, s[:i] + s[i].swapcase() + s[i + 1:]], "caseflip")
    ctx.run(fdec, [h, s.upper()], "upper")
    ctx.run(fdec, [h.upper(), s.upper()], "upper-hrp-arg")
    ctx.run(fdec, [h, s[:p].upper() + s[p:]], "upper-hrp-only")
    ctx.run(fdec, [h, s[:p + 1] + s[p + 1:].upper()], "upper-data-only")
    ctx.run(fdec, [h, "".join(rng.choice((c.upper(), c)) for c in s)], "mixed")


def gen_convert_bits(ctx):
    rng = ctx.rng
    for f, t, pad in ((8, 5, 1), (5, 8, 0), (5, 8, 1), (8, 5, 0)):
        ctx.run("b32_convert_bits", [f, t, pad, []], "empty", trivial=True)
        top = 1 << f
        for x in range(top + 2):
            ctx.run("b32_convert_bits", [f, t, pad, [x]], "len1")
        if f == 5:
            for x in range(32):
                for y in range(32):
                    ctx.run("b32_convert_bits", [f, t, pad, [x, y]], "len2")
        for _ in range(ctx.n(60, 1500)):
            if not ctx.time_left():
                break
            n = rng.choice([2, 3, 4, 5, 7, 8, 9, 16, 20, 32, 33, 52, 64])
            d = [rng.randrange(top) for _ in range(n)]
            ctx.run("b32_convert_bits", [f, t, pad, d], "rand")
            if rng.random() < 0.2:
                d[rng.randrange(n)] = rng.choice([top, top + 1, 255, 256, 1 << 20])
                ctx.run("b32_convert_bits", [f, t, pad, d], "rand-oversize")
    for f, t in ((1, 1), (3, 7), (7, 3), (13, 4), (2, 16)):
        for _ in range(ctx.n(20, 300)):
            if not ctx.time_left():
                break
            d = [rng.randrange(1 << f) for _ in range(rng.randrange(1, 12))]
            ctx.run("b32_convert_bits", [f, t, rng.randrange(2), d], "other-widths")
    ctx.note_exhaustive("ConvertBits: all single values 0..2^f+1 for (8,5) and (5,8), both pad modes; all 32x32 symbol pairs for 5->8")


def gen_strings(ctx):
    rng = ctx.rng
    look = lookalikes()
    ctx.note_exhaustive("non-ASCII look-alikes: all %d non-ASCII code points whose lower() contains an ASCII "
                        "letter or digit (%s)" % (len(look), ", ".join("U+%04X" % c for c in look)))
    samples = ["", "abc", "ABC", "aB", "1aZ", "K", "İ", "aK", "Aı", "ſ", "ß", "Σ", "ǅ", "ẞ", "Ａ", "\U0001d400"]
    for c in look:
        samples += [chr(c), "A" + chr(c), "a" + chr(c)]
    for _ in range(ctx.n(150, 3000)):
        if not ctx.time_left():
            break
        samples.append("".join(chr(rng.choice([rng.randrange(128), rng.randrange(0x250), rng.randrange(0x2000, 0x2200),
                                                rng.randrange(0x110000)])) for _ in range(rng.randrange(1, 6))))
    for s in samples:
        ctx.run("is_string_mixed", [s], "mixed")
        if "Σ" not in s:          # final-sigma context rule of str.lower is not modelled (see TRUSTED)
            ctx.run("py_lower", [s], "lower")
        ctx.run("py_upper", [s], "upper")
    step = 1 if not ctx.quick else 37
    for c in range(0, 0x110000, step):
        if 0xD800 <= c < 0xE000 or c == 0x3A3:
            continue
        if not ctx.quick and not ctx.time_left():
            ctx.exhaustive_notes.append("code point sweep stopped at U+%04X (time budget)" % c)
            break
        ctx.run("py_lower", [chr(c)], "cp-sweep")
        ctx.run("is_string_mixed", ["a" + chr(c)], "cp-sweep")
        ctx.run("is_string_mixed", ["A" + chr(c)], "cp-sweep")
    else:
        if not ctx.quick:
            ctx.note_exhaustive("py_lower / islower / isupper: every non-surrogate code point")


def gen_polymod(ctx):
    rng = ctx.rng
    for _ in range(ctx.n(60, 1500)):
        if not ctx.time_left():
            break
        n = rng.randrange(0, 40)
        v = [rng.randrange(32) for _ in range(n)]
        ctx.run("b32_polymod", [v], "rand")
        ctx.run("cash_polymod", [v], "rand")
        h = rng.choice(HRPS + CASH_HRPS)
        e = rng.randrange(2)
        ctx.run("b32_compute_checksum", [e, h, v], "rand")
        ctx.run("cash_compute_checksum", [h, v], "rand")
        cs = Bech32Utils.ComputeChecksum(h, list(v), ENC[e])
        ctx.run("b32_verify_checksum", [e, h, v + cs], "valid")
        ctx.run("b32_verify_checksum", [1 - e, h, v + cs], "other-encoding")
        cs2 = BchBech32Utils.ComputeChecksum(h, list(v))
        ctx.run("cash_verify_checksum", [h, v + cs2], "valid")
        if v:
            w = list(v)
            w[rng.randrange(n)] ^= rng.randrange(1, 32)
            ctx.run("b32_verify_checksum", [e, h, w + cs], "damaged")
            ctx.run("cash_verify_checksum", [h, w + cs2], "damaged")
    ctx.run("b32_polymod", [[32, 1000, 1 << 40]], "oversize-values")
    ctx.run("cash_polymod", [[32, 1000, 1 << 50]], "oversize-values")


def gen_bech32(ctx):
    rng = ctx.rng
    # directed: the BIP-173 corner cases
    for h, s in [("a", "a12uel5l"), ("a", "A12UEL5L"), ("a", "a12uel5L"), ("a", "a1lqfn3a"), ("a", "a1"), ("a", "1"), ("a", ""),
                 ("?", "?1ezyfcl"), ("split", "split1checkupstagehandshakeupstreamerranterredcaperred2y9e3w"),
                 ("1", "11qqqqqqqqqqqqqqqqqqqqqqqqqqqqqqqqqqqqqqqqqqqqqqqqqqqqqqqqqqqqqqqqqqqqqqqqqqqqqqqqqc8247j"),
                 ("an83characterlonghumanreadablepartthatcontainsthenumber1andtheexcludedcharactersbio",
                  "an83characterlonghumanreadablepartthatcontainsthenumber1andtheexcludedcharactersbio1tt5tgs"),
                 ("x", "x1b4n0q5v"), ("li", "li1dgmt3"), ("de", "de1lg7wt\xff"), ("a", "A1G7SGD8"), ("", "10a06t8"), ("", "1qzzfhee"),
                 ("a", "\x201nwldj5"), ("a", "\x7f1axkwrx"), ("a", "\x801eym55h"), ("pzry", "pzry9x0s0muk"), ("", "1pzry9x0s0muk"),
                 # the same BIP-173 invalid vectors with the expected HRP equal to the out-of-range one: HRP range boundaries
                 ("\x20", "\x201nwldj5"), ("\x7f", "\x7f1axkwrx"), ("\x80", "\x801eym55h"),
                 ("!", ref_bech32_encode("!", [1, 2], BECH32_CONST)), ("~", ref_bech32_encode("~", [1, 2], BECH32_CONST)),
                 ("\x1f", ref_bech32_encode("\x1f", [1, 2], BECH32_CONST)), ("\x7f", ref_bech32_encode("\x7f", [0, 0], BECH32_CONST))]:
        ctx.run("bech32_decode", [h, s], "bip173-vector")
    for h in HRPS + BAD_HRPS:
        for n in (0, 1, 2, 5, 20, 32):
            ctx.run("bech32_encode", [h, rbytes(rng, n)], "encode")
    for _ in range(ctx.n(80, 2000)):
        if not ctx.time_left():
            break
        h = rng.choice(HRPS)
        d = rbytes(rng, rng.choice([0, 1, 2, 3, 4, 5, 10, 20, 32, 33, 50, 64, rng.randrange(120)]))
        ctx.run("bech32_encode", [h, d], "encode-rand")
        s = Bech32Encoder.Encode(h, d)
        ctx.run("bech32_decode", [h, s], "valid")
        ctx.run("bech32_decode", [rng.choice(HRPS + BAD_HRPS), s], "wrong-hrp")
        syms = ref_convertbits(d, 8, 5)
        ctx.run("bech32_decode", [h, ref_bech32_encode(h, syms, BECH32M_CONST)], "bech32m-checksum")
        if syms:
            bad = list(syms)
            bad[-1] ^= 1
            ctx.run("bech32_decode", [h, ref_bech32_encode(h, bad, BECH32_CONST)], "nonzero-padding")
            ctx.run("bech32_decode", [h, ref_bech32_encode(h, syms + [0], BECH32_CONST)], "extra-symbol")
            ctx.run("bech32_decode", [h, ref_bech32_encode(h, syms + [0, 0], BECH32_CONST)], "extra-symbols")
    # neighbourhoods
    k = 0
    for h, n in [("a", 1), ("bc", 2), ("tb", 20), ("k", 3), ("a1b", 5), ("cosmos", 32)][:ctx.n(4, 6)]:
        d = rbytes(rng, n)
        s = Bech32Encoder.Encode(h, d)
        neighbourhood(ctx, "bech32_decode", "bech32_mut", h, s, "1", CHARSET + "b1B?", full=(k < 2 or not ctx.quick))
        k += 1
    # double substitutions of a short string: all of them (thorough) or a sample
    h, s = "a", Bech32Encoder.Encode("a", b"\x5a")
    p = s.rfind("1")
    idx = [(i, j) for i in range(p + 1, len(s)) for j in range(i + 1, len(s))]
    allp = [(i, j, c, e) for (i, j) in idx for c in CHARSET for e in CHARSET if c != s[i] and e != s[j]]
    if ctx.quick:
        allp = rng.sample(allp, 1500)
    else:
        ctx.note_exhaustive("Bech32: all %d double substitutions of the data part of %r (unless the time budget ends first)" % (len(allp), s))
    for i, j, c, e in allp:
        if not ctx.time_left():
            break
        ctx.run("bech32_mut", [h, s, s[:i] + c + s[i + 1:j] + e + s[j + 1:]], "subst2")
    # triple and quadruple substitutions, random
    for _ in range(ctx.n(300, 20000)):
        if not ctx.time_left():
            break
        h = rng.choice(["a", "bc", "cosmos"])
        s = Bech32Encoder.Encode(h, rbytes(rng, rng.choice([1, 5, 20, 32, 45])))
        p = s.rfind("1")
        t = list(s)
        for i in rng.sample(range(p + 1, len(s)), rng.choice([3, 4])):
            t[i] = rng.choice([c for c in CHARSET if c != s[i]])
        ctx.run("bech32_mut", [h, s, "".join(t)], "subst3-4")
    # non-ASCII look-alikes (F16 territory): every look-alike code point at letter positions of upper-case strings
    look = lookalikes()
    for h, d in [("bc", bytes([0x0e, 0x00])), ("k", b"\x01"), ("ak", b"kk")]:
        s = Bech32Encoder.Encode(h, d).upper()
        for c in look + [0x3A3, 0x131, 0x17F, 0xFF2B, 0x41A, 0x39A]:
            low = chr(c).lower()
            for i, ch in enumerate(s):
                if ch.lower() in low or i in (0, len(s) - 1):
                    ctx.run("bech32_decode", [h, s[:i] + chr(c) + s[i + 1:]], "lookalike-upper")
                    ctx.run("bech32_decode", [h, s.lower()[:i] + chr(c) + s.lower()[i + 1:]], "lookalike-lower")
            ctx.run("bech32_decode", [h, s + chr(c)], "lookalike-append")
    ctx.run("bech32_decode", ["K", "K1" + "Q" * 6], "lookalike-hrp-arg")


def gen_segwit(ctx):
    rng = ctx.rng
    # BIP-173 / BIP-350 vectors (valid and invalid)
    vec = ["BC1QW508D6QEJXTDG4Y5R3ZARVARY0C5XW7KV8F3T4", "tb1qrp33g0q5c5txsp9arysrx4k6zdkfs4nce4xj0gdcccefvpysxf3q0sl5k7",
           "bc1pw508d6qejxtdg4y5r3zarvary0c5xw7kw508d6qejxtdg4y5r3zarvary0c5xw7kt5nd6y", "BC1SW50QGDZ25J",
           "bc1zw508d6qejxtdg4y5r3zarvaryvaxxpcs", "tb1qqqqqp399et2xygdj5xreqhjjvcmzhxw4aywxecjdzew6hylgvsesrxh6hy",
           "tb1pqqqqp399et2xygdj5xreqhjjvcmzhxw4aywxecjdzew6hylgvsesf3hn0c", "bc1p0xlxvlhemja6c4dqv22uapctqupfhlxm9h8z3k2e72q4k9hcz7vqzk5jj0",
           "tc1qw508d6qejxtdg4y5r3zarvary0c5xw7kg3g4ty", "bc1qw508d6qejxtdg4y5r3zarvary0c5xw7kv8f3t5",
           "BC13W508D6QEJXTDG4Y5R3ZARVARY0C5XW7KN40WF2", "bc1rw5uspcuh", "bc10w508d6qejxtdg4y5r3zarvary0c5xw7kw508d6qejxtdg4y5r3zarvary0c5xw7kw5rljs90",
           "BC1QR508D6QEJXTDG4Y5R3ZARVARYV98GJ9P", "tb1qrp33g0q5c5txsp9arysrx4k6zdkfs4nce4xj0gdcccefvpysxf3q0sL5k7",
           "bc1zw508d6qejxtdg4y5r3zarvaryvqyzf3du", "tb1qrp33g0q5c5txsp9arysrx4k6zdkfs4nce4xj0gdcccefvpysxf3pjxtptv", "bc1gmk9yu",
           "bc1qw508d6qejxtdg4y5r3zarvary0c5xw7kemeawh", "tb1q0xlxvlhemja6c4dqv22uapctqupfhlxm9h8z3k2e72q4k9hcz7vq24jc47",
           "bc1p38j9r5y49hruaue7wxjce0updqjuyyx0kh56v8s25huc6995vvpql3jow4", "BC130XLXVLHEMJA6C4DQV22UAPCTQUPFHLXM9H8Z3K2E72Q4K9HCZ7VQ7ZWS8R",
           "bc1pw5dgrnzv", "bc1p0xlxvlhemja6c4dqv22uapctqupfhlxm9h8z3k2e72q4k9hcz7v8n0nx0muaewav253zgeav",
           "BC1QR508D6QEJXTDG4Y5R3ZARVARYV98GJ9P", "tb1p0xlxvlhemja6c4dqv22uapctqupfhlxm9h8z3k2e72q4k9hcz7vq47Zagq",
           "bc1p0xlxvlhemja6c4dqv22uapctqupfhlxm9h8z3k2e72q4k9hcz7v07qwwzcrf", "tb1p0xlxvlhemja6c4dqv22uapctqupfhlxm9h8z3k2e72q4k9hcz7vpggkg4j", "bc1gmk9yu"]
    for s in vec:
        for h in ("bc", "tb"):
            ctx.run("segwit_decode", [h, s], "bip-vector")
    # all witness versions x program lengths: encoder, decoder on the encoder's output, and spec-built strings
    vers = list(range(0, 18)) + [31, 32, 33, 255] if ctx.quick else list(range(0, 36)) + [255, 1 << 40]
    for v in vers:
        for n in range(0, 43):
            if ctx.quick and v > 1 and n not in (0, 1, 2, 3, 19, 20, 21, 32, 39, 40, 41, 42) and rng.random() < 0.6:
                continue
            p = rbytes(rng, n)
            h = rng.choice(["bc", "tb", "k"])
            ctx.run("segwit_encode", [h, v, p], "ver-x-len")
            if v < 32:
                syms = [v] + ref_convertbits(p, 8, 5)
                for const in (BECH32_CONST, BECH32M_CONST):
                    ctx.run("segwit_decode", [h, ref_bech32_encode(h, syms, const)], "ver-x-len-spec")
    ctx.note_exhaustive("SegWit: witness versions 0..17 (thorough 0..35) x program lengths 0..42 under both checksum constants")
    for h in BAD_HRPS:
        ctx.run("segwit_encode", [h, 0, rbytes(rng, 20)], "bad-hrp")
    ctx.run("segwit_decode", ["bc", "bc1" + "q" * 6], "no-version-symbol")
    ctx.run("segwit_decode", ["bc", ref_bech32_encode("bc", [], BECH32_CONST)], "no-version-symbol")
    ctx.run("segwit_decode", ["bc", ref_bech32_encode("bc", [], BECH32M_CONST)], "no-version-symbol")
    ctx.run("segwit_decode", ["bc", ref_bech32_encode("bc", [0], BECH32_CONST)], "version-only")
    # neighbourhoods
    cases = [("bc", 0, 20), ("tb", 1, 32), ("bc", 16, 2), ("k", 0, 32)][:ctx.n(3, 4)]
    for k, (h, v, n) in enumerate(cases):
        s = SegwitBech32Encoder.Encode(h, v, rbytes(rng, n))
        neighbourhood(ctx, "segwit_decode", "segwit_mut", h, s, "1", CHARSET + "b1", full=(k < 1 or not ctx.quick))
    for _ in range(ctx.n(300, 20000)):
        if not ctx.time_left():
            break
        h = rng.choice(["bc", "tb"])
        v = rng.choice([0, 0, 1, 1, 2, 16])
        n = rng.choice([20, 32]) if v == 0 else rng.choice([2, 20, 32, 40])
        s = SegwitBech32Encoder.Encode(h, v, rbytes(rng, n))
        p = s.rfind("1")
        t = list(s)
        for i in rng.sample(range(p + 1, len(s)), rng.choice([1, 2, 3, 4])):
            t[i] = rng.choice([c for c in CHARSET if c != s[i]])
        ctx.run("segwit_mut", [h, s, "".join(t)], "subst1-4")
    # Bech32 -> Bech32m switch by four substitutions (version symbol among them): not covered by the BCH
    # guarantee; model and implementation must agree that such strings ARE accepted (Props/C10.v
    # segwit_detects_4_cross_refuted).  Pattern found by syndrome search, see harness comment in the report.
    s = SegwitBech32Encoder.Encode("bc", 0, bytes(range(20)))
    d = [CHARSET.index(c) for c in s[3:]]
    for j, x in [(38, 1), (7, 26), (28, 5), (33, 29)]:
        d[len(d) - 1 - j] ^= x
    ctx.run("segwit_mut", ["bc", s, "bc1" + "".join(CHARSET[x] for x in d)], "cross-encoding-4")
    look = lookalikes()
    for h, v, p in [("bc", 1, bytes([0x0e, 0x00])), ("k", 0, bytes(20))]:
        s = SegwitBech32Encoder.Encode(h, v, p).upper()
        for c in look + [0x3A3, 0x131, 0xFF2B]:
            for i, ch in enumerate(s):
                if ch.lower() in chr(c).lower():
                    ctx.run("segwit_decode", [h, s[:i] + chr(c) + s[i + 1:]], "lookalike-upper")


def gen_cash(ctx):
    rng = ctx.rng
    for s in ["bitcoincash:qpm2qsznhks23z7629mms6s4cwef74vcwvy22gdx6a", "bitcoincash:ppm2qsznhks23z7629mms6s4cwef74vcwvn0h829pq",
              "BITCOINCASH:QPM2QSZNHKS23Z7629MMS6S4CWEF74VCWVY22GDX6A", "bitcoincash:qpm2qsznhks23z7629mms6s4cwef74vcwvy22gdx6A",
              "bitcoincash:", "bitcoincash:qqqqqqqq", "bitcoincash:qqqqqqqqq", ":qpm2qsznhks23z7629mms6s4cwef74vcwvy22gdx6a",
              "qpm2qsznhks23z7629mms6s4cwef74vcwvy22gdx6a"]:
        ctx.run("cash_decode", ["bitcoincash", s], "vector")
    for h in CASH_HRPS + BAD_HRPS:
        for nv, n in ((b"\x00", 20), (b"\x08", 20), (b"\xff", 0), (b"", 0), (b"", 20), (b"\x00\x01", 3), (b"\x03", 32)):
            ctx.run("cash_encode", [h, nv, rbytes(rng, n)], "encode")
    for _ in range(ctx.n(80, 2000)):
        if not ctx.time_left():
            break
        h = rng.choice(CASH_HRPS)
        nv = bytes([rng.randrange(256)])
        d = rbytes(rng, rng.choice([0, 1, 2, 4, 20, 24, 28, 32, 40, 48, 56, 64, rng.randrange(80)]))
        ctx.run("cash_encode", [h, nv, d], "encode-rand")
        s = BchBech32Encoder.Encode(h, nv, d)
        ctx.run("cash_decode", [h, s], "valid")
        ctx.run("cash_decode", [rng.choice(CASH_HRPS + BAD_HRPS), s], "wrong-hrp")
        syms = ref_convertbits(nv + d, 8, 5)
        bad = list(syms)
        bad[-1] ^= 1
        ctx.run("cash_decode", [h, ref_cash_encode(h, bad)], "nonzero-padding")
        ctx.run("cash_decode", [h, ref_cash_encode(h, syms + [0])], "extra-symbol")
        ctx.run("cash_decode", [h, ref_cash_encode(h, syms[:1])], "one-symbol")
        ctx.run("cash_decode", [h, ref_cash_encode(h, [])], "no-symbol")
        ctx.run("cash_decode", [h, ref_bech32_encode(h, syms, BECH32_CONST, ":")], "bech32-checksum")
    for k, (h, n) in enumerate([("bitcoincash", 20), ("k", 1), ("bchtest", 32)][:ctx.n(2, 3)]):
        s = BchBech32Encoder.Encode(h, b"\x00", rbytes(rng, n))
        neighbourhood(ctx, "cash_decode", "cash_mut", h, s, ":", CHARSET + "b:", full=(k < 1 or not ctx.quick))
    for _ in range(ctx.n(300, 20000)):
        if not ctx.time_left():
            break
        h = rng.choice(["bitcoincash", "bchtest"])
        s = BchBech32Encoder.Encode(h, bytes([rng.randrange(256)]), rbytes(rng, rng.choice([20, 24, 32, 64])))
        p = s.rfind(":")
        t = list(s)
        for i in rng.sample(range(p + 1, len(s)), rng.choice([1, 2, 3, 4])):
            t[i] = rng.choice([c for c in CHARSET if c != s[i]])
        ctx.run("cash_mut", [h, s, "".join(t)], "subst1-4")
    s = BchBech32Encoder.Encode("k", b"\x00", bytes(20)).upper()
    for c in lookalikes() + [0x3A3]:
        for i, ch in enumerate(s):
            if ch.lower() in chr(c).lower():
                ctx.run("cash_decode", ["k", s[:i] + chr(c) + s[i + 1:]], "lookalike-upper")


def gen_b58_wif(ctx):
    rng = ctx.rng
    n_1 = (SECP_N - 1).to_bytes(32, "big")
    keys = [bytes(31) + b"\x01", n_1, SECP_N.to_bytes(32, "big"), bytes(32), b"\xff" * 32, bytes(31), bytes(33), b"",
            bytes(31) + b"\x01" + b"\x01", rbytes(rng, 32), rbytes(rng, 32)]
    nvs = [b"\x80", b"\xef", b"\x00", b"", b"\x80\x00"]
    for k in keys:
        for nv in nvs:
            for c in (True, False):
                ctx.run("wif_encode", [k, nv, c], "encode")
    payloads = [b"", b"\x80", b"\x80" + keys[0], b"\x80" + keys[0] + b"\x01", b"\x80" + keys[0] + b"\x00",
                b"\x80" + keys[0] + b"\x02", b"\x80" + keys[0] + b"\x01\x01", b"\x81" + keys[0], b"\x80" + bytes(32),
                b"\x80" + bytes(32) + b"\x01", b"\x80" + keys[2], b"\x80" + keys[2] + b"\x01", b"\x80" + n_1 + b"\x01",
                b"\x80" + keys[0][:31], b"\x80" + bytes(30) + b"\x01\x01", b"\x80" + b"\x01" * 33, b"\xef" + keys[0] + b"\x01"]
    for pl in payloads:
        s = Base58Encoder.CheckEncode(pl)
        for nv in nvs:
            ctx.run("wif_decode", [s, nv], "crafted")
        ctx.run("b58_check_decode", [s], "crafted")
    for _ in range(ctx.n(60, 1500)):
        if not ctx.time_left():
            break
        k = rbytes(rng, 32)
        nv = bytes([rng.randrange(256)])
        c = rng.random() < 0.5
        ctx.run("wif_encode", [k, nv, c], "rand")
        s = WifEncoder.Encode(k, nv, mode(c))
        ctx.run("wif_decode", [s, nv], "valid")
        ctx.run("wif_decode", [s, bytes([rng.randrange(256)])], "other-net")
        ctx.run("b58_check_decode", [s], "valid")
        t = list(s)
        i = rng.randrange(len(t))
        kind = rng.randrange(5)
        if kind == 0:
            t[i] = rng.choice(B58)
        elif kind == 1:
            t[i] = rng.choice("0OIl Ké")
        elif kind == 2:
            t.insert(i, rng.choice(B58))
        elif kind == 3:
            del t[i]
        elif i + 1 < len(t):
            t[i], t[i + 1] = t[i + 1], t[i]
        ctx.run("wif_decode", ["".join(t), nv], "mutated")
        ctx.run("b58_check_decode", ["".join(t)], "mutated")
    # the whole single-substitution neighbourhood of one WIF string / one Base58Check string
    s = WifEncoder.Encode(keys[0], b"\x80", mode(True))
    for i in (range(len(s)) if not ctx.quick else rng.sample(range(len(s)), 8)):
        for c in B58:
            if c != s[i]:
                ctx.run("wif_decode", [s[:i] + c + s[i + 1:], b"\x80"], "subst1")
    for s in ["", "1", "11", "1111", "11111", "3QJmnh", "z", "2g", Base58Encoder.CheckEncode(b""), Base58Encoder.CheckEncode(b"\x00")]:
        ctx.run("b58_check_decode", [s], "short")
        ctx.run("wif_decode", [s, b"\x80"], "short")


# ---- SS58 and Monero block-Base58 decoders (models and theorems of property C11: ss58_accepts_iff,
#      xmr_decode_accepts_iff); here the decoders' acceptance is compared on C10's neighbourhood streams
from props import C11 as _c11
for _k in ("ss58_encode", "ss58_decode", "xmr_encode", "xmr_decode"):
    FUNCS[_k] = _c11.FUNCS[_k]


def gen_ss58_xmr(ctx):
    rng = ctx.rng
    fixed = bytes(range(32))
    fmts = sorted(set([0, 1, 45, 48, 62, 63, 64, 65, 127, 128, 255, 256, 257, 1284, 4095, 4096, 8191, 8192, 8193, 8234,
                       12288, 16382, 16383] + [rng.randrange(16384) for _ in range(ctx.n(120, 3000))]) - {46, 47})
    for fmt in fmts:
        s = _c11.ss58_ref(fixed, fmt)
        ctx.run("ss58_decode", [s], "formats")
        t = list(s)
        t[rng.randrange(len(t))] = rng.choice(_c11.B58)
        ctx.run("ss58_decode", ["".join(t)], "substituted")
    for b0 in range(256):
        ctx.run("ss58_decode", [_c11.ss58_raw(bytes([b0]) + fixed)], "firstbyte")
        ctx.run("ss58_decode", [_c11.ss58_raw(bytes([b0, rng.randrange(256)]) + fixed)], "firstbyte")
    for raw in (b"", b"\x00", b"\x40", b"\x80", b"\x40\x00"):
        ctx.run("ss58_decode", [_c11.ss58_raw(raw)], "short")
    for _ in range(ctx.n(150, 3000)):
        b = bytes(rng.randrange(256) for _ in range(rng.choice([1, 5, 8, 9, 16, 69, 77])))
        from bip_utils import Base58XmrEncoder
        s = Base58XmrEncoder.Encode(b)
        ctx.run("xmr_decode", [s], "valid")
        t = list(s)
        k = rng.randrange(4)
        if k == 0:
            t[rng.randrange(len(t))] = rng.choice(_c11.B58)
        elif k == 1:
            t[rng.randrange(len(t))] = "z"
        elif k == 2:
            del t[rng.randrange(len(t))]
        else:
            t.insert(rng.randrange(len(t) + 1), rng.choice(_c11.B58))
        ctx.run("xmr_decode", ["".join(t)], "mutated")


def generate(ctx):
    import time
    gen_ss58_xmr(ctx)
    parts = [(gen_convert_bits, 0.08), (gen_polymod, 0.05), (gen_bech32, 0.27), (gen_segwit, 0.22), (gen_cash, 0.18),
             (gen_b58_wif, 0.08), (gen_strings, 0.12)]
    total = ctx.budget_s
    for g, share in parts:
        if not ctx.quick and total is not None:
            # thorough tier: every family gets its share of the time budget (the sampling loops stop when it is used up)
            ctx.budget_s = (time.time() - ctx.t0) + share * total
        g(ctx)
    ctx.budget_s = total

"""C10 -- decoders accept exactly what the format allows; damage is never mis-decoded.
Bech32 / Bech32m / SegWit / CashAddr, Base58Check and WIF part.

Every decoder is compared three ways: extracted Coq model vs implementation (correspondence), and the
implementation vs an independent acceptor written here from the published specifications (BIP-173,
BIP-350, the cashaddr spec, the Bitcoin wiki's WIF description) with hand-typed constants and hashlib --
nothing imported from bip_utils on the reference side."""
import hashlib

from framework import Func
from modeldrv import T
from bip_utils import (Bech32Encoder, Bech32Decoder, SegwitBech32Encoder, SegwitBech32Decoder,
                       BchBech32Encoder, BchBech32Decoder, Base58Encoder, Base58Decoder,
                       WifEncoder, WifDecoder, WifPubKeyModes)
from bip_utils.bech32.bech32 import Bech32Utils, Bech32Encodings
from bip_utils.bech32.bech32_base import Bech32BaseUtils
from bip_utils.bech32.bch_bech32 import BchBech32Utils
from bip_utils.utils.misc import AlgoUtils

MANIFEST = {
    "text": "Coq theorems over all strings for the Bech32/Bech32m/SegWit/CashAddr/Base58Check/WIF decoders "
            "(acceptance iff the format rules, round trips, canonicity, only ValueError/checksum errors) and a "
            "kernel-evaluated BCH distance certificate with a soundness proof (any 1..4 substituted data "
            "characters within 89 symbols are detected), over constants regenerated from the source; plus "
            "extracted-model/implementation correspondence and an independent specification acceptor on the "
            "neighbourhood of valid strings.  Part 2 (address level): for each of the 35 modelled *AddrDecoder.DecodeAddr "
            "entry points a theorem 'accepts s iff <explicit layout>' and the corollary that an accepted string is the "
            "encoder's text for the returned payload up to the format's case rule (or a kernel-evaluated refutation plus "
            "the partial statement with the exact extra condition), tied to the implementation by streams of "
            "checksum-valid but structurally wrong strings built with reference codecs written here.",
    "note": "SHA-256 and secp256k1 key validity are oracles; str.lower/islower/isupper are tables regenerated "
            "from the running interpreter.",
    "technique": "Coq proof (GF(2)-linearity of polymod + vm_compute distance certificate + soundness lemma) + "
                 "generated-constant obligations + extracted-model differential run + independent acceptor",
    "ref": "7/C10",
}
RULE = ("Neighbourhood of valid strings: all single substitutions over the charset, adjacent transpositions, "
        "insertions, deletions, case flips, truncations for a sample; double substitutions for short strings "
        "(all of them in the thorough tier); mixed case; non-ASCII look-alikes from the interpreter's lower() "
        "table; wrong HRP; Bech32/Bech32m confusion; witness versions 0..31 x program lengths 0..42; "
        "ConvertBits exhaustively on short inputs.  Address decoders: per key every listed structural variant -- payload "
        "one byte short / long, optional field missing / extra (Monero payment id, Shelley staking part), every header "
        "type 0..15, wrong prefix / version / net tag, spare Base32 bits 1..3 (Algorand) and 1..7 (Filecoin), Nano pad "
        "bits, explicit '=' padding, invalid keys under a valid checksum, upper / lower / mixed case, CBOR variants "
        "(trailing bytes, non-minimal heads, indefinite arrays, wrong item types) for Byron.")
TRUSTED = ["sha256 is an oracle (hashlib); secp256k1 private-key validity is an oracle (32 bytes, 0 < k < n with the "
           "reference group order); the WIF theorems assume |sha256 x| = 32 and that valid keys have 32 bytes",
           "Gen/CaseTables.v: chr(c).lower()/upper()/islower()/isupper() enumerated over the whole code space of the "
           "interpreter that runs the library; str.lower() is modelled per code point (the generator checks that "
           "U+03A3 is the only context-dependent code point: final sigma, which only chooses between two non-ASCII "
           "results)",
           "Gen/Bech32Consts.v: constants inside PolyMod/HrpExpand/ComputeChecksum/_DecodeBech32 bodies are located by "
           "an exact AST shape match (harness/gen_bech32.py); any other shape aborts the check",
           "the three distance certificates (Lemmas/Bech32CertB32.v, Bech32CertX.v, Bech32CertCash.v) are evaluated "
           "by the kernel's VM (vm_cast_no_check + Qed), re-run whenever the generator words change",
           "SegwitBech32Encoder.Encode is modelled for wit_ver >= 0 only (Python's negative indexing of CHARSET is "
           "not modelled); ConvertBits with to_bits = 0 (non-terminating in Python) returns OutOfFuel in the model"]
TRUSTED += ["address level: hashes (SHA-256, RIPEMD-160, Keccak, SHA3, SHA-512/256, BLAKE2b), CRC-16/32, key validity and "
            "cbor2.loads are oracles of the models; the acceptance theorems quantify over them and need no law except "
            "|keccak x| = 32 (Monero) and |blake2b512 x| = 64 (SS58); refutations exhibit an instance (constant-zero hash, "
            "toy CBOR parsers that satisfy the laws assumed in C18)",
            "reference codecs of the address streams (Base58, Base32 with custom alphabets and settable spare bits, "
            "CRC-16/XModem, CRC-32, a small CBOR encoder/parser, EIP-55, Nimiq IBAN check) are written in "
            "harness/props/C10.py; hashes come from hashlib / pycryptodome, key validity from harness/ecref.py"]
ASSUMPTIONS = ["hash output length 32 bytes", "valid secp256k1 private keys have 32 bytes"]
BUDGET = {"quick": 170, "thorough": 600}

# ------------------------------------------------------------------ independent reference (from the specs)

CHARSET = "qpzry9x8gf2tvdw0s3jn54khce6mua7l"
B32_GEN = [0x3b6a57b2, 0x26508e6d, 0x1ea119fa, 0x3d4233dd, 0x2a1462b3]
BECH32_CONST, BECH32M_CONST = 1, 0x2bc830a3
CASH_GEN = [0x98f2bc8e61, 0x79b76d99e2, 0xf33e5fb3c4, 0xae2eabe2a8, 0x1e4f43e470]
B58 = "123456789ABCDEFGHJKLMNPQRSTUVWXYZabcdefghijkmnopqrstuvwxyz"
SECP_N = 0xFFFFFFFFFFFFFFFFFFFFFFFFFFFFFFFEBAAEDCE6AF48A03BBFD25E8CD0364141


def ref_polymod(values):
    chk = 1
    for v in values:
        b = chk >> 25
        chk = (chk & 0x1ffffff) << 5 ^ v
        for i in range(5):
            chk ^= B32_GEN[i] if ((b >> i) & 1) else 0
    return chk


def ref_hrp_expand(s):
    return [ord(x) >> 5 for x in s] + [0] + [ord(x) & 31 for x in s]


def ref_cash_polymod(values):
    c = 1
    for d in values:
        c0 = c >> 35
        c = ((c & 0x07ffffffff) << 5) ^ d
        for i in range(5):
            if c0 & (1 << i):
                c ^= CASH_GEN[i]
    return c ^ 1


def ref_convertbits(data, frombits, tobits, pad=True):
    acc, bits, ret = 0, 0, []
    maxv = (1 << tobits) - 1
    max_acc = (1 << (frombits + tobits - 1)) - 1
    for value in data:
        if value < 0 or (value >> frombits):
            return None
        acc = ((acc << frombits) | value) & max_acc
        bits += frombits
        while bits >= tobits:
            bits -= tobits
            ret.append((acc >> bits) & maxv)
    if pad:
        if bits:
            ret.append((acc << (tobits - bits)) & maxv)
    elif bits >= frombits or ((acc << (tobits - bits)) & maxv):
        return None
    return ret


def ref_split(s, sep, cklen):
    """BIP-173 string layer: printable ASCII only, no mixed case, last separator, >= 1 HRP char,
    >= cklen data chars over the charset.  Returns (hrp, symbols) or None."""
    if any(ord(x) < 33 or ord(x) > 126 for x in s):
        return None
    if s.lower() != s and s.upper() != s:
        return None
    s = s.lower()
    pos = s.rfind(sep)
    if pos < 1 or pos + 1 + cklen > len(s):
        return None
    if not all(x in CHARSET for x in s[pos + 1:]):
        return None
    return s[:pos], [CHARSET.find(x) for x in s[pos + 1:]]


def ref_bech32_decode(hrp, s):
    r = ref_split(s, "1", 6)
    if r is None or r[0] != hrp or ref_polymod(ref_hrp_expand(r[0]) + r[1]) != BECH32_CONST:
        return None
    d = ref_convertbits(r[1][:-6], 5, 8, False)
    return None if d is None else bytes(d)


def ref_segwit_decode(hrp, s):
    r = ref_split(s, "1", 6)
    if r is None or r[0] != hrp or len(r[1]) < 7:
        return None
    data = r[1]
    const = ref_polymod(ref_hrp_expand(r[0]) + data)
    if const not in (BECH32_CONST, BECH32M_CONST):
        return None
    data = data[:-6]
    prog = ref_convertbits(data[1:], 5, 8, False)
    if prog is None or len(prog) < 2 or len(prog) > 40 or data[0] > 16:
        return None
    if data[0] == 0 and len(prog) not in (20, 32):
        return None
    if (data[0] == 0) != (const == BECH32_CONST):
        return None
    return [data[0], bytes(prog)]


def ref_cash_decode(hrp, s):
    r = ref_split(s, ":", 8)
    if r is None or r[0] != hrp:
        return None
    if ref_cash_polymod([ord(x) & 31 for x in r[0]] + [0] + r[1]) != 0:
        return None
    d = ref_convertbits(r[1][:-8], 5, 8, False)
    if d is None or len(d) < 1:
        return None
    return [bytes(d[:1]), bytes(d[1:])]


def ref_bech32_encode(hrp, symbols, const, sep="1"):
    pm = ref_polymod(ref_hrp_expand(hrp) + symbols + [0] * 6) ^ const
    cs = [(pm >> 5 * (5 - i)) & 31 for i in range(6)]
    return hrp + sep + "".join(CHARSET[d] for d in symbols + cs)


def ref_cash_encode(hrp, symbols):
    pm = ref_cash_polymod([ord(x) & 31 for x in hrp] + [0] + symbols + [0] * 8)
    cs = [(pm >> 5 * (7 - i)) & 31 for i in range(8)]
    return hrp + ":" + "".join(CHARSET[d] for d in symbols + cs)


def ref_b58decode(s):
    v = 0
    for c in s:
        i = B58.find(c)
        if i < 0:
            return None
        v = v * 58 + i
    body = v.to_bytes((v.bit_length() + 7) // 8, "big")
    return bytes(len(s) - len(s.lstrip("1"))) + body


def ref_b58check_decode(s):
    b = ref_b58decode(s)
    if b is None:
        return None
    data, ck = b[:-4], b[-4:]     # for fewer than 4 bytes: empty data, the whole string as "checksum"
    return data if hashlib.sha256(hashlib.sha256(data).digest()).digest()[:4] == ck else None


def ref_key_valid(k):
    return len(k) == 32 and 0 < int.from_bytes(k, "big") < SECP_N


def ref_wif_decode(s, net_ver):
    b = ref_b58check_decode(s)
    if b is None or len(net_ver) != 1 or len(b) < 1 or b[:1] != net_ver:
        return None
    k = b[1:]
    if len(k) == 33 and ref_key_valid(k[:32]):
        return [k[:32], True] if k[32] == 1 else None
    if ref_key_valid(k):
        return [k, False]
    return None


# ------------------------------------------------------------------ implementation wrappers

def opt(v):
    return [] if v is None else [T(v)]


def impl_call(f, *a):
    try:
        return ("ok", f(*a))
    except Exception as e:  # noqa
        return ("err", type(e).__name__)


def hrp_encodable(h):
    """HRPs for which the encoders' output is a well-formed string (what the round trip presupposes)."""
    return len(h) > 0 and all(33 <= ord(c) <= 126 and not ("A" <= c <= "Z") for c in h)


def cmp_ref(what, got, ref):
    """got: ('ok', v) | ('err', name) from the implementation; ref: payload or None."""
    if got[0] == "ok" and ref is None:
        return "%s accepted by the implementation (-> %r) but rejected by the specification acceptor" % (what, got[1])
    if got[0] == "err" and ref is not None:
        return "%s rejected by the implementation (%s) but valid per the specification (payload %r)" % (what, got[1], ref)
    if got[0] == "ok":
        g = got[1]
        g = list(g) if isinstance(g, tuple) else g
        if g != ref:
            return "%s decoded to %r, specification payload is %r" % (what, g, ref)
    return None


def seg_impl(h, s):
    v, p = SegwitBech32Decoder.Decode(h, s)
    return [v, p]


def cash_impl(h, s):
    n, d = BchBech32Decoder.Decode(h, s)
    return [n, d]


def wif_dec_impl(s, nv):
    k, m = WifDecoder.Decode(s, nv)
    return [k, m == WifPubKeyModes.COMPRESSED]


def d_bech32_decode(a):
    return cmp_ref("Bech32 string", impl_call(Bech32Decoder.Decode, a[0], a[1]), ref_bech32_decode(a[0], a[1]))


def d_segwit_decode(a):
    return cmp_ref("SegWit address", impl_call(seg_impl, a[0], a[1]), ref_segwit_decode(a[0], a[1]))


def d_cash_decode(a):
    return cmp_ref("CashAddr string", impl_call(cash_impl, a[0], a[1]), ref_cash_decode(a[0], a[1]))


def d_wif_decode(a):
    return cmp_ref("WIF string", impl_call(wif_dec_impl, a[0], a[1]), ref_wif_decode(a[0], a[1]))


def d_b58check_decode(a):
    return cmp_ref("Base58Check string", impl_call(Base58Decoder.CheckDecode, a[0]), ref_b58check_decode(a[0]))


def d_bech32_encode(a):
    h, d = a
    if not hrp_encodable(h):
        return None
    s = Bech32Encoder.Encode(h, d)
    r = impl_call(Bech32Decoder.Decode, h, s)
    if r != ("ok", d):
        return "Bech32 decode(encode(%r, %s)) = %r; encoded string %r" % (h, d.hex(), r, s)
    r = impl_call(Bech32Decoder.Decode, h.upper().lower(), s.upper())
    if h.upper().lower() == h and r != ("ok", d):
        return "upper-cased encoding %r decodes to %r" % (s.upper(), r)
    return None


def d_segwit_encode(a):
    h, v, p = a
    if not hrp_encodable(h):
        return None
    e = impl_call(SegwitBech32Encoder.Encode, h, v, p)
    allowed = 0 <= v <= 16 and 2 <= len(p) <= 40 and (v != 0 or len(p) in (20, 32))
    if e[0] != "ok":
        return None if v > 31 else "encoder raised %s" % e[1]
    r = impl_call(seg_impl, h, e[1])
    if allowed and r != ("ok", [v, p]):
        return "SegWit decode(encode(%r, %d, %s)) = %r" % (h, v, p.hex(), r)
    if not allowed and r[0] == "ok":
        return "SegWit decoder accepts version %d with a %d-byte program" % (v, len(p))
    return None


def d_cash_encode(a):
    h, n, d = a
    if not hrp_encodable(h) or len(n) != 1:
        return None
    s = BchBech32Encoder.Encode(h, n, d)
    r = impl_call(cash_impl, h, s)
    return None if r == ("ok", [n, d]) else "CashAddr decode(encode(%r, %s, %s)) = %r" % (h, n.hex(), d.hex(), r)


def d_wif_encode(a):
    k, nv, c = a
    e = impl_call(WifEncoder.Encode, k, nv, WifPubKeyModes.COMPRESSED if c else WifPubKeyModes.UNCOMPRESSED)
    if ref_key_valid(k) != (e[0] == "ok"):
        return "WIF encoder %s a key whose validity is %s" % ("accepts" if e[0] == "ok" else "rejects", ref_key_valid(k))
    if e[0] != "ok" or len(nv) != 1:
        return None
    r = impl_call(wif_dec_impl, e[1], nv)
    return None if r == ("ok", [k, bool(c)]) else "WIF decode(encode(k)) = %r" % (r,)


def data_part_diff(a, b, sep):
    """number of differing characters if a, b have equal length and share everything up to the last separator
    of a (compared case-insensitively on ASCII); None otherwise"""
    if len(a) != len(b):
        return None
    la, lb = a.lower(), b.lower()
    if len(la) != len(a) or len(lb) != len(b):
        return None
    p = la.rfind(sep)
    if p < 0 or la[:p + 1] != lb[:p + 1]:
        return None
    return sum(x != y for x, y in zip(la[p + 1:], lb[p + 1:]))


def mk_mut(dec, sep, segwit=False):
    def direct(a):
        h, orig, mut = a
        k = data_part_diff(orig, mut, sep)
        if k is None or not (1 <= k <= 4):
            return None
        if len(orig) - orig.lower().rfind(sep) - 1 > 89:
            return None
        r0 = impl_call(dec, h, orig)
        if r0[0] != "ok":
            return None
        if segwit and k == 4:
            p = orig.lower().rfind(sep)
            if (orig.lower()[p + 1] == "q") != (mut.lower()[p + 1] == "q"):
                return None          # four substitutions switching Bech32 <-> Bech32m: outside the code's
                                     # guarantee (Props/C10.v segwit_detects_4_refuted); three are guaranteed
        r1 = impl_call(dec, h, mut)
        if r1[0] == "ok":
            return "%d substituted data characters not detected: %r -> %r decodes to %r" % (k, orig, mut, r1[1])
        return None
    return direct


def d_convert_bits(a):
    f, t, pad, data = a
    got = Bech32BaseUtils.ConvertBits(list(data), f, t, bool(pad))
    if got is None:
        return None
    if any(x >> t for x in got):
        return "ConvertBits emitted a value >= 2**%d" % t
    if pad and (f, t) == (8, 5):
        back = Bech32BaseUtils.ConvertBits(got, 5, 8, False)
        if back != list(data):
            return "ConvertBits 8->5->8 round trip gives %r" % (back,)
    if not pad and (f, t) == (5, 8):
        back = Bech32BaseUtils.ConvertBits(got, 8, 5, True)
        if back != list(data):
            return "ConvertBits 5->8 accepted a non-canonical symbol string (re-encodes to %r)" % (back,)
    return None


ENC = [Bech32Encodings.BECH32, Bech32Encodings.BECH32M]


def d_verify(a):
    e, h, d = a
    want = ref_polymod(ref_hrp_expand(h) + list(d)) == (BECH32_CONST, BECH32M_CONST)[e]
    got = Bech32Utils.VerifyChecksum(h, list(d), ENC[e])
    return None if got == want else "VerifyChecksum = %r, specification says %r" % (got, want)


def d_compute(a):
    e, h, d = a
    cs = Bech32Utils.ComputeChecksum(h, list(d), ENC[e])
    ok = ref_polymod(ref_hrp_expand(h) + list(d) + cs) == (BECH32_CONST, BECH32M_CONST)[e]
    return None if ok and len(cs) == 6 else "computed checksum %r does not verify per the specification" % (cs,)


def d_cash_verify(a):
    h, d = a
    want = ref_cash_polymod([ord(x) & 31 for x in h] + [0] + list(d)) == 0
    got = BchBech32Utils.VerifyChecksum(h, list(d))
    return None if got == want else "VerifyChecksum = %r, specification says %r" % (got, want)


def d_cash_compute(a):
    h, d = a
    cs = BchBech32Utils.ComputeChecksum(h, list(d))
    ok = ref_cash_polymod([ord(x) & 31 for x in h] + [0] + list(d) + cs) == 0
    return None if ok and len(cs) == 8 else "computed checksum %r does not verify per the specification" % (cs,)


def mode(c):
    return WifPubKeyModes.COMPRESSED if c else WifPubKeyModes.UNCOMPRESSED


FUNCS = {
    "b32_convert_bits": Func(model=lambda m, a: m.call("b32_convert_bits", a[0], a[1], a[2], T(a[3])),
                             impl=lambda a: opt(Bech32BaseUtils.ConvertBits(list(a[3]), a[0], a[1], bool(a[2]))),
                             direct=d_convert_bits),
    "py_lower": Func(model=lambda m, a: m.call("py_lower", a[0]), impl=lambda a: a[0].lower()),
    "py_upper": Func(model=lambda m, a: m.call("py_upper", a[0]), impl=lambda a: a[0].upper()),
    "is_string_mixed": Func(model=lambda m, a: m.call("is_string_mixed", a[0]),
                            impl=lambda a: AlgoUtils.IsStringMixed(a[0])),
    "b32_polymod": Func(model=lambda m, a: m.call("b32_polymod", T(a[0])),
                        impl=lambda a: Bech32Utils.PolyMod(list(a[0])),
                        direct=lambda a: None if Bech32Utils.PolyMod(list(a[0])) == ref_polymod(a[0]) else "PolyMod differs from BIP-173"),
    "cash_polymod": Func(model=lambda m, a: m.call("cash_polymod", T(a[0])),
                         impl=lambda a: BchBech32Utils.PolyMod(list(a[0])),
                         direct=lambda a: None if BchBech32Utils.PolyMod(list(a[0])) == ref_cash_polymod(a[0]) else "PolyMod differs from the cashaddr spec"),
    "b32_compute_checksum": Func(model=lambda m, a: m.call("b32_compute_checksum", a[0], a[1], T(a[2])),
                                 impl=lambda a: T(Bech32Utils.ComputeChecksum(a[1], list(a[2]), ENC[a[0]])), direct=d_compute),
    "b32_verify_checksum": Func(model=lambda m, a: m.call("b32_verify_checksum", a[0], a[1], T(a[2])),
                                impl=lambda a: Bech32Utils.VerifyChecksum(a[1], list(a[2]), ENC[a[0]]), direct=d_verify),
    "cash_compute_checksum": Func(model=lambda m, a: m.call("cash_compute_checksum", a[0], T(a[1])),
                                  impl=lambda a: T(BchBech32Utils.ComputeChecksum(a[0], list(a[1]))), direct=d_cash_compute),
    "cash_verify_checksum": Func(model=lambda m, a: m.call("cash_verify_checksum", a[0], T(a[1])),
                                 impl=lambda a: BchBech32Utils.VerifyChecksum(a[0], list(a[1])), direct=d_cash_verify),
    "bech32_encode": Func(model=lambda m, a: m.call("bech32_encode", a[0], a[1]),
                          impl=lambda a: Bech32Encoder.Encode(a[0], a[1]), direct=d_bech32_encode),
    "bech32_decode": Func(model=lambda m, a: m.call("bech32_decode", a[0], a[1]),
                          impl=lambda a: Bech32Decoder.Decode(a[0], a[1]), direct=d_bech32_decode),
    "bech32_mut": Func(model=lambda m, a: m.call("bech32_decode", a[0], a[2]),
                       impl=lambda a: Bech32Decoder.Decode(a[0], a[2]), direct=mk_mut(Bech32Decoder.Decode, "1")),
    "segwit_encode": Func(model=lambda m, a: m.call("segwit_encode", a[0], a[1], a[2]),
                          impl=lambda a: SegwitBech32Encoder.Encode(a[0], a[1], a[2]), direct=d_segwit_encode),
    "segwit_decode": Func(model=lambda m, a: m.call("segwit_decode", a[0], a[1]),
                          impl=lambda a: seg_impl(a[0], a[1]), direct=d_segwit_decode),
    "segwit_mut": Func(model=lambda m, a: m.call("segwit_decode", a[0], a[2]),
                       impl=lambda a: seg_impl(a[0], a[2]), direct=mk_mut(seg_impl, "1", segwit=True)),
    "cash_encode": Func(model=lambda m, a: m.call("cash_encode", a[0], a[1], a[2]),
                        impl=lambda a: BchBech32Encoder.Encode(a[0], a[1], a[2]), direct=d_cash_encode),
    "cash_decode": Func(model=lambda m, a: m.call("cash_decode", a[0], a[1]),
                        impl=lambda a: cash_impl(a[0], a[1]), direct=d_cash_decode),
    "cash_mut": Func(model=lambda m, a: m.call("cash_decode", a[0], a[2]),
                     impl=lambda a: cash_impl(a[0], a[2]), direct=mk_mut(cash_impl, ":")),
    "b58_check_decode": Func(model=lambda m, a: m.call("b58_check_decode", 0, a[0]),
                             impl=lambda a: Base58Decoder.CheckDecode(a[0]), direct=d_b58check_decode),
    "wif_encode": Func(model=lambda m, a: m.call("wif_encode", a[0], a[1], int(a[2])),
                       impl=lambda a: WifEncoder.Encode(a[0], a[1], mode(a[2])), direct=d_wif_encode),
    "wif_decode": Func(model=lambda m, a: m.call("wif_decode", a[0], a[1]),
                       impl=lambda a: wif_dec_impl(a[0], a[1]), direct=d_wif_decode),
}


# ------------------------------------------------------------------ known findings

KELVIN = "K"


def _last_data_part(s, sep):
    t = s.lower()
    p = t.rfind(sep)
    return None if p < 0 else t[p + 1:]


def match_F11(fn, args, record):
    """Bech32Decoder rejects a string whose data part is exactly the 6-character checksum (empty payload)."""
    if fn == "bech32_encode":
        return record.get("kind") == "direct" and args[1] == b"" and hrp_encodable(args[0])
    if fn == "bech32_decode" and record.get("kind") == "direct":
        dp = _last_data_part(args[1], "1")
        return dp is not None and len(dp) == 6 and ref_bech32_decode(args[0], args[1]) == b""
    return False


def match_F11_replay():
    r = impl_call(Bech32Decoder.Decode, "a", "a12uel5l")
    return None if r == ("ok", b"") else "Bech32Decoder.Decode('a', 'a12uel5l') -> %s" % (r[1],)


def match_F16(fn, args, record):
    """A Bech32-family decoder accepts a string containing U+212A KELVIN SIGN (and no other non-ASCII)."""
    if record.get("kind") != "direct":
        return False
    if fn in ("bech32_decode", "segwit_decode", "cash_decode"):
        s = args[1]
    elif fn in ("bech32_mut", "segwit_mut", "cash_mut"):
        s = args[2]
    else:
        return False
    if KELVIN not in s or any(ord(c) > 127 and c != KELVIN for c in s):
        return False
    ref = {"bech32": ref_bech32_decode, "segwit": ref_segwit_decode, "cash": ref_cash_decode}[fn.split("_")[0]]
    return ref(args[0], s) is None and ref(args[0], s.replace(KELVIN, "K")) is not None


def match_F16_replay():
    s = "BC1PCQQFEZX" + KELVIN + "E"
    r = impl_call(Bech32Decoder.Decode, "bc", s)
    return "Bech32Decoder.Decode('bc', 'BC1PCQQFEZX\\u212aE') -> %r" % (r[1],) if r[0] == "ok" else None


# ------------------------------------------------------------------ generators

HRPS = ["a", "bc", "tb", "bcrt", "cosmos", "k", "ak", "1", "a1b", "x-_~!", "split1checkupstagehandshakeupstreamerranterredcaperred"]
BAD_HRPS = ["", "BC", "Bc", "a b", "a\x7f", "K", "bé", "a\x20"]
CASH_HRPS = ["bitcoincash", "bchtest", "k", "ergon", "a:b", "simpleledger"]


def rbytes(rng, n):
    return bytes(rng.randrange(256) for _ in range(n))


def lookalikes():
    """every non-ASCII code point whose lower() contains an ASCII letter or digit, from the running interpreter"""
    return [c for c in range(128, 0x110000) if any(x.isascii() and x.isalnum() for x in chr(c).lower())]


def neighbourhood(ctx, fdec, fmut, h, s, sep, subst_chars, full):
    """the neighbourhood of the valid string s (expected HRP h)"""
    rng = ctx.rng
    p = s.rfind(sep)
    pos = range(len(s)) if full else sorted(rng.sample(range(len(s)), min(len(s), 10)))
    for i in pos:
        for c in subst_chars:
            if s[i] != c:
                t = s[:i] + c + s[i + 1:]
                ctx.run(fmut if i > p else fdec, [h, s, t] if i > p else [h, t], "subst1")
    for i in range(len(s) - 1):
        if s[i] != s[i + 1]:
            ctx.run(fdec, [h, s[:i] + s[i + 1] + s[i] + s[i + 2:]], "transpose")
    for i in range(len(s) + 1):
        for c in (rng.choice(CHARSET), sep, rng.choice("bio1BIO ")):
            ctx.run(fdec, [h, s[:i] + c + s[i:]], "insert")
    for i in range(len(s)):
        ctx.run(fdec, [h, s[:i] + s[i + 1:]], "delete")
        ctx.run(fdec, [h, s[:i]], "truncate")
        ctx.run(fdec, [h, s[i:]], "truncate-front")
        if s[i].isalpha():
            ctx.run(fdec, [h, s[:i] + s[i].swapcase() + s[i + 1:]], "caseflip")
    ctx.run(fdec, [h, s.upper()], "upper")
    ctx.run(fdec, [h.upper(), s.upper()], "upper-hrp-arg")
    ctx.run(fdec, [h, s[:p].upper() + s[p:]], "upper-hrp-only")
    ctx.run(fdec, [h, s[:p + 1] + s[p + 1:].upper()], "upper-data-only")
    ctx.run(fdec, [h, "".join(rng.choice((c.upper(), c)) for c in s)], "mixed")


def gen_convert_bits(ctx):
    rng = ctx.rng
    for f, t, pad in ((8, 5, 1), (5, 8, 0), (5, 8, 1), (8, 5, 0)):
        ctx.run("b32_convert_bits", [f, t, pad, []], "empty", trivial=True)
        top = 1 << f
        for x in range(top + 2):
            ctx.run("b32_convert_bits", [f, t, pad, [x]], "len1")
        if f == 5:
            for x in range(32):
                for y in range(32):
                    ctx.run("b32_convert_bits", [f, t, pad, [x, y]], "len2")
        for _ in range(ctx.n(60, 1500)):
            if not ctx.time_left():
                break
            n = rng.choice([2, 3, 4, 5, 7, 8, 9, 16, 20, 32, 33, 52, 64])
            d = [rng.randrange(top) for _ in range(n)]
            ctx.run("b32_convert_bits", [f, t, pad, d], "rand")
            if rng.random() < 0.2:
                d[rng.randrange(n)] = rng.choice([top, top + 1, 255, 256, 1 << 20])
                ctx.run("b32_convert_bits", [f, t, pad, d], "rand-oversize")
    for f, t in ((1, 1), (3, 7), (7, 3), (13, 4), (2, 16)):
        for _ in range(ctx.n(20, 300)):
            if not ctx.time_left():
                break
            d = [rng.randrange(1 << f) for _ in range(rng.randrange(1, 12))]
            ctx.run("b32_convert_bits", [f, t, rng.randrange(2), d], "other-widths")
    ctx.note_exhaustive("ConvertBits: all single values 0..2^f+1 for (8,5) and (5,8), both pad modes; all 32x32 symbol pairs for 5->8")


def gen_strings(ctx):
    rng = ctx.rng
    look = lookalikes()
    ctx.note_exhaustive("non-ASCII look-alikes: all %d non-ASCII code points whose lower() contains an ASCII "
                        "letter or digit (%s)" % (len(look), ", ".join("U+%04X" % c for c in look)))
    samples = ["", "abc", "ABC", "aB", "1aZ", "K", "İ", "aK", "Aı", "ſ", "ß", "Σ", "ǅ", "ẞ", "Ａ", "\U0001d400"]
    for c in look:
        samples += [chr(c), "A" + chr(c), "a" + chr(c)]
    for _ in range(ctx.n(150, 3000)):
        if not ctx.time_left():
            break
        samples.append("".join(chr(rng.choice([rng.randrange(128), rng.randrange(0x250), rng.randrange(0x2000, 0x2200),
                                                rng.randrange(0x110000)])) for _ in range(rng.randrange(1, 6))))
    for s in samples:
        ctx.run("is_string_mixed", [s], "mixed")
        if "Σ" not in s:          # final-sigma context rule of str.lower is not modelled (see TRUSTED)
            ctx.run("py_lower", [s], "lower")
        ctx.run("py_upper", [s], "upper")
    if ctx.quick:
        # quick tier: EVERY code point that has case (str.lower / upper / islower / isupper not trivial: the whole
        # content of Gen/CaseTables.v) plus a sample of the caseless ones; thorough tier: every code point
        sweep = [c for c in range(0x110000) if not 0xD800 <= c < 0xE000 and
                 (chr(c).lower() != chr(c) or chr(c).upper() != chr(c) or chr(c).islower() or chr(c).isupper())]
        cased = set(sweep)
        sweep += [c for c in range(0, 0x110000, 499) if c not in cased] + [c for c in range(0, 0x3000, 23) if c not in cased]
        ctx.note_exhaustive("py_lower / islower / isupper: all %d code points that have case" % len(cased))
    else:
        sweep = range(0, 0x110000)
    for c in sweep:
        if 0xD800 <= c < 0xE000 or c == 0x3A3:
            continue
        if not ctx.quick and not ctx.time_left():
            ctx.exhaustive_notes.append("code point sweep stopped at U+%04X (time budget)" % c)
            break
        ctx.run("py_lower", [chr(c)], "cp-sweep")
        ctx.run("is_string_mixed", ["a" + chr(c)], "cp-sweep")
        ctx.run("is_string_mixed", ["A" + chr(c)], "cp-sweep")
    else:
        if not ctx.quick:
            ctx.note_exhaustive("py_lower / islower / isupper: every non-surrogate code point")


def gen_polymod(ctx):
    rng = ctx.rng
    for _ in range(ctx.n(60, 1500)):
        if not ctx.time_left():
            break
        n = rng.randrange(0, 40)
        v = [rng.randrange(32) for _ in range(n)]
        ctx.run("b32_polymod", [v], "rand")
        ctx.run("cash_polymod", [v], "rand")
        h = rng.choice(HRPS + CASH_HRPS)
        e = rng.randrange(2)
        ctx.run("b32_compute_checksum", [e, h, v], "rand")
        ctx.run("cash_compute_checksum", [h, v], "rand")
        cs = Bech32Utils.ComputeChecksum(h, list(v), ENC[e])
        ctx.run("b32_verify_checksum", [e, h, v + cs], "valid")
        ctx.run("b32_verify_checksum", [1 - e, h, v + cs], "other-encoding")
        cs2 = BchBech32Utils.ComputeChecksum(h, list(v))
        ctx.run("cash_verify_checksum", [h, v + cs2], "valid")
        if v:
            w = list(v)
            w[rng.randrange(n)] ^= rng.randrange(1, 32)
            ctx.run("b32_verify_checksum", [e, h, w + cs], "damaged")
            ctx.run("cash_verify_checksum", [h, w + cs2], "damaged")
    ctx.run("b32_polymod", [[32, 1000, 1 << 40]], "oversize-values")
    ctx.run("cash_polymod", [[32, 1000, 1 << 50]], "oversize-values")


def gen_bech32(ctx):
    rng = ctx.rng
    # directed: the BIP-173 corner cases
    for h, s in [("a", "a12uel5l"), ("a", "A12UEL5L"), ("a", "a12uel5L"), ("a", "a1lqfn3a"), ("a", "a1"), ("a", "1"), ("a", ""),
                 ("?", "?1ezyfcl"), ("split", "split1checkupstagehandshakeupstreamerranterredcaperred2y9e3w"),
                 ("1", "11qqqqqqqqqqqqqqqqqqqqqqqqqqqqqqqqqqqqqqqqqqqqqqqqqqqqqqqqqqqqqqqqqqqqqqqqqqqqqqqqqc8247j"),
                 ("an83characterlonghumanreadablepartthatcontainsthenumber1andtheexcludedcharactersbio",
                  "an83characterlonghumanreadablepartthatcontainsthenumber1andtheexcludedcharactersbio1tt5tgs"),
                 ("x", "x1b4n0q5v"), ("li", "li1dgmt3"), ("de", "de1lg7wt\xff"), ("a", "A1G7SGD8"), ("", "10a06t8"), ("", "1qzzfhee"),
                 ("a", "\x201nwldj5"), ("a", "\x7f1axkwrx"), ("a", "\x801eym55h"), ("pzry", "pzry9x0s0muk"), ("", "1pzry9x0s0muk"),
                 # the same BIP-173 invalid vectors with the expected HRP equal to the out-of-range one: HRP range boundaries
                 ("\x20", "\x201nwldj5"), ("\x7f", "\x7f1axkwrx"), ("\x80", "\x801eym55h"),
                 ("!", ref_bech32_encode("!", [1, 2], BECH32_CONST)), ("~", ref_bech32_encode("~", [1, 2], BECH32_CONST)),
                 ("\x1f", ref_bech32_encode("\x1f", [1, 2], BECH32_CONST)), ("\x7f", ref_bech32_encode("\x7f", [0, 0], BECH32_CONST))]:
        ctx.run("bech32_decode", [h, s], "bip173-vector")
    for h in HRPS + BAD_HRPS:
        for n in (0, 1, 2, 5, 20, 32):
            ctx.run("bech32_encode", [h, rbytes(rng, n)], "encode")
    for _ in range(ctx.n(80, 2000)):
        if not ctx.time_left():
            break
        h = rng.choice(HRPS)
        d = rbytes(rng, rng.choice([0, 1, 2, 3, 4, 5, 10, 20, 32, 33, 50, 64, rng.randrange(120)]))
        ctx.run("bech32_encode", [h, d], "encode-rand")
        s = Bech32Encoder.Encode(h, d)
        ctx.run("bech32_decode", [h, s], "valid")
        ctx.run("bech32_decode", [rng.choice(HRPS + BAD_HRPS), s], "wrong-hrp")
        syms = ref_convertbits(d, 8, 5)
        ctx.run("bech32_decode", [h, ref_bech32_encode(h, syms, BECH32M_CONST)], "bech32m-checksum")
        if syms:
            bad = list(syms)
            bad[-1] ^= 1
            ctx.run("bech32_decode", [h, ref_bech32_encode(h, bad, BECH32_CONST)], "nonzero-padding")
            ctx.run("bech32_decode", [h, ref_bech32_encode(h, syms + [0], BECH32_CONST)], "extra-symbol")
            ctx.run("bech32_decode", [h, ref_bech32_encode(h, syms + [0, 0], BECH32_CONST)], "extra-symbols")
    # neighbourhoods
    k = 0
    for h, n in [("a", 1), ("bc", 2), ("tb", 20), ("k", 3), ("a1b", 5), ("cosmos", 32)][:ctx.n(4, 6)]:
        d = rbytes(rng, n)
        s = Bech32Encoder.Encode(h, d)
        neighbourhood(ctx, "bech32_decode", "bech32_mut", h, s, "1", CHARSET + "b1B?", full=(k < 2 or not ctx.quick))
        k += 1
    # double substitutions of a short string: all of them (thorough) or a sample
    h, s = "a", Bech32Encoder.Encode("a", b"\x5a")
    p = s.rfind("1")
    idx = [(i, j) for i in range(p + 1, len(s)) for j in range(i + 1, len(s))]
    allp = [(i, j, c, e) for (i, j) in idx for c in CHARSET for e in CHARSET if c != s[i] and e != s[j]]
    if ctx.quick:
        allp = rng.sample(allp, 1500)
    else:
        ctx.note_exhaustive("Bech32: all %d double substitutions of the data part of %r (unless the time budget ends first)" % (len(allp), s))
    for i, j, c, e in allp:
        if not ctx.time_left():
            break
        ctx.run("bech32_mut", [h, s, s[:i] + c + s[i + 1:j] + e + s[j + 1:]], "subst2")
    # triple and quadruple substitutions, random
    for _ in range(ctx.n(300, 20000)):
        if not ctx.time_left():
            break
        h = rng.choice(["a", "bc", "cosmos"])
        s = Bech32Encoder.Encode(h, rbytes(rng, rng.choice([1, 5, 20, 32, 45])))
        p = s.rfind("1")
        t = list(s)
        for i in rng.sample(range(p + 1, len(s)), rng.choice([3, 4])):
            t[i] = rng.choice([c for c in CHARSET if c != s[i]])
        ctx.run("bech32_mut", [h, s, "".join(t)], "subst3-4")
    # non-ASCII look-alikes (F16 territory): every look-alike code point at letter positions of upper-case strings
    look = lookalikes()
    for h, d in [("bc", bytes([0x0e, 0x00])), ("k", b"\x01"), ("ak", b"kk")]:
        s = Bech32Encoder.Encode(h, d).upper()
        for c in look + [0x3A3, 0x131, 0x17F, 0xFF2B, 0x41A, 0x39A]:
            low = chr(c).lower()
            for i, ch in enumerate(s):
                if ch.lower() in low or i in (0, len(s) - 1):
                    ctx.run("bech32_decode", [h, s[:i] + chr(c) + s[i + 1:]], "lookalike-upper")
                    ctx.run("bech32_decode", [h, s.lower()[:i] + chr(c) + s.lower()[i + 1:]], "lookalike-lower")
            ctx.run("bech32_decode", [h, s + chr(c)], "lookalike-append")
    ctx.run("bech32_decode", ["K", "K1" + "Q" * 6], "lookalike-hrp-arg")


def gen_segwit(ctx):
    rng = ctx.rng
    # BIP-173 / BIP-350 vectors (valid and invalid)
    vec = ["BC1QW508D6QEJXTDG4Y5R3ZARVARY0C5XW7KV8F3T4", "tb1qrp33g0q5c5txsp9arysrx4k6zdkfs4nce4xj0gdcccefvpysxf3q0sl5k7",
           "bc1pw508d6qejxtdg4y5r3zarvary0c5xw7kw508d6qejxtdg4y5r3zarvary0c5xw7kt5nd6y", "BC1SW50QGDZ25J",
           "bc1zw508d6qejxtdg4y5r3zarvaryvaxxpcs", "tb1qqqqqp399et2xygdj5xreqhjjvcmzhxw4aywxecjdzew6hylgvsesrxh6hy",
           "tb1pqqqqp399et2xygdj5xreqhjjvcmzhxw4aywxecjdzew6hylgvsesf3hn0c", "bc1p0xlxvlhemja6c4dqv22uapctqupfhlxm9h8z3k2e72q4k9hcz7vqzk5jj0",
           "tc1qw508d6qejxtdg4y5r3zarvary0c5xw7kg3g4ty", "bc1qw508d6qejxtdg4y5r3zarvary0c5xw7kv8f3t5",
           "BC13W508D6QEJXTDG4Y5R3ZARVARY0C5XW7KN40WF2", "bc1rw5uspcuh", "bc10w508d6qejxtdg4y5r3zarvary0c5xw7kw508d6qejxtdg4y5r3zarvary0c5xw7kw5rljs90",
           "BC1QR508D6QEJXTDG4Y5R3ZARVARYV98GJ9P", "tb1qrp33g0q5c5txsp9arysrx4k6zdkfs4nce4xj0gdcccefvpysxf3q0sL5k7",
           "bc1zw508d6qejxtdg4y5r3zarvaryvqyzf3du", "tb1qrp33g0q5c5txsp9arysrx4k6zdkfs4nce4xj0gdcccefvpysxf3pjxtptv", "bc1gmk9yu",
           "bc1qw508d6qejxtdg4y5r3zarvary0c5xw7kemeawh", "tb1q0xlxvlhemja6c4dqv22uapctqupfhlxm9h8z3k2e72q4k9hcz7vq24jc47",
           "bc1p38j9r5y49hruaue7wxjce0updqjuyyx0kh56v8s25huc6995vvpql3jow4", "BC130XLXVLHEMJA6C4DQV22UAPCTQUPFHLXM9H8Z3K2E72Q4K9HCZ7VQ7ZWS8R",
           "bc1pw5dgrnzv", "bc1p0xlxvlhemja6c4dqv22uapctqupfhlxm9h8z3k2e72q4k9hcz7v8n0nx0muaewav253zgeav",
           "BC1QR508D6QEJXTDG4Y5R3ZARVARYV98GJ9P", "tb1p0xlxvlhemja6c4dqv22uapctqupfhlxm9h8z3k2e72q4k9hcz7vq47Zagq",
           "bc1p0xlxvlhemja6c4dqv22uapctqupfhlxm9h8z3k2e72q4k9hcz7v07qwwzcrf", "tb1p0xlxvlhemja6c4dqv22uapctqupfhlxm9h8z3k2e72q4k9hcz7vpggkg4j", "bc1gmk9yu"]
    for s in vec:
        for h in ("bc", "tb"):
            ctx.run("segwit_decode", [h, s], "bip-vector")
    # all witness versions x program lengths: encoder, decoder on the encoder's output, and spec-built strings
    vers = list(range(0, 18)) + [31, 32, 33, 255] if ctx.quick else list(range(0, 36)) + [255, 1 << 40]
    for v in vers:
        for n in range(0, 43):
            if ctx.quick and v > 1 and n not in (0, 1, 2, 3, 19, 20, 21, 32, 39, 40, 41, 42) and rng.random() < 0.6:
                continue
            p = rbytes(rng, n)
            h = rng.choice(["bc", "tb", "k"])
            ctx.run("segwit_encode", [h, v, p], "ver-x-len")
            if v < 32:
                syms = [v] + ref_convertbits(p, 8, 5)
                for const in (BECH32_CONST, BECH32M_CONST):
                    ctx.run("segwit_decode", [h, ref_bech32_encode(h, syms, const)], "ver-x-len-spec")
    ctx.note_exhaustive("SegWit: witness versions 0..17 (thorough 0..35) x program lengths 0..42 under both checksum constants")
    for h in BAD_HRPS:
        ctx.run("segwit_encode", [h, 0, rbytes(rng, 20)], "bad-hrp")
    ctx.run("segwit_decode", ["bc", "bc1" + "q" * 6], "no-version-symbol")
    ctx.run("segwit_decode", ["bc", ref_bech32_encode("bc", [], BECH32_CONST)], "no-version-symbol")
    ctx.run("segwit_decode", ["bc", ref_bech32_encode("bc", [], BECH32M_CONST)], "no-version-symbol")
    ctx.run("segwit_decode", ["bc", ref_bech32_encode("bc", [0], BECH32_CONST)], "version-only")
    # neighbourhoods
    cases = [("bc", 0, 20), ("tb", 1, 32), ("bc", 16, 2), ("k", 0, 32)][:ctx.n(3, 4)]
    for k, (h, v, n) in enumerate(cases):
        s = SegwitBech32Encoder.Encode(h, v, rbytes(rng, n))
        neighbourhood(ctx, "segwit_decode", "segwit_mut", h, s, "1", CHARSET + "b1", full=(k < 1 or not ctx.quick))
    for _ in range(ctx.n(300, 20000)):
        if not ctx.time_left():
            break
        h = rng.choice(["bc", "tb"])
        v = rng.choice([0, 0, 1, 1, 2, 16])
        n = rng.choice([20, 32]) if v == 0 else rng.choice([2, 20, 32, 40])
        s = SegwitBech32Encoder.Encode(h, v, rbytes(rng, n))
        p = s.rfind("1")
        t = list(s)
        for i in rng.sample(range(p + 1, len(s)), rng.choice([1, 2, 3, 4])):
            t[i] = rng.choice([c for c in CHARSET if c != s[i]])
        ctx.run("segwit_mut", [h, s, "".join(t)], "subst1-4")
    # Bech32 -> Bech32m switch by four substitutions (version symbol among them): not covered by the BCH
    # guarantee; model and implementation must agree that such strings ARE accepted (Props/C10.v
    # segwit_detects_4_cross_refuted).  Pattern found by syndrome search, see harness comment in the report.
    s = SegwitBech32Encoder.Encode("bc", 0, bytes(range(20)))
    d = [CHARSET.index(c) for c in s[3:]]
    for j, x in [(38, 1), (7, 26), (28, 5), (33, 29)]:
        d[len(d) - 1 - j] ^= x
    ctx.run("segwit_mut", ["bc", s, "bc1" + "".join(CHARSET[x] for x in d)], "cross-encoding-4")
    look = lookalikes()
    for h, v, p in [("bc", 1, bytes([0x0e, 0x00])), ("k", 0, bytes(20))]:
        s = SegwitBech32Encoder.Encode(h, v, p).upper()
        for c in look + [0x3A3, 0x131, 0xFF2B]:
            for i, ch in enumerate(s):
                if ch.lower() in chr(c).lower():
                    ctx.run("segwit_decode", [h, s[:i] + chr(c) + s[i + 1:]], "lookalike-upper")


def gen_cash(ctx):
    rng = ctx.rng
    for s in ["bitcoincash:qpm2qsznhks23z7629mms6s4cwef74vcwvy22gdx6a", "bitcoincash:ppm2qsznhks23z7629mms6s4cwef74vcwvn0h829pq",
              "BITCOINCASH:QPM2QSZNHKS23Z7629MMS6S4CWEF74VCWVY22GDX6A", "bitcoincash:qpm2qsznhks23z7629mms6s4cwef74vcwvy22gdx6A",
              "bitcoincash:", "bitcoincash:qqqqqqqq", "bitcoincash:qqqqqqqqq", ":qpm2qsznhks23z7629mms6s4cwef74vcwvy22gdx6a",
              "qpm2qsznhks23z7629mms6s4cwef74vcwvy22gdx6a"]:
        ctx.run("cash_decode", ["bitcoincash", s], "vector")
    for h in CASH_HRPS + BAD_HRPS:
        for nv, n in ((b"\x00", 20), (b"\x08", 20), (b"\xff", 0), (b"", 0), (b"", 20), (b"\x00\x01", 3), (b"\x03", 32)):
            ctx.run("cash_encode", [h, nv, rbytes(rng, n)], "encode")
    for _ in range(ctx.n(80, 2000)):
        if not ctx.time_left():
            break
        h = rng.choice(CASH_HRPS)
        nv = bytes([rng.randrange(256)])
        d = rbytes(rng, rng.choice([0, 1, 2, 4, 20, 24, 28, 32, 40, 48, 56, 64, rng.randrange(80)]))
        ctx.run("cash_encode", [h, nv, d], "encode-rand")
        s = BchBech32Encoder.Encode(h, nv, d)
        ctx.run("cash_decode", [h, s], "valid")
        ctx.run("cash_decode", [rng.choice(CASH_HRPS + BAD_HRPS), s], "wrong-hrp")
        syms = ref_convertbits(nv + d, 8, 5)
        bad = list(syms)
        bad[-1] ^= 1
        ctx.run("cash_decode", [h, ref_cash_encode(h, bad)], "nonzero-padding")
        ctx.run("cash_decode", [h, ref_cash_encode(h, syms + [0])], "extra-symbol")
        ctx.run("cash_decode", [h, ref_cash_encode(h, syms[:1])], "one-symbol")
        ctx.run("cash_decode", [h, ref_cash_encode(h, [])], "no-symbol")
        ctx.run("cash_decode", [h, ref_bech32_encode(h, syms, BECH32_CONST, ":")], "bech32-checksum")
    for k, (h, n) in enumerate([("bitcoincash", 20), ("k", 1), ("bchtest", 32)][:ctx.n(2, 3)]):
        s = BchBech32Encoder.Encode(h, b"\x00", rbytes(rng, n))
        neighbourhood(ctx, "cash_decode", "cash_mut", h, s, ":", CHARSET + "b:", full=(k < 1 or not ctx.quick))
    for _ in range(ctx.n(300, 20000)):
        if not ctx.time_left():
            break
        h = rng.choice(["bitcoincash", "bchtest"])
        s = BchBech32Encoder.Encode(h, bytes([rng.randrange(256)]), rbytes(rng, rng.choice([20, 24, 32, 64])))
        p = s.rfind(":")
        t = list(s)
        for i in rng.sample(range(p + 1, len(s)), rng.choice([1, 2, 3, 4])):
            t[i] = rng.choice([c for c in CHARSET if c != s[i]])
        ctx.run("cash_mut", [h, s, "".join(t)], "subst1-4")
    s = BchBech32Encoder.Encode("k", b"\x00", bytes(20)).upper()
    for c in lookalikes() + [0x3A3]:
        for i, ch in enumerate(s):
            if ch.lower() in chr(c).lower():
                ctx.run("cash_decode", ["k", s[:i] + chr(c) + s[i + 1:]], "lookalike-upper")


def gen_b58_wif(ctx):
    rng = ctx.rng
    n_1 = (SECP_N - 1).to_bytes(32, "big")
    keys = [bytes(31) + b"\x01", n_1, SECP_N.to_bytes(32, "big"), bytes(32), b"\xff" * 32, bytes(31), bytes(33), b"",
            bytes(31) + b"\x01" + b"\x01", rbytes(rng, 32), rbytes(rng, 32)]
    nvs = [b"\x80", b"\xef", b"\x00", b"", b"\x80\x00"]
    for k in keys:
        for nv in nvs:
            for c in (True, False):
                ctx.run("wif_encode", [k, nv, c], "encode")
    payloads = [b"", b"\x80", b"\x80" + keys[0], b"\x80" + keys[0] + b"\x01", b"\x80" + keys[0] + b"\x00",
                b"\x80" + keys[0] + b"\x02", b"\x80" + keys[0] + b"\x01\x01", b"\x81" + keys[0], b"\x80" + bytes(32),
                b"\x80" + bytes(32) + b"\x01", b"\x80" + keys[2], b"\x80" + keys[2] + b"\x01", b"\x80" + n_1 + b"\x01",
                b"\x80" + keys[0][:31], b"\x80" + bytes(30) + b"\x01\x01", b"\x80" + b"\x01" * 33, b"\xef" + keys[0] + b"\x01"]
    for pl in payloads:
        s = Base58Encoder.CheckEncode(pl)
        for nv in nvs:
            ctx.run("wif_decode", [s, nv], "crafted")
        ctx.run("b58_check_decode", [s], "crafted")
    for _ in range(ctx.n(60, 1500)):
        if not ctx.time_left():
            break
        k = rbytes(rng, 32)
        nv = bytes([rng.randrange(256)])
        c = rng.random() < 0.5
        ctx.run("wif_encode", [k, nv, c], "rand")
        s = WifEncoder.Encode(k, nv, mode(c))
        ctx.run("wif_decode", [s, nv], "valid")
        ctx.run("wif_decode", [s, bytes([rng.randrange(256)])], "other-net")
        ctx.run("b58_check_decode", [s], "valid")
        t = list(s)
        i = rng.randrange(len(t))
        kind = rng.randrange(5)
        if kind == 0:
            t[i] = rng.choice(B58)
        elif kind == 1:
            t[i] = rng.choice("0OIl Ké")
        elif kind == 2:
            t.insert(i, rng.choice(B58))
        elif kind == 3:
            del t[i]
        elif i + 1 < len(t):
            t[i], t[i + 1] = t[i + 1], t[i]
        ctx.run("wif_decode", ["".join(t), nv], "mutated")
        ctx.run("b58_check_decode", ["".join(t)], "mutated")
    # the whole single-substitution neighbourhood of one WIF string / one Base58Check string
    s = WifEncoder.Encode(keys[0], b"\x80", mode(True))
    for i in (range(len(s)) if not ctx.quick else rng.sample(range(len(s)), 8)):
        for c in B58:
            if c != s[i]:
                ctx.run("wif_decode", [s[:i] + c + s[i + 1:], b"\x80"], "subst1")
    for s in ["", "1", "11", "1111", "11111", "3QJmnh", "z", "2g", Base58Encoder.CheckEncode(b""), Base58Encoder.CheckEncode(b"\x00")]:
        ctx.run("b58_check_decode", [s], "short")
        ctx.run("wif_decode", [s, b"\x80"], "short")


# ---- SS58 and Monero block-Base58 decoders (models and theorems of property C11: ss58_accepts_iff,
#      xmr_decode_accepts_iff); here the decoders' acceptance is compared on C10's neighbourhood streams
from props import C11 as _c11
for _k in ("ss58_encode", "ss58_decode", "xmr_encode", "xmr_decode"):
    FUNCS[_k] = _c11.FUNCS[_k]


def gen_ss58_xmr(ctx):
    rng = ctx.rng
    fixed = bytes(range(32))
    fmts = sorted(set([0, 1, 45, 48, 62, 63, 64, 65, 127, 128, 255, 256, 257, 1284, 4095, 4096, 8191, 8192, 8193, 8234,
                       12288, 16382, 16383] + [rng.randrange(16384) for _ in range(ctx.n(120, 3000))]) - {46, 47})
    for fmt in fmts:
        s = _c11.ss58_ref(fixed, fmt)
        ctx.run("ss58_decode", [s], "formats")
        t = list(s)
        t[rng.randrange(len(t))] = rng.choice(_c11.B58)
        ctx.run("ss58_decode", ["".join(t)], "substituted")
    for b0 in range(256):
        ctx.run("ss58_decode", [_c11.ss58_raw(bytes([b0]) + fixed)], "firstbyte")
        ctx.run("ss58_decode", [_c11.ss58_raw(bytes([b0, rng.randrange(256)]) + fixed)], "firstbyte")
    for raw in (b"", b"\x00", b"\x40", b"\x80", b"\x40\x00"):
        ctx.run("ss58_decode", [_c11.ss58_raw(raw)], "short")
    for _ in range(ctx.n(150, 3000)):
        b = bytes(rng.randrange(256) for _ in range(rng.choice([1, 5, 8, 9, 16, 69, 77])))
        from bip_utils import Base58XmrEncoder
        s = Base58XmrEncoder.Encode(b)
        ctx.run("xmr_decode", [s], "valid")
        t = list(s)
        k = rng.randrange(4)
        if k == 0:
            t[rng.randrange(len(t))] = rng.choice(_c11.B58)
        elif k == 1:
            t[rng.randrange(len(t))] = "z"
        elif k == 2:
            del t[rng.randrange(len(t))]
        else:
            t.insert(rng.randrange(len(t) + 1), rng.choice(_c11.B58))
        ctx.run("xmr_decode", ["".join(t)], "mutated")


# ##################################################################################################################
# PART 2 -- address-level decoders (every *AddrDecoder.DecodeAddr): Props/C10.v part 2, Lemmas/AddrAccept*.v.
# The theorems characterise what the MODELS accept; the streams below tie them to /repo in the NON-round-trip
# direction: strings built here with the harness's own reference codecs that are checksum-VALID but structurally
# off (payload too short / too long, optional field missing or extra, wrong prefix / version / header bits,
# non-canonical padding bits, explicit padding, invalid key, other case), compared between model and
# implementation; and a direct check that every string the implementation ACCEPTS is -- up to the format's case
# rule -- the reference encoder's text for the payload it returned (and that a returned key is a valid key).
# ##################################################################################################################
import ecref as _ec
import oracles as _orc
import oracles_addr as _oa
import bip_utils as _bu
from bip_utils.addr import (XtzAddrPrefixes as _XtzP, XlmAddrTypes as _XlmT, ErgoNetworkTypes as _ErgoN,
                            AdaShelleyAddrNetworkTags as _AdaTag)

XRP58 = "rpshnaf39wBUDNEGHJKLM4PQRST7VWXYZ2bcdeCg65jkm8oFqi1tuvAxyz"
RFC32 = "ABCDEFGHIJKLMNOPQRSTUVWXYZ234567"
FIL32 = "abcdefghijklmnopqrstuvwxyz234567"
NANO32 = "13456789abcdefghijkmnopqrstuwxyz"
NIM32 = "0123456789ABCDEFGHJKLMNPQRSTUVXY"
A_ALPH = [B58, XRP58]


def a_b58enc(b, alph=B58):
    n, out = int.from_bytes(b, "big"), ""
    while n:
        n, r = divmod(n, 58)
        out = alph[r] + out
    return alph[0] * (len(b) - len(b.lstrip(b"\x00"))) + out


def a_b58dec(s, alph=B58):
    v = 0
    for c in s:
        i = alph.find(c)
        if i < 0 or c == "":
            return None
        v = v * 58 + i
    return bytes(len(s) - len(s.lstrip(alph[0]))) + v.to_bytes((v.bit_length() + 7) // 8, "big")


def a_dsha4(b):
    return hashlib.sha256(hashlib.sha256(b).digest()).digest()[:4]


def a_b58check(b, alph=B58):
    return a_b58enc(b + a_dsha4(b), alph)


def a_b32enc(b, alph=RFC32, spare=0):
    """RFC 4648 section 6 without padding; [spare] is OR-ed into the left-over bits of the last symbol."""
    bits = "".join(format(x, "08b") for x in b)
    pad = -len(bits) % 5
    v = [int((bits + "0" * pad)[i:i + 5], 2) for i in range(0, len(bits) + pad, 5)]
    if v and pad:
        v[-1] |= spare & ((1 << pad) - 1)
    return "".join(alph[x] for x in v)


def a_crc16_xmodem(b):
    crc = 0
    for x in b:
        crc ^= x << 8
        for _ in range(8):
            crc = ((crc << 1) ^ 0x1021) & 0xFFFF if crc & 0x8000 else (crc << 1) & 0xFFFF
    return crc


def a_crc32(b):
    crc = 0xFFFFFFFF
    for x in b:
        crc ^= x
        for _ in range(8):
            crc = (crc >> 1) ^ 0xEDB88320 if crc & 1 else crc >> 1
    return crc ^ 0xFFFFFFFF


def a_keccak(b):
    from Crypto.Hash import keccak
    return keccak.new(data=bytes(b), digest_bits=256).digest()


def a_blake(b, n):
    return hashlib.blake2b(bytes(b), digest_size=n).digest()


def a_bech32(hrp, data, const=BECH32_CONST, flip=0):
    syms = ref_convertbits(data, 8, 5)
    if flip and syms:
        syms[-1] ^= flip
    return ref_bech32_encode(hrp, syms, const)


def a_segwit(hrp, v, prog, const=None):
    const = (BECH32_CONST if v == 0 else BECH32M_CONST) if const is None else const
    return ref_bech32_encode(hrp, [v] + ref_convertbits(prog, 8, 5), const)


def a_cash(hrp, nv, d):
    return ref_cash_encode(hrp, ref_convertbits(nv + d, 8, 5))


# ---- CBOR (RFC 8949): own reader / writer, shared with the Byron parse oracles (harness/cborref.py)
from cborref import (cb_head, cb_uint, cb_bytes, cb_array, cb_map, cb_tag, cb_parse, CbTag, CbSimple)   # noqa: E402


# ---- keys
_S, _E25 = _ec.SECP256K1, _ec.ED25519


def a_secp(k):
    return _S.ser_c(_S.mul(k, _S.G))


def a_ed(seed):
    return _E25.pub_rfc8032(seed, lambda b: hashlib.sha512(b).digest())


def a_edb(seed):
    return _E25.pub_rfc8032(seed, lambda b: hashlib.blake2b(b, digest_size=64).digest())


def a_bad_ed():
    """a 32-byte string that is no ed25519 point encoding"""
    i = 2
    while _oa.valid_pub(2, i.to_bytes(32, "little")):
        i += 1
    return i.to_bytes(32, "little")


def a_bad_secp():
    x = 1
    while _oa.valid_pub(0, b"\x02" + x.to_bytes(32, "big")):
        x += 1
    return b"\x02" + x.to_bytes(32, "big")


BAD_ED, BAD_SECP = a_bad_ed(), a_bad_secp()


# ---- reference address texts from the payload the decoder returns
def a_eip55(h):
    dg = a_keccak(h.lower().encode()).hex()
    return "".join(c.upper() if int(dg[i], 16) >= 8 else c.lower() for i, c in enumerate(h))


def a_nim_check(e):
    t = e + "NQ00"
    n = int("".join(str(int(c, 36)) for c in t))
    return "%02d" % (98 - n % 97)


def a_nim(h20, spaced=True):
    e = a_b32enc(h20, NIM32)
    s = "NQ" + a_nim_check(e) + e
    return " ".join(s[i:i + 4] for i in range(0, len(s), 4)) if spaced else s


def a_algo(pub, spare=0, ck=None):
    ck = _orc.sha512_256(pub)[-4:] if ck is None else ck
    return a_b32enc(pub + ck, RFC32, spare)


def a_xlm(t, pub):
    pl = bytes([t]) + pub
    return a_b32enc(pl + a_crc16_xmodem(pl).to_bytes(2, "little"), RFC32)


def a_fil(h, spare=0, ty=1, cty=None):
    return "f" + str(ty) + a_b32enc(h + a_blake(bytes([ty if cty is None else cty]) + h, 4), FIL32, spare)


def a_nano(pub, pad=b"\x00\x00\x00", ck=None):
    ck = a_blake(pub, 5)[::-1] if ck is None else ck
    return "nano_" + a_b32enc(pad + pub + ck, NANO32)[4:]


def a_xmr(net, body):
    pl = net + body
    return _c11.xmr_ref_encode(pl + a_keccak(pl)[:4])


def a_byron_payload(rh, path=None, ty=0, extra_attrs=(), junk=b""):
    attrs = ([(cb_uint(1), cb_bytes(cb_bytes(path)))] if path is not None else []) + list(extra_attrs)
    return cb_array([cb_bytes(rh), cb_map(attrs), cb_uint(ty)]) + junk


def a_byron(payload, tag=24, crc=None, crc_width=None, indefinite=False, junk=b""):
    crc = a_crc32(payload) if crc is None else crc
    return a_b58enc(cb_array([cb_tag(tag, cb_bytes(payload)), cb_uint(crc, crc_width)], indefinite) + junk)


ADA_HRP = [("addr", "stake"), ("addr_test", "stake_test")]      # order of Gen ada_nets: mainnet (tag 1), testnet (tag 0)
ADA_TAG = [1, 0]
A_TAGS = [_AdaTag.MAINNET, _AdaTag.TESTNET]
A_XTZ = [_XtzP.TZ1, _XtzP.TZ2, _XtzP.TZ3]
A_ERGO = {0: _ErgoN.MAINNET, 16: _ErgoN.TESTNET}
A_ETHB32 = [("inj", _bu.InjAddrDecoder), ("ex", _bu.OkexAddrDecoder), ("one", _bu.OneAddrDecoder)]
A_AVAX = [("P-", "avax", _bu.AvaxPChainAddrDecoder), ("X-", "avax", _bu.AvaxXChainAddrDecoder)]


def is_key(curve, b):
    return bool(_oa.valid_pub(curve, b))


def exact(s, want, what):
    return None if s == want else "%s: accepted %r is not the encoder's text %r for the payload it returned" % (what, s, want)


def nocase(s, want, what):
    """hex formats: any case mix accepted, the encoder writes lower case"""
    return None if s.lower() == want else "%s: accepted %r differs (beyond case) from the encoder's text %r" % (what, s, want)


def b32case(s, want, what, prefix=""):
    """Bech32 family: all-lower or all-upper (after the optional fixed prefix)"""
    ok = s.startswith(prefix) and s[len(prefix):] in (want, want.upper())
    return None if ok else "%s: accepted %r is not the encoder's text %r (up to the all-upper form)" % (what, s, prefix + want)


def keyok(curve, d, what):
    return None if is_key(curve, d) else "%s: returned %s is not a valid key" % (what, d.hex())


def first(*msgs):
    for m in msgs:
        if m:
            return m
    return None


def hlen(d, n, what):
    return None if len(d) == n else "%s: returned %d bytes, the format's payload has %d" % (what, len(d), n)


def ad(impl, reenc):
    """direct check: if the implementation accepts, the string is the reference encoding of what it returned"""
    def direct(a):
        r = impl_call(impl, a)
        return reenc(a, r[1]) if r[0] == "ok" else None
    return direct


def _byron_direct(a, d):
    raw = a_b58dec(a[0])
    try:
        outer, n = cb_parse(raw)
        if n != len(raw):
            return "ADA-BYRON: accepted %r although %d byte(s) follow the CBOR item (ignored by the decoder)" % (a[0], len(raw) - n)
        tagv, crc = outer
        if isinstance(crc, CbTag) and crc.tag == 2 and isinstance(crc.value, bytes):
            crc = int.from_bytes(crc.value, "big")          # a bignum is the same integer (RFC 8949 3.4.3)
        pl, n2 = cb_parse(tagv.value)
        if n2 != len(tagv.value):
            return "ADA-BYRON: accepted %r although %d byte(s) follow the payload CBOR item" % (a[0], len(tagv.value) - n2)
        rh, attrs, ty = pl
        path = b""
        if 1 in attrs:
            path, n3 = cb_parse(attrs[1])
            if n3 != len(attrs[1]):
                return "ADA-BYRON: accepted %r although %d byte(s) follow the CBOR item inside attribute 1" % (a[0], len(attrs[1]) - n3)
            if not isinstance(path, bytes):
                return "ADA-BYRON: accepted %r although attribute 1 holds %r, not a byte string" % (a[0], path)
        if tagv.tag != 24 or crc != a_crc32(tagv.value) or ty != 0 or len(rh) != 28 or d != rh + path:
            return "ADA-BYRON: accepted %r does not have the Byron layout for the returned %s" % (a[0], d.hex())
    except (ValueError, TypeError, AttributeError, KeyError) as e:
        return "ADA-BYRON: accepted %r is not well-formed CBOR of the address shape (%s)" % (a[0], e)
    return None


def _xmr_impl(a):
    s, net, pid = a
    if pid is None:
        return _bu.XmrAddrDecoder.DecodeAddr(s, net_ver=net)
    return _bu.XmrIntegratedAddrDecoder.DecodeAddr(s, net_ver=net, payment_id=pid)


def _aptos_re(a, d):
    s = a[0]
    return first(hlen(d, 32, "APTOS"),
                 None if s[:2] == "0x" and s[2:].rjust(64, "0").lower() == d.hex() else
                 "APTOS: accepted %r is not a zero-trimmed form of 0x%s" % (s, d.hex()))


def _opt(p):
    return [] if p is None else [p]


AFUNCS = {
    # [alphabet index, net_ver, s]
    "addr_p2pkh": Func(model=lambda m, a: m.call("addr.p2pkh_decode", a[0], a[1], a[2]),
                       impl=lambda a: _bu.P2PKHAddrDecoder.DecodeAddr(a[2], net_ver=a[1], base58_alph=ALPH58[a[0]]),
                       direct=ad(lambda a: _bu.P2PKHAddrDecoder.DecodeAddr(a[2], net_ver=a[1], base58_alph=ALPH58[a[0]]),
                                 lambda a, d: first(hlen(d, 20, "P2PKH"), exact(a[2], a_b58check(a[1] + d, A_ALPH[a[0]]), "P2PKH")))),
    "addr_p2sh": Func(model=lambda m, a: m.call("addr.p2sh_decode", a[0], a[1]),
                      impl=lambda a: _bu.P2SHAddrDecoder.DecodeAddr(a[1], net_ver=a[0]),
                      direct=ad(lambda a: _bu.P2SHAddrDecoder.DecodeAddr(a[1], net_ver=a[0]),
                                lambda a, d: first(hlen(d, 20, "P2SH"), exact(a[1], a_b58check(a[0] + d), "P2SH")))),
    "addr_xrp": Func(model=lambda m, a: m.call("addr.xrp_decode", a[0]), impl=lambda a: _bu.XrpAddrDecoder.DecodeAddr(a[0]),
                     direct=ad(lambda a: _bu.XrpAddrDecoder.DecodeAddr(a[0]),
                               lambda a, d: first(hlen(d, 20, "XRP"), exact(a[0], a_b58check(b"\x00" + d, XRP58), "XRP")))),
    # [prefix index, s]
    "addr_xtz": Func(model=lambda m, a: m.call("addr.xtz_decode", A_XTZ[a[0]].value, a[1]),
                     impl=lambda a: _bu.XtzAddrDecoder.DecodeAddr(a[1], prefix=A_XTZ[a[0]]),
                     direct=ad(lambda a: _bu.XtzAddrDecoder.DecodeAddr(a[1], prefix=A_XTZ[a[0]]),
                               lambda a, d: first(hlen(d, 20, "XTZ"), exact(a[1], a_b58check(A_XTZ[a[0]].value + d), "XTZ")))),
    # [ver, s]
    "addr_neo": Func(model=lambda m, a: m.call("addr.neo_decode", a[0], a[1]), impl=lambda a: _bu.NeoAddrDecoder.DecodeAddr(a[1], ver=a[0]),
                     direct=ad(lambda a: _bu.NeoAddrDecoder.DecodeAddr(a[1], ver=a[0]),
                               lambda a, d: first(hlen(d, 20, "NEO"), exact(a[1], a_b58check(a[0] + d), "NEO")))),
    "addr_trx": Func(model=lambda m, a: m.call("addr.trx_decode", a[0]), impl=lambda a: _bu.TrxAddrDecoder.DecodeAddr(a[0]),
                     direct=ad(lambda a: _bu.TrxAddrDecoder.DecodeAddr(a[0]),
                               lambda a, d: first(hlen(d, 20, "TRX"), exact(a[0], a_b58check(b"\x41" + d), "TRX")))),
    "addr_eos": Func(model=lambda m, a: m.call("addr.eos_decode", a[0]), impl=lambda a: _bu.EosAddrDecoder.DecodeAddr(a[0]),
                     direct=ad(lambda a: _bu.EosAddrDecoder.DecodeAddr(a[0]),
                               lambda a, d: first(keyok(0, d, "EOS"), hlen(d, 33, "EOS"),
                                                  exact(a[0], "EOS" + a_b58enc(d + _orc.ripemd160(d)[:4]), "EOS")))),
    # [net (0 | 16), s]
    "addr_ergo": Func(model=lambda m, a: m.call("addr.ergo_decode", a[0], a[1]),
                      impl=lambda a: _bu.ErgoP2PKHAddrDecoder.DecodeAddr(a[1], net_type=A_ERGO[a[0]]),
                      direct=ad(lambda a: _bu.ErgoP2PKHAddrDecoder.DecodeAddr(a[1], net_type=A_ERGO[a[0]]),
                                lambda a, d: first(keyok(0, d, "ERGO"), hlen(d, 33, "ERGO"),
                                                   exact(a[1], a_b58enc(bytes([1 + a[0]]) + d + a_blake(bytes([1 + a[0]]) + d, 32)[:4]), "ERGO")))),
    "addr_sol": Func(model=lambda m, a: m.call("addr.sol_decode", a[0]), impl=lambda a: _bu.SolAddrDecoder.DecodeAddr(a[0]),
                     direct=ad(lambda a: _bu.SolAddrDecoder.DecodeAddr(a[0]),
                               lambda a, d: first(keyok(2, d, "SOL"), exact(a[0], a_b58enc(d), "SOL")))),
    # [skip, s]
    "addr_eth": Func(model=lambda m, a: m.call("addr.eth_decode", a[0], a[1]),
                     impl=lambda a: _bu.EthAddrDecoder.DecodeAddr(a[1], skip_chksum_enc=bool(a[0])),
                     direct=ad(lambda a: _bu.EthAddrDecoder.DecodeAddr(a[1], skip_chksum_enc=bool(a[0])),
                               lambda a, d: first(hlen(d, 20, "ETH"),
                                                  nocase(a[1], "0x" + d.hex(), "ETH") if a[0] else exact(a[1], "0x" + a_eip55(d.hex()), "ETH")))),
    "addr_icx": Func(model=lambda m, a: m.call("addr.icx_decode", a[0]), impl=lambda a: _bu.IcxAddrDecoder.DecodeAddr(a[0]),
                     direct=ad(lambda a: _bu.IcxAddrDecoder.DecodeAddr(a[0]),
                               lambda a, d: first(hlen(d, 20, "ICX"), None if a[0][:2] == "hx" else "ICX: prefix", nocase(a[0][2:], d.hex(), "ICX")))),
    "addr_near": Func(model=lambda m, a: m.call("addr.near_decode", a[0]), impl=lambda a: _bu.NearAddrDecoder.DecodeAddr(a[0]),
                      direct=ad(lambda a: _bu.NearAddrDecoder.DecodeAddr(a[0]),
                                lambda a, d: first(keyok(2, d, "NEAR"), nocase(a[0], d.hex(), "NEAR")))),
    "addr_sui": Func(model=lambda m, a: m.call("addr.sui_decode", a[0]), impl=lambda a: _bu.SuiAddrDecoder.DecodeAddr(a[0]),
                     direct=ad(lambda a: _bu.SuiAddrDecoder.DecodeAddr(a[0]),
                               lambda a, d: first(hlen(d, 32, "SUI"), None if a[0][:2] == "0x" else "SUI: prefix", nocase(a[0][2:], d.hex(), "SUI")))),
    "addr_aptos": Func(model=lambda m, a: m.call("addr.aptos_decode", a[0]), impl=lambda a: _bu.AptosAddrDecoder.DecodeAddr(a[0]),
                       direct=ad(lambda a: _bu.AptosAddrDecoder.DecodeAddr(a[0]), _aptos_re)),
    # ---- Bech32 families
    # [hrp, s]
    "addr_atom": Func(model=lambda m, a: m.call("addrbech.atom_decode", a[0], a[1]), impl=lambda a: _bu.AtomAddrDecoder.DecodeAddr(a[1], hrp=a[0]),
                      direct=ad(lambda a: _bu.AtomAddrDecoder.DecodeAddr(a[1], hrp=a[0]),
                                lambda a, d: first(hlen(d, 20, "ATOM"), b32case(a[1], a_bech32(a[0], d), "ATOM")))),
    # [0 P | 1 X, s]
    "addr_avax": Func(model=lambda m, a: m.call("addrbech.avax_decode", a[0], a[1]), impl=lambda a: A_AVAX[a[0]][2].DecodeAddr(a[1]),
                      direct=ad(lambda a: A_AVAX[a[0]][2].DecodeAddr(a[1]),
                                lambda a, d: first(hlen(d, 20, "AVAX"), b32case(a[1], a_bech32("avax", d), "AVAX", A_AVAX[a[0]][0])))),
    "addr_egld": Func(model=lambda m, a: m.call("addrbech.egld_decode", a[0]), impl=lambda a: _bu.EgldAddrDecoder.DecodeAddr(a[0]),
                      direct=ad(lambda a: _bu.EgldAddrDecoder.DecodeAddr(a[0]),
                                lambda a, d: first(keyok(2, d, "EGLD"), b32case(a[0], a_bech32("erd", d), "EGLD")))),
    "addr_zil": Func(model=lambda m, a: m.call("addrbech.zil_decode", a[0]), impl=lambda a: _bu.ZilAddrDecoder.DecodeAddr(a[0]),
                     direct=ad(lambda a: _bu.ZilAddrDecoder.DecodeAddr(a[0]),
                               lambda a, d: first(hlen(d, 20, "ZIL"), b32case(a[0], a_bech32("zil", d), "ZIL")))),
    # [0 inj | 1 okex | 2 one, s]
    "addr_ethb32": Func(model=lambda m, a: m.call("addrbech.ethb32_decode", a[0], a[1]), impl=lambda a: A_ETHB32[a[0]][1].DecodeAddr(a[1]),
                        direct=ad(lambda a: A_ETHB32[a[0]][1].DecodeAddr(a[1]),
                                  lambda a, d: first(hlen(d, 20, "ETH-BECH32"), b32case(a[1], a_bech32(A_ETHB32[a[0]][0], d), "ETH-BECH32")))),
    # [hrp, s]
    "addr_p2wpkh": Func(model=lambda m, a: m.call("addrbech.p2wpkh_decode", a[0], a[1]), impl=lambda a: _bu.P2WPKHAddrDecoder.DecodeAddr(a[1], hrp=a[0]),
                        direct=ad(lambda a: _bu.P2WPKHAddrDecoder.DecodeAddr(a[1], hrp=a[0]),
                                  lambda a, d: first(hlen(d, 20, "P2WPKH"), b32case(a[1], a_segwit(a[0], 0, d), "P2WPKH")))),
    "addr_p2tr": Func(model=lambda m, a: m.call("addrbech.p2tr_decode", a[0], a[1]), impl=lambda a: _bu.P2TRAddrDecoder.DecodeAddr(a[1], hrp=a[0]),
                      direct=ad(lambda a: _bu.P2TRAddrDecoder.DecodeAddr(a[1], hrp=a[0]),
                                lambda a, d: first(hlen(d, 32, "P2TR"), b32case(a[1], a_segwit(a[0], 1, d), "P2TR")))),
    # [hrp, net_ver, s]
    "addr_bch": Func(model=lambda m, a: m.call("addrbech.bch_decode", a[0], a[1], a[2]),
                     impl=lambda a: _bu.BchP2PKHAddrDecoder.DecodeAddr(a[2], hrp=a[0], net_ver=a[1]),
                     direct=ad(lambda a: _bu.BchP2PKHAddrDecoder.DecodeAddr(a[2], hrp=a[0], net_ver=a[1]),
                               lambda a, d: first(hlen(d, 20, "BCH"), b32case(a[2], a_cash(a[0], a[1], d), "BCH")))),
    # ---- Base32 families
    "addr_algo": Func(model=lambda m, a: m.call("addrtext.algo_decode", a[0]), impl=lambda a: _bu.AlgoAddrDecoder.DecodeAddr(a[0]),
                      direct=ad(lambda a: _bu.AlgoAddrDecoder.DecodeAddr(a[0]),
                                lambda a, d: first(keyok(2, d, "ALGO"), exact(a[0], a_algo(d), "ALGO")))),
    # [addr type, s]
    "addr_xlm": Func(model=lambda m, a: m.call("addrtext.xlm_decode", a[0], a[1]), impl=lambda a: _bu.XlmAddrDecoder.DecodeAddr(a[1], addr_type=_XlmT(a[0])),
                     direct=ad(lambda a: _bu.XlmAddrDecoder.DecodeAddr(a[1], addr_type=_XlmT(a[0])),
                               lambda a, d: first(keyok(2, d, "XLM"), exact(a[1], a_xlm(a[0], d), "XLM")))),
    "addr_fil": Func(model=lambda m, a: m.call("addrtext.fil_decode", a[0]), impl=lambda a: _bu.FilSecp256k1AddrDecoder.DecodeAddr(a[0]),
                     direct=ad(lambda a: _bu.FilSecp256k1AddrDecoder.DecodeAddr(a[0]),
                               lambda a, d: first(hlen(d, 20, "FIL"), exact(a[0], a_fil(d), "FIL")))),
    "addr_nano": Func(model=lambda m, a: m.call("addrtext.nano_decode", a[0]), impl=lambda a: _bu.NanoAddrDecoder.DecodeAddr(a[0]),
                      direct=ad(lambda a: _bu.NanoAddrDecoder.DecodeAddr(a[0]),
                                lambda a, d: first(keyok(3, d, "NANO"), exact(a[0], a_nano(d), "NANO")))),
    "addr_nim": Func(model=lambda m, a: m.call("addrtext.nim_decode", a[0]), impl=lambda a: _bu.NimAddrDecoder.DecodeAddr(a[0]),
                     direct=ad(lambda a: _bu.NimAddrDecoder.DecodeAddr(a[0]),
                               lambda a, d: first(hlen(d, 20, "NIM"), exact(a[0].replace(" ", ""), a_nim(d, False), "NIM (spaces ignored)")))),
    # [format, s]
    "addr_substrate": Func(model=lambda m, a: m.call("addrtext.substrate_decode", 2, a[0], a[1]),
                           impl=lambda a: _bu.SubstrateEd25519AddrDecoder.DecodeAddr(a[1], ss58_format=a[0]),
                           direct=ad(lambda a: _bu.SubstrateEd25519AddrDecoder.DecodeAddr(a[1], ss58_format=a[0]),
                                     lambda a, d: first(keyok(2, d, "SUBSTRATE"), exact(a[1], _c11.ss58_ref(d, a[0]), "SUBSTRATE")))),
    # ---- Monero: [s, net_ver, payment id | None]
    "addr_xmr": Func(model=lambda m, a: m.call("cardmon.xmr_addr_decode", a[0], a[1], _opt(a[2])), impl=_xmr_impl,
                     direct=ad(_xmr_impl, lambda a, d: first(hlen(d, 64, "XMR"),
                                                             None if a[2] is None or len(a[2]) == 8 else "XMR integrated: accepted with a %d-byte payment id argument" % len(a[2]),
                                                             exact(a[0], a_xmr(a[1], d + (a[2] or b"")),
                                                             "XMR integrated (payment id %s)" % a[2].hex() if a[2] is not None else "XMR")))),
    # ---- Cardano: [net index, s]
    "addr_ada_shelley": Func(model=lambda m, a: m.call("cardmon.ada_shelley_decode", a[0], a[1]),
                             impl=lambda a: _bu.AdaShelleyAddrDecoder.DecodeAddr(a[1], net_tag=A_TAGS[a[0]]),
                             direct=ad(lambda a: _bu.AdaShelleyAddrDecoder.DecodeAddr(a[1], net_tag=A_TAGS[a[0]]),
                                       lambda a, d: first(hlen(d, 56, "ADA-SHELLEY"),
                                                          b32case(a[1], a_bech32(ADA_HRP[a[0]][0], bytes([ADA_TAG[a[0]]]) + d), "ADA-SHELLEY")))),
    "addr_ada_staking": Func(model=lambda m, a: m.call("cardmon.ada_staking_decode", a[0], a[1]),
                             impl=lambda a: _bu.AdaShelleyStakingAddrDecoder.DecodeAddr(a[1], net_tag=A_TAGS[a[0]]),
                             direct=ad(lambda a: _bu.AdaShelleyStakingAddrDecoder.DecodeAddr(a[1], net_tag=A_TAGS[a[0]]),
                                       lambda a, d: first(hlen(d, 28, "ADA-STAKING"),
                                                          b32case(a[1], a_bech32(ADA_HRP[a[0]][1], bytes([0xE0 | ADA_TAG[a[0]]]) + d), "ADA-STAKING")))),
    "addr_ada_byron": Func(model=lambda m, a: m.call("cardmon.ada_byron_decode", a[0]), impl=lambda a: _bu.AdaByronAddrDecoder.DecodeAddr(a[0]),
                           direct=ad(lambda a: _bu.AdaByronAddrDecoder.DecodeAddr(a[0]), _byron_direct)),
}
ALPH58 = [_bu.Base58Alphabets.BITCOIN, _bu.Base58Alphabets.RIPPLE]
FUNCS.update(AFUNCS)


# ------------------------------------------------------------------ generators (address level)

def _keys(ctx, n):
    rng = ctx.rng
    out = []
    for i in range(n):
        k = rng.randrange(1, _S.n)
        seed = rbytes(rng, 32)
        out.append((a_secp(k), a_ed(seed), a_edb(seed), rbytes(rng, 20), rbytes(rng, 32)))
    return out


def _cases(s):
    """case variants of a text"""
    return [("upper", s.upper()), ("lower", s.lower()), ("mixed", "".join(c.upper() if i % 3 else c.lower() for i, c in enumerate(s)))]


def gen_addr_b58(ctx, keys):
    rng = ctx.rng
    for pc, ed, _edb, h, h32 in keys:
        # Base58Check(prefix ++ digest): payload length, prefix, alphabet
        for alph in (0, 1):
            for nv in (b"\x00", b"\x6f", b"\x1c\xb8", b""):
                good = a_b58check(nv + h, A_ALPH[alph])
                ctx.run("addr_p2pkh", [alph, nv, good], "valid")
                for tag, pl in (("short", nv + h[:-1]), ("long", nv + h + b"\x00"), ("prefix-only", nv), ("empty", b""),
                                ("prefix-flip", bytes(x ^ 1 for x in nv) + h), ("prefix-longer", nv + b"\x00" + h[:-1]),
                                ("prefix-dropped", h if nv else b"\x00" + h[:-1]), ("32-byte-digest", nv + h32)):
                    ctx.run("addr_p2pkh", [alph, nv, a_b58check(pl, A_ALPH[alph])], tag)
                ctx.run("addr_p2pkh", [1 - alph, nv, good], "other-alphabet")
        for nv in (b"\x05", b"\xc4"):
            ctx.run("addr_p2sh", [nv, a_b58check(nv + h)], "valid")
            for tag, pl in (("short", nv + h[:-1]), ("long", nv + h + b"\x00"), ("p2pkh-version", b"\x00" + h)):
                ctx.run("addr_p2sh", [nv, a_b58check(pl)], tag)
        ctx.run("addr_xrp", [a_b58check(b"\x00" + h, XRP58)], "valid")
        for tag, s in (("short", a_b58check(b"\x00" + h[:-1], XRP58)), ("long", a_b58check(b"\x00" + h + b"\x00", XRP58)),
                       ("version-1", a_b58check(b"\x01" + h, XRP58)), ("btc-alphabet", a_b58check(b"\x00" + h))):
            ctx.run("addr_xrp", [s], tag)
        for i in range(3):
            p = A_XTZ[i].value
            ctx.run("addr_xtz", [i, a_b58check(p + h)], "valid")
            ctx.run("addr_xtz", [(i + 1) % 3, a_b58check(p + h)], "other-prefix")
            for tag, pl in (("short", p + h[:-1]), ("long", p + h + b"\x00"), ("prefix-truncated", p[:2] + h + b"\x00"),
                            ("32-byte-digest", p + h32)):
                ctx.run("addr_xtz", [i, a_b58check(pl)], tag)
        for ver in (b"\x17", b"\x35"):
            ctx.run("addr_neo", [ver, a_b58check(ver + h)], "valid")
            for tag, v, pl in (("short", ver, ver + h[:-1]), ("long", ver, ver + h + b"\x00"), ("other-version", ver, b"\x18" + h),
                               ("two-byte-version-arg", ver + ver, ver + ver + h), ("empty-version-arg", b"", h)):
                ctx.run("addr_neo", [v, a_b58check(pl)], tag)
        ctx.run("addr_trx", [a_b58check(b"\x41" + h)], "valid")
        for tag, pl in (("short", b"\x41" + h[:-1]), ("long", b"\x41" + h + b"\x00"), ("prefix-a0", b"\xa0" + h), ("no-prefix", h + b"\x00")):
            ctx.run("addr_trx", [a_b58check(pl)], tag)
        # own checksum: EOS, ERGO; none: SOL
        def eos(pub, pre="EOS", ck=None):
            return pre + a_b58enc(pub + (_orc.ripemd160(pub)[:4] if ck is None else ck))
        ctx.run("addr_eos", [eos(pc)], "valid")
        for tag, s in (("invalid-key", eos(BAD_SECP)), ("32-byte-key", eos(pc[1:])), ("34-byte-key", eos(pc + b"\x00")),
                       ("uncompressed-key", eos(_S.ser_u(_S.deser(pc)))), ("prefix-lower", eos(pc, "eos")), ("no-prefix", eos(pc, "")),
                       ("prefix-EO", eos(pc, "EO")), ("sha-checksum", eos(pc, ck=a_dsha4(pc))), ("x-only-02", eos(b"\x02" + pc[1:]))):
            ctx.run("addr_eos", [s], tag)
        def ergo(net, pub, ty=1):
            pl = bytes([ty + net]) + pub
            return a_b58enc(pl + a_blake(pl, 32)[:4])
        for net in (0, 16):
            ctx.run("addr_ergo", [net, ergo(net, pc)], "valid")
            ctx.run("addr_ergo", [16 - net, ergo(net, pc)], "other-net")
            for tag, s in (("p2sh-type", ergo(net, pc, 2)), ("type-0", ergo(net, pc, 0)), ("invalid-key", ergo(net, BAD_SECP)),
                           ("32-byte-key", ergo(net, pc[1:])), ("34-byte-key", ergo(net, pc + b"\x00"))):
                ctx.run("addr_ergo", [net, s], tag)
        ctx.run("addr_sol", [a_b58enc(ed)], "valid")
        for tag, s in (("invalid-key", a_b58enc(BAD_ED)), ("31-bytes", a_b58enc(ed[1:])), ("33-bytes", a_b58enc(ed + b"\x01")),
                       ("zero-prefixed-31", a_b58enc(b"\x00" + ed[:31])), ("extra-leading-1", "1" + a_b58enc(ed))):
            ctx.run("addr_sol", [s], tag)
        # hex formats
        e = "0x" + a_eip55(h.hex())
        for skip in (0, 1):
            ctx.run("addr_eth", [skip, e], "valid")
            for tag, s in _cases(e) + [("prefix-0X", "0X" + e[2:]), ("no-prefix", e[2:]), ("19-bytes", e[:-2]), ("21-bytes", e + "00"),
                                       ("39-digits", e[:-1]), ("non-hex", e[:-1] + "g"), ("fullwidth-digit", e[:-1] + "１"),
                                       ("one-case-flipped", e[:2] + "".join(c.swapcase() if i == next((j for j, x in enumerate(e[2:]) if x.isalpha()), 0) else c
                                                                          for i, c in enumerate(e[2:])))]:
                ctx.run("addr_eth", [skip, s], tag)
        for fn, pre, pl in (("addr_icx", "hx", h), ("addr_near", "", ed), ("addr_sui", "0x", h32), ("addr_aptos", "0x", h32)):
            s = pre + pl.hex()
            ctx.run(fn, [s], "valid")
            for tag, t in _cases(s) + [("short", s[:-2]), ("long", s + "00"), ("odd", s[:-1]), ("non-hex", s[:-1] + "x"),
                                       ("no-prefix", s[len(pre):] if pre else "0x" + s), ("space", s[:-1] + " ")]:
                ctx.run(fn, [t], tag)
        ctx.run("addr_near", [BAD_ED.hex()], "invalid-key")
        z = "0x" + (b"\x00\x0a" + h32[2:]).hex()
        for tag, t in (("untrimmed", z), ("trimmed", "0x" + z[2:].lstrip("0")), ("half-trimmed", "0x" + z[4:]), ("empty-body", "0x"),
                       ("single-zero", "0x0"), ("65-digits", "0x0" + z[2:]), ("upper-trimmed", "0x" + z[2:].lstrip("0").upper())):
            ctx.run("addr_aptos", [t], tag)


def gen_addr_bech32(ctx, keys):
    rng = ctx.rng
    for pc, ed, _edb, h, h32 in keys:
        def fixed(fn, mk, hrp, good, bad_lens, key=False):
            """[mk(s)]: the argument list for string s"""
            s = a_bech32(hrp, good)
            ctx.run(fn, mk(s), "valid")
            for tag, t in _cases(s):
                ctx.run(fn, mk(t), tag)
            for n in bad_lens:
                ctx.run(fn, mk(a_bech32(hrp, rbytes(rng, n))), "payload-%d-bytes" % n)
            ctx.run(fn, mk(a_bech32(hrp, good, BECH32M_CONST)), "bech32m-checksum")
            ctx.run(fn, mk(a_bech32(hrp, good, flip=1)), "last-symbol-bit-flipped")
            ctx.run(fn, mk(ref_bech32_encode(hrp, ref_convertbits(good, 8, 5) + [0], BECH32_CONST)), "extra-zero-symbol")
            ctx.run(fn, mk(a_bech32(hrp + "x", good)), "other-hrp")
            ctx.run(fn, mk(a_bech32(hrp.upper(), good)), "upper-hrp-checksum")
            if key:
                ctx.run(fn, mk(a_bech32(hrp, BAD_ED)), "invalid-key")
        for hrp in ("cosmos", "band", "a1b"):
            fixed("addr_atom", lambda s, hrp=hrp: [hrp, s], hrp, h, (0, 19, 21, 32))
        for x, (pre, hrp, _cls) in enumerate(A_AVAX):
            fixed("addr_avax", lambda s, x=x, pre=pre: [x, pre + s], hrp, h, (19, 21))
            good = a_bech32(hrp, h)
            for tag, t in (("other-chain-prefix", A_AVAX[1 - x][0] + good), ("no-prefix", good), ("prefix-lower", pre.lower() + good),
                           ("prefix-twice", pre + pre + good), ("prefix-upper-body", pre + good.upper())):
                ctx.run("addr_avax", [x, t], tag)
        fixed("addr_egld", lambda s: [s], "erd", ed, (31, 33, 20), key=True)
        fixed("addr_zil", lambda s: [s], "zil", h, (19, 21, 32))
        for w, (hrp, _cls) in enumerate(A_ETHB32):
            fixed("addr_ethb32", lambda s, w=w: [w, s], hrp, h, (0, 19, 21, 32))
            ctx.run("addr_ethb32", [(w + 1) % 3, a_bech32(hrp, h)], "other-coin")
        # SegWit: version x program length
        for hrp in ("bc", "tb"):
            for v, n in ((0, 20), (0, 32), (1, 20), (1, 32), (1, 33), (1, 31), (2, 32), (16, 20), (0, 2)):
                prog = rbytes(rng, n)
                for const in (BECH32_CONST, BECH32M_CONST):
                    s = a_segwit(hrp, v, prog, const)
                    tag = "v%d-%dB-%s" % (v, n, "b32" if const == BECH32_CONST else "b32m")
                    ctx.run("addr_p2wpkh", [hrp, s], tag)
                    ctx.run("addr_p2tr", [hrp, s], tag)
            s0, s1 = a_segwit(hrp, 0, h), a_segwit(hrp, 1, h32)
            for tag, t in _cases(s0):
                ctx.run("addr_p2wpkh", [hrp, t], tag)
            for tag, t in _cases(s1):
                ctx.run("addr_p2tr", [hrp, t], tag)
            ctx.run("addr_p2wpkh", ["bc" if hrp == "tb" else "tb", s0], "other-hrp")
            ctx.run("addr_p2tr", ["bc" if hrp == "tb" else "tb", s1], "other-hrp")
        # CashAddr
        for hrp in ("bitcoincash", "bchtest"):
            for nv in (b"\x00", b"\x08"):
                s = a_cash(hrp, nv, h)
                ctx.run("addr_bch", [hrp, nv, s], "valid")
                ctx.run("addr_bch", [hrp, bytes([nv[0] ^ 8]), s], "other-net-ver")
                ctx.run("addr_bch", [hrp, nv + nv, s], "two-byte-net-ver-arg")
                ctx.run("addr_bch", [hrp, b"", s], "empty-net-ver-arg")
                for tag, t in _cases(s) + [("no-prefix", s.split(":")[1])]:
                    ctx.run("addr_bch", [hrp, nv, t], tag)
                for n in (0, 19, 21, 24, 32):
                    ctx.run("addr_bch", [hrp, nv, a_cash(hrp, nv, rbytes(rng, n))], "payload-%d-bytes" % n)
                ctx.run("addr_bch", [hrp, nv, a_cash(hrp, bytes([nv[0] | 3]), h32)], "size-bits-32")


def gen_addr_base32(ctx, keys):
    rng = ctx.rng
    for pc, ed, edb, h, h32 in keys:
        s = a_algo(ed)
        ctx.run("addr_algo", [s], "valid")
        for sp in (1, 2, 3):
            ctx.run("addr_algo", [a_algo(ed, sp)], "spare-bits-%d" % sp)
        for tag, t in (("explicit-padding", s + "======"), ("padding-5", s + "====="), ("lower", s.lower()), ("invalid-key", a_algo(BAD_ED)),
                       ("31-byte-key", a_algo(ed[1:])), ("33-byte-key", a_algo(ed + b"\x00")), ("sha256-checksum", a_algo(ed, ck=hashlib.sha256(ed).digest()[-4:])),
                       ("first-4-checksum", a_algo(ed, ck=_orc.sha512_256(ed)[:4])), ("space", s[:29] + " " + s[29:]), ("digit-1", s[:-1] + "1")):
            ctx.run("addr_algo", [t], tag)
        for t in (48, 144):
            s = a_xlm(t, ed)
            ctx.run("addr_xlm", [t, s], "valid")
            ctx.run("addr_xlm", [192 - t, s], "other-type")
            for tag, u in (("explicit-padding", s + "========"), ("lower", s.lower()), ("invalid-key", a_xlm(t, BAD_ED)), ("31-byte-key", a_xlm(t, ed[1:])),
                           ("33-byte-key", a_xlm(t, ed + b"\x00")), ("type-flip", a_xlm(t ^ 8, ed)),
                           ("crc-big-endian", a_b32enc(bytes([t]) + ed + a_crc16_xmodem(bytes([t]) + ed).to_bytes(2, "big")))):
                ctx.run("addr_xlm", [t, u], tag)
        s = a_fil(h)
        ctx.run("addr_fil", [s], "valid")
        for sp in range(1, 8):
            ctx.run("addr_fil", [a_fil(h, sp)], "spare-bits-%d" % sp)
        for tag, t in (("explicit-padding", s + "="), ("padding-2", s + "=="), ("upper-body", s[:2] + s[2:].upper()), ("upper-f", "F" + s[1:]),
                       ("testnet-t", "t" + s[1:]), ("type-0", a_fil(h, ty=0)), ("type-2", a_fil(h, ty=2)), ("type-3-bls", a_fil(h, ty=3)),
                       ("type-char-2-checksum-1", a_fil(h, ty=2, cty=1)), ("19-byte-hash", a_fil(h[1:])), ("21-byte-hash", a_fil(h + b"\x00")),
                       ("32-byte-hash", a_fil(h32)), ("no-type", "f" + s[2:])):
            ctx.run("addr_fil", [t], tag)
        s = a_nano(edb)
        ctx.run("addr_nano", [s], "valid")
        for pb in (1, 2, 4, 8, 15):
            ctx.run("addr_nano", [a_nano(edb, pad=bytes([0, 0, pb]))], "pad-bits-%d" % pb)
        for tag, t in (("xrb-prefix", "xrb_" + s[5:]), ("no-prefix", s[5:]), ("upper", s.upper()), ("invalid-key", a_nano(BAD_ED)),
                       ("checksum-not-reversed", a_nano(edb, ck=a_blake(edb, 5))), ("59-symbols", s[:-1]), ("61-symbols", s + "1"),
                       ("explicit-padding", s + "========"), ("symbol-outside-alphabet", s[:-1] + "l"), ("prefix-upper", "NANO_" + s[5:])):
            ctx.run("addr_nano", [t], tag)
        s = a_nim(h)
        ctx.run("addr_nim", [s], "valid")
        e = a_b32enc(h, NIM32)
        for tag, t in (("no-spaces", s.replace(" ", "")), ("extra-spaces", "  " + s.replace(" ", "   ") + " "), ("lower", s.lower()),
                       ("check-digits+1", s[:2] + "%02d" % ((int(s[2:4]) + 1) % 100) + s[4:]), ("check-digits+97", s[:2] + "%02d" % ((int(s[2:4]) + 97) % 100) + s[4:]),
                       ("31-symbols", "NQ" + a_nim_check(e[:-1]) + e[:-1]), ("33-symbols", "NQ" + a_nim_check(e + "0") + e + "0"),
                       ("letter-I", "NQ" + a_nim_check("I" + e[1:]) + "I" + e[1:]), ("prefix-nq", "nq" + s[2:]), ("tab-separated", s.replace(" ", "\t")),
                       ("explicit-padding", s + "========")):
            ctx.run("addr_nim", [t], tag)
        for fmt in (0, 2, 42, 63, 64, 255, 16383):
            s = _c11.ss58_ref(ed, fmt)
            ctx.run("addr_substrate", [fmt, s], "valid")
            ctx.run("addr_substrate", [(fmt + 1) % 16384, s], "other-format")
        for tag, raw in (("31-byte-key", b"\x2a" + ed[1:]), ("33-byte-key", b"\x2a" + ed + b"\x00"), ("invalid-key", b"\x2a" + BAD_ED),
                         ("reserved-46", b"\x2e" + ed), ("two-byte-form-of-42", b"\x4a\x80" + ed), ("first-byte-128", b"\x80" + ed)):
            ctx.run("addr_substrate", [42, _c11.ss58_raw(raw)], tag)


XMR_NETS = [(b"\x12", b"\x13", b"\x2a"), (b"\x18", b"\x19", b"\x24"), (b"\x35", b"\x36", b"\x3f")]


def gen_addr_xmr(ctx, keys):
    rng = ctx.rng
    for i, (_pc, ps, pv, _h, _h32) in enumerate(keys):
        std, integ, sub = XMR_NETS[i % 3]
        pid, pid2 = rbytes(rng, 8), rbytes(rng, 8)
        plain, with_id = ps + pv, ps + pv + pid
        for net in (std, sub):
            ctx.run("addr_xmr", [a_xmr(net, plain), net, None], "standard-valid")
            ctx.run("addr_xmr", [a_xmr(net, with_id), net, None], "standard-decoder-on-payload-with-id")
        ctx.run("addr_xmr", [a_xmr(integ, with_id), integ, pid], "integrated-valid")
        ctx.run("addr_xmr", [a_xmr(integ, with_id), integ, pid2], "integrated-other-id")
        ctx.run("addr_xmr", [a_xmr(integ, with_id), integ, None], "integrated-text-standard-decoder")
        ctx.run("addr_xmr", [a_xmr(integ, with_id), integ, pid[:7]], "integrated-7-byte-id-arg")
        ctx.run("addr_xmr", [a_xmr(integ, with_id), integ, pid + b"\x00"], "integrated-9-byte-id-arg")
        ctx.run("addr_xmr", [a_xmr(integ, with_id), integ, b""], "integrated-empty-id-arg")
        # the payment id is MISSING from the payload: no integrated encoder output looks like this
        ctx.run("addr_xmr", [a_xmr(integ, plain), integ, pid], "integrated-payload-without-id")
        ctx.run("addr_xmr", [a_xmr(integ, plain), integ, b""], "integrated-payload-without-id-empty-arg")
        ctx.run("addr_xmr", [a_xmr(std, plain), std, pid], "standard-text-integrated-decoder")
        for tag, body in (("63-bytes", plain[:-1]), ("65-bytes", plain + b"\x00"), ("71-bytes", with_id[:-1]), ("73-bytes", with_id + b"\x00"),
                          ("80-bytes", with_id + pid), ("one-key", ps), ("empty-body", b"")):
            ctx.run("addr_xmr", [a_xmr(integ, body), integ, pid], "integrated-" + tag)
            ctx.run("addr_xmr", [a_xmr(std, body), std, None], "standard-" + tag)
        ctx.run("addr_xmr", [a_xmr(std, BAD_ED + pv), std, None], "invalid-spend-key")
        ctx.run("addr_xmr", [a_xmr(std, ps + BAD_ED), std, None], "invalid-view-key")
        ctx.run("addr_xmr", [a_xmr(integ, ps + BAD_ED + pid), integ, pid], "integrated-invalid-view-key")
        ctx.run("addr_xmr", [a_xmr(integ, plain), std, None], "other-net-byte")
        ctx.run("addr_xmr", [a_xmr(std, plain), std + std, None], "two-byte-net-arg")
        ctx.run("addr_xmr", [a_xmr(std + std, plain), std + std, None], "two-byte-net")
        ctx.run("addr_xmr", [a_xmr(b"", std + plain[1:]), b"", None], "empty-net-arg")
        s = a_xmr(std, plain)
        ctx.run("addr_xmr", [s[:-1] + ("1" if s[-1] != "1" else "2"), std, None], "checksum-damaged")


def gen_addr_ada(ctx, keys):
    rng = ctx.rng
    for _pc, _ed, _edb, h, h32 in keys:
        kh1, kh2 = h + h32[:8], h32[4:]
        for net in (0, 1):
            hrp, shrp = ADA_HRP[net]
            tag_ = ADA_TAG[net]
            pay = a_bech32(hrp, bytes([tag_]) + kh1 + kh2)
            stk = a_bech32(shrp, bytes([0xE0 | tag_]) + kh2)
            ctx.run("addr_ada_shelley", [net, pay], "valid")
            ctx.run("addr_ada_staking", [net, stk], "valid")
            ctx.run("addr_ada_shelley", [1 - net, pay], "other-net")
            ctx.run("addr_ada_staking", [1 - net, stk], "other-net")
            for t, s in _cases(pay):
                ctx.run("addr_ada_shelley", [net, s], t)
            for t, s in _cases(stk):
                ctx.run("addr_ada_staking", [net, s], t)
            for ty in range(1, 16):          # the other header types of CIP-19 under the payment HRP / length
                ctx.run("addr_ada_shelley", [net, a_bech32(hrp, bytes([ty << 4 | tag_]) + kh1 + kh2)], "header-type-%d" % ty)
                if ty != 14:
                    ctx.run("addr_ada_staking", [net, a_bech32(shrp, bytes([ty << 4 | tag_]) + kh2)], "header-type-%d" % ty)
            for t, s in (("other-net-tag", a_bech32(hrp, bytes([1 - tag_]) + kh1 + kh2)), ("net-tag-2", a_bech32(hrp, bytes([2]) + kh1 + kh2)),
                         ("staking-part-missing", a_bech32(hrp, bytes([tag_]) + kh1)), ("enterprise-type-6", a_bech32(hrp, bytes([0x60 | tag_]) + kh1)),
                         ("55-bytes", a_bech32(hrp, bytes([tag_]) + kh1 + kh2[:-1])), ("57-bytes", a_bech32(hrp, bytes([tag_]) + kh1 + kh2 + b"\x00")),
                         ("staking-hrp", a_bech32(shrp, bytes([tag_]) + kh1 + kh2)), ("bech32m", a_bech32(hrp, bytes([tag_]) + kh1 + kh2, BECH32M_CONST)),
                         ("staking-address", stk)):
                ctx.run("addr_ada_shelley", [net, s], t)
            for t, s in (("other-net-tag", a_bech32(shrp, bytes([0xE0 | (1 - tag_)]) + kh2)), ("payment-part-extra", a_bech32(shrp, bytes([0xE0 | tag_]) + kh1 + kh2)),
                         ("27-bytes", a_bech32(shrp, bytes([0xE0 | tag_]) + kh2[:-1])), ("29-bytes", a_bech32(shrp, bytes([0xE0 | tag_]) + kh2 + b"\x00")),
                         ("payment-hrp", a_bech32(hrp, bytes([0xE0 | tag_]) + kh2)), ("payment-address", pay)):
                ctx.run("addr_ada_staking", [net, s], t)
        # Byron
        rh, path = kh2, rbytes(rng, rng.choice([10, 26, 30]))
        for tag0, pth in (("icarus", None), ("legacy", path)):
            pl = a_byron_payload(rh, pth)
            ctx.run("addr_ada_byron", [a_byron(pl)], tag0 + "-valid")
            for t, s in (("trailing-byte", a_byron(pl, junk=b"\x00")), ("trailing-bytes", a_byron(pl, junk=rbytes(rng, 5))),
                         ("payload-trailing-byte", a_byron(a_byron_payload(rh, pth, junk=b"\x00"))),
                         ("crc-wrong", a_byron(pl, crc=a_crc32(pl) ^ 1)), ("crc-8-byte-head", a_byron(pl, crc_width=8)), ("tag-25", a_byron(pl, tag=25)),
                         ("indefinite-array", a_byron(pl, indefinite=True)), ("type-1-script", a_byron(a_byron_payload(rh, pth, ty=1))),
                         ("type-2-redeem", a_byron(a_byron_payload(rh, pth, ty=2))), ("root-27-bytes", a_byron(a_byron_payload(rh[1:], pth))),
                         ("root-29-bytes", a_byron(a_byron_payload(rh + b"\x00", pth))),
                         ("network-magic-attr", a_byron(a_byron_payload(rh, pth, extra_attrs=[(cb_uint(2), cb_bytes(cb_uint(1097911063)))]))),
                         ("unknown-attr-3", a_byron(a_byron_payload(rh, pth, extra_attrs=[(cb_uint(3), cb_bytes(b"\x01"))]))),
                         ("outer-3-items", a_b58enc(cb_array([cb_tag(24, cb_bytes(pl)), cb_uint(a_crc32(pl)), cb_uint(0)]))),
                         ("payload-not-tagged", a_b58enc(cb_array([cb_bytes(pl), cb_uint(a_crc32(pl))]))),
                         ("truncated", a_b58enc(cb_array([cb_tag(24, cb_bytes(pl)), cb_uint(a_crc32(pl))])[:-1]))):
                ctx.run("addr_ada_byron", [s], tag0 + "-" + t)
        for t, attrs in (("attr1-cbor-uint", [(cb_uint(1), cb_bytes(b"\x01"))]), ("attr1-uint-not-bytes", [(cb_uint(1), cb_uint(5))]),
                         ("attr1-cbor-text", [(cb_uint(1), cb_bytes(b"\x61\x41"))]), ("attr1-cbor-list", [(cb_uint(1), cb_bytes(b"\x80"))]),
                         ("attr1-bad-cbor", [(cb_uint(1), cb_bytes(b"\x5f"))]), ("attr2-uint-not-bytes", [(cb_uint(2), cb_uint(7))]),
                         ("attr2-cbor-bytes", [(cb_uint(2), cb_bytes(b"\x41\x00"))]), ("attr1-empty-bytes", [(cb_uint(1), cb_bytes(b""))])):
            ctx.run("addr_ada_byron", [a_byron(cb_array([cb_bytes(rh), cb_map(attrs), cb_uint(0)]))], t)
        for t, raw in (("crc-as-bignum-tag", cb_array([cb_tag(24, cb_bytes(pl)), cb_tag(2, cb_bytes(a_crc32(pl).to_bytes(4, "big")))])),
                       ("type-as-false", cb_array([cb_tag(24, cb_bytes(cb_array([cb_bytes(rh), cb_map([]), b"\xf4"]))),
                                                   cb_uint(a_crc32(cb_array([cb_bytes(rh), cb_map([]), b"\xf4"])))])),
                       ("root-hash-indefinite-bytes", (lambda q: cb_array([cb_tag(24, cb_bytes(q)), cb_uint(a_crc32(q))]))(
                           cb_array([b"\x5f" + cb_bytes(rh[:10]) + cb_bytes(rh[10:]) + b"\xff", cb_map([]), cb_uint(0)]))),
                       ("attr1-item-then-junk", (lambda q: cb_array([cb_tag(24, cb_bytes(q)), cb_uint(a_crc32(q))]))(
                           cb_array([cb_bytes(rh), cb_map([(cb_uint(1), cb_bytes(cb_bytes(b"\x01\x02") + b"\x00"))]), cb_uint(0)]))),
                       ("attr1-null", (lambda q: cb_array([cb_tag(24, cb_bytes(q)), cb_uint(a_crc32(q))]))(
                           cb_array([cb_bytes(rh), cb_map([(cb_uint(1), cb_bytes(b"\xf6"))]), cb_uint(0)]))),
                       ("attrs-array-key", (lambda q: cb_array([cb_tag(24, cb_bytes(q)), cb_uint(a_crc32(q))]))(
                           cb_array([cb_bytes(rh), cb_map([(cb_array([]), cb_bytes(b"\x00")), (cb_uint(1), cb_bytes(cb_bytes(b"\x07")))]), cb_uint(0)]))),
                       ("tag-24-nested-tag", cb_array([cb_tag(24, cb_tag(24, cb_bytes(pl))), cb_uint(a_crc32(pl))])),
                       ("attrs-not-a-map", cb_array([cb_tag(24, cb_bytes(cb_array([cb_bytes(rh), cb_uint(0), cb_uint(0)]))), cb_uint(0)])),
                       ("tag-value-uint", cb_array([cb_tag(24, cb_uint(5)), cb_uint(0)])), ("crc-is-bytes", cb_array([cb_tag(24, cb_bytes(b"\x00")), cb_bytes(b"\x00")])),
                       ("not-an-array", cb_uint(5)), ("empty", b"")):
            ctx.run("addr_ada_byron", [a_b58enc(raw) if raw else ""], t)


def gen_addr_zero_checksum(ctx):
    """valid addresses whose checksum has a zero first or last byte (the 1-in-256 class: a checksum converted
    through an integer or stripped loses it), keys k*G found by search with the reference checksums"""
    import ecref
    E = ecref.ED25519
    P, eds = E.G, []
    for _ in range(ctx.n(700, 3000)):
        eds.append(E.ser(P))
        P = E.add(P, E.G)
    per = ctx.n(2, 5)
    fams = [("addr_xlm", lambda e: [48, a_xlm(48, e)], lambda e: a_crc16_xmodem(bytes([48]) + e).to_bytes(2, "little")),
            ("addr_xlm", lambda e: [144, a_xlm(144, e)], lambda e: a_crc16_xmodem(bytes([144]) + e).to_bytes(2, "little")),
            ("addr_algo", lambda e: [a_algo(e)], lambda e: _orc.sha512_256(e)[-4:]),
            ("addr_nano", lambda e: [a_nano(e)], lambda e: a_blake(e, 5))]
    for fn, mk, ref in fams:
        got = {0: 0, 1: 0}
        for e in eds:
            ck = ref(e)
            side = 0 if ck[0] == 0 else (1 if ck[-1] == 0 else None)
            if side is None or got[side] >= per:
                continue
            got[side] += 1
            ctx.run(fn, mk(e), "zero-%s-checksum-byte" % ("first" if side == 0 else "last"))
            if got[0] >= per and got[1] >= per:
                break


def gen_addr(ctx):
    """address-level acceptance streams; a fixed, small number of keys per family (quick: 2, thorough: 12)"""
    n = ctx.n(2, 12)
    gen_addr_xmr(ctx, [(None, a_ed(rbytes(ctx.rng, 32)), a_ed(rbytes(ctx.rng, 32)), None, None) for _ in range(max(n, 3))])
    keys = _keys(ctx, n)
    gen_addr_b58(ctx, keys)
    gen_addr_bech32(ctx, keys)
    gen_addr_base32(ctx, keys)
    gen_addr_ada(ctx, keys)
    gen_addr_zero_checksum(ctx)
    ctx.note_exhaustive("address decoders: per key every listed structural variant (payload lengths, prefixes / versions / header "
                        "types 0..15, spare bits 1..3 / 1..7, pad bits, optional fields present / missing) for 35 DecodeAddr entry points")


# ------------------------------------------------------------------ known findings (address level)
# The seven findings of the first round (C10-XMR-INTEG-LEN, C10-P2WPKH-LEN, C10-ALGO-NONCANON, C10-FIL-NONCANON,
# C10-NANO-PADBITS, C10-BYRON-TRAILING, C10-BYRON-TYPEERROR) and C10-BYRON-CBOR-LAX of the second are repaired in /repo and recorded as fixed; the models
# follow the repaired code, so their streams are ordinary correspondence cases now and need no predicate.

def generate(ctx):
    import time
    gen_ss58_xmr(ctx)
    gen_addr(ctx)
    parts = [(gen_convert_bits, 0.08), (gen_polymod, 0.05), (gen_bech32, 0.27), (gen_segwit, 0.22), (gen_cash, 0.18),
             (gen_b58_wif, 0.08), (gen_strings, 0.12)]
    total = ctx.budget_s
    for g, share in parts:
        if not ctx.quick and total is not None:
            # thorough tier: every family gets its share of the time budget (the sampling loops stop when it is used up)
            ctx.budget_s = (time.time() - ctx.t0) + share * total
        g(ctx)
    ctx.budget_s = total

"""C04 -- watch-only derivation sees exactly the public side of private derivation (BIP-32/SLIP-0010
secp256k1 and P-256, the ed25519 refusals, the Bip32Base object layer, Electrum v1 and v2-standard).
Khovratovich-Law, Byron legacy, Monero and Substrate belong to other modules."""
from framework import Func
import deriv_ref as R
import ecref
from props.C03 import (CLS, FUEL, HARD, obs, forced_hmac, hm_of, rb, rand_seed, F1_SEED, F1_PATH, F1_EXPECTED,
                       BOUNDARY_IDX, mock_cases, is_f1)

from bip_utils import (Bip32KeyData, Bip32Path, Bip32KeyError, ElectrumV1, ElectrumV2Standard, Bip32Slip10Secp256k1,
                       P2PKHAddrEncoder, CoinsConf)

MANIFEST = {
    "text": "Coq theorems over an abstract group with the Z-module laws as hypotheses: for non-hardened indices CkdPub of "
            "the public key equals the public image of CkdPriv as an equation between results (key, chain code, "
            "failure), ChildKey/DerivePath on the public-only object equal the public half of the private derivation "
            "(whole object: key, chain code, depth, index, fingerprint), the same identity between the standard's "
            "relations, Electrum v1 commutation, refusal of hardened/ed25519 public derivation, and a public-only "
            "Bip32 object never yields a private key along any history of derivations.  Extracted-model/implementation "
            "correspondence on histories of ChildKey/DerivePath/ConvertToPublic/PrivateKey from seeds, raw keys and "
            "extended keys, plus direct private-vs-watch-only comparison incl. extended keys and P2PKH addresses.",
    "note": "Group laws and exactness of the generator's order are hypotheses (no EC library installed); Kholaw, Byron "
            "legacy, Monero, Substrate commutation are other modules; the Bip44 cache defect F6 is outside this model.",
    "technique": "Coq proof (lock-step induction on the two re-hash loops, algebra over the hypothesis record) + "
                 "extracted-model differential run + cross-constructor comparison on the implementation",
    "ref": "7/C04",
}
RULE = ("Parents from seeds (+ random prefix path), raw private keys with arbitrary key data, and extended keys, x "
        "random non-hardened paths (depth 1..4, indices incl. 0 and 2^31-1) on secp256k1 and P-256; hardened indices "
        "and ed25519 for the refusal clause; histories mixing ChildKey, DerivePath, ConvertToPublic, PrivateKey; "
        "Electrum v1 change/address indices incl. boundaries; forced-HMAC cases on the public side.")
TRUSTED = ["group laws (commutative group, scalar action, n*G = 0, zero test) and exact order of G are hypotheses",
           "hmac512, hash160, sha256 and the EC operations are oracles (hashlib, pycryptodome RIPEMD160, ecref/deriv_fastec)"]
ASSUMPTIONS = ["Z-module laws of the curve group", "n is the exact order of the generator", "HMAC-SHA512 output is 64 bytes"]
BUDGET = {"quick": 110, "thorough": 1400}


# ------------------------------------------------------------------ implementation side

def start_obj(curve, st):
    cls = CLS[curve]
    k = st[0]
    if k == 0:
        return cls.FromSeed(st[1])
    if k == 1:
        return cls.FromPrivateKey(st[1], Bip32KeyData(st[2], st[3], st[4], st[5]))
    if k == 2:
        return cls.FromPublicKey(st[1], Bip32KeyData(st[2], st[3], st[4], st[5]))
    if k == 3:
        return cls.FromExtendedKey(st[1])
    raise AssertionError("bad start")


def run_ops(o, ops):
    for op in ops:
        if op[0] == 0:
            o = o.ChildKey(op[1])
        elif op[0] == 1:
            o.ConvertToPublic()
        elif op[0] == 2:
            o = o.DerivePath(Bip32Path(op[2], bool(op[1])))
        elif op[0] == 3:
            o.PrivateKey()
    return o


def impl_script(a):
    curve, mock, st, ops = a
    with forced_hmac(mock):
        return obs(curve, run_ops(start_obj(curve, st), ops))


def model_start(curve, st):
    """The start object as the model API wants it (public keys as points, extended keys decoded by the harness)."""
    if st[0] == 3:
        is_pub, depth, pfp, index, chain, key = R.xkey_fields(st[1])
        st = [2 if is_pub else 1, key, depth, index, chain, pfp]
    if st[0] == 2:
        if curve < 2:
            P = R.WEIER[curve].deser(st[1])
            return [2, [] if P is None else [P[0], P[1]]] + list(st[2:])
        return [2, st[1][1:] if len(st[1]) == 33 else st[1]] + list(st[2:])
    return list(st)


def model_script(m, a):
    curve, mock, st, ops = a
    return m.call("slip10_script", curve, 0, FUEL, [list(x) for x in mock], model_start(curve, st), [list(o) for o in ops])


# ------------------------------------------------------------------ direct: private-then-public vs public-then-derive

def _all_obs(curve, o):
    ext = o.PublicKey().ToExtended() if o.Depth().ToInt() < 256 else None
    addr = None
    if curve == 0:      # the P2PKH encoder takes secp256k1 keys only
        addr = P2PKHAddrEncoder.EncodeKey(o.PublicKey().KeyObject(),
                                          net_ver=CoinsConf.BitcoinMainNet.ParamByKey("p2pkh_net_ver"))
    return obs(curve, o)[:7], ext, addr


def direct_commute(a):
    """args: curve, start (private), prefix path, soft path."""
    curve, st, prefix, path = a
    par = start_obj(curve, st)
    if prefix:
        par = par.DerivePath(Bip32Path(prefix, False))
    # A: derive privately, then take the public half
    A = par.DerivePath(Bip32Path(path, False))
    A.ConvertToPublic()
    # B: take the public half, then derive
    pb = start_obj(curve, st)
    if prefix:
        pb = pb.DerivePath(Bip32Path(prefix, False))
    pb.ConvertToPublic()
    B = pb.DerivePath(Bip32Path(path, False))
    # C: through the extended public key of the parent (a depth-0 extended key must carry the master
    # fingerprint and index 0, and the depth byte limits serialisation to 255)
    dep0_ok = par.Depth().ToInt() > 0 or (par.ParentFingerPrint().ToBytes() == bytes(4) and par.Index().ToInt() == 0)
    if dep0_ok and par.Depth().ToInt() < 256:
        C = CLS[curve].FromExtendedKey(par.PublicKey().ToExtended()).DerivePath(Bip32Path(path, False))
    else:
        C = B
    # D: step by step with ChildKey
    Dd = pb
    for i in path:
        Dd = Dd.ChildKey(i)
    oa, ob, oc, od = (_all_obs(curve, x) for x in (A, B, C, Dd))
    for nm, x in (("convert-then-derive", ob), ("via xpub", oc), ("ChildKey chain", od)):
        if x != oa:
            return "private-then-public %s differs from %s %s" % (_short(oa), nm, _short(x))
    # against the definitions, recomputed independently
    ref = R.Node(curve, par.PrivateKey().Raw().ToBytes(), R.pub_bytes(curve, par.PrivateKey().Raw().ToBytes()),
                 par.ChainCode().ToBytes(), par.Depth().ToInt(), par.Index().ToInt(), par.ParentFingerPrint().ToBytes())
    for i in path:
        ref = ref.child(i)
    exp = (ref.neuter().obs(), R.xpub_string(ref) if ref.depth < 256 else None,
           R.p2pkh_address(ref.pubc) if curve == 0 else None)
    if exp[0] != oa[0]:
        return "watch-only child differs from the standard's public child: %s vs %s" % (_short(oa), _short(exp))
    if exp[1] is not None and exp[1] != oa[1]:
        return "extended public key %s, recomputed %s" % (oa[1], exp[1])
    if exp[2] != oa[2]:
        return "P2PKH address %s, recomputed %s" % (oa[2], exp[2])
    if not B.IsPublicOnly():
        return "object derived from a public-only parent is not public-only"
    try:
        B.PrivateKey()
        return "PrivateKey() of a public-only object returned a key"
    except Bip32KeyError:
        pass
    return None


def _short(x):
    return str(x)[:160]


def impl_commute(a):
    curve, st, prefix, path = a
    pb = start_obj(curve, st)
    if prefix:
        pb = pb.DerivePath(Bip32Path(prefix, False))
    pb.ConvertToPublic()
    return obs(curve, pb.DerivePath(Bip32Path(path, False)))


def model_commute(m, a):
    curve, st, prefix, path = a
    ops = ([[2, 0, list(prefix)]] if prefix else []) + [[1], [2, 0, list(path)]]
    return m.call("slip10_script", curve, 0, FUEL, [], model_start(curve, st), ops)


# ------------------------------------------------------------------ Electrum v1 / v2

def ev1_obj(kb, pub_first):
    o = ElectrumV1.FromPrivateKey(kb)
    if pub_first:
        o = ElectrumV1.FromPublicKey(o.MasterPublicKey().RawCompressed().ToBytes())
    return o


def impl_ev1_pub(a):
    kb, pub_first, change, addr = a
    k = ev1_obj(kb, pub_first).GetPublicKey(change, addr)
    return [k.RawCompressed().ToBytes(), k.RawUncompressed().ToBytes()]


def _ev1_keys(k):
    return [k.RawCompressed().ToBytes(), k.RawUncompressed().ToBytes()]


def _pt(pubc):
    P = ecref.SECP256K1.deser(pubc)
    return [] if P is None else [P[0], P[1]]


def impl_ev1_priv(a):
    kb, pub_first, change, addr = a
    return ev1_obj(kb, pub_first).GetPrivateKey(change, addr).Raw().ToBytes()


def direct_ev1(a):
    kb, pub_first, change, addr = a
    if not (len(kb) == 32 and 0 < int.from_bytes(kb, "big") < R.WEIER[0].n) or change > 0xFFFFFFFF or addr > 0xFFFFFFFF:
        return None
    pr, pu = ev1_obj(kb, 0), ev1_obj(kb, 1)
    a1 = pr.GetPublicKey(change, addr).RawUncompressed().ToBytes()
    a2 = pu.GetPublicKey(change, addr).RawUncompressed().ToBytes()
    if a1 != a2:
        return "Electrum v1 private-side public key %s, watch-only %s" % (a1.hex(), a2.hex())
    if pr.GetAddress(change, addr) != pu.GetAddress(change, addr):
        return "Electrum v1 addresses differ between private and watch-only wallet"
    kc, P = R.electrum_v1_child(kb, change, addr)
    exp = b"\x04" + P[0].to_bytes(32, "big") + P[1].to_bytes(32, "big")
    if a1 != exp:
        return "Electrum v1 public key %s, recomputed from the definition %s" % (a1.hex(), exp.hex())
    if pr.GetPrivateKey(change, addr).Raw().ToBytes() != kc.to_bytes(32, "big"):
        return "Electrum v1 private key differs from the definition"
    if pr.GetAddress(change, addr) != R.p2pkh_address(exp):
        return "Electrum v1 address is not the P2PKH address of the uncompressed key"
    try:
        pu.GetPrivateKey(change, addr)
        return "watch-only Electrum v1 wallet returned a private key"
    except ValueError:
        pass
    return None


def direct_ev2(a):
    seed, change, addr = a
    pr = ElectrumV2Standard(Bip32Slip10Secp256k1.FromSeed(seed))
    mpub = Bip32Slip10Secp256k1.FromSeed(seed)
    mpub.ConvertToPublic()
    pu = ElectrumV2Standard(mpub)
    k1 = pr.GetPublicKey(change, addr)
    k2 = pu.GetPublicKey(change, addr)
    if k1.RawCompressed().ToBytes() != k2.RawCompressed().ToBytes() or k1.ToExtended() != k2.ToExtended():
        return "Electrum v2 watch-only key differs from the private wallet's"
    if pr.GetAddress(change, addr) != pu.GetAddress(change, addr):
        return "Electrum v2 addresses differ"
    ref = R.derive(0, seed, [change, addr])
    if k1.RawCompressed().ToBytes() != ref.pubc or pr.GetAddress(change, addr) != R.p2pkh_address(ref.pubc):
        return "Electrum v2 key/address differ from m/change/addr recomputed"
    try:
        pu.GetPrivateKey(change, addr)
        return "watch-only Electrum v2 wallet returned a private key"
    except Bip32KeyError:
        pass
    return None


def direct_watch_only_history(a):
    """Watch-only derivation on every public-derivation scheme, after the object has been USED while private:
    derive children privately, convert to public-only in place, derive the same children again.  The result must
    be public-only (no private key, hardened refused) and equal the public half of the private child, and equal
    what an object that was public-only from the start gives.  Covers BIP-32 (secp256k1, P-256), Khovratovich-Law,
    Cardano Icarus and Byron legacy."""
    import bip_utils as B
    ci, seed, idxs = a[:3]
    nv = a[3] if len(a) > 3 else None           # optional non-default key net versions (public, private)
    names = ["Bip32Slip10Secp256k1", "Bip32Slip10Nist256p1", "Bip32KholawEd25519", "CardanoIcarusBip32", "CardanoByronLegacyBip32"]
    cls = getattr(B, names[ci])
    sd = seed[:32] if ci == 4 else seed
    kw = {} if nv is None else {"key_net_ver": B.Bip32KeyNetVersions(bytes(nv[0]), bytes(nv[1]))}
    priv = cls.FromSeed(sd, **kw)
    want = {}
    for i in idxs:
        c = priv.ChildKey(i)
        want[i] = (c.PublicKey().RawCompressed().ToBytes(), c.ChainCode().ToBytes(), c.Depth().ToInt(),
                   c.Index().ToInt(), c.ParentFingerPrint().ToBytes(), c.PublicKey().ToExtended(),
                   c.KeyNetVersions().Public(), c.KeyNetVersions().Private())
    fresh_pub = cls.FromExtendedKey(cls.FromSeed(sd, **kw).PublicKey().ToExtended(), **kw)
    priv.ConvertToPublic()
    for route, obj in (("converted after use", priv), ("from xpub", fresh_pub)):
        for i in idxs:
            try:
                c = obj.ChildKey(i)
            except Exception as e:  # noqa
                return "%s %s: soft child %d refused with %s" % (names[ci], route, i, type(e).__name__)
            if not c.IsPublicOnly():
                return "%s %s: child %d of a public-only object is not public-only" % (names[ci], route, i)
            try:
                c.PrivateKey()
                return "%s %s: child %d of a public-only object yields a private key" % (names[ci], route, i)
            except Bip32KeyError:
                pass
            got = (c.PublicKey().RawCompressed().ToBytes(), c.ChainCode().ToBytes(), c.Depth().ToInt(),
                   c.Index().ToInt(), c.ParentFingerPrint().ToBytes(), c.PublicKey().ToExtended(),
                   c.KeyNetVersions().Public(), c.KeyNetVersions().Private())
            if got[:5] != want[i][:5]:
                return "%s %s: watch-only child %d differs from the public half of the private child (pub %s vs %s)" % (
                    names[ci], route, i, got[0].hex()[:20], want[i][0].hex()[:20])
            if got[5:] != want[i][5:]:
                return "%s %s: watch-only child %d serialises as %s..., the public half of the private child as %s... " \
                       "(key net versions %s vs %s)" % (names[ci], route, i, got[5][:8], want[i][5][:8], got[6].hex(), want[i][6].hex())
        try:
            obj.ChildKey(HARD)
            return "%s %s: hardened child of a public-only object accepted" % (names[ci], route)
        except Bip32KeyError:
            pass
    return None


FUNCS = {
    "watch_only_history": Func(direct=direct_watch_only_history),
    # histories of ChildKey / DerivePath / ConvertToPublic / PrivateKey from a seed, raw key, public key or extended key
    "script": Func(model=model_script, impl=impl_script),
    # start -> prefix -> ConvertToPublic -> soft path (model) ; direct: against derive-then-convert, via xpub,
    # step by step, and against the standard recomputed, incl. extended key and P2PKH address
    "commute": Func(model=model_commute, impl=impl_commute, direct=direct_commute),
    "ev1_pub": Func(model=lambda m, a: m.call("ev1_get_public_key", *a), impl=impl_ev1_pub, direct=direct_ev1),
    "ev1_from_pub": Func(model=lambda m, a: m.call("ev1_pub_get_public_key", _pt(a[0]), a[1], a[2]),
                         impl=lambda a: _ev1_keys(ElectrumV1.FromPublicKey(a[0]).GetPublicKey(a[1], a[2]))),
    "ev1_priv": Func(model=lambda m, a: m.call("ev1_get_private_key", *a), impl=impl_ev1_priv),
    "ev2": Func(direct=direct_ev2, impl=lambda a: ElectrumV2Standard(Bip32Slip10Secp256k1.FromSeed(a[0]))
                .GetPublicKey(a[1], a[2]).RawCompressed().ToBytes(),
                model=lambda m, a: _pubc(m.call("slip10_seed_path", 0, 0, FUEL, [], a[0], 1, [a[1], a[2]]))),
}


def _pubc(r):
    return r if r[0] == "err" else ("ok", r[1][1])


# ------------------------------------------------------------------ known finding F1 (shared with C03)

def _node_of_start(curve, st, hm):
    if st[0] == 0:
        return R.master_node(curve, st[1], hm) if len(st[1]) >= 16 else None
    if st[0] == 3:
        is_pub, depth, pfp, index, chain, key = R.xkey_fields(st[1])
        st = [2 if is_pub else 1, key, depth, index, chain, pfp]
    if st[0] == 1:
        return R.Node(curve, st[1], R.pub_bytes(curve, st[1]), st[4], st[2], st[3], st[5])
    return R.Node(curve, None, st[1], st[4], st[2], st[3], st[5])


def _steps(ops):
    st = []
    for op in ops:
        if op[0] == 0:
            st.append(("child", op[1]))
        elif op[0] == 1:
            st.append(("neuter",))
        elif op[0] == 2:
            st.extend(("child", i) for i in op[2])
    return st


def f1_match(fn, args, record):
    """Same class as C03's F1: an ECDSA child whose first HMAC left half is >= n or whose sum vanishes, on which the
    implementation behaves as the code without the re-hash branch (see props/C03.py: is_f1)."""
    try:
        if fn == "script":
            curve, mock, st, ops = args
            if curve not in (0, 1) or any(op[0] == 3 for op in ops):
                return False
            hm = hm_of(mock)
            return is_f1(_node_of_start(curve, st, hm), _steps(ops), hm, "script", args, FUNCS)
        if fn == "commute":
            curve, st, prefix, path = args
            if curve not in (0, 1):
                return False
            steps = [("child", i) for i in prefix] + [("neuter",)] + [("child", i) for i in path]
            return is_f1(_node_of_start(curve, st, R.hmac512), steps, R.hmac512, "commute", args, FUNCS)
    except Exception:  # noqa
        return False
    return False


def f1_match_replay():
    from props.C03 import f1_match_replay as c03_replay
    r = c03_replay()
    if r:
        return r
    p = CLS[1].FromSeed(F1_SEED).DerivePath(Bip32Path(F1_PATH[:1]))
    p.ConvertToPublic()
    got = p.ChildKey(F1_PATH[1]).PublicKey().RawCompressed().ToHex()
    exp = "0235bfee614c0d5b2cae260000bb1d0d84b270099ad790022c1ae0b2e782efe120"
    if got != exp:
        return "Bip32Slip10Nist256p1 watch-only child 33941 of m/28578' (seed 000102..0f) is %s, SLIP-0010 prescribes %s" % (got, exp)
    return None


# ------------------------------------------------------------------ generators

def soft_index(rng):
    k = rng.randrange(5)
    if k == 0:
        return rng.choice([0, 1, HARD - 1, HARD - 2])
    if k == 1:
        return rng.randrange(0, 20)
    return rng.randrange(0, HARD)


def soft_path(rng, maxd=4):
    return [soft_index(rng) for _ in range(rng.choice([1, 1, 2, 2, 3, rng.randrange(1, maxd + 1)]))]


def any_index(rng):
    return rng.choice([soft_index(rng), HARD + rng.randrange(HARD), rng.choice(BOUNDARY_IDX)])


def rand_start(rng, curve):
    """A private start object: from a seed, from a raw key with arbitrary key data, or from an extended private key."""
    k = rng.randrange(3)
    if k == 0:
        return [0, rand_seed(rng)]
    n = R.WEIER[curve].n if curve < 2 else 2**256
    kb = rng.randrange(1, n).to_bytes(32, "big")
    depth = rng.choice([0, 1, 2, 3, 5, 200, 254])
    if k == 1:
        index, pfp = (0, bytes(4)) if depth == 0 and rng.randrange(2) else (rng.randrange(1 << 32), rb(rng, 4))
        return [1, kb, depth, index, rb(rng, 32), pfp]
    index, pfp = (0, bytes(4)) if depth == 0 else (rng.randrange(1 << 32), rb(rng, 4))
    node = R.Node(curve, kb, R.pub_bytes(curve, kb), rb(rng, 32), depth, index, pfp)
    return [3, R.xprv_string(node)]


def rand_xpub_start(rng, curve):
    """A public-only start object given as an extended public key string."""
    n = R.WEIER[curve].n
    kb = rng.randrange(1, n).to_bytes(32, "big")
    depth = rng.choice([0, 1, 3, 255])
    index, pfp = (0, bytes(4)) if depth == 0 else (rng.randrange(1 << 32), rb(rng, 4))
    return [3, R.xpub_string(R.Node(curve, kb, R.pub_bytes(curve, kb), rb(rng, 32), depth, index, pfp))]


def generate(ctx):
    rng = ctx.rng
    import deriv_fastec
    msg = deriv_fastec.self_test(rng, 1)
    if msg:
        raise RuntimeError("reference arithmetic self-test failed: " + msg)

    # -- watch-only after use, all public-derivation schemes; directed: parents whose public key starts with a zero byte
    import bip_utils as _B
    for ci, nm in enumerate(["Bip32Slip10Secp256k1", "Bip32Slip10Nist256p1", "Bip32KholawEd25519", "CardanoIcarusBip32",
                             "CardanoByronLegacyBip32"]):
        cls = getattr(_B, nm)
        found, t = 0, 0
        while found < ctx.n(1, 4) and t < 3000:       # parent public key with a leading zero byte (1/256)
            sd = t.to_bytes(4, "big") * 16
            pk = cls.FromSeed(sd[:32] if ci == 4 else sd).PublicKey().RawCompressed().ToBytes()
            if pk[1] == 0:
                ctx.run("watch_only_history", [ci, sd, [0, 1, 7]], "lead0-parent")
                found += 1
            t += 1
        for _ in range(ctx.n(3, 40)):
            ctx.run("watch_only_history", [ci, rand_seed(rng)[:64].ljust(64, b"\x01"), [0, rng.randrange(HARD), HARD - 1]], "rand")
            # non-default key net versions: test net, BIP-49 (ypub/yprv), BIP-84 (zpub/zprv)
            nvs = rng.choice([(bytes.fromhex("043587cf"), bytes.fromhex("04358394")), (bytes.fromhex("049d7cb2"), bytes.fromhex("049d7878")),
                              (bytes.fromhex("04b24746"), bytes.fromhex("04b2430c"))])
            ctx.run("watch_only_history", [ci, rand_seed(rng)[:64].ljust(64, b"\x01"), [0, 5], list(nvs)], "net-versions")
    # -- refusal clauses, every curve: hardened from public-only, PrivateKey() on public-only, any public derivation
    #    on the ed25519 schemes, index out of range
    for curve in range(4):
        seed = rand_seed(rng)
        hard_ok = [[0, HARD + 3]]
        for i in [0, 1, HARD - 1, HARD, HARD + 1, 0xFFFFFFFF, 1 << 32]:
            ctx.run("script", [curve, [], [0, seed], hard_ok + [[1], [0, i]]], "pub-child-boundary")
            ctx.run("script", [curve, [], [0, seed], [[1], [0, i]]], "pub-master-child-boundary")
        ctx.run("script", [curve, [], [0, seed], [[1], [3]]], "private-key-after-convert")
        ctx.run("script", [curve, [], [0, seed], hard_ok + [[1], [1], [3]]], "private-key-after-convert")
        ctx.run("script", [curve, [], [0, seed], hard_ok + [[3], [1]]], "private-key-before-convert")
        ctx.run("script", [curve, [], [0, seed], [[1], [2, 1, []], [3]]], "private-key-after-convert-path")
        ctx.run("script", [curve, [], [0, seed], [[1], [2, 1, [HARD]]]], "pub-derive-hardened-path")
        # public-only start objects from raw public keys
        par = R.derive(curve, seed, [HARD + 1])
        ctx.run("script", [curve, [], [2, par.pubc, par.depth, par.index, par.chain, par.pfp], [[0, 5], [3]]], "from-public-key")
        ctx.run("script", [curve, [], [2, par.pubc, par.depth, par.index, par.chain, par.pfp], [[0, 5], [0, HARD - 1]]], "from-public-key")
        ctx.run("script", [curve, [], [2, par.pubc, par.depth, par.index, par.chain, par.pfp], [[0, HARD + 5]]], "from-public-key-hardened")

    # -- the published SLIP-0010 retry child, watch-only (F1 on the public side)
    par = R.derive(1, F1_SEED, F1_PATH[:1])
    ctx.run("script", [1, [], [0, F1_SEED], [[0, F1_PATH[0]], [1], [0, F1_PATH[1]]]], "slip10-retry-vector")
    ctx.run("commute", [1, [0, F1_SEED], F1_PATH[:1], F1_PATH[1:]], "slip10-retry-vector")

    # -- forced HMAC outputs on the public side (a few; the full set runs under C03)
    for curve in (0, 1):
        for tag, mock, kb, chain, i, pub_first in mock_cases(rng, curve):
            if pub_first:
                ctx.run("script", [curve, mock, [1, kb, 2, 7, chain, rb(rng, 4)], [[1], [0, i]]], "forced-" + tag)

    # -- Electrum v1: boundaries
    kb = rng.randrange(1, R.WEIER[0].n).to_bytes(32, "big")
    for change, addr in [(0, 0), (1, 0), (0, 1), (0xFFFFFFFF, 0xFFFFFFFF), (1 << 32, 0), (0, 1 << 32), (HARD, HARD - 1)]:
        for pf in (0, 1):
            ctx.run("ev1_pub", [kb, pf, change, addr], "ev1-boundary")
            ctx.run("ev1_priv", [kb, pf, change, addr], "ev1-boundary")
    for v in (0, R.WEIER[0].n, 2**256 - 1):
        ctx.run("ev1_pub", [v.to_bytes(32, "big"), 0, 0, 0], "ev1-bad-master")
    for k in (1, 2, R.WEIER[0].n - 1, R.WEIER[0].n - 2):
        for pf in (0, 1):
            ctx.run("ev1_pub", [k.to_bytes(32, "big"), pf, rng.randrange(2), rng.randrange(100)], "ev1-master-near-order")

    # -- random parents x random soft paths
    k = 0
    total = ctx.n(500, 8000)
    while k < total and ctx.time_left():
        k += 1
        curve = rng.randrange(2)
        st = rand_start(rng, curve)
        prefix = [any_index(rng) for _ in range(rng.choice([0, 0, 1, 2]))] if st[0] == 0 or rng.randrange(3) == 0 else []
        path = soft_path(rng)
        ctx.run("commute", [curve, st, prefix, path], "rand-%s" % ["seed", "raw", "", "xprv"][st[0]])
        if k % 2 == 0:
            # arbitrary histories incl. refused steps
            ops = []
            for _ in range(rng.randrange(1, 6)):
                r = rng.randrange(8)
                if r < 4:
                    ops.append([0, any_index(rng) if r == 0 else soft_index(rng)])
                elif r == 4:
                    ops.append([1])
                elif r == 5:
                    ops.append([2, 0, soft_path(rng, 3)])
                elif r == 6:
                    ops.append([3])
                else:
                    ops.append([0, HARD + rng.randrange(HARD)])
            c2 = curve if rng.randrange(5) else rng.choice([2, 3])
            ctx.run("script", [c2, [], rand_start(rng, c2) if c2 < 2 else [0, rand_seed(rng)], ops], "rand-history")
            if k % 4 == 0:
                ctx.run("script", [curve, [], rand_xpub_start(rng, curve), ops], "rand-history-xpub")
        if k % 3 == 0:
            kb = rng.randrange(1, R.WEIER[0].n).to_bytes(32, "big")
            change, addr = rng.choice([0, 1, rng.randrange(1 << 32)]), rng.choice([0, rng.randrange(1000), rng.randrange(1 << 32)])
            ctx.run("ev1_pub", [kb, rng.randrange(2), change, addr], "ev1-rand")
            ctx.run("ev1_priv", [kb, 0, change, addr], "ev1-rand")
            ctx.run("ev1_from_pub", [R.pub_bytes(0, kb), change, addr], "ev1-rand")
        if k % 6 == 0:
            ctx.run("ev2", [rand_seed(rng), rng.choice([0, 1]), rng.randrange(HARD)], "ev2-rand")


# ---- known finding C18-BYRON-PUBDERIV (recorded; see known_findings.json) ----
# CardanoByronLegacyBip32 public (soft) derivation differs from the public half of private derivation for ~44% of
# indices: libsodium's noclamp multiplication clears bit 255 of the byte-wise 8*ZL scalar.  The repair would change
# values pinned by tests/cardano, so it is recorded, not fixed.

def byron_pubderiv_match(fn, args, record):
    return fn == "watch_only_history" and record.get("kind") == "direct" and int(args[0]) == 4 \
        and "differs from the public half of the private child" in record.get("what", "")


def byron_pubderiv_match_replay():
    from bip_utils import CardanoByronLegacyBip32
    seed = bytes.fromhex("4420823cfde6f1c26b30f90ec7dd01e4887534a20f0b0d04c36ed80e71e0fd77")
    i = 1973981844
    p = CardanoByronLegacyBip32.FromSeed(seed)
    a = p.ChildKey(i).PublicKey().RawCompressed().ToBytes()
    q = CardanoByronLegacyBip32.FromSeed(seed)
    q.ConvertToPublic()
    b = q.ChildKey(i).PublicKey().RawCompressed().ToBytes()
    return None if a == b else "seed 4420823c..fd77, index %d: private-then-public %s.. vs public derivation %s.." % (i, a.hex()[:16], b.hex()[:16])

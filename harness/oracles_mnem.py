"""Oracles of the mnemonic models (C17).  Reference primitives only: str.lower / unicodedata / hashlib, and the
word-list FILES of /repo read as data -- never bip_utils code."""
import hashlib
import os
import unicodedata

from modeldrv import T

REPO = os.environ.get("VERIF_REPO", "/repo")


def _text(x):
    return x.decode("latin-1") if isinstance(x, (bytes, bytearray)) else T(x).str()


def mnem_norm(w):
    """Bip39Mnemonic._Normalize on one word: NFKD(lower(w))."""
    return T(unicodedata.normalize("NFKD", _text(w).lower()))


# ---- independent BIP-39 validity (Bip39MnemonicValidator().IsValid with automatic language detection):
#      the first language, in Bip39Languages order, whose list contains every word; then word count and checksum.
_B39_ORDER = ["chinese_simplified", "chinese_traditional", "czech", "english", "french", "italian", "korean",
              "portuguese", "spanish"]
_b39 = []


def _b39_lists():
    if not _b39:
        for name in _B39_ORDER:
            p = os.path.join(REPO, "bip_utils", "bip", "bip39", "wordlist", name + ".txt")
            with open(p, encoding="utf-8") as f:
                ws = [w.strip() for w in f.readlines() if w.strip() != "" and not w.startswith("#")]
            _b39.append({w: i for i, w in enumerate(ws)})
    return _b39


def bip39_valid(words):
    ws = [_text(w) for w in words]
    if len(ws) not in (12, 15, 18, 21, 24):
        return 0
    for idx in _b39_lists():
        if all(w in idx for w in ws):
            bits = "".join(format(idx[w], "011b") for w in ws)
            cs = len(ws) // 3
            ent = int(bits[:-cs], 2).to_bytes((len(bits) - cs) // 8, "big")
            chk = format(hashlib.sha256(ent).digest()[0], "08b")[:cs]
            return 1 if chk == bits[-cs:] else 0
    return 0


ORACLES = {"mnem_norm": mnem_norm, "bip39_valid": bip39_valid}

"""Reference elliptic-curve arithmetic over Python ints (affine, no side-channel care).
Independent of every library bip_utils uses.  Points: None = identity, else (x, y)."""


class Weierstrass:
    def __init__(self, name, p, a, b, gx, gy, n):
        self.name, self.p, self.a, self.b, self.G, self.n = name, p, a, b, (gx, gy), n

    def on_curve(self, P):
        if P is None:
            return True
        x, y = P
        return 0 <= x < self.p and 0 <= y < self.p and (y * y - (x * x * x + self.a * x + self.b)) % self.p == 0

    def add(self, P, Q):
        p = self.p
        if P is None:
            return Q
        if Q is None:
            return P
        x1, y1 = P
        x2, y2 = Q
        if x1 == x2:
            if (y1 + y2) % p == 0:
                return None
            lam = (3 * x1 * x1 + self.a) * pow(2 * y1, -1, p) % p
        else:
            lam = (y2 - y1) * pow(x2 - x1, -1, p) % p
        x3 = (lam * lam - x1 - x2) % p
        return (x3, (lam * (x1 - x3) - y1) % p)

    def neg(self, P):
        return None if P is None else (P[0], (-P[1]) % self.p)

    def mul(self, k, P):
        k %= self.n
        R = None
        while k:
            if k & 1:
                R = self.add(R, P)
            P = self.add(P, P)
            k >>= 1
        return R

    def ser_c(self, P):
        x, y = P
        return bytes([2 + (y & 1)]) + x.to_bytes(32, "big")

    def ser_u(self, P):
        x, y = P
        return b"\x04" + x.to_bytes(32, "big") + y.to_bytes(32, "big")

    def lift_x(self, x, odd):
        """Point with abscissa x and the requested y parity, or None."""
        p = self.p
        if not 0 <= x < p:
            return None
        rhs = (x * x * x + self.a * x + self.b) % p
        y = pow(rhs, (p + 1) // 4, p)          # both primes are 3 mod 4
        if y * y % p != rhs:
            return None
        if (y & 1) != (1 if odd else 0):
            y = p - y
        return (x, y)

    def deser(self, b):
        """SEC1 decoding (33-byte compressed, 65-byte uncompressed); None if invalid."""
        b = bytes(b)
        if len(b) == 33 and b[0] in (2, 3):
            return self.lift_x(int.from_bytes(b[1:], "big"), b[0] == 3)
        if len(b) == 65 and b[0] == 4:
            P = (int.from_bytes(b[1:33], "big"), int.from_bytes(b[33:], "big"))
            return P if self.on_curve(P) else None
        return None


SECP256K1 = Weierstrass(
    "secp256k1", 2**256 - 2**32 - 977, 0, 7,
    0x79BE667EF9DCBBAC55A06295CE870B07029BFCDB2DCE28D959F2815B16F81798,
    0x483ADA7726A3C4655DA4FBFC0E1108A8FD17B448A68554199C47D08FFB10D4B8,
    0xFFFFFFFFFFFFFFFFFFFFFFFFFFFFFFFEBAAEDCE6AF48A03BBFD25E8CD0364141)

NIST256P1 = Weierstrass(
    "nist256p1", 2**256 - 2**224 + 2**192 + 2**96 - 1, -3,
    0x5AC635D8AA3A93E7B3EBBD55769886BC651D06B0CC53B0F63BCE3C3E27D2604B,
    0x6B17D1F2E12C4247F8BCE6E563A440F277037D812DEB33A0F4A13945D898C296,
    0x4FE342E2FE1A7F9B8EE7EB4A7C0F9E162BCE33576B315ECECBB6406837BF51F5,
    0xFFFFFFFF00000000FFFFFFFFFFFFFFFFBCE6FAADA7179E84F3B9CAC2FC632551)


class Ed25519:
    p = 2**255 - 19
    d = (-121665 * pow(121666, -1, 2**255 - 19)) % (2**255 - 19)
    L = 2**252 + 27742317777372353535851937790883648493
    I = pow(2, (2**255 - 19 - 1) // 4, 2**255 - 19)
    By = 4 * pow(5, -1, 2**255 - 19) % (2**255 - 19)

    def __init__(self):
        self.G = (self.recover_x(self.By, 0), self.By)
        self.n = self.L

    def recover_x(self, y, sign):
        p = self.p
        if y >= p:
            return None
        x2 = (y * y - 1) * pow(self.d * y * y + 1, -1, p) % p
        if x2 == 0:
            return None if sign else 0
        x = pow(x2, (p + 3) // 8, p)
        if (x * x - x2) % p != 0:
            x = x * self.I % p
        if (x * x - x2) % p != 0:
            return None
        if (x & 1) != sign:
            x = p - x
        return x

    def on_curve(self, P):
        x, y = P
        p = self.p
        return (-x * x + y * y - 1 - self.d * x * x * y * y) % p == 0

    def add(self, P, Q):
        p = self.p
        x1, y1 = P
        x2, y2 = Q
        t = self.d * x1 * x2 * y1 * y2 % p
        x3 = (x1 * y2 + x2 * y1) * pow(1 + t, -1, p) % p
        y3 = (y1 * y2 + x1 * x2) * pow(1 - t, -1, p) % p
        return (x3, y3)

    ZERO = (0, 1)

    def mul(self, k, P):
        R = self.ZERO
        while k:
            if k & 1:
                R = self.add(R, P)
            P = self.add(P, P)
            k >>= 1
        return R

    def ser(self, P):
        x, y = P
        return (y | ((x & 1) << 255)).to_bytes(32, "little")

    def deser(self, b, canonical=False):
        """RFC 8032 decoding; with canonical=False a y >= p is reduced the way lenient libraries do."""
        b = bytes(b)
        if len(b) != 32:
            return None
        v = int.from_bytes(b, "little")
        sign, y = v >> 255, v & ((1 << 255) - 1)
        if y >= self.p:
            if canonical:
                return None
            y -= self.p
        x = self.recover_x(y, sign)
        return None if x is None else (x, y)

    def pub_rfc8032(self, seed32, hashfn):
        """RFC 8032 public key of a 32-byte seed with the given 64-byte hash (sha512 / blake2b-512)."""
        h = hashfn(bytes(seed32))
        a = int.from_bytes(h[:32], "little")
        a &= (1 << 254) - 8
        a |= 1 << 254
        return self.ser(self.mul(a, self.G))


ED25519 = Ed25519()

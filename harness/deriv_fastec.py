"""Faster scalar multiplication for the reference side of C03/C04 (Jacobian coordinates for the two
Weierstrass curves, extended coordinates for ed25519 as in RFC 8032 section 6).  Pure Python ints, independent
of every library bip_utils uses; cross-checked against the affine arithmetic of harness/ecref.py by
self_test() on every run.  Results are cached because the model oracle, the direct check and the
known-finding predicate ask for the same multiples."""
import functools

import ecref


def _jac_double(C, P):
    X, Y, Z = P
    if Y == 0 or Z == 0:
        return (0, 1, 0)
    p = C.p
    S = 4 * X * Y * Y % p
    M = (3 * X * X + C.a * pow(Z, 4, p)) % p
    X3 = (M * M - 2 * S) % p
    Y3 = (M * (S - X3) - 8 * pow(Y, 4, p)) % p
    Z3 = 2 * Y * Z % p
    return (X3, Y3, Z3)


def _jac_add(C, P, Q):
    if P[2] == 0:
        return Q
    if Q[2] == 0:
        return P
    p = C.p
    X1, Y1, Z1 = P
    X2, Y2, Z2 = Q
    Z1Z1, Z2Z2 = Z1 * Z1 % p, Z2 * Z2 % p
    U1, U2 = X1 * Z2Z2 % p, X2 * Z1Z1 % p
    S1, S2 = Y1 * Z2 * Z2Z2 % p, Y2 * Z1 * Z1Z1 % p
    if U1 == U2:
        if S1 != S2:
            return (0, 1, 0)
        return _jac_double(C, P)
    H, R = (U2 - U1) % p, (S2 - S1) % p
    HH = H * H % p
    HHH = H * HH % p
    V = U1 * HH % p
    X3 = (R * R - HHH - 2 * V) % p
    Y3 = (R * (V - X3) - S1 * HHH) % p
    Z3 = H * Z1 * Z2 % p
    return (X3, Y3, Z3)


def _w_mul(C, k, P):
    """k*P on a Weierstrass curve; P affine (x, y) or None; result affine or None."""
    k %= C.n
    if P is None or k == 0:
        return None
    R = (0, 1, 0)
    Q = (P[0], P[1], 1)
    while k:
        if k & 1:
            R = _jac_add(C, R, Q)
        Q = _jac_double(C, Q)
        k >>= 1
    if R[2] == 0:
        return None
    zi = pow(R[2], -1, C.p)
    return (R[0] * zi * zi % C.p, R[1] * zi * zi * zi % C.p)


@functools.lru_cache(maxsize=200000)
def w_base_mul(cid, k):
    C = (ecref.SECP256K1, ecref.NIST256P1)[cid]
    return _w_mul(C, k, C.G)


def w_mul(cid, k, P):
    C = (ecref.SECP256K1, ecref.NIST256P1)[cid]
    if P is not None and tuple(P) == C.G:
        return w_base_mul(cid, k % C.n)
    return _w_mul(C, k, None if P is None else tuple(P))


# ---- ed25519, extended homogeneous coordinates (X, Y, Z, T), RFC 8032 section 6
_E = ecref.ED25519
_p, _d = _E.p, _E.d


def _ed_add(P, Q):
    A = (P[1] - P[0]) * (Q[1] - Q[0]) % _p
    B = (P[1] + P[0]) * (Q[1] + Q[0]) % _p
    C = 2 * P[3] * Q[3] * _d % _p
    D = 2 * P[2] * Q[2] % _p
    E, F, G, H = B - A, D - C, D + C, B + A
    return (E * F % _p, G * H % _p, F * G % _p, E * H % _p)


def _ed_mul(k, P):
    Q = (0, 1, 1, 0)
    while k:
        if k & 1:
            Q = _ed_add(Q, P)
        P = _ed_add(P, P)
        k >>= 1
    return Q


@functools.lru_cache(maxsize=200000)
def ed_pub(seed32, hashname):
    """RFC 8032 public key of a 32-byte seed; hashname 'sha512' or 'blake2b'."""
    import hashlib
    h = hashlib.sha512(seed32).digest() if hashname == "sha512" else hashlib.blake2b(seed32, digest_size=64).digest()
    a = int.from_bytes(h[:32], "little")
    a &= (1 << 254) - 8
    a |= 1 << 254
    gx, gy = _E.G
    X, Y, Z, _ = _ed_mul(a, (gx, gy, 1, gx * gy % _p))
    zi = pow(Z, -1, _p)
    x, y = X * zi % _p, Y * zi % _p
    return (y | ((x & 1) << 255)).to_bytes(32, "little")


def self_test(rng, rounds=3):
    """Cross-check against the affine reference arithmetic; returns None or a message."""
    import hashlib
    for cid, C in enumerate((ecref.SECP256K1, ecref.NIST256P1)):
        for k in [1, 2, C.n - 1, C.n, C.n + 1] + [rng.randrange(1, 2**256) for _ in range(rounds)]:
            if _w_mul(C, k, C.G) != C.mul(k, C.G):
                return "Jacobian multiplication disagrees with ecref on %s, k=%d" % (C.name, k)
        Q = C.mul(rng.randrange(1, C.n), C.G)
        k = rng.randrange(1, C.n)
        if _w_mul(C, k, Q) != C.mul(k, Q):
            return "Jacobian multiplication disagrees with ecref on %s (non-base point)" % C.name
    for _ in range(rounds):
        s = bytes(rng.randrange(256) for _ in range(32))
        if ed_pub(s, "sha512") != ecref.ED25519.pub_rfc8032(s, lambda b: hashlib.sha512(b).digest()):
            return "extended-coordinate ed25519 disagrees with ecref"
        if ed_pub(s, "blake2b") != ecref.ED25519.pub_rfc8032(s, lambda b: hashlib.blake2b(b, digest_size=64).digest()):
            return "extended-coordinate ed25519 (blake2b) disagrees with ecref"
    return None

#!/usr/bin/env python3
"""Run the registered checks against the seeded changes in /verif/seeded/<id>/ and record which
check catches which change (seeded/MATRIX.json, meta.json:detected_by).

Each job slot works on its own copy of /verif (rsync, including the built .vo files) and its own
scratch worktree of /repo under /tmp/sm/, selected with VERIF_REPO, so /repo itself is never
touched and several changes can be evaluated in parallel.  Usage:
    harness/seedmatrix.py [--jobs 4] [--only C11-1,C11-2] [--extra]
"""
import argparse
import json
import os
import re
import subprocess
import sys
from concurrent.futures import ThreadPoolExecutor

VERIF = "/verif"
SM = "/tmp/sm"
# checks of other properties that plausibly see a change too (run with --extra)
EXTRA = {
    "C07-2": ["C08"], "C09-2": ["C10"], "C10-2": ["C11", "C19"], "C11-2": ["C19"], "C01-1": ["C15", "C17"],
    "C17-2": ["C15", "C01"], "C15-1": ["C01"], "C04-2": ["C15"], "C19-1": ["C15", "C04"], "C14-1": ["C10"],
    "C14-2": ["C17"], "C03-2": ["C04"], "C04-1": ["C18"], "C18-1": ["C04"], "C13-1": ["C10"], "C16-1": ["C15"],
    "C19-2": ["C11"], "C12-2": ["C15"], "C02-1": ["C01"], "C05-6": ["C08"], "C06-6": ["C19"], "C07-6": ["C15"], "C15-5": ["C17"], "C11-5": ["C19"], "C10-6": ["C09"],
}


def sh(cmd, **kw):
    return subprocess.run(cmd, shell=True, stdout=subprocess.PIPE, stderr=subprocess.STDOUT, text=True, **kw)


def prepare(slot):
    d = os.path.join(SM, "j%d" % slot)
    os.makedirs(d, exist_ok=True)
    sh("rsync -a --delete --exclude .git --exclude evidence/replay --exclude evidence/logs %s/ %s/verif/" % (VERIF, d))
    if not os.path.isdir(os.path.join(d, "repo")):
        sh("git -C /repo worktree prune; git -C /repo worktree add -f --detach %s/repo main" % d)
    sh("git -C %s/repo checkout -q --detach main && git -C %s/repo checkout -q -- . && git -C %s/repo clean -fdq" % (d, d, d))
    return d


DIR = "seeded"


def run_one(slot, sid, props):
    d = os.path.join(SM, "j%d" % slot)
    patch = os.path.join(VERIF, DIR, sid, "patch.diff")
    r = sh("git -C %s/repo apply %s" % (d, patch))
    if r.returncode != 0:
        return {p: "patch-does-not-apply" for p in props}
    out = {}
    env = dict(os.environ, VERIF_REPO="%s/repo" % d)
    for p in props:
        r = sh("%s/verif/check %s --tier quick" % (d, p), env=env, timeout=3600)
        m = re.search(r"^VIOLATION property=\S+ replay=(\S+)(.*)$", r.stdout, re.M)
        if m:
            out[p] = "VIOLATION" + (" no-failing-input-found" if "no-failing-input-found" in m.group(2) else "")
            det = [ln for ln in r.stdout.split("\n") if ln.strip().startswith("violation-detail")]
            out[p + ":detail"] = det[0][:300] if det else ""
        elif re.search(r"^OK property=", r.stdout, re.M):
            out[p] = "missed" if DIR == "seeded" else "OK"
        else:
            out[p] = "check-error: " + r.stdout[-300:]
    sh("git -C %s/repo checkout -q -- . && git -C %s/repo clean -fdq" % (d, d))
    return out


def main():
    ap = argparse.ArgumentParser()
    ap.add_argument("--jobs", type=int, default=4)
    ap.add_argument("--only")
    ap.add_argument("--extra", action="store_true")
    ap.add_argument("--dir", default="seeded", help="seeded (changes that break a property) or harmless "
                    "(behaviour-preserving rewrites: every listed check is expected to stay OK)")
    a = ap.parse_args()
    global DIR
    DIR = a.dir
    ids = sorted(x for x in os.listdir(os.path.join(VERIF, DIR)) if os.path.isdir(os.path.join(VERIF, DIR, x)))
    if a.only:
        ids = [i for i in ids if i in a.only.split(",")]
    have = {f[:-3] for f in os.listdir(os.path.join(VERIF, "harness", "props")) if re.match(r"C\d+\.py$", f)}
    for s in range(a.jobs):
        prepare(s)
    mpath = os.path.join(VERIF, DIR, "MATRIX.json")
    matrix = json.load(open(mpath)) if os.path.exists(mpath) else {}
    chunks = [ids[i::a.jobs] for i in range(a.jobs)]

    def worker(slot):
        res = {}
        for sid in chunks[slot]:
            prop = sid.split("-")[0]
            if DIR != "seeded":
                props = json.load(open(os.path.join(VERIF, DIR, sid, "meta.json")))["props"]
            else:
                props = [p for p in [prop] + (EXTRA.get(sid, []) if a.extra else []) if p in have]
            if not props:
                res[sid] = {prop: "no-check-yet"}
                continue
            res[sid] = run_one(slot, sid, props)
            print(sid, {k: v for k, v in res[sid].items() if ":" not in k}, flush=True)
        return res
    with ThreadPoolExecutor(a.jobs) as ex:
        for res in ex.map(worker, range(a.jobs)):
            for sid, r in res.items():
                matrix.setdefault(sid, {}).update(r)
    json.dump(matrix, open(mpath, "w"), indent=1, sort_keys=True)
    for sid in matrix:
        mp = os.path.join(VERIF, DIR, sid, "meta.json")
        if os.path.exists(mp):
            m = json.load(open(mp))
            m["detected_by"] = sorted(k for k, v in matrix[sid].items() if ":" not in k and str(v).startswith("VIOLATION"))
            json.dump(m, open(mp, "w"), indent=1)


if __name__ == "__main__":
    main()

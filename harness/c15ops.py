"""C15 -- reflective operation catalogue, history worker and process-wide-state snapshot.

This module is imported (i) by harness/props/C15.py in the check process, which BUILDS the catalogue
(build_catalogue) and drives the histories, and (ii) by the worker subprocesses, which only EXECUTE
operations named by JSON specifications.  Importing it imports bip_utils (every sub-module, so the set
of loaded modules is the same in every process) and calls nothing of the library: a worker that has
just imported it is "a fresh interpreter".

An operation is a JSON list [kind, arg, ...] of strings/ints (`spec`).  KINDS[kind](*args) calls public
API of the library with constant inputs and returns a value made of str/int/bool/None/lists (bytes as
hex, enum members and classes by name); an exception becomes ["err", class name].  Nothing in a result
depends on the process (no ids, no reprs of objects, no randomness, no clock).

A worker runs ONE history (a list of specs) in one interpreter and reports every result, plus the
difference between the canonical snapshot of all module-level and class-level state reachable from
the bip_utils modules taken before the first and after the last operation."""
import enum
import functools
import hashlib
import importlib
import inspect
import json
import os
import pkgutil
import sys
import threading
import types

import bip_utils

for _mi in pkgutil.walk_packages(bip_utils.__path__, "bip_utils."):
    try:
        importlib.import_module(_mi.name)
    except Exception:  # noqa
        pass

SEED = bytes.fromhex("5eb00bbddcf069084889a8ab9155568165f5c453ccb85e70811aaed6f6da5fc1"
                     "9a5ac40b389cd370d086206dec8aa6c43daea6690f20ad3d8d48b2d2ce9e38e4")
HARD = 1 << 31


def _all_classes():
    out = {}
    for mn in sorted(sys.modules):
        if mn == "bip_utils" or mn.startswith("bip_utils."):
            mod = sys.modules[mn]
            if mod is None:
                continue
            for n, v in vars(mod).items():
                if isinstance(v, type) and getattr(v, "__module__", "").startswith("bip_utils"):
                    out.setdefault(n, v)
    return out


ALL = _all_classes()        # class name -> class, every class defined in bip_utils (names are unique there)


# ----------------------------------------------------------------------------------- canonical values

def canon(v, depth=0):
    """process-independent rendering of a result / configuration value"""
    if v is None or isinstance(v, (bool, int, str)):
        return v
    if isinstance(v, float):
        return repr(v)
    if isinstance(v, (bytes, bytearray)):
        return "0x" + bytes(v).hex()
    if isinstance(v, enum.Enum):
        return "%s.%s" % (type(v).__name__, v.name)
    if isinstance(v, type):
        return "<class %s>" % v.__name__
    if depth > 8:
        return "<deep>"
    if isinstance(v, (list, tuple)):
        return [canon(x, depth + 1) for x in v]
    if isinstance(v, (set, frozenset)):
        return sorted((canon(x, depth + 1) for x in v), key=lambda x: json.dumps(x, sort_keys=True))
    if isinstance(v, dict):
        return sorted(([canon(k, depth + 1), canon(x, depth + 1)] for k, x in v.items()),
                      key=lambda kv: json.dumps(kv[0], sort_keys=True))
    if callable(v) and not type(v).__module__.startswith("bip_utils"):
        return "<function %s>" % getattr(v, "__qualname__", type(v).__name__)
    if type(v).__module__.startswith("bip_utils"):
        tb = getattr(v, "ToBytes", None)
        if callable(tb):
            try:
                return ["<%s>" % type(v).__name__, "0x" + bytes(tb()).hex()]
            except Exception:  # noqa
                pass
        d = getattr(v, "__dict__", None)
        if isinstance(d, dict):
            return ["<%s>" % type(v).__name__, canon(d, depth + 1)]
        return "<%s>" % type(v).__name__
    return "<obj %s.%s>" % (type(v).__module__, type(v).__name__)


def t(thunk):
    """sub-result of a compound operation: the value, or the exception class"""
    try:
        return canon(thunk())
    except RecursionError:
        raise
    except Exception as e:  # noqa
        return "!" + type(e).__name__


def getters(obj):
    """every public method of a configuration object that takes no argument (the mutators Use*(value) take
       one and are not called), by name"""
    out = []
    for name in sorted(dir(type(obj))):
        if name.startswith("_"):
            continue
        f = getattr(type(obj), name, None)
        if not callable(f):
            continue
        try:
            sig = inspect.signature(getattr(obj, name))
        except (TypeError, ValueError):
            continue
        if len(sig.parameters) != 0:
            continue
        out.append([name, t(getattr(obj, name))])
    return out


# ----------------------------------------------------------------------------------- operation kinds

KINDS = {}


def kind(name):
    def deco(f):
        KINDS[name] = f
        return f
    return deco


def _coin(h, c):
    return ALL[h + "Coins"][c]


def _conf(h, c):
    return ALL[h + "ConfGetter"].GetConfig(_coin(h, c))


def _hd(h, c):
    return ALL[h].FromSeed(SEED, _coin(h, c))


def _lang(lang_enum, lang):
    return None if lang is None else ALL[lang_enum][lang]


@kind("hd.addr")
def hd_addr(h, c):
    return _hd(h, c).DeriveDefaultPath().PublicKey().ToAddress()


@kind("hd.keys")
def hd_keys(h, c):
    m = _hd(h, c)
    d = m.DeriveDefaultPath()
    return [t(lambda: m.PublicKey().ToExtended()), t(lambda: m.PrivateKey().ToExtended()),
            t(lambda: d.PublicKey().RawCompressed().ToHex()), t(lambda: d.PrivateKey().Raw().ToHex()),
            t(lambda: d.PrivateKey().ToWif()), t(lambda: d.PrivateKey().PublicKey().ToAddress()),
            t(lambda: int(d.Level())), t(lambda: d.PublicKey().ChainCode().ToHex())]


@kind("hd.levels")
def hd_levels(h, c):
    ch = ALL["Bip44Changes"]
    o = _hd(h, c).Purpose().Coin().Account(1).Change(ch.CHAIN_INT).AddressIndex(2)
    return [o.PublicKey().RawCompressed().ToHex(), t(lambda: o.PublicKey().ToAddress()),
            t(lambda: o.PublicKey().ToExtended())]


@kind("hd.pubonly")
def hd_pubonly(h, c):
    ch = ALL["Bip44Changes"]
    acc = _hd(h, c).Purpose().Coin().Account(0)
    p = ALL[h].FromExtendedKey(acc.PublicKey().ToExtended(), _coin(h, c))
    return [p.IsPublicOnly(), int(p.Level()),
            t(lambda: p.Change(ch.CHAIN_EXT).AddressIndex(0).PublicKey().ToAddress()),
            t(lambda: p.PrivateKey().Raw().ToHex())]


@kind("hd.xkey")
def hd_xkey(h, c, xkey):
    o = ALL[h].FromExtendedKey(xkey, _coin(h, c))
    return [int(o.Level()), o.IsPublicOnly(), o.PublicKey().RawCompressed().ToHex(),
            t(lambda: o.PublicKey().ToAddress()), t(lambda: o.PublicKey().ToExtended())]


@kind("hd.fromkey")
def hd_fromkey(h, c):
    """the SAME private key bytes for every coin (of the same key length): what a cache keyed by the key alone,
       or by less than (key, every coin parameter), confuses"""
    cf = _conf(h, c)
    n = cf.Bip32Class().CurveType()
    ln = ALL["EllipticCurveGetter"].FromType(n).PrivateKeyClass().Length()
    priv = (bytes([0]) + SEED + SEED)[:ln]
    o = ALL[h].FromPrivateKey(priv, _coin(h, c))
    return [o.PublicKey().RawCompressed().ToHex(), t(lambda: o.PublicKey().ToAddress()),
            t(lambda: o.PrivateKey().ToWif()), t(lambda: o.PublicKey().ToExtended())]


@kind("conf.get")
def conf_get(h, c):
    cf = _conf(h, c)
    return [type(cf).__name__, getters(cf)]


@kind("conf.raw")
def conf_raw(h, c):
    return canon(vars(_conf(h, c)))


@kind("conf.viaobj")
def conf_viaobj(h, c):
    o = _hd(h, c)
    cf = o.CoinConf()
    return [cf is _conf(h, c), type(cf).__name__, getters(cf),
            getters(o.DeriveDefaultPath().PublicKey().Bip32Key().KeyNetVersions())
            if hasattr(o.PublicKey().Bip32Key(), "KeyNetVersions") else None]


def _addr_parts(h, c):
    cf = _conf(h, c)
    pub = _hd(h, c).DeriveDefaultPath().PublicKey().Bip32Key()
    return cf, pub


@kind("addr.enc")
def addr_enc(h, c):
    cf, pub = _addr_parts(h, c)
    return cf.AddrClass().EncodeKey(pub.KeyObject(), **cf.AddrParamsWithResolvedCalls(pub))


def decoder_of(enc_cls):
    return ALL.get(enc_cls.__name__.replace("Encoder", "Decoder"))


@kind("addr.dec")
def addr_dec(h, c, addr):
    cf, pub = _addr_parts(h, c)
    return decoder_of(cf.AddrClass()).DecodeAddr(addr, **cf.AddrParamsWithResolvedCalls(pub))


@kind("wif")
def wif(h, c):
    cf = _conf(h, c)
    nv = cf.WifNetVersion()
    if nv is None:
        return None
    priv = _hd(h, c).DeriveDefaultPath().PrivateKey().Raw().ToBytes()
    w = ALL["WifEncoder"].Encode(priv, nv)
    d = ALL["WifDecoder"].Decode(w, nv)
    return [w, d[0], d[1]]


@kind("wif.dec")
def wif_dec(h, c, w):
    d = ALL["WifDecoder"].Decode(w, _conf(h, c).WifNetVersion())
    return [d[0], d[1]]


@kind("toggle")
def toggle(h, c, meth):
    """set a coin option, query, restore it: the result is the one under the option, the state afterwards the
       initial one"""
    cf = _conf(h, c)
    getattr(cf, meth)(True)
    try:
        return [t(lambda: hd_addr(h, c)), t(lambda: _hd(h, c).PublicKey().ToExtended()), getters(cf)]
    finally:
        getattr(cf, meth)(False)


# ---- mnemonics (family = class-name prefix: Bip39, Monero, Algorand, ElectrumV1, ElectrumV2)

def _mn_obj(cls, lang_enum, lang, extra, *pos):
    kw = {}
    ps = inspect.signature(cls.__init__).parameters
    if "lang" in ps:
        kw["lang"] = _lang(lang_enum, lang)
    if "mnemonic_type" in ps:
        kw["mnemonic_type"] = None if extra is None else ALL["ElectrumV2MnemonicTypes"][extra]
    return cls(*pos, **kw)


@kind("mn.decode")
def mn_decode(fam, lang_enum, lang, mnemonic, extra=None):
    d = _mn_obj(ALL[fam + "MnemonicDecoder"], lang_enum, lang, extra)
    out = []
    for name in sorted(vars(type(d))):
        if name.startswith("Decode"):
            out.append([name, t(lambda: getattr(d, name)(mnemonic))])
    return out


@kind("mn.valid")
def mn_valid(fam, lang_enum, lang, mnemonic, extra=None):
    return _mn_obj(ALL[fam + "MnemonicValidator"], lang_enum, lang, extra).IsValid(mnemonic)


@kind("mn.seed")
def mn_seed(cls, lang_enum, lang, mnemonic):
    return _mn_obj(ALL[cls], lang_enum, lang, None, mnemonic).Generate()


@kind("mn.encode")
def mn_encode(fam, lang_enum, lang, entropy_hex, extra=None):
    g = _mn_obj(ALL[fam + "MnemonicGenerator"], lang_enum, lang, extra)
    out = []
    for name in sorted(vars(type(g))):
        if name.startswith("FromEntropy"):
            out.append([name, t(lambda: getattr(g, name)(bytes.fromhex(entropy_hex)).ToStr())])
    return out


@kind("mn.shared")
def mn_shared(fam, lang_enum, mnemonics):
    """ONE decoder and ONE validator object (automatic language) used for several mnemonics in a row, against a new
       object per mnemonic: a self-checking operation (see selfcheck_bad)"""
    d = _mn_obj(ALL[fam + "MnemonicDecoder"], lang_enum, None, None)
    v = _mn_obj(ALL[fam + "MnemonicValidator"], lang_enum, None, None)
    shared = [[t(lambda: d.Decode(m)), t(lambda: v.IsValid(m))] for m in mnemonics]
    fresh = [[t(lambda: _mn_obj(ALL[fam + "MnemonicDecoder"], lang_enum, None, None).Decode(m)),
              t(lambda: _mn_obj(ALL[fam + "MnemonicValidator"], lang_enum, None, None).IsValid(m))] for m in mnemonics]
    return ["selfcheck", shared, fresh]


@kind("defaults")
def defaults(what):
    """entry points called with their DEFAULT network / coin / version arguments"""
    priv = SEED[:32]
    if what == "wif":
        w = ALL["WifEncoder"].Encode(priv)
        return [w, list(ALL["WifDecoder"].Decode(w))]
    if what == "monero":
        return ALL["Monero"].FromSeed(SEED[:32]).PrimaryAddress()
    if what == "deser":
        x = ALL["Bip32Slip10Secp256k1"].FromSeed(SEED).PublicKey().ToExtended()
        d = ALL["Bip32KeyDeserializer"].DeserializeKey(x)
        return [x, d.KeyBytes(), d.IsPublic(), getters(d.KeyData())]
    if what == "p2pkh":
        pub = ALL["Bip32Slip10Secp256k1"].FromSeed(SEED).PublicKey().KeyObject()
        return [ALL["P2PKHAddrEncoder"].EncodeKey(pub, net_ver=b"\x00"), ALL["EthAddrEncoder"].EncodeKey(pub),
                ALL["TrxAddrEncoder"].EncodeKey(pub), ALL["XrpAddrEncoder"].EncodeKey(pub)]
    if what == "b58":
        return [ALL["Base58Encoder"].CheckEncode(priv), ALL["Base58Decoder"].CheckDecode(ALL["Base58Encoder"].CheckEncode(priv))]
    if what == "bip38":
        return None
    raise KeyError(what)


# ---- other wallets

@kind("substrate")
def substrate(c):
    o = ALL["Substrate"].FromSeed(SEED[:32], ALL["SubstrateCoins"][c])
    return [o.PublicKey().ToAddress(), o.PrivateKey().Raw().ToHex(), o.ChildKey("//a").PublicKey().ToAddress(),
            o.ChildKey("/b").PublicKey().ToAddress(), o.DerivePath("//x/y").PublicKey().RawCompressed().ToHex(),
            getters(o.CoinConf())]


@kind("substrate.conf")
def substrate_conf(c):
    cf = ALL["SubstrateConfGetter"].GetConfig(ALL["SubstrateCoins"][c])
    return [getters(cf), canon(vars(cf))]


@kind("monero")
def monero(c):
    o = ALL["Monero"].FromSeed(SEED[:32], ALL["MoneroCoins"][c])
    return [o.PrimaryAddress(), o.Subaddress(1, 2), o.Subaddress(0, 0), o.IntegratedAddress(bytes(range(8))),
            o.PrivateSpendKey().Raw().ToHex(), o.PrivateViewKey().Raw().ToHex(), getters(o.CoinConf())]


@kind("monero.conf")
def monero_conf(c):
    cf = ALL["MoneroConfGetter"].GetConfig(ALL["MoneroCoins"][c])
    return [getters(cf), canon(vars(cf))]


@kind("monero.watch")
def monero_watch(c):
    o = ALL["Monero"].FromSeed(SEED[:32], ALL["MoneroCoins"][c])
    w = ALL["Monero"].FromWatchOnly(o.PrivateViewKey().Raw().ToBytes(), o.PublicSpendKey().RawCompressed().ToBytes(),
                                    ALL["MoneroCoins"][c])
    return [w.IsWatchOnly(), w.PrimaryAddress(), w.Subaddress(3, 1), t(lambda: w.PrivateSpendKey().Raw().ToHex())]


@kind("byron.legacy")
def byron_legacy():
    o = ALL["CardanoByronLegacy"].FromSeed(SEED[:32])
    return [o.GetAddress(0, 0), o.GetAddress(1, 2), o.GetPrivateKey(0, 0).Raw().ToHex(), o.HdPathKey(),
            o.MasterPublicKey().RawCompressed().ToHex(),
            t(lambda: o.HdPathFromAddress(o.GetAddress(1, 2)).ToStr())]


@kind("shelley")
def shelley(c):
    """CardanoShelley built from a Cip1852 account object of the coin: addresses, staking/reward keys"""
    ch = ALL["Bip44Changes"]
    acc = ALL["Cip1852"].FromSeed(SEED, ALL["Cip1852Coins"][c]).Purpose().Coin().Account(0)
    sh = ALL["CardanoShelley"].FromCip1852Object(acc)
    a = sh.Change(ch.CHAIN_EXT).AddressIndex(0)
    return [t(lambda: sh.StakingObject().PublicKey().ToAddress()), t(lambda: sh.RewardObject().PublicKey().ToAddress()),
            t(lambda: a.PublicKeys().ToAddress()), t(lambda: a.PublicKeys().ToStakingAddress()),
            t(lambda: a.PublicKeys().ToRewardAddress()), t(lambda: a.PrivateKeys().AddressKey().Raw().ToHex()),
            t(lambda: a.PrivateKeys().StakingKey().Raw().ToHex()), sh.IsPublicOnly()]


@kind("shelley.after")
def shelley_after(c):
    """the plain Cip1852 API of a coin queried on the very account object that was handed to CardanoShelley"""
    acc = ALL["Cip1852"].FromSeed(SEED, ALL["Cip1852Coins"][c]).Purpose().Coin().Account(0)
    before = [getters(acc.CoinConf()), t(lambda: acc.PublicKey().ToAddress())]
    ALL["CardanoShelley"].FromCip1852Object(acc)
    return [before, getters(acc.CoinConf()), t(lambda: acc.PublicKey().ToAddress()), acc.IsPublicOnly()]


@kind("electrum.v1")
def electrum_v1():
    o = ALL["ElectrumV1"].FromSeed(SEED[:16].hex().encode())
    return [o.GetAddress(0, 3), o.GetAddress(1, 0), o.GetPrivateKey(0, 1).Raw().ToHex(),
            o.MasterPublicKey().RawUncompressed().ToHex()]


@kind("electrum.v2")
def electrum_v2(cls):
    o = ALL[cls].FromSeed(SEED)
    return [o.GetAddress(0, 2), o.GetAddress(1, 7), o.GetPrivateKey(0, 2).Raw().ToHex(),
            o.MasterPublicKey().RawCompressed().ToHex()]


@kind("bip32")
def bip32(cls):
    """every Bip32Base subclass: master and child keys, serialisation round trip"""
    k = ALL[cls]
    try:
        seed = SEED
        o = k.FromSeed(seed)
    except ValueError:          # a class that takes 32-byte seeds only
        seed = SEED[:32]
        o = k.FromSeed(seed)
    x = o.PrivateKey().ToExtended()
    return [o.PublicKey().ToExtended(), x, t(lambda: o.ChildKey(HARD + 1).PublicKey().RawCompressed().ToHex()),
            t(lambda: o.ChildKey(0).PublicKey().RawCompressed().ToHex()),
            t(lambda: o.DerivePath("0'/1'").PublicKey().FingerPrint().ToHex()),
            t(lambda: k.FromExtendedKey(x).PrivateKey().Raw().ToHex()),
            t(lambda: k.FromSeedAndPath(seed, "m/0'/2'").PublicKey().RawCompressed().ToHex())]


@kind("curve.keys")
def curve_keys(curve, priv_hex):
    """private key bytes -> public key in both encodings, parsed back from each (formats are told apart by length
       and prefix only)"""
    cv = ALL["EllipticCurveGetter"].FromType(ALL["EllipticCurveTypes"][curve])
    priv = cv.PrivateKeyClass().FromBytes(bytes.fromhex(priv_hex))
    pub = priv.PublicKey()
    comp, unc = pub.RawCompressed().ToBytes(), pub.RawUncompressed().ToBytes()
    return [comp, unc, t(lambda: cv.PublicKeyClass().FromBytes(comp).RawUncompressed().ToHex()),
            t(lambda: cv.PublicKeyClass().FromBytes(unc).RawCompressed().ToHex()),
            t(lambda: cv.PublicKeyClass().FromBytes(comp[1:]).RawCompressed().ToHex()),
            t(lambda: cv.PublicKeyClass().IsValidBytes(unc[1:]))]


@kind("curve.point")
def curve_point(curve, enc_hex):
    """coordinates of the point decoded from an encoding (two encodings may differ in the sign bit only)"""
    cv = ALL["EllipticCurveGetter"].FromType(ALL["EllipticCurveTypes"][curve])
    p = cv.PointClass().FromBytes(bytes.fromhex(enc_hex))
    return [p.X(), p.Y(), p.RawEncoded().ToHex(), t(lambda: (p + p).RawEncoded().ToHex())]


@kind("curve.parse")
def curve_parse(curve, pub_hex):
    cv = ALL["EllipticCurveGetter"].FromType(ALL["EllipticCurveTypes"][curve])
    return cv.PublicKeyClass().FromBytes(bytes.fromhex(pub_hex)).RawCompressed().ToHex()


@kind("slip32")
def slip32(path):
    o = ALL["Bip32Slip10Secp256k1"].FromSeed(SEED).DerivePath(path)
    sp = ALL["Slip32PublicKeySerializer"].Serialize(o.PublicKey().KeyObject(), path, o.ChainCode())
    ss = ALL["Slip32PrivateKeySerializer"].Serialize(o.PrivateKey().KeyObject(), path, o.ChainCode())
    d = ALL["Slip32KeyDeserializer"].DeserializeKey(sp)
    e = ALL["Slip32KeyDeserializer"].DeserializeKey(ss)
    return [sp, ss, d.KeyBytes(), d.Path().ToStr(), d.IsPublic(), e.KeyBytes(), e.Path().ToStr(), e.IsPublic()]


@kind("slip32.dec")
def slip32_dec(s):
    d = ALL["Slip32KeyDeserializer"].DeserializeKey(s)
    return [d.KeyBytes(), d.Path().ToStr(), d.ChainCode().ToHex(), d.IsPublic()]


@kind("bip38")
def bip38(mode):
    m = ALL["Bip38PubKeyModes"][mode]
    priv = SEED[:32]
    e = ALL["Bip38Encrypter"].EncryptNoEc(priv, "passΥword", m)
    d = ALL["Bip38Decrypter"].DecryptNoEc(e, "passΥword")
    return [e, d[0], d[1], t(lambda: ALL["Bip38Decrypter"].DecryptNoEc(e, "other"))]


@kind("bip38.ec")
def bip38_ec(lot):
    g = ALL["Bip38EcKeysGenerator"]
    if lot:
        ip = g.GenerateIntermediatePassphrase("TestingOneTwoThree", 100000, 1, bytes(range(4)))
    else:
        ip = g.GenerateIntermediatePassphrase("TestingOneTwoThree", None, None, bytes(range(8)))
    e = g.GeneratePrivateKey(ip, ALL["Bip38PubKeyModes"].COMPRESSED, SEED[:24])
    d = ALL["Bip38Decrypter"].DecryptEc(e, "TestingOneTwoThree")
    return [ip, e, d[0], d[1]]


@kind("b58")
def b58(alph, data_hex):
    a = ALL["Base58Alphabets"][alph]
    data = bytes.fromhex(data_hex)
    e, c = ALL["Base58Encoder"].Encode(data, a), ALL["Base58Encoder"].CheckEncode(data, a)
    return [e, c, ALL["Base58Decoder"].Decode(e, a), ALL["Base58Decoder"].CheckDecode(c, a)]


@kind("b58.dec")
def b58_dec(alph, s):
    a = ALL["Base58Alphabets"][alph]
    return [t(lambda: ALL["Base58Decoder"].Decode(s, a)), t(lambda: ALL["Base58Decoder"].CheckDecode(s, a))]


@kind("b58xmr")
def b58xmr(data_hex):
    e = ALL["Base58XmrEncoder"].Encode(bytes.fromhex(data_hex))
    return [e, ALL["Base58XmrDecoder"].Decode(e)]


@kind("bech32")
def bech32(hrp, data_hex):
    data = bytes.fromhex(data_hex)
    e = ALL["Bech32Encoder"].Encode(hrp, data)
    s0 = ALL["SegwitBech32Encoder"].Encode(hrp, 0, data)
    s1 = ALL["SegwitBech32Encoder"].Encode(hrp, 1, data + data[:12])
    b = ALL["BchBech32Encoder"].Encode(hrp, b"\x00", data)
    return [e, s0, s1, b, ALL["Bech32Decoder"].Decode(hrp, e), list(ALL["SegwitBech32Decoder"].Decode(hrp, s0)),
            list(ALL["SegwitBech32Decoder"].Decode(hrp, s1)), list(ALL["BchBech32Decoder"].Decode(hrp, b))]


@kind("bech32.dec")
def bech32_dec(dec, hrp, s):
    """one string offered to each bech32 flavour"""
    return t(lambda: ALL[dec].Decode(hrp, s))


@kind("ss58")
def ss58(fmt, data_hex):
    e = ALL["SS58Encoder"].Encode(bytes.fromhex(data_hex), fmt)
    return [e, list(ALL["SS58Decoder"].Decode(e))]


@kind("base32")
def base32(data_hex, alph):
    e = ALL["Base32Encoder"].Encode(bytes.fromhex(data_hex), alph)
    f = ALL["Base32Encoder"].EncodeNoPadding(bytes.fromhex(data_hex), alph)
    return [e, f, ALL["Base32Decoder"].Decode(e, alph), ALL["Base32Decoder"].Decode(f, alph)]


@kind("path")
def path(s):
    p = ALL["Bip32PathParser"].Parse(s)
    return [p.ToStr(), p.IsAbsolute(), [int(e) for e in p.ToList()]]


@kind("subpath")
def subpath(s):
    p = ALL["SubstratePathParser"].Parse(s)
    return [p.ToStr(), p.ToList(), [[e.ToStr(), e.IsHard(), e.ChainCode()] for e in p]]


@kind("coinsconf")
def coinsconf(name):
    cf = getattr(ALL["CoinsConf"], name)
    return [getters(cf), canon(vars(cf))]


@kind("spl")
def spl():
    a = ALL["Bip44"].FromSeed(SEED, ALL["Bip44Coins"].SOLANA).DeriveDefaultPath().PublicKey().ToAddress()
    return [a, ALL["SplToken"].GetAssociatedTokenAddress(a, "EPjFWdd5AufqSSqeM2qN1xzybapC8G4wEGGkZwyTDt1v")]


@kind("bchconv")
def bchconv(h, c, hrp):
    return ALL["BchAddrConverter"].Convert(hd_addr(h, c), hrp)


@kind("bad")
def bad(what):
    """calls that fail (the failure must leave nothing behind)"""
    if what == "seed":
        return ALL["Bip44"].FromSeed(b"\x01" * 8, ALL["Bip44Coins"].BITCOIN)
    if what == "extkey":
        return ALL["Bip44"].FromExtendedKey("xpub" + "1" * 107, ALL["Bip44Coins"].BITCOIN)
    if what == "depth":
        return _hd("Bip44", "BITCOIN").Coin()
    if what == "path":
        return ALL["Bip32Slip10Secp256k1"].FromSeed(SEED).DerivePath("m/0'/x")
    if what == "pubhard":
        o = ALL["Bip32Slip10Secp256k1"].FromSeed(SEED)
        o.ConvertToPublic()
        return o.ChildKey(HARD)
    if what == "cointype":
        return ALL["Bip49"].FromSeed(SEED, ALL["Bip44Coins"].BITCOIN)
    raise KeyError(what)


def selfcheck_bad(result):
    """a self-checking operation returns ["selfcheck", a, b] with a == b required"""
    return (isinstance(result, list) and len(result) == 2 and result[0] == "ok" and isinstance(result[1], list)
            and len(result[1]) == 3 and result[1][0] == "selfcheck" and result[1][1] != result[1][2])


def run_op(spec):
    try:
        return ["ok", canon(KINDS[spec[0]](*spec[1:]))]
    except RecursionError:
        raise
    except Exception as e:  # noqa
        return ["err", type(e).__name__]


def resource_key(spec):
    """what an operation uses for the first time in a fresh interpreter, as far as its specification tells: the
       (word-list family, language) of a mnemonic operation, the (hierarchy, coin) of a coin operation, else the kind
       and its first argument"""
    k = spec[0]
    if k.startswith("mn."):
        if k == "mn.shared":
            return "mn|%s|shared" % spec[1]
        return "mn|%s|%s" % (spec[2], spec[3])
    if len(spec) >= 3 and isinstance(spec[1], str) and spec[1] + "Coins" in ALL:
        return "coin|%s|%s" % (spec[1], spec[2])
    return "%s|%s" % (k, json.dumps(spec[1]) if len(spec) > 1 else "")


def op_name(spec, limit=44):
    def sh(a):
        s = a if isinstance(a, str) else json.dumps(a)
        return s if len(s) <= limit else s[:limit - 12] + "..#" + hashlib.sha1(s.encode()).hexdigest()[:8]
    return "%s(%s)" % (spec[0], ", ".join(sh(a) for a in spec[1:]))


# ----------------------------------------------------------------------------------- snapshot of process-wide state
#
# What is walked: every module bip_utils[.*] in sys.modules -> its globals; every class defined there ->
# its own __dict__ (class-level attributes, name-mangled private ones included, nested classes); dicts,
# lists, tuples, sets and the __dict__ of instances of bip_utils classes, recursively (depth <= 12).
# What is NOT walked, and why (listed in the evidence as ctx.dist["snapshot_exclusions"]):
SNAPSHOT_EXCLUSIONS = [
    "functions, methods, staticmethod/classmethod/property objects, functools.lru_cache wrappers: code, not data; "
    "the lru_cache contents are not introspectable -- they are covered by the Coq obligation caches_over_immutable "
    "over Gen/Objects.v and by the result comparison of every call",
    "module objects and dunder attributes of modules/classes (__doc__, __file__, __builtins__, __dict__, "
    "__abstractmethods__, _abc_impl ...): interpreter bookkeeping",
    "Enum classes are atoms (members are immutable singletons created at import); enum members render as Class.MEMBER",
    "objects of classes defined outside bip_utils (coincurve/ecdsa/nacl keys and curve objects, hashlib handles) render "
    "as their type name only: third-party state is out of scope and not reachable through bip_utils data",
    "lists/dicts of more than 64 atoms (word lists) are replaced by their length and SHA-1: same information, smaller",
    "memoisation caches that may FILL (a value appears where there was none) -- the fields Gen/Objects.v reports as "
    "lazily initialised (MnemonicWordsListGetterBase.__instance per getter class and its m_words_lists: word-list "
    "files, pure memoisation of file contents); a fill is accepted only if the entry did not exist before, and the "
    "filled values must be identical in every history of the run",
]
MAXDEPTH = 12
_FUNC_TYPES = (types.FunctionType, types.BuiltinFunctionType, types.MethodType, staticmethod, classmethod, property,
               functools.partial, types.MethodDescriptorType, types.WrapperDescriptorType, types.GetSetDescriptorType,
               types.MemberDescriptorType)


def _atom(v):
    return v is None or isinstance(v, (bool, int, float, str, bytes, bytearray, enum.Enum, type))


def _atomv(v):
    if isinstance(v, float):
        return repr(v)
    if isinstance(v, (bytes, bytearray)):
        return "0x" + bytes(v).hex()
    if isinstance(v, enum.Enum):
        return "%s.%s" % (type(v).__name__, v.name)
    if isinstance(v, type):
        return "<class %s.%s>" % (v.__module__, v.__qualname__)
    if isinstance(v, str) and len(v) > 300:
        return "<str %d %s>" % (len(v), hashlib.sha1(v.encode()).hexdigest()[:16])
    return v


def _keyrepr(k):
    return json.dumps(_atomv(k) if _atom(k) else canon(k), sort_keys=True)


def _digest(x):
    return hashlib.sha1(json.dumps(x, sort_keys=True, ensure_ascii=True).encode()).hexdigest()[:20]


def _walk(out, path, v, depth, stack):
    if _atom(v):
        out[path] = _atomv(v)
        return
    if isinstance(v, _FUNC_TYPES) or hasattr(v, "cache_info"):
        out[path] = "<function>"
        return
    if isinstance(v, types.ModuleType):
        out[path] = "<module %s>" % v.__name__
        return
    if id(v) in stack:
        out[path] = "<cycle>"
        return
    if depth > MAXDEPTH:
        out[path] = "<deep>"
        return
    stack = stack | {id(v)}
    if isinstance(v, dict):
        if len(v) > 64 and all(_atom(k) and _atom(x) for k, x in v.items()):
            out[path] = "<dict %d %s>" % (len(v), _digest(sorted([_keyrepr(k), _atomv(x)] for k, x in v.items())))
            return
        out[path] = "<dict>"
        for k, x in v.items():
            _walk(out, "%s[%s]" % (path, _keyrepr(k)), x, depth + 1, stack)
        return
    if isinstance(v, (list, tuple)):
        if len(v) > 64 and all(_atom(x) for x in v):
            out[path] = "<%s %d %s>" % (type(v).__name__, len(v), _digest([_atomv(x) for x in v]))
            return
        out[path] = "<%s %d>" % (type(v).__name__, len(v))
        for i, x in enumerate(v):
            _walk(out, "%s[%d]" % (path, i), x, depth + 1, stack)
        return
    if isinstance(v, (set, frozenset)):
        out[path] = "<set %d %s>" % (len(v), _digest(sorted(_keyrepr(x) for x in v)))
        return
    if type(v).__module__.startswith("bip_utils"):
        out[path] = "<obj %s>" % type(v).__name__
        d = getattr(v, "__dict__", None)
        if isinstance(d, dict):
            for k, x in d.items():
                _walk(out, "%s.%s" % (path, k), x, depth + 1, stack)
        for k in getattr(type(v), "__slots__", ()):
            if hasattr(v, k):
                _walk(out, "%s.%s" % (path, k), getattr(v, k), depth + 1, stack)
        return
    out[path] = "<obj %s.%s>" % (type(v).__module__, type(v).__name__)


def _walk_class(out, path, cls, depth):
    out[path] = "<class %s.%s>" % (cls.__module__, cls.__qualname__)
    if issubclass(cls, enum.Enum) or depth > 4:
        return
    for attr, v in list(vars(cls).items()):
        if attr.startswith("__") and attr.endswith("__"):
            continue
        if attr == "_abc_impl":
            continue
        if isinstance(v, type) and v.__module__ == cls.__module__ and v.__qualname__.startswith(cls.__qualname__ + "."):
            _walk_class(out, "%s.%s" % (path, attr), v, depth + 1)
        else:
            _walk(out, "%s.%s" % (path, attr), v, 0, frozenset())


def snapshot(only=None):
    """only: restrict the walk to these modules (used while shrinking a history for one changed path)"""
    out = {}
    mods = sorted(n for n in sys.modules if (n == "bip_utils" or n.startswith("bip_utils.")) and sys.modules[n] is not None)
    for mn in mods:
        if only is not None and mn not in only:
            continue
        out["<module>" + mn] = "loaded"
        for attr, v in list(vars(sys.modules[mn]).items()):
            if attr.startswith("__") and attr.endswith("__"):
                continue
            p = "%s:%s" % (mn, attr)
            if isinstance(v, type):
                if v.__module__ == mn:
                    _walk_class(out, p, v, 0)
                else:
                    out[p] = _atomv(v)          # an imported name: only what it is bound to
            else:
                _walk(out, p, v, 0, frozenset())
    return out


ABSENT = "<absent>"


def snapdiff(a, b):
    out = []
    for k in sorted(set(a) | set(b)):
        x, y = a.get(k, ABSENT), b.get(k, ABSENT)
        if x != y:
            out.append([k, x, y])
    return out


# ----------------------------------------------------------------------------------- worker

def run_rounds(rounds, seed):
    """Schedule stream: every round starts len(round) threads behind a barrier, thread i performs round[i]; meant
       for a FRESH interpreter, where the operations of a round are the first use of some lazily initialised
       shared state.  The seed only varies how long each thread spins after the barrier."""
    import random
    old = sys.getswitchinterval()
    sys.setswitchinterval(1e-6)
    out = []
    try:
        for ri, rnd in enumerate(rounds):
            n = len(rnd)
            bar = threading.Barrier(n)
            res = [None] * n

            def work(i, rnd=rnd, bar=bar, res=res, ri=ri):
                spin = random.Random(seed * 1000003 + ri * 101 + i).randrange(0, 400)
                try:
                    bar.wait(60)
                except threading.BrokenBarrierError:
                    pass
                for _ in range(spin):
                    pass
                res[i] = run_op(rnd[i])
            ths = [threading.Thread(target=work, args=(i,)) for i in range(n)]
            for th in ths:
                th.start()
            for th in ths:
                th.join()
            out.append(res)
    finally:
        sys.setswitchinterval(old)
    return out


def handle(req):
    if "rounds" in req:
        return {"rres": run_rounds(req["rounds"], int(req.get("seed") or 0))}
    ops = req["ops"]
    out = {}
    only = req.get("snapmods")
    s0 = snapshot(only) if req.get("snap") else None
    nth = int(req.get("threads") or 0)
    if nth:
        old = sys.getswitchinterval()
        sys.setswitchinterval(1e-6)
        tres = [None] * nth
        try:
            def worker(i):
                order = list(range(len(ops)))
                k = (i * len(ops)) // nth
                order = order[k:] + order[:k]
                if i % 2:
                    order.reverse()
                r = [None] * len(ops)
                for j in order:
                    r[j] = run_op(ops[j])
                tres[i] = r
            ths = [threading.Thread(target=worker, args=(i,)) for i in range(nth)]
            for th in ths:
                th.start()
            for th in ths:
                th.join()
        finally:
            sys.setswitchinterval(old)
        out["tres"] = tres
    else:
        out["res"] = [run_op(s) for s in ops]
    if s0 is not None:
        out["diff"] = snapdiff(s0, snapshot(only))
        out["snapshot_size"] = len(s0)
    return out


def _answer(req):
    try:
        return json.dumps(handle(req))
    except BaseException as e:  # noqa
        return json.dumps({"crash": "%s: %s" % (type(e).__name__, e)})


def worker_once():
    """one request, executed by this interpreter itself"""
    req = json.loads(sys.stdin.readline())
    sys.stdout.write(_answer(req) + "\n")
    sys.stdout.flush()


def worker_zygote():
    """serves requests one after the other, each in a child forked from this interpreter, which has imported the
       library and called nothing: the child is in the state of a fresh interpreter after the import"""
    while True:
        line = sys.stdin.readline()
        if not line:
            return
        req = json.loads(line)
        r, w = os.pipe()
        pid = os.fork()
        if pid == 0:
            code = 0
            try:
                os.close(r)
                with os.fdopen(w, "w") as f:
                    f.write(_answer(req))
            except BaseException:  # noqa
                code = 1
            finally:
                os._exit(code)
        os.close(w)
        with os.fdopen(r) as f:
            data = f.read()
        os.waitpid(pid, 0)
        sys.stdout.write((data or json.dumps({"crash": "worker died"})) + "\n")
        sys.stdout.flush()


# ----------------------------------------------------------------------------------- catalogue (check process only)

class Op:
    __slots__ = ("spec", "tags", "amb", "how", "threadsafe")

    def __init__(self, spec, tags=(), amb=False, how="reflective", threadsafe=True):
        self.spec, self.tags, self.amb, self.how, self.threadsafe = list(spec), list(tags), amb, how, threadsafe

    @property
    def name(self):
        return op_name(self.spec)


def hierarchies():
    base = ALL["Bip44Base"]
    return sorted(n for n, c in ALL.items() if issubclass(c, base) and c is not base and n + "Coins" in ALL
                  and n + "ConfGetter" in ALL)


def mnemonic_families():
    return sorted(n[:-len("MnemonicDecoder")] for n in ALL if n.endswith("MnemonicDecoder") and
                  n[:-len("MnemonicDecoder")] + "Languages" in ALL and n[:-len("MnemonicDecoder")] + "MnemonicGenerator" in ALL)


def seed_generators():
    """classes *SeedGenerator whose constructor is (mnemonic, lang=...): (class name, language enum name)"""
    out = []
    for n, c in sorted(ALL.items()):
        if not n.endswith("SeedGenerator"):
            continue
        ps = inspect.signature(c.__init__).parameters
        if "mnemonic" in ps and "lang" in ps and not inspect.isabstract(c):
            ann = str(ps["lang"].annotation)
            enums = [e for e in ALL if e.endswith("Languages") and e in ann]
            if enums:
                out.append((n, sorted(enums, key=len)[-1]))
    return out


def _words_of(fam, lang_enum, lang):
    enc = ALL.get(fam + "MnemonicEncoder")
    e = _mn_obj(enc, lang_enum, lang, "STANDARD")
    wl = e.m_words_list
    return [wl.GetWordAtIdx(i) for i in range(wl.Length())]


def _decodes(fam, lang_enum, lang, mnemonic):
    try:
        _mn_obj(ALL[fam + "MnemonicDecoder"], lang_enum, lang, None).Decode(mnemonic)
        return True
    except Exception:  # noqa
        return False


def shared_word_mnemonics(fam, rng, tries=400):
    """For every ordered pair (A, B) of languages of the family whose word lists intersect: mnemonics built ONLY from
       words that belong to both lists, valid (by search, using the library's own decoder with the explicit
       language) in A and in B.  Returns [(A, B, mnemonic, valid_in)]."""
    le = fam + "Languages"
    langs = [m.name for m in ALL[le]]
    words = {}
    for l in langs:
        try:
            words[l] = _words_of(fam, le, l)
        except Exception:  # noqa
            pass
    nums = sorted({int(m.value) for m in ALL[fam + "WordsNum"]}) if fam + "WordsNum" in ALL else [12]
    lens = sorted({nums[0], nums[-1]})
    out = []
    stats = {}
    for i, a in enumerate(langs):
        for b in langs[i + 1:]:
            if a not in words or b not in words:
                continue
            sh = sorted(set(words[a]) & set(words[b]))
            stats["%s/%s" % (a, b)] = len(sh)
            if len(sh) < 2:
                continue
            for n in lens:
                for target in (a, b):
                    found = None
                    for _ in range(tries):
                        pre = [rng.choice(sh) for _ in range(n - 1)]
                        cands = list(dict.fromkeys(pre + rng.sample(sh, min(len(sh), 40))))
                        for w in cands:
                            m = " ".join(pre + [w])
                            if _decodes(fam, le, target, m):
                                found = m
                                break
                        if found:
                            break
                    if found:
                        out.append((a, b, found, target))
    return out, stats


def build_catalogue(rng, thorough, coins_per_hierarchy=12):
    """-> (ops, info).  Reflective: the hierarchies, their coin enums and configurations, the address classes and
       parameters, the mnemonic families, languages, word lists and seed generators, the Bip32 classes, curves,
       alphabets, Substrate/Monero coins and CoinsConf entries are all discovered from the library."""
    ops, info = [], {}

    def add(spec, tags=(), amb=False, how="reflective", threadsafe=True):
        ops.append(Op(spec, tags, amb, how, threadsafe))

    # ---- BIP-44 family: every coin of every hierarchy
    hs = hierarchies()
    info["hierarchies"] = hs
    chosen = {}
    plain = ALL["BipCoinConf"]
    for h in hs:
        members = [m.name for m in ALL[h + "Coins"]]
        if thorough or len(members) <= coins_per_hierarchy:
            chosen[h] = members
        else:
            # always: the coins whose configuration class adds behaviour (option toggles) or whose address
            # parameters hold an object to be resolved per key (not a plain value); the rest sampled
            special = [c for c in members if type(_conf(h, c)) is not plain or
                       any(type(x).__module__.startswith("bip_utils") and not isinstance(x, (enum.Enum, type))
                           for x in _conf(h, c).AddrParams().values())]
            rest = [c for c in members if c not in special]
            chosen[h] = special + rng.sample(rest, max(0, coins_per_hierarchy - len(special)))
    # a coin name sampled in one hierarchy is taken in every hierarchy that has it (coarse cache keys)
    names = {c for h in hs for c in chosen[h]}
    for h in hs:
        chosen[h] = [m.name for m in ALL[h + "Coins"] if m.name in names]
    info["coins"] = {h: "%d of %d" % (len(chosen[h]), len(ALL[h + "Coins"])) for h in hs}
    addrs, xkeys, wifs = {}, {}, {}
    for h in hs:
        for c in chosen[h]:
            cf = _conf(h, c)
            tags = ["coin:" + c, "addrcls:" + cf.AddrClass().__name__]
            for k in ("hd.addr", "hd.keys", "hd.levels", "hd.pubonly", "conf.get", "conf.raw", "conf.viaobj", "addr.enc"):
                add([k, h, c], tags)
            add(["hd.fromkey", h, c], tags + ["samekey"], amb=True)
            r = run_op(["addr.enc", h, c])
            if r[0] == "ok" and decoder_of(cf.AddrClass()) is not None:
                addrs[(h, c)] = r[1]
                add(["addr.dec", h, c, r[1]], tags)
                a = r[1]
                bad_a = a[:-1] + ("q" if a[-1] != "q" else "p")
                add(["addr.dec", h, c, bad_a], tags)
            if cf.WifNetVersion() is not None:
                add(["wif", h, c], tags)
                r = run_op(["wif", h, c])
                if r[0] == "ok" and r[1]:
                    wifs[(h, c)] = r[1][0]
            for meth in sorted(n for n in dir(type(cf)) if n.startswith("Use") and not hasattr(plain, n)):
                add(["toggle", h, c, meth], tags, threadsafe=False)
            try:
                acc = _hd(h, c).Purpose().Coin().Account(0)
                xkeys[(h, c)] = (acc.PublicKey().ToExtended(), acc.PrivateKey().ToExtended())
            except Exception:  # noqa
                pass
    # ambiguous inputs: the extended key / address / WIF of one coin offered to another coin
    keys = sorted(xkeys)
    for (h, c) in keys:
        others = [k for k in keys if k != (h, c)]
        same_coin = [k for k in others if k[1] == c]
        pick = same_coin[:2] + rng.sample(others, min(2, len(others)))
        for (h2, c2) in pick:
            for x in xkeys[(h, c)][:1 if (h2, c2) not in same_coin else 2]:
                add(["hd.xkey", h2, c2, x], ["coin:" + c2, "coin:" + c], amb=True)
        add(["hd.xkey", h, c, xkeys[(h, c)][0]], ["coin:" + c])
    by_cls = {}
    for (h, c), a in addrs.items():
        by_cls.setdefault(_conf(h, c).AddrClass().__name__, []).append((h, c))
    for cls, lst in sorted(by_cls.items()):
        for (h, c) in lst:
            for (h2, c2) in rng.sample(lst, min(2, len(lst))):
                if (h2, c2) != (h, c):
                    add(["addr.dec", h2, c2, addrs[(h, c)]], ["coin:" + c2, "coin:" + c, "addrcls:" + cls], amb=True)
    wk = sorted(wifs)
    for (h, c) in wk:
        for (h2, c2) in rng.sample(wk, min(2, len(wk))):
            add(["wif.dec", h2, c2, wifs[(h, c)]], ["coin:" + c2, "coin:" + c], amb=(h2, c2) != (h, c))
    for (h, c) in sorted(addrs):
        if "BitcoinCash" in type(_conf(h, c)).__name__ or addrs[(h, c)].count(":") == 1:
            add(["bchconv", h, c, addrs[(h, c)].split(":")[0] + "x"], ["coin:" + c])
    # ---- Cardano Shelley on every Cip1852 coin, Byron legacy, Electrum, Bip32 classes
    if "Cip1852Coins" in ALL:
        for m in ALL["Cip1852Coins"]:
            add(["shelley", m.name], ["coin:" + m.name])
            add(["shelley.after", m.name], ["coin:" + m.name])
    add(["byron.legacy"], ["cardano"])
    add(["electrum.v1"], ["electrum"])
    for n in sorted(n for n in ALL if n.startswith("ElectrumV2") and hasattr(ALL[n], "FromSeed") and
                    not inspect.isabstract(ALL[n]) and n != "ElectrumV2Base"):
        add(["electrum.v2", n], ["electrum"])
    b32 = ALL["Bip32Base"]
    for n in sorted(n for n, c in ALL.items() if issubclass(c, b32) and not inspect.isabstract(c)):
        add(["bip32", n], ["bip32"])
    # ---- Substrate / Monero coins, CoinsConf entries
    for m in ALL["SubstrateCoins"]:
        add(["substrate", m.name], ["substrate"])
        add(["substrate.conf", m.name], ["substrate"])
    for m in ALL["MoneroCoins"]:
        for k in ("monero", "monero.conf", "monero.watch"):
            add([k, m.name], ["monero"])
    cc = sorted(n for n, v in vars(ALL["CoinsConf"]).items() if not n.startswith("_") and
                type(v).__module__.startswith("bip_utils"))
    for n in (cc if thorough else rng.sample(cc, min(30, len(cc)))):
        add(["coinsconf", n], ["coinsconf"])
    info["coinsconf"] = "%d of %d" % (len(cc) if thorough else min(30, len(cc)), len(cc))
    # ---- mnemonics: every family x language, explicit and automatic language
    fams = mnemonic_families()
    sgens = seed_generators()
    info["mnemonic_families"] = fams
    info["seed_generators"] = [s for s, _ in sgens]
    info["shared_words"] = {}
    per_enum = {}           # language enum -> [(lang, mnemonic)]
    finder = {}
    for fam in fams:
        le = fam + "Languages"
        try:
            finder[fam] = _mn_obj(ALL[fam + "MnemonicDecoder"], le, None, None).m_words_list_finder_cls.__name__
        except Exception:  # noqa
            finder[fam] = fam
        tag = ["mn:" + finder[fam]]
        bits = sorted(int(m.value) for m in ALL[fam + "EntropyBitLen"])
        for m in ALL[le]:
            for nb in sorted({bits[0], bits[-1]}):
                ent = bytes((7 * i + nb) % 256 for i in range((nb + 7) // 8))
                ex = "STANDARD" if fam == "ElectrumV2" else None
                r = None
                # ElectrumV2 entropies are valid only if the mnemonic has the right prefix: search
                for k in range(600):
                    e2 = (int.from_bytes(ent, "big") + k).to_bytes(len(ent), "big")
                    r = run_op(["mn.encode", fam, le, m.name, e2.hex(), ex])
                    good = [x for x in (r[1] if r[0] == "ok" else []) if not str(x[1]).startswith("!")]
                    if good:
                        break
                add(["mn.encode", fam, le, m.name, e2.hex(), ex], tag)
                for _, mn in good[-1:]:
                    per_enum.setdefault(le, []).append((m.name, mn))
                    add(["mn.decode", fam, le, m.name, mn, None], tag)
                    add(["mn.decode", fam, le, None, mn, None], tag)
                    add(["mn.valid", fam, le, None, mn, None], tag)
                    add(["mn.valid", fam, le, m.name, mn, None], tag)
                    bad_m = " ".join(mn.split(" ")[1:] + mn.split(" ")[:1])
                    add(["mn.decode", fam, le, None, bad_m, None], tag)
        sh, stats = shared_word_mnemonics(fam, rng)
        info["shared_words"][fam] = {k: v for k, v in stats.items() if v}
        info.setdefault("shared_mnemonics", {})[fam] = len(sh)
        for (a, b, mn, target) in sh:
            per_enum.setdefault(le, []).append((None, mn))
            add(["mn.decode", fam, le, None, mn, None], tag, amb=True)
            add(["mn.valid", fam, le, None, mn, None], tag, amb=True)
            add(["mn.decode", fam, le, a, mn, None], tag)
            add(["mn.decode", fam, le, b, mn, None], tag)
    # one decoder / validator object for several mnemonics (languages in enum order, reversed, shared-word ones last)
    for fam in fams:
        le = fam + "Languages"
        lst = per_enum.get(le, [])
        if len({l for l, _ in lst}) < 2:
            continue
        ms = [m for _, m in lst]
        short = [m for l, m in lst if l is not None][::2]
        amb_ms = [m for l, m in lst if l is None]
        for seq in (short + amb_ms, list(reversed(short)) + amb_ms, amb_ms + short, rng.sample(ms, min(len(ms), 12))):
            if seq:
                add(["mn.shared", fam, le, seq], ["mn:" + finder[fam]], amb=bool(amb_ms))
    # seed generators (BIP-39, Electrum, Monero, Algorand, Cardano, Substrate): mnemonic of the matching enum
    for (sg, le) in sgens:
        fam = le[:-len("Languages")]
        tag = ["mn:" + finder.get(fam, fam)]
        lst = per_enum.get(le, [])
        for (lang, mn) in lst:
            if lang is not None:
                if len(mn.split(" ")) in (12, 13, 24, 25) and (thorough or rng.random() < 0.5):
                    add(["mn.seed", sg, le, lang, mn], tag)
                add(["mn.seed", sg, le, None, mn], tag)
            else:
                add(["mn.seed", sg, le, None, mn], tag, amb=True)
    # a mnemonic of one family offered to the decoder of another
    for fam in fams:
        for fam2 in fams:
            if fam2 != fam and per_enum.get(fam2 + "Languages"):
                mn = per_enum[fam2 + "Languages"][0][1]
                add(["mn.decode", fam, fam + "Languages", None, mn, None], ["mn:" + finder[fam]], amb=True)
    # ---- curves, codecs, failing calls (hand-written specs over reflected enums)
    for m in ALL["EllipticCurveTypes"]:
        # a private key of the curve's own length, found by search (scalar ranges differ per curve)
        try:
            n = ALL["EllipticCurveGetter"].FromType(m).PrivateKeyClass().Length()
        except Exception:  # noqa
            continue
        for k in range(64):
            cand = (bytes([k]) + SEED * 2)[:n - 1] + bytes([k % 16])
            r = run_op(["curve.keys", m.name, cand.hex()])
            if r[0] == "ok":
                add(["curve.keys", m.name, cand.hex()], ["curve"], how="semi")
                # the same point from its compressed encoding and from the encoding with the other sign / parity
                # (when that is a point too): inputs that differ in one bit
                comp = bytes.fromhex(r[1][0][2:])
                encs = [comp, comp[-32:], comp[:-1] + bytes([comp[-1] ^ 0x80]), comp[-32:-1] + bytes([comp[-1] ^ 0x80]),
                        bytes([comp[0] ^ 1]) + comp[1:]]
                for e in encs:
                    if run_op(["curve.point", m.name, e.hex()])[0] == "ok":
                        add(["curve.point", m.name, e.hex()], ["curve"], amb=True, how="semi")
                break
    for m in ALL["Base58Alphabets"]:
        add(["b58", m.name, SEED[:21].hex()], ["codec"], how="semi")
        r = run_op(["b58", m.name, SEED[:21].hex()])
        if r[0] == "ok":
            for m2 in ALL["Base58Alphabets"]:
                add(["b58.dec", m2.name, r[1][1]], ["codec"], amb=m2 is not m, how="semi")
    add(["b58xmr", SEED[:35].hex()], ["codec"], how="hand")
    for hrp in ("bc", "tb", "bitcoincash", "cosmos"):
        add(["bech32", hrp, SEED[:20].hex()], ["codec"], how="hand")
        r = run_op(["bech32", hrp, SEED[:20].hex()])
        if r[0] == "ok":
            for s in r[1][:4]:
                for dec in ("Bech32Decoder", "SegwitBech32Decoder", "BchBech32Decoder"):
                    add(["bech32.dec", dec, hrp, s], ["codec"], amb=True, how="hand")
    for fmt in (0, 2, 42, 63, 64, 16383):
        add(["ss58", fmt, SEED[:32].hex()], ["codec"], how="hand")
    add(["base32", SEED[:17].hex(), None], ["codec"], how="hand")
    add(["base32", SEED[:17].hex(), "0123456789abcdefghijklmnopqrstuv"], ["codec"], how="hand")
    for p in ("m/44'/0'/0'/0/1", "0/1'/2p", "m", "m/0h/4294967295"):
        add(["path", p], ["codec"], how="hand")
    for p in ("//hard/soft//0", "/1//2", "//Alice"):
        add(["subpath", p], ["codec"], how="hand")
    for p in ("m/0'/1", "m/49'/2'/0'"):
        add(["slip32", p], ["codec"], how="hand")
    add(["spl"], ["codec"], how="hand")
    for w in ("wif", "monero", "deser", "p2pkh", "b58"):
        add(["defaults", w], ["codec", "defaults"], how="hand")
    for w in ("seed", "extkey", "depth", "path", "pubhard", "cointype"):
        add(["bad", w], ["bad"], how="hand")
    if thorough:
        for m in ALL["Bip38PubKeyModes"]:
            add(["bip38", m.name], ["bip38"], how="semi")
        add(["bip38.ec", 0], ["bip38"], how="hand")
        add(["bip38.ec", 1], ["bip38"], how="hand")
    else:
        add(["bip38", "COMPRESSED"], ["bip38"], how="semi")
    # de-duplicate (same spec reached twice)
    seen, uniq = {}, []
    for o in ops:
        k = json.dumps(o.spec)
        if k in seen:
            seen[k].tags = sorted(set(seen[k].tags) | set(o.tags))
            seen[k].amb = seen[k].amb or o.amb
            continue
        seen[k] = o
        uniq.append(o)
    info["ops"] = len(uniq)
    info["by_how"] = {h: sum(1 for o in uniq if o.how == h) for h in ("reflective", "semi", "hand")}
    info["by_kind"] = {}
    for o in uniq:
        info["by_kind"][o.spec[0]] = info["by_kind"].get(o.spec[0], 0) + 1
    info["ambiguous_inputs"] = sum(1 for o in uniq if o.amb)
    return uniq, info

"""Oracles of the BIP-39 / seed models (Extract/Api_bip39.v): Python's str.lower, the Electrum
validity tests that Model/Seeds.v takes as parameters, and the Electrum-v1 hash loop.
Nothing here goes through bip_utils."""
import hashlib

import bip39_ref as ref
from modeldrv import T


def _s(x):
    """A text value from the driver (bytes when every code point < 256, else T) -> str."""
    return "".join(chr(c) for c in x)


def py_lower(t):
    return T(_s(t).lower())


def electrum_v2_validate(words):
    return 0 if ref.ev2_valid([_s(w) for w in words]) else 1


def electrum_v1_decode(words):
    r = ref.ev1_decode([_s(w) for w in words])
    return [1, b""] if r is None else [0, r]


def sha256_iter_electrum_v1(hx, n):
    hx = bytes(hx)
    h = hx
    for _ in range(n):
        h = hashlib.sha256(h + hx).digest()
    return h


ORACLES = {
    "py_lower": py_lower,
    "electrum_v2_validate": electrum_v2_validate,
    "electrum_v1_decode": electrum_v1_decode,
    "sha256_iter_electrum_v1": sha256_iter_electrum_v1,
}

"""Independent reference implementations used by the C01/C02 direct checks and by the oracles of
the seed models: BIP-39 straight from the BIP text, Electrum v1/v2 validity from Electrum's
published rules.  Only hashlib / hmac / unicodedata and the word-list *data files* are used --
no code of bip_utils."""
import hashlib
import hmac
import os
import unicodedata

REPO = os.environ.get("VERIF_REPO", "/repo")

# enumeration order of the nine BIP-39 lists the library supports (= its auto-detection order)
LANG_NAMES = ["chinese_simplified", "chinese_traditional", "czech", "english", "french", "italian",
              "korean", "portuguese", "spanish"]
WORD_NUMS = (12, 15, 18, 21, 24)
ENT_BYTES = (16, 20, 24, 28, 32)


def _read(path):
    with open(path, encoding="utf-8") as f:
        # the published lists are in NFKD; read them into that form whatever form the file on disk is in, so that
        # the reference does not inherit a re-saved (e.g. NFC) entry from the tree under test
        return [unicodedata.normalize("NFKD", l.strip()) for l in f.readlines() if l.strip() != "" and not l.startswith("#")]


_cache = {}


def wordlist(i):
    if i not in _cache:
        wl = _read(os.path.join(REPO, "bip_utils", "bip", "bip39", "wordlist", LANG_NAMES[i] + ".txt"))
        _cache[i] = (wl, {w: k for k, w in enumerate(wl)})
    return _cache[i]


def ev1_wordlist():
    if "ev1" not in _cache:
        wl = _read(os.path.join(REPO, "bip_utils", "electrum", "mnemonic_v1", "wordlist", "english.txt"))
        _cache["ev1"] = (wl, {w: k for k, w in enumerate(wl)})
    return _cache["ev1"]


def nfkd(s):
    return unicodedata.normalize("NFKD", s)


def normalize(s):
    """BIP-39 sentence normalisation as the library documents it: split on whitespace, lower, NFKD."""
    return [nfkd(w.lower()) for w in s.split()]


def encode(i, ent):
    """BIP-39: ENT bits || first ENT/32 bits of SHA-256(ENT), cut in 11-bit groups."""
    if len(ent) not in ENT_BYTES:
        raise ValueError("entropy size")
    wl = wordlist(i)[0]
    n = len(ent) * 8
    bits = format(int.from_bytes(ent, "big"), "0%db" % n) + \
        format(int.from_bytes(hashlib.sha256(ent).digest(), "big"), "0256b")[:n // 32]
    return [wl[int(bits[k:k + 11], 2)] for k in range(0, len(bits), 11)]


def decode_in(i, words):
    """('ok', entropy) | ('count',) | ('word',) | ('checksum',) for the word list i."""
    if len(words) not in WORD_NUMS:
        return ("count",)
    idx = wordlist(i)[1]
    if any(w not in idx for w in words):
        return ("word",)
    bits = "".join(format(idx[w], "011b") for w in words)
    cs = len(bits) // 33
    ent = int(bits[:-cs], 2).to_bytes((len(bits) - cs) // 8, "big")
    ck = format(int.from_bytes(hashlib.sha256(ent).digest(), "big"), "0256b")[:cs]
    return ("ok", ent) if ck == bits[-cs:] else ("checksum",)


def accepted_any(words):
    """The property's acceptance condition without a language: some supported list contains all
       words and the checksum holds in it.  Returns the list of (language, entropy)."""
    out = []
    for i in range(len(LANG_NAMES)):
        r = decode_in(i, words)
        if r[0] == "ok":
            out.append((i, r[1]))
    return out


def first_language(words):
    for i in range(len(LANG_NAMES)):
        idx = wordlist(i)[1]
        if all(w in idx for w in words):
            return i
    return None


def bip39_seed(words, passphrase):
    return hashlib.pbkdf2_hmac("sha512", " ".join(words).encode("utf-8"),
                               nfkd("mnemonic" + passphrase).encode("utf-8"), 2048, 64)


# ---- Electrum

def ev1_valid(words):
    idx = ev1_wordlist()[1]
    return len(words) == 12 and all(w in idx for w in words)


def ev1_decode(words):
    """Electrum v1 (old_mnemonic.mn_decode): three words -> one 32-bit chunk; ValueError class
       when the count is not 12 or a word is unknown.  A chunk >= 2^32 is emitted on 5 bytes by the
       library (its defect F8, not this property's business): mirrored here."""
    idx = ev1_wordlist()[1]
    if len(words) != 12 or any(w not in idx for w in words):
        return None
    n = 1626
    out = b""
    for k in range(0, 12, 3):
        a, b, c = (idx[w] for w in words[k:k + 3])
        x = a + n * ((b - a) % n) + n * n * ((c - b) % n)
        out += x.to_bytes(max(4, (x.bit_length() + 7) // 8), "big")
    return out


def ev2_valid(words):
    """Electrum v2 seed-version test as the library applies it with no type and no language:
       12 or 24 words, neither a valid BIP-39 nor a valid Electrum-v1 sentence, the
       HMAC-SHA512("Seed version") hex digest starts with 01/100/101/102, and some BIP-39 list
       contains every word."""
    if len(words) not in (12, 24):
        return False
    if accepted_bip39_autodetect(words) or ev1_valid(words):
        return False
    try:
        h = hmac.new(b"Seed version", " ".join(words).encode("utf-8"), hashlib.sha512).hexdigest()
    except UnicodeEncodeError:
        return False
    if not h.startswith(("01", "100", "101", "102")):
        return False
    return first_language(words) is not None


def accepted_bip39_autodetect(words):
    """What an auto-detecting BIP-39 decoder built as 'first list containing all words' accepts."""
    if len(words) not in WORD_NUMS:
        return False
    i = first_language(words)
    return i is not None and decode_in(i, words)[0] == "ok"


def ev1_seed(entropy):
    hx = entropy.hex().encode()
    h = hx
    for _ in range(100000):
        h = hashlib.sha256(h + hx).digest()
    return h

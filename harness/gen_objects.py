"""Object layer of /repo -> coq/Gen/Bip44Params.v (C07) and coq/Gen/Objects.v (C15).

Bip44Params.v: the level automaton's parameters, none of which is written by hand in the model:
  * level guards and constructor depth bounds, read from the AST of Bip44Base._XGeneric / __init__
    (the Bip44Levels member named in the test, resolved reflectively);
  * the hardening rule of every level (never / iff the curve lacks public derivation / always),
    read from the shape of the argument handed to ChildKey;
  * the purpose constant each hierarchy class passes to _PurposeGeneric (AST -> reflect);
  * every member of the five coin enums with its resolved configuration (coin index, whether the
    coin's Bip32 class supports public derivation, the default path as parsed by the library's own
    path parser, whether that path is absolute);
  * Bip44Changes values, key-index constants, default key_data depths of FromPrivateKey/FromPublicKey.
Objects.v: see the second half of this file.
Everything fails closed (translate.fail) on a shape it does not recognise."""
import ast
import importlib
import inspect

from translate import fail, module_ast, find_class, find_func, reflect, coq_list, coq_codes

BASE = "bip_utils/bip/bip44_base/bip44_base.py"

# (hierarchy id, file, class, coin enum module, coin enum)
HIERARCHIES = [
    (0, "bip_utils/bip/bip44/bip44.py", "Bip44", "bip_utils.bip.conf.bip44", "Bip44Coins"),
    (1, "bip_utils/bip/bip49/bip49.py", "Bip49", "bip_utils.bip.conf.bip49", "Bip49Coins"),
    (2, "bip_utils/bip/bip84/bip84.py", "Bip84", "bip_utils.bip.conf.bip84", "Bip84Coins"),
    (3, "bip_utils/bip/bip86/bip86.py", "Bip86", "bip_utils.bip.conf.bip86", "Bip86Coins"),
    (4, "bip_utils/cardano/cip1852/cip1852.py", "Cip1852", "bip_utils.cardano.cip1852.conf", "Cip1852Coins"),
]


def _strip_doc(fn):
    b = fn.body
    if b and isinstance(b[0], ast.Expr) and isinstance(b[0].value, ast.Constant) and isinstance(b[0].value.value, str):
        b = b[1:]
    return b


def _levels():
    mod = importlib.import_module("bip_utils.bip.bip44_base.bip44_base")
    return mod.Bip44Levels, mod.Bip44Changes


def _level_of(node, where):
    """Bip44Levels.X -> int"""
    L, _ = _levels()
    if isinstance(node, ast.Attribute) and isinstance(node.value, ast.Name) and node.value.id == "Bip44Levels" \
            and node.attr in L.__members__:
        return int(L[node.attr])
    fail(f"{BASE}: {where}: expected Bip44Levels.<member>, got {ast.dump(node)[:120]}")


def _is_self_call(node, meth):
    return isinstance(node, ast.Call) and isinstance(node.func, ast.Attribute) and node.func.attr == meth \
        and isinstance(node.func.value, ast.Name) and node.func.value.id == "self"


def _is_harden(node):
    return isinstance(node, ast.Call) and ast.unparse(node.func) == "Bip32KeyIndex.HardenIndex" and len(node.args) == 1


def _generic(name, arg_kind):
    """Analyse Bip44Base._<X>Generic: returns (guard level, hardening rule 0 never/1 iff no public
    derivation/2 always, type-checked-first flag)."""
    fn = find_func(BASE, "Bip44Base", name)
    body = _strip_doc(fn)
    where = "Bip44Base." + name
    typecheck = False
    i = 0
    # optional: if not isinstance(change_type, Bip44Changes): raise TypeError(...)
    if isinstance(body[i], ast.If) and ast.unparse(body[i].test).startswith("not isinstance("):
        t = body[i]
        if ast.unparse(t.test) != "not isinstance(change_type, Bip44Changes)" or len(t.body) != 1 \
                or not isinstance(t.body[0], ast.Raise) or not ast.unparse(t.body[0].exc).startswith("TypeError(") \
                or t.orelse:
            fail(f"{BASE}: {where}: unrecognised type check {ast.unparse(t.test)}")
        typecheck = True
        i += 1
    # guard: if not self.IsLevel(Bip44Levels.X): raise Bip44DepthError(...)
    g = body[i]
    if not (isinstance(g, ast.If) and isinstance(g.test, ast.UnaryOp) and isinstance(g.test.op, ast.Not)
            and _is_self_call(g.test.operand, "IsLevel") and len(g.test.operand.args) == 1 and not g.orelse
            and len(g.body) == 1 and isinstance(g.body[0], ast.Raise)
            and ast.unparse(g.body[0].exc).startswith("Bip44DepthError(")):
        fail(f"{BASE}: {where}: level guard not of the form 'if not self.IsLevel(L): raise Bip44DepthError'")
    level = _level_of(g.test.operand.args[0], where)
    rest = body[i + 1:]
    ret = rest[-1]
    if not (isinstance(ret, ast.Return) and isinstance(ret.value, ast.Call)
            and ast.unparse(ret.value.func) == "self.__class__" and len(ret.value.args) == 2
            and ast.unparse(ret.value.args[1]) == "self.m_coin_conf"
            and isinstance(ret.value.args[0], ast.Call)
            and ast.unparse(ret.value.args[0].func) == "self.m_bip32_obj.ChildKey"
            and len(ret.value.args[0].args) == 1):
        fail(f"{BASE}: {where}: return is not self.__class__(self.m_bip32_obj.ChildKey(i), self.m_coin_conf)")
    idx = ret.value.args[0].args[0]
    pre = rest[:-1]
    src = "\n".join(ast.unparse(s) for s in pre)
    NOPUB = "not self.m_bip32_obj.IsPublicDerivationSupported()"
    if arg_kind == "purpose":
        if pre or not (isinstance(idx, ast.Name) and idx.id == "purpose"):
            fail(f"{BASE}: {where}: unrecognised body")
        rule = 0
    elif arg_kind == "coin":
        if src != "coin_idx = self.m_coin_conf.CoinIndex()" or not (_is_harden(idx) and ast.unparse(idx.args[0]) == "coin_idx"):
            fail(f"{BASE}: {where}: unrecognised body: {src!r} / {ast.unparse(idx)}")
        rule = 2
    elif arg_kind == "account":
        if pre or not (_is_harden(idx) and ast.unparse(idx.args[0]) == "acc_idx"):
            fail(f"{BASE}: {where}: unrecognised body")
        rule = 2
    elif arg_kind == "change":
        exp = f"if {NOPUB}:\n    change_idx = Bip32KeyIndex.HardenIndex(int(change_type))\nelse:\n    change_idx = int(change_type)"
        if src != exp or ast.unparse(idx) != "change_idx":
            fail(f"{BASE}: {where}: unrecognised body: {src!r}")
        rule = 1
    elif arg_kind == "addr":
        exp = f"if {NOPUB}:\n    addr_idx = Bip32KeyIndex.HardenIndex(addr_idx)"
        if src != exp or ast.unparse(idx) != "addr_idx":
            fail(f"{BASE}: {where}: unrecognised body: {src!r}")
        rule = 1
    else:
        fail("internal: " + arg_kind)
    return level, rule, typecheck


def _init_bounds():
    """Bip44Base.__init__: (pub_min, pub_max, priv_max) from the two range tests."""
    fn = find_func(BASE, "Bip44Base", "__init__")
    body = _strip_doc(fn)
    where = "Bip44Base.__init__"
    if len(body) != 4 or ast.unparse(body[0]) != "depth = bip32_obj.Depth()" \
            or ast.unparse(body[2]) != "self.m_bip32_obj = bip32_obj" or ast.unparse(body[3]) != "self.m_coin_conf = coin_conf":
        fail(f"{BASE}: {where}: unrecognised body")
    top = body[1]
    if not (isinstance(top, ast.If) and ast.unparse(top.test) == "bip32_obj.IsPublicOnly()" and len(top.body) == 1
            and len(top.orelse) == 1):
        fail(f"{BASE}: {where}: expected 'if bip32_obj.IsPublicOnly(): ... else: ...'")

    def rng(node, lo_is_level):
        if not (isinstance(node, ast.If) and not node.orelse and len(node.body) == 1 and isinstance(node.body[0], ast.Raise)
                and ast.unparse(node.body[0].exc).startswith("Bip44DepthError(")
                and isinstance(node.test, ast.BoolOp) and isinstance(node.test.op, ast.Or) and len(node.test.values) == 2):
            fail(f"{BASE}: {where}: unrecognised depth test {ast.unparse(node)[:80]}")
        a, b = node.test.values
        ok = (isinstance(a, ast.Compare) and ast.unparse(a.left) == "depth" and len(a.ops) == 1 and isinstance(a.ops[0], ast.Lt)
              and isinstance(b, ast.Compare) and ast.unparse(b.left) == "depth" and len(b.ops) == 1 and isinstance(b.ops[0], ast.Gt))
        if not ok:
            fail(f"{BASE}: {where}: depth test is not 'depth < A or depth > B'")
        if lo_is_level:
            lo = _level_of(a.comparators[0], where)
        else:
            if not (isinstance(a.comparators[0], ast.Constant) and a.comparators[0].value == 0):
                fail(f"{BASE}: {where}: private lower bound is not 0")
            lo = 0
        return lo, _level_of(b.comparators[0], where)
    pmin, pmax = rng(top.body[0], True)
    _, qmax = rng(top.orelse[0], False)
    return pmin, pmax, qmax


def _default_path_shape():
    fn = find_func(BASE, "Bip44Base", "DeriveDefaultPath")
    src = "\n".join(ast.unparse(s) for s in _strip_doc(fn))
    exp = ("bip_obj = self.Purpose().Coin()\n"
           "return self.__class__(bip_obj.m_bip32_obj.DerivePath(bip_obj.m_coin_conf.DefaultPath()), bip_obj.m_coin_conf)")
    if src != exp:
        fail(f"{BASE}: Bip44Base.DeriveDefaultPath: unrecognised body: {src!r}")


def _hierarchy(hid, path, cls, enum_mod, enum_name):
    """Returns (purpose, getter name) after checking the forwarding shape of the level methods."""
    const_attr = None
    for meth, exp in (("Coin", "return self._CoinGeneric()"), ("Account", "return self._AccountGeneric(acc_idx)"),
                      ("Change", "return self._ChangeGeneric(change_type)"),
                      ("AddressIndex", "return self._AddressIndexGeneric(addr_idx)")):
        src = "\n".join(ast.unparse(s) for s in _strip_doc(find_func(path, cls, meth)))
        if src != exp:
            fail(f"{path}: {cls}.{meth}: expected {exp!r}, got {src!r}")
    body = _strip_doc(find_func(path, cls, "Purpose"))
    ok = len(body) == 1 and isinstance(body[0], ast.Return) and _is_self_call(body[0].value, "_PurposeGeneric") \
        and len(body[0].value.args) == 1 and isinstance(body[0].value.args[0], ast.Attribute) \
        and isinstance(body[0].value.args[0].value, ast.Name)
    if not ok:
        fail(f"{path}: {cls}.Purpose: expected 'return self._PurposeGeneric(<Const>.<ATTR>)'")
    a = body[0].value.args[0]
    purpose = reflect(path, a.value.id, a.attr)
    getter = None
    for meth, inner, extra in (("FromSeed", "_FromSeed", "seed_bytes"), ("FromExtendedKey", "_FromExtendedKey", "ex_key_str"),
                               ("FromPrivateKey", "_FromPrivateKey", "priv_key"), ("FromPublicKey", "_FromPublicKey", "pub_key")):
        body = _strip_doc(find_func(path, cls, meth))
        src = "\n".join(ast.unparse(s) for s in body)
        if len(body) != 1 or not isinstance(body[0], ast.Return) or not isinstance(body[0].value, ast.Call):
            fail(f"{path}: {cls}.{meth}: unrecognised body")
        c = body[0].value
        if ast.unparse(c.func) != "cls." + inner or ast.unparse(c.args[0]) != extra:
            fail(f"{path}: {cls}.{meth}: unrecognised body {src!r}")
        g = c.args[1]
        if not (isinstance(g, ast.Call) and ast.unparse(g.func).endswith("ConfGetter.GetConfig") and ast.unparse(g.args[0]) == "coin_type"):
            fail(f"{path}: {cls}.{meth}: coin configuration is not <X>ConfGetter.GetConfig(coin_type)")
        gname = ast.unparse(g.func)[:-len(".GetConfig")]
        if getter not in (None, gname):
            fail(f"{path}: {cls}: constructors use different configuration getters ({getter}, {gname})")
        getter = gname
        if inner in ("_FromPrivateKey", "_FromPublicKey") and (len(c.args) != 3 or ast.unparse(c.args[2]) != "key_data"):
            fail(f"{path}: {cls}.{meth}: key_data not forwarded")
    return purpose, getter


def _ctor_shapes():
    exp = {
        "_FromSeed": "bip32_cls = coin_conf.Bip32Class()\nreturn cls(bip32_cls.FromSeed(seed_bytes, coin_conf.KeyNetVersions()), coin_conf)",
        "_FromExtendedKey": "bip32_cls = coin_conf.Bip32Class()\nreturn cls(bip32_cls.FromExtendedKey(ex_key_str, coin_conf.KeyNetVersions()), coin_conf)",
        "_FromPrivateKey": "bip32_cls = coin_conf.Bip32Class()\nreturn cls(bip32_cls.FromPrivateKey(priv_key, key_data, coin_conf.KeyNetVersions()), coin_conf)",
        "_FromPublicKey": "bip32_cls = coin_conf.Bip32Class()\nreturn cls(bip32_cls.FromPublicKey(pub_key, key_data, coin_conf.KeyNetVersions()), coin_conf)",
    }
    for k, v in exp.items():
        src = "\n".join(ast.unparse(s) for s in _strip_doc(find_func(BASE, "Bip44Base", k)))
        if src != v:
            fail(f"{BASE}: Bip44Base.{k}: unrecognised body {src!r}")


def coin_table():
    """[(hid, hierarchy class name, enum name, member name, conf object)] for every enum member."""
    out = []
    for hid, path, cls, enum_mod, enum_name in HIERARCHIES:
        purpose, getter = _hierarchy(hid, path, cls, enum_mod, enum_name)
        em = importlib.import_module(enum_mod)
        enum = getattr(em, enum_name, None)
        g = getattr(em, getter, None)
        if enum is None or g is None:
            fail(f"{enum_mod}: {enum_name} / {getter} not exported")
        for m in enum:
            try:
                conf = g.GetConfig(m)
            except Exception as e:  # noqa
                fail(f"{getter}.GetConfig({enum_name}.{m.name}) raised {type(e).__name__}")
            out.append((hid, cls, enum_name, m.name, conf, purpose))
    return out


def gen_bip44_params():
    L, C = _levels()
    out = []
    for m in L:
        out.append(f"Definition lvl_{m.name.lower()} : N := {int(m)}.")
    out.append("Definition bip44_levels : list N := " + coq_list([str(int(m)) for m in L]) + ".")
    out.append("Definition change_values : list N := " + coq_list([str(int(m)) for m in C]) + ".")
    kmax = reflect("bip_utils/bip/bip32/bip32_key_data.py", "Bip32KeyDataConst", "KEY_INDEX_MAX_VAL")
    hbit = reflect("bip_utils/bip/bip32/bip32_key_data.py", "Bip32KeyDataConst", "KEY_INDEX_HARDENED_BIT_NUM")
    out.append(f"Definition key_index_max : N := {kmax}.")
    out.append(f"Definition key_index_hardened_bit : N := {hbit}.")
    dbl = reflect("bip_utils/bip/bip32/bip32_key_data.py", "Bip32KeyDataConst", "DEPTH_BYTE_LEN")
    out.append(f"Definition depth_byte_len : N := {dbl}.")
    for nm, fn, kind in (("purpose", "_PurposeGeneric", "purpose"), ("coin", "_CoinGeneric", "coin"),
                         ("account", "_AccountGeneric", "account"), ("change", "_ChangeGeneric", "change"),
                         ("addr", "_AddressIndexGeneric", "addr")):
        lvl, rule, tc = _generic(fn, kind)
        out.append(f"Definition guard_{nm} : N := {lvl}.")
        out.append(f"Definition harden_rule_{nm} : N := {rule}.  (* 0 never, 1 iff the curve lacks public derivation, 2 always *)")
        if tc != (kind == "change"):
            fail(f"{BASE}: Bip44Base.{fn}: unexpected type check placement")
    pmin, pmax, qmax = _init_bounds()
    out.append(f"Definition init_pub_min : N := {pmin}.")
    out.append(f"Definition init_pub_max : N := {pmax}.")
    out.append(f"Definition init_priv_max : N := {qmax}.")
    _default_path_shape()
    _ctor_shapes()
    # default key_data of the raw-key constructors (signature defaults)
    from bip_utils.bip.bip32 import Bip32PathParser
    table = coin_table()
    dflt = None
    purposes = {}
    for hid, path, cls, enum_mod, enum_name in HIERARCHIES:
        mod = importlib.import_module(path[:-3].replace("/", "."))
        k = getattr(mod, cls)
        d = []
        for meth in ("FromPrivateKey", "FromPublicKey"):
            kd = inspect.signature(getattr(k, meth)).parameters["key_data"].default
            if kd is inspect.Parameter.empty:
                fail(f"{path}: {cls}.{meth}: key_data has no default")
            d.append((kd.Depth().ToInt(), kd.Index().ToInt()))
        if dflt not in (None, d):
            fail(f"{path}: {cls}: default key_data differs between hierarchies: {d} vs {dflt}")
        dflt = d
    out.append(f"Definition from_private_default_depth : N := {dflt[0][0]}.")
    out.append(f"Definition from_private_default_index : N := {dflt[0][1]}.")
    out.append(f"Definition from_public_default_depth : N := {dflt[1][0]}.")
    out.append(f"Definition from_public_default_index : N := {dflt[1][1]}.")
    rows = []
    for hid, cls, enum_name, name, conf, purpose in table:
        purposes[hid] = purpose
        dp = conf.DefaultPath()
        try:
            p = Bip32PathParser.Parse(dp)
        except Exception as e:  # noqa
            fail(f"{enum_name}.{name}: default path {dp!r} does not parse: {type(e).__name__}")
        elems = [e.ToInt() for e in p]
        pubder = bool(conf.Bip32Class().IsPublicDerivationSupported())
        ci = conf.CoinIndex()
        if not isinstance(ci, int) or ci < 0:
            fail(f"{enum_name}.{name}: coin index {ci!r}")
        rows.append("  (%d, %s, %d, %s, %s, %s)" % (hid, coq_codes(name), ci, "true" if pubder else "false",
                                                   coq_list([str(e) for e in elems]), "true" if p.IsAbsolute() else "false"))
    out.append("(* hierarchy id (0 Bip44, 1 Bip49, 2 Bip84, 3 Bip86, 4 Cip1852) -> purpose index passed to _PurposeGeneric *)")
    out.append("Definition purposes : list (N * N) := " + coq_list(["(%d, %d)" % (h, purposes[h]) for h in sorted(purposes)]) + ".")
    out.append("(* (hierarchy, enum member name, coin index, public derivation supported, default path, default path absolute) *)")
    out.append("Definition coin_rows : list (N * list N * N * bool * list N * bool) := [\n" + ";\n".join(rows) + "].")
    return "\n".join(out) + "\n"


def generate():
    return {"Bip44Params.v": gen_bip44_params()}

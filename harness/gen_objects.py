"""Object layer of /repo -> coq/Gen/Bip44Params.v (C07) and coq/Gen/Objects.v (C15).

Bip44Params.v: the level automaton's parameters, none of which is written by hand in the model:
  * level guards and constructor depth bounds, read from the AST of Bip44Base._XGeneric / __init__
    (the Bip44Levels member named in the test, resolved reflectively);
  * the hardening rule of every level (never / iff the curve lacks public derivation / always),
    read from the shape of the argument handed to ChildKey;
  * the purpose constant each hierarchy class passes to _PurposeGeneric (AST -> reflect);
  * every member of the five coin enums with its resolved configuration (coin index, whether the
    coin's Bip32 class supports public derivation, the default path as parsed by the library's own
    path parser, whether that path is absolute);
  * Bip44Changes values, key-index constants, default key_data depths of FromPrivateKey/FromPublicKey.
Objects.v: see the second half of this file.
Everything fails closed (translate.fail) on a shape it does not recognise."""
import ast
import importlib
import inspect

from translate import fail, module_ast, find_class, find_func, reflect, coq_list, coq_codes

BASE = "bip_utils/bip/bip44_base/bip44_base.py"

# (hierarchy id, file, class, coin enum module, coin enum)
HIERARCHIES = [
    (0, "bip_utils/bip/bip44/bip44.py", "Bip44", "bip_utils.bip.conf.bip44", "Bip44Coins"),
    (1, "bip_utils/bip/bip49/bip49.py", "Bip49", "bip_utils.bip.conf.bip49", "Bip49Coins"),
    (2, "bip_utils/bip/bip84/bip84.py", "Bip84", "bip_utils.bip.conf.bip84", "Bip84Coins"),
    (3, "bip_utils/bip/bip86/bip86.py", "Bip86", "bip_utils.bip.conf.bip86", "Bip86Coins"),
    (4, "bip_utils/cardano/cip1852/cip1852.py", "Cip1852", "bip_utils.cardano.cip1852.conf", "Cip1852Coins"),
]


def _strip_doc(fn):
    b = fn.body
    if b and isinstance(b[0], ast.Expr) and isinstance(b[0].value, ast.Constant) and isinstance(b[0].value.value, str):
        b = b[1:]
    return b


def _levels():
    mod = importlib.import_module("bip_utils.bip.bip44_base.bip44_base")
    return mod.Bip44Levels, mod.Bip44Changes


def _level_of(node, where):
    """Bip44Levels.X -> int"""
    L, _ = _levels()
    if isinstance(node, ast.Attribute) and isinstance(node.value, ast.Name) and node.value.id == "Bip44Levels" \
            and node.attr in L.__members__:
        return int(L[node.attr])
    fail(f"{BASE}: {where}: expected Bip44Levels.<member>, got {ast.dump(node)[:120]}")


def _is_self_call(node, meth):
    return isinstance(node, ast.Call) and isinstance(node.func, ast.Attribute) and node.func.attr == meth \
        and isinstance(node.func.value, ast.Name) and node.func.value.id == "self"


def _is_harden(node):
    return isinstance(node, ast.Call) and ast.unparse(node.func) == "Bip32KeyIndex.HardenIndex" and len(node.args) == 1


def _generic(name, arg_kind):
    """Analyse Bip44Base._<X>Generic: returns (guard level, hardening rule 0 never/1 iff no public
    derivation/2 always, type-checked-first flag)."""
    fn = find_func(BASE, "Bip44Base", name)
    body = _strip_doc(fn)
    where = "Bip44Base." + name
    typecheck = False
    i = 0
    # optional: if not isinstance(change_type, Bip44Changes): raise TypeError(...)
    if isinstance(body[i], ast.If) and ast.unparse(body[i].test).startswith("not isinstance("):
        t = body[i]
        if ast.unparse(t.test) != "not isinstance(change_type, Bip44Changes)" or len(t.body) != 1 \
                or not isinstance(t.body[0], ast.Raise) or not ast.unparse(t.body[0].exc).startswith("TypeError(") \
                or t.orelse:
            fail(f"{BASE}: {where}: unrecognised type check {ast.unparse(t.test)}")
        typecheck = True
        i += 1
    # guard: if not self.IsLevel(Bip44Levels.X): raise Bip44DepthError(...)
    g = body[i]
    if not (isinstance(g, ast.If) and isinstance(g.test, ast.UnaryOp) and isinstance(g.test.op, ast.Not)
            and _is_self_call(g.test.operand, "IsLevel") and len(g.test.operand.args) == 1 and not g.orelse
            and len(g.body) == 1 and isinstance(g.body[0], ast.Raise)
            and ast.unparse(g.body[0].exc).startswith("Bip44DepthError(")):
        fail(f"{BASE}: {where}: level guard not of the form 'if not self.IsLevel(L): raise Bip44DepthError'")
    level = _level_of(g.test.operand.args[0], where)
    rest = body[i + 1:]
    ret = rest[-1]
    if not (isinstance(ret, ast.Return) and isinstance(ret.value, ast.Call)
            and ast.unparse(ret.value.func) == "self.__class__" and len(ret.value.args) == 2
            and ast.unparse(ret.value.args[1]) == "self.m_coin_conf"
            and isinstance(ret.value.args[0], ast.Call)
            and ast.unparse(ret.value.args[0].func) == "self.m_bip32_obj.ChildKey"
            and len(ret.value.args[0].args) == 1):
        fail(f"{BASE}: {where}: return is not self.__class__(self.m_bip32_obj.ChildKey(i), self.m_coin_conf)")
    idx = ret.value.args[0].args[0]
    pre = rest[:-1]
    src = "\n".join(ast.unparse(s) for s in pre)
    NOPUB = "not self.m_bip32_obj.IsPublicDerivationSupported()"
    if arg_kind == "purpose":
        if pre or not (isinstance(idx, ast.Name) and idx.id == "purpose"):
            fail(f"{BASE}: {where}: unrecognised body")
        rule = 0
    elif arg_kind == "coin":
        if src != "coin_idx = self.m_coin_conf.CoinIndex()" or not (_is_harden(idx) and ast.unparse(idx.args[0]) == "coin_idx"):
            fail(f"{BASE}: {where}: unrecognised body: {src!r} / {ast.unparse(idx)}")
        rule = 2
    elif arg_kind == "account":
        if pre or not (_is_harden(idx) and ast.unparse(idx.args[0]) == "acc_idx"):
            fail(f"{BASE}: {where}: unrecognised body")
        rule = 2
    elif arg_kind == "change":
        exp = f"if {NOPUB}:\n    change_idx = Bip32KeyIndex.HardenIndex(int(change_type))\nelse:\n    change_idx = int(change_type)"
        if src != exp or ast.unparse(idx) != "change_idx":
            fail(f"{BASE}: {where}: unrecognised body: {src!r}")
        rule = 1
    elif arg_kind == "addr":
        exp = f"if {NOPUB}:\n    addr_idx = Bip32KeyIndex.HardenIndex(addr_idx)"
        if src != exp or ast.unparse(idx) != "addr_idx":
            fail(f"{BASE}: {where}: unrecognised body: {src!r}")
        rule = 1
    else:
        fail("internal: " + arg_kind)
    return level, rule, typecheck


def _init_bounds():
    """Bip44Base.__init__: (pub_min, pub_max, priv_max) from the two range tests."""
    fn = find_func(BASE, "Bip44Base", "__init__")
    body = _strip_doc(fn)
    where = "Bip44Base.__init__"
    if len(body) != 4 or ast.unparse(body[0]) != "depth = bip32_obj.Depth()" \
            or ast.unparse(body[2]) != "self.m_bip32_obj = bip32_obj" or ast.unparse(body[3]) != "self.m_coin_conf = coin_conf":
        fail(f"{BASE}: {where}: unrecognised body")
    top = body[1]
    if not (isinstance(top, ast.If) and ast.unparse(top.test) == "bip32_obj.IsPublicOnly()" and len(top.body) == 1
            and len(top.orelse) == 1):
        fail(f"{BASE}: {where}: expected 'if bip32_obj.IsPublicOnly(): ... else: ...'")

    def rng(node, lo_is_level):
        if not (isinstance(node, ast.If) and not node.orelse and len(node.body) == 1 and isinstance(node.body[0], ast.Raise)
                and ast.unparse(node.body[0].exc).startswith("Bip44DepthError(")
                and isinstance(node.test, ast.BoolOp) and isinstance(node.test.op, ast.Or) and len(node.test.values) == 2):
            fail(f"{BASE}: {where}: unrecognised depth test {ast.unparse(node)[:80]}")
        a, b = node.test.values
        ok = (isinstance(a, ast.Compare) and ast.unparse(a.left) == "depth" and len(a.ops) == 1 and isinstance(a.ops[0], ast.Lt)
              and isinstance(b, ast.Compare) and ast.unparse(b.left) == "depth" and len(b.ops) == 1 and isinstance(b.ops[0], ast.Gt))
        if not ok:
            fail(f"{BASE}: {where}: depth test is not 'depth < A or depth > B'")
        if lo_is_level:
            lo = _level_of(a.comparators[0], where)
        else:
            if not (isinstance(a.comparators[0], ast.Constant) and a.comparators[0].value == 0):
                fail(f"{BASE}: {where}: private lower bound is not 0")
            lo = 0
        return lo, _level_of(b.comparators[0], where)
    pmin, pmax = rng(top.body[0], True)
    _, qmax = rng(top.orelse[0], False)
    return pmin, pmax, qmax


def _default_path_shape():
    fn = find_func(BASE, "Bip44Base", "DeriveDefaultPath")
    src = "\n".join(ast.unparse(s) for s in _strip_doc(fn))
    exp = ("bip_obj = self.Purpose().Coin()\n"
           "return self.__class__(bip_obj.m_bip32_obj.DerivePath(bip_obj.m_coin_conf.DefaultPath()), bip_obj.m_coin_conf)")
    if src != exp:
        fail(f"{BASE}: Bip44Base.DeriveDefaultPath: unrecognised body: {src!r}")


def _hierarchy(hid, path, cls, enum_mod, enum_name):
    """Returns (purpose, getter name) after checking the forwarding shape of the level methods."""
    const_attr = None
    for meth, exp in (("Coin", "return self._CoinGeneric()"), ("Account", "return self._AccountGeneric(acc_idx)"),
                      ("Change", "return self._ChangeGeneric(change_type)"),
                      ("AddressIndex", "return self._AddressIndexGeneric(addr_idx)")):
        src = "\n".join(ast.unparse(s) for s in _strip_doc(find_func(path, cls, meth)))
        if src != exp:
            fail(f"{path}: {cls}.{meth}: expected {exp!r}, got {src!r}")
    body = _strip_doc(find_func(path, cls, "Purpose"))
    ok = len(body) == 1 and isinstance(body[0], ast.Return) and _is_self_call(body[0].value, "_PurposeGeneric") \
        and len(body[0].value.args) == 1 and isinstance(body[0].value.args[0], ast.Attribute) \
        and isinstance(body[0].value.args[0].value, ast.Name)
    if not ok:
        fail(f"{path}: {cls}.Purpose: expected 'return self._PurposeGeneric(<Const>.<ATTR>)'")
    a = body[0].value.args[0]
    purpose = reflect(path, a.value.id, a.attr)
    getter = None
    for meth, inner, extra in (("FromSeed", "_FromSeed", "seed_bytes"), ("FromExtendedKey", "_FromExtendedKey", "ex_key_str"),
                               ("FromPrivateKey", "_FromPrivateKey", "priv_key"), ("FromPublicKey", "_FromPublicKey", "pub_key")):
        body = _strip_doc(find_func(path, cls, meth))
        src = "\n".join(ast.unparse(s) for s in body)
        if len(body) != 1 or not isinstance(body[0], ast.Return) or not isinstance(body[0].value, ast.Call):
            fail(f"{path}: {cls}.{meth}: unrecognised body")
        c = body[0].value
        if ast.unparse(c.func) != "cls." + inner or ast.unparse(c.args[0]) != extra:
            fail(f"{path}: {cls}.{meth}: unrecognised body {src!r}")
        g = c.args[1]
        if not (isinstance(g, ast.Call) and ast.unparse(g.func).endswith("ConfGetter.GetConfig") and ast.unparse(g.args[0]) == "coin_type"):
            fail(f"{path}: {cls}.{meth}: coin configuration is not <X>ConfGetter.GetConfig(coin_type)")
        gname = ast.unparse(g.func)[:-len(".GetConfig")]
        if getter not in (None, gname):
            fail(f"{path}: {cls}: constructors use different configuration getters ({getter}, {gname})")
        getter = gname
        if inner in ("_FromPrivateKey", "_FromPublicKey") and (len(c.args) != 3 or ast.unparse(c.args[2]) != "key_data"):
            fail(f"{path}: {cls}.{meth}: key_data not forwarded")
    return purpose, getter


def _ctor_shapes():
    exp = {
        "_FromSeed": "bip32_cls = coin_conf.Bip32Class()\nreturn cls(bip32_cls.FromSeed(seed_bytes, coin_conf.KeyNetVersions()), coin_conf)",
        "_FromExtendedKey": "bip32_cls = coin_conf.Bip32Class()\nreturn cls(bip32_cls.FromExtendedKey(ex_key_str, coin_conf.KeyNetVersions()), coin_conf)",
        "_FromPrivateKey": "bip32_cls = coin_conf.Bip32Class()\nreturn cls(bip32_cls.FromPrivateKey(priv_key, key_data, coin_conf.KeyNetVersions()), coin_conf)",
        "_FromPublicKey": "bip32_cls = coin_conf.Bip32Class()\nreturn cls(bip32_cls.FromPublicKey(pub_key, key_data, coin_conf.KeyNetVersions()), coin_conf)",
    }
    for k, v in exp.items():
        src = "\n".join(ast.unparse(s) for s in _strip_doc(find_func(BASE, "Bip44Base", k)))
        if src != v:
            fail(f"{BASE}: Bip44Base.{k}: unrecognised body {src!r}")


def coin_table():
    """[(hid, hierarchy class name, enum name, member name, conf object)] for every enum member."""
    out = []
    for hid, path, cls, enum_mod, enum_name in HIERARCHIES:
        purpose, getter = _hierarchy(hid, path, cls, enum_mod, enum_name)
        em = importlib.import_module(enum_mod)
        enum = getattr(em, enum_name, None)
        g = getattr(em, getter, None)
        if enum is None or g is None:
            fail(f"{enum_mod}: {enum_name} / {getter} not exported")
        for m in enum:
            try:
                conf = g.GetConfig(m)
            except Exception as e:  # noqa
                fail(f"{getter}.GetConfig({enum_name}.{m.name}) raised {type(e).__name__}")
            out.append((hid, cls, enum_name, m.name, conf, purpose))
    return out


def gen_bip44_params():
    L, C = _levels()
    out = []
    for m in L:
        out.append(f"Definition lvl_{m.name.lower()} : N := {int(m)}.")
    out.append("Definition bip44_levels : list N := " + coq_list([str(int(m)) for m in L]) + ".")
    out.append("Definition change_values : list N := " + coq_list([str(int(m)) for m in C]) + ".")
    kmax = reflect("bip_utils/bip/bip32/bip32_key_data.py", "Bip32KeyDataConst", "KEY_INDEX_MAX_VAL")
    hbit = reflect("bip_utils/bip/bip32/bip32_key_data.py", "Bip32KeyDataConst", "KEY_INDEX_HARDENED_BIT_NUM")
    out.append(f"Definition key_index_max : N := {kmax}.")
    out.append(f"Definition key_index_hardened_bit : N := {hbit}.")
    dbl = reflect("bip_utils/bip/bip32/bip32_key_data.py", "Bip32KeyDataConst", "DEPTH_BYTE_LEN")
    out.append(f"Definition depth_byte_len : N := {dbl}.")
    for nm, fn, kind in (("purpose", "_PurposeGeneric", "purpose"), ("coin", "_CoinGeneric", "coin"),
                         ("account", "_AccountGeneric", "account"), ("change", "_ChangeGeneric", "change"),
                         ("addr", "_AddressIndexGeneric", "addr")):
        lvl, rule, tc = _generic(fn, kind)
        out.append(f"Definition guard_{nm} : N := {lvl}.")
        out.append(f"Definition harden_rule_{nm} : N := {rule}.  (* 0 never, 1 iff the curve lacks public derivation, 2 always *)")
        if tc != (kind == "change"):
            fail(f"{BASE}: Bip44Base.{fn}: unexpected type check placement")
    pmin, pmax, qmax = _init_bounds()
    out.append(f"Definition init_pub_min : N := {pmin}.")
    out.append(f"Definition init_pub_max : N := {pmax}.")
    out.append(f"Definition init_priv_max : N := {qmax}.")
    _default_path_shape()
    _ctor_shapes()
    # default key_data of the raw-key constructors (signature defaults)
    from bip_utils.bip.bip32 import Bip32PathParser
    table = coin_table()
    dflt = None
    purposes = {}
    for hid, path, cls, enum_mod, enum_name in HIERARCHIES:
        mod = importlib.import_module(path[:-3].replace("/", "."))
        k = getattr(mod, cls)
        d = []
        for meth in ("FromPrivateKey", "FromPublicKey"):
            kd = inspect.signature(getattr(k, meth)).parameters["key_data"].default
            if kd is inspect.Parameter.empty:
                fail(f"{path}: {cls}.{meth}: key_data has no default")
            d.append((kd.Depth().ToInt(), kd.Index().ToInt()))
        if dflt not in (None, d):
            fail(f"{path}: {cls}: default key_data differs between hierarchies: {d} vs {dflt}")
        dflt = d
    out.append(f"Definition from_private_default_depth : N := {dflt[0][0]}.")
    out.append(f"Definition from_private_default_index : N := {dflt[0][1]}.")
    out.append(f"Definition from_public_default_depth : N := {dflt[1][0]}.")
    out.append(f"Definition from_public_default_index : N := {dflt[1][1]}.")
    rows = []
    for hid, cls, enum_name, name, conf, purpose in table:
        purposes[hid] = purpose
        dp = conf.DefaultPath()
        try:
            p = Bip32PathParser.Parse(dp)
        except Exception as e:  # noqa
            fail(f"{enum_name}.{name}: default path {dp!r} does not parse: {type(e).__name__}")
        elems = [e.ToInt() for e in p]
        pubder = bool(conf.Bip32Class().IsPublicDerivationSupported())
        ci = conf.CoinIndex()
        if not isinstance(ci, int) or ci < 0:
            fail(f"{enum_name}.{name}: coin index {ci!r}")
        rows.append("  (%d, %s, %d, %s, %s, %s)" % (hid, coq_codes(name), ci, "true" if pubder else "false",
                                                   coq_list([str(e) for e in elems]), "true" if p.IsAbsolute() else "false"))
    out.append("(* hierarchy id (0 Bip44, 1 Bip49, 2 Bip84, 3 Bip86, 4 Cip1852) -> purpose index passed to _PurposeGeneric *)")
    out.append("Definition purposes : list (N * N) := " + coq_list(["(%d, %d)" % (h, purposes[h]) for h in sorted(purposes)]) + ".")
    out.append("(* (hierarchy, enum member name, coin index, public derivation supported, default path, default path absolute) *)")
    out.append("Definition coin_rows : list (N * list N * N * bool * list N * bool) := [\n" + ";\n".join(rows) + "].")
    return "\n".join(out) + "\n"



# =====================================================================================
# Objects.v -- object structure of every class in bip_utils: declared fields, fields written after
# construction (with the writing method), lazy initialisers, every @lru_cache method with its
# transitive read-set, transitive write-sets of all methods.
#
# The analysis is a conservative static one over the AST:
#   * the receiver of an attribute access / method call is typed from `self`/`cls`, class-level field
#     annotations, parameter annotations, return annotations and constructor calls; a method call on
#     a typed receiver is followed into that class AND every subclass that overrides it (virtual
#     dispatch), a call on a receiver whose type is unknown is followed into EVERY class that has a
#     method of that name (so nothing reachable is missed by lack of typing);
#   * `self.m_coin_conf` is typed BipCoinConf; which BipCoinConf subclasses can actually sit there is
#     narrowed per holder class by the coin tables (CONF_HOLDERS below + coin_conf_classes), and the
#     narrowing is re-checked in Coq (Lemmas/ObjectsOk.v) against the generated coin table;
#   * fails closed on: cache decorators other than `@lru_cache()` on a method, assignments to fields
#     of objects other than self/cls, undeclared fields, global/nonlocal/setattr/delattr/__dict__/vars,
#     getattr-calls other than the one known site, duplicate class names.
# =====================================================================================
import os
from translate import REPO

PKG = "bip_utils"
MUTATING_CALLS = {"append", "extend", "insert", "pop", "remove", "clear", "update", "add", "discard", "sort",
                  "reverse", "setdefault", "popitem", "__setitem__", "__delitem__"}
# holder class of an `m_coin_conf: BipCoinConf` field -> hierarchies whose coin tables feed it
# (checked dynamically in _check_holders: CardanoShelley refuses non-Cip1852 objects)
CONF_HOLDERS = {
    "Bip44Base": [0, 1, 2, 3, 4], "Bip44PublicKey": [0, 1, 2, 3, 4], "Bip44PrivateKey": [0, 1, 2, 3, 4],
    "CardanoShelleyPublicKeys": [4], "CardanoShelleyPrivateKeys": [4],
}
GETATTR_SITE = ("bip/conf/common/bip_coin_conf.py", "BipCoinFctCallsConf", "ResolveCalls")


_ANCH = None


def _anchors():
    """files named in property C15's anchors (fail-closed zone)"""
    global _ANCH
    if _ANCH is None:
        import json
        here = os.path.dirname(os.path.abspath(__file__))
        _ANCH = set()
        with open(os.path.join(here, "..", "properties.jsonl")) as f:
            for ln in f:
                d = json.loads(ln)
                if d["id"] == "C15":
                    _ANCH = set(d["anchors"]["files"])
        if not _ANCH:
            fail("properties.jsonl: C15 anchors not found")
    return _ANCH


class _Cls:
    def __init__(self, name, file, node):
        self.name, self.file, self.node = name, file, node
        self.bases = []
        self.fields = {}        # declared (annotated) fields -> annotation string
        self.methods = {}
        self.cached = set()
        self.imports = {}


def _load_classes():
    root = os.path.join(REPO, PKG)
    classes = {}
    modimports = {}
    for dp, dns, fs in sorted(os.walk(root)):
        dns.sort()
        for f in sorted(fs):
            if not f.endswith(".py"):
                continue
            p = os.path.join(dp, f)
            rel = os.path.relpath(p, root)
            try:
                tree = ast.parse(open(p, encoding="utf-8").read(), filename=p)
            except SyntaxError as e:
                fail(f"{p}: {e}")
            imported = {}
            for n in tree.body:
                if isinstance(n, ast.ImportFrom):
                    for a in n.names:
                        imported[a.asname or a.name] = (n.module or "")
                elif isinstance(n, ast.Import):
                    for a in n.names:
                        imported[(a.asname or a.name).split(".")[0]] = a.name
            modimports[rel] = imported
            _check_module_level(rel, tree)
            for n in tree.body:
                if isinstance(n, ast.FunctionDef):
                    for d in n.decorator_list:
                        if "cache" in ast.unparse(d):
                            fail(f"{rel}: cache decorator on module-level function {n.name}")
                if not isinstance(n, ast.ClassDef):
                    continue
                if n.name in classes:
                    fail(f"{rel}: duplicate class name {n.name} (also in {classes[n.name].file})")
                c = _Cls(n.name, rel, n)
                c.bases = [ast.unparse(b).split(".")[-1] for b in n.bases]
                c.imports = imported
                for b in n.body:
                    if isinstance(b, ast.AnnAssign) and isinstance(b.target, ast.Name):
                        c.fields[b.target.id] = ast.unparse(b.annotation)
                    elif isinstance(b, ast.Assign):
                        for t in b.targets:
                            if isinstance(t, ast.Name):
                                c.fields.setdefault(t.id, "?")
                    elif isinstance(b, ast.FunctionDef):
                        c.methods[b.name] = b
                        for d in b.decorator_list:
                            u = ast.unparse(d)
                            if "cache" in u:
                                if u != "lru_cache()":
                                    fail(f"{rel}: {n.name}.{b.name}: unrecognised cache decorator @{u}")
                                if any(ast.unparse(x) in ("staticmethod", "classmethod") for x in b.decorator_list):
                                    fail(f"{rel}: {n.name}.{b.name}: lru_cache on a static/class method")
                                c.cached.add(b.name)
                    elif isinstance(b, ast.ClassDef):
                        fail(f"{rel}: nested class {n.name}.{b.name}")
                classes[n.name] = c
    return classes, modimports


def _check_module_level(rel, tree):
    for n in tree.body:
        ok = isinstance(n, (ast.Import, ast.ImportFrom, ast.ClassDef, ast.FunctionDef)) or \
            (isinstance(n, ast.Expr) and isinstance(n.value, ast.Constant)) or \
            (isinstance(n, (ast.Assign, ast.AnnAssign))) or isinstance(n, (ast.If, ast.Try))
        if not ok:
            fail(f"{rel}: unrecognised module-level statement {type(n).__name__} at line {n.lineno}")
    for n in ast.walk(tree):
        if isinstance(n, (ast.Global, ast.Nonlocal)):
            fail(f"{rel}: global/nonlocal statement at line {n.lineno}")
        if isinstance(n, ast.Call) and isinstance(n.func, ast.Name) and n.func.id in ("setattr", "delattr", "vars"):
            fail(f"{rel}: {n.func.id}() at line {n.lineno}")
        if isinstance(n, ast.Attribute) and n.attr == "__dict__":
            fail(f"{rel}: __dict__ access at line {n.lineno}")
        if isinstance(n, ast.Call) and isinstance(n.func, ast.Name) and n.func.id == "getattr":
            pass  # checked against GETATTR_SITE in the analyser


class _Analysis:
    def __init__(self):
        self.classes, self.modimports = _load_classes()
        self._mro = {}
        self._subs = {}
        for k in self.classes:
            self._mro[k] = self._compute_mro(k)
        for k in self.classes:
            for a in self._mro[k]:
                self._subs.setdefault(a, []).append(k)
        self.by_method = {}
        self.by_field = {}
        for k, c in self.classes.items():
            for m in c.methods:
                self.by_method.setdefault(m, []).append(k)
            for f in c.fields:
                self.by_field.setdefault(f, []).append(k)
        self.getattr_names = None
        self.undeclared = set()
        self.fresh_writes = set()
        self.conf_narrow = {}       # holder class -> allowed conf classes
        self.memo_rw = {}

    def _compute_mro(self, c):
        out, todo = [], [c]
        while todo:
            x = todo.pop(0)
            if x in out or x not in self.classes:
                continue
            out.append(x)
            todo += self.classes[x].bases
        return out

    def mro(self, c):
        return self._mro.get(c, [])

    def subclasses(self, c):
        return self._subs.get(c, [])

    def declaring(self, c, f):
        for k in self.mro(c):
            if f in self.classes[k].fields:
                return k
        return None

    def field_types(self, c, f):
        k = self.declaring(c, f)
        if k is None:
            return None
        return self.ann_types(self.classes[k].fields[f])

    def find_method(self, c, m):
        for k in self.mro(c):
            if m in self.classes[k].methods:
                return k
        return None

    def ann_types(self, ann):
        """annotation string -> list of bip_utils class names it may denote ([] = builtin/external)"""
        if ann is None:
            return []
        try:
            node = ast.parse(ann.strip("'\""), mode="eval").body
        except SyntaxError:
            return []
        out = []

        def go(n):
            if isinstance(n, ast.Name):
                if n.id in self.classes:
                    out.append(n.id)
            elif isinstance(n, ast.Attribute):
                if n.attr in self.classes:
                    out.append(n.attr)
            elif isinstance(n, ast.Subscript):
                head = ast.unparse(n.value).split(".")[-1]
                if head in ("Optional", "Type", "Union", "Tuple", "List", "Dict", "Sequence", "Iterator", "Iterable"):
                    sl = n.slice
                    for e in (sl.elts if isinstance(sl, ast.Tuple) else [sl]):
                        go(e)
            elif isinstance(n, ast.Constant) and isinstance(n.value, str):
                out.extend(self.ann_types(n.value))
        go(node)
        return out

    # ---- per-method analysis: direct reads/writes/calls ----
    def method_facts(self, cname, mname):
        key = (cname, mname)
        if key in self.memo_rw:
            return self.memo_rw[key]
        c = self.classes[cname]
        fn = c.methods[mname]
        rel = c.file
        where = f"{rel}: {cname}.{mname}"
        env = {}
        is_static = any(ast.unparse(d) == "staticmethod" for d in fn.decorator_list)
        args = fn.args.posonlyargs + fn.args.args + fn.args.kwonlyargs
        for i, a in enumerate(args):
            if i == 0 and not is_static and a.arg in ("self", "cls"):
                env[a.arg] = [cname]
            elif a.annotation is not None:
                env[a.arg] = self.ann_types(ast.unparse(a.annotation))
            else:
                env[a.arg] = None       # unknown
        reads, writes, calls, lazy = set(), set(), [], set()
        fresh = set()
        UNKNOWN = None

        def typ(e):
            """list of class names (possibly empty = external/builtin) or None = unknown"""
            if isinstance(e, ast.Name):
                if e.id in env:
                    return env[e.id]
                if e.id in self.classes:
                    return [e.id]
                if e.id in c.imports or e.id in dir(__builtins__) or e.id in ("super",):
                    return []
                return UNKNOWN
            if isinstance(e, ast.Attribute):
                t = typ(e.value)
                if t is None:
                    ks = self.by_field.get(e.attr)
                    if ks:
                        out = []
                        for k in ks:
                            out += self.ann_types(self.classes[k].fields[e.attr])
                        return out
                    return UNKNOWN
                out = []
                known = False
                for k in t:
                    ft = self.field_types(k, e.attr)
                    if ft is not None:
                        known = True
                        out += ft
                    elif self.find_method(k, e.attr):
                        known = True
                return out if (known or not t) else UNKNOWN if t else []
            if isinstance(e, ast.Call):
                f = e.func
                if isinstance(f, ast.Name):
                    if f.id in self.classes:
                        return [f.id]
                    if f.id == "super":
                        return [b for b in self.mro(cname)[1:2]]
                    if f.id == "cls" and "cls" in env:
                        return [cname]
                    return [] if (f.id in c.imports or f.id in dir(__builtins__)) else UNKNOWN
                if isinstance(f, ast.Attribute):
                    if ast.unparse(f) == "self.__class__":
                        return [cname]
                    t = typ(f.value)
                    if t is None:
                        ks = self.by_method.get(f.attr, [])
                        out = []
                        for k in ks:
                            r = self.classes[k].methods[f.attr].returns
                            if r is not None:
                                out += self.ann_types(ast.unparse(r))
                        return out if ks else UNKNOWN
                    out = []
                    for k in t:
                        dk = self.find_method(k, f.attr)
                        if dk:
                            r = self.classes[dk].methods[f.attr].returns
                            if r is not None:
                                out += self.ann_types(ast.unparse(r))
                    return out
                return UNKNOWN
            if isinstance(e, ast.IfExp):
                a, b = typ(e.body), typ(e.orelse)
                return None if (a is None or b is None) else a + b
            if isinstance(e, (ast.Constant, ast.JoinedStr, ast.List, ast.Tuple, ast.Dict, ast.Set, ast.ListComp,
                              ast.DictComp, ast.SetComp, ast.GeneratorExp, ast.BinOp, ast.Compare, ast.BoolOp,
                              ast.UnaryOp, ast.Lambda)):
                return []
            if isinstance(e, ast.Subscript):
                t = typ(e.value)
                return t   # element of a typed container annotation (List[X] -> X)
            return UNKNOWN

        def note_write(target, how):
            # target: ast node being assigned
            for e in (target.elts if isinstance(target, (ast.Tuple, ast.List)) else [target]):
                sub = False
                if isinstance(e, ast.Subscript):
                    e, sub = e.value, True
                if isinstance(e, ast.Starred):
                    e = e.value
                if isinstance(e, ast.Attribute):
                    base = e.value
                    if isinstance(base, ast.Name) and base.id in ("self", "cls") and base.id in env:
                        d = self.declaring(cname, e.attr)
                        if d is None:
                            # name-mangled private class attribute (cls.__instance)
                            mangled = e.attr
                            d = self.declaring(cname, mangled)
                        if d is None:
                            if PKG + "/" + rel in _anchors():
                                fail(f"{where}: assignment to undeclared field {e.attr}")
                            # outside the property's anchor files: declare it on the assigning class
                            c.fields[e.attr] = "?"
                            self.by_field.setdefault(e.attr, []).append(cname)
                            self.undeclared.add(cname + "." + e.attr)
                            d = cname
                        writes.add((d, e.attr))
                    elif isinstance(base, ast.Name) and base.id in fresh:
                        # field of a private shallow copy / newly constructed object: construction, not mutation
                        self.fresh_writes.add(f"{cname}.{mname}: {ast.unparse(e)}")
                    else:
                        fail(f"{where}: assignment to a field of another object: {ast.unparse(e)}")
                elif isinstance(e, ast.Name):
                    if sub:
                        pass        # in-place update of a local container
                elif isinstance(e, (ast.Subscript,)):
                    note_write(e, how)
                else:
                    fail(f"{where}: unrecognised assignment target {ast.unparse(e)}")

        # locals bound exactly once, to copy.copy(...) / copy.deepcopy(...) / a constructor call: fresh objects
        binds = {}
        for n in ast.walk(fn):
            if isinstance(n, ast.Assign):
                for t in n.targets:
                    for e in (t.elts if isinstance(t, (ast.Tuple, ast.List)) else [t]):
                        if isinstance(e, ast.Name):
                            binds.setdefault(e.id, []).append(n.value if not isinstance(t, (ast.Tuple, ast.List)) else None)
            elif isinstance(n, (ast.AugAssign, ast.AnnAssign, ast.For, ast.comprehension, ast.NamedExpr)):
                t = n.target
                for e in (t.elts if isinstance(t, (ast.Tuple, ast.List)) else [t]):
                    if isinstance(e, ast.Name):
                        binds.setdefault(e.id, []).append(None)
        for nm, vs in binds.items():
            if len(vs) == 1 and vs[0] is not None and isinstance(vs[0], ast.Call) and nm not in env:
                u = ast.unparse(vs[0].func)
                if u in ("copy.copy", "copy.deepcopy") or (isinstance(vs[0].func, ast.Name) and vs[0].func.id in self.classes):
                    fresh.add(nm)
        # local variable types: straight-line approximation (any assignment anywhere in the body)
        changed = True
        rounds = 0
        while changed and rounds < 4:
            changed = False
            rounds += 1
            for n in ast.walk(fn):
                tgts, val = [], None
                if isinstance(n, ast.Assign):
                    tgts, val = n.targets, n.value
                elif isinstance(n, ast.AnnAssign) and n.value is not None:
                    tgts, val = [n.target], n.value
                elif isinstance(n, (ast.For, ast.comprehension)):
                    tgts, val = [n.target], n.iter
                elif isinstance(n, ast.withitem) and n.optional_vars is not None:
                    tgts, val = [n.optional_vars], n.context_expr
                for t in tgts:
                    if isinstance(t, ast.Name) and t.id not in ("self", "cls"):
                        if isinstance(n, ast.AnnAssign):
                            nt = self.ann_types(ast.unparse(n.annotation))
                        else:
                            nt = typ(val)
                        old = env.get(t.id, "unset")
                        if old == "unset":
                            env[t.id] = nt
                            changed = True
                        elif old is not None and nt is not None and set(nt) - set(old):
                            env[t.id] = sorted(set(old) | set(nt))
                            changed = True
                        elif old is not None and nt is None:
                            env[t.id] = None
                            changed = True
                    elif isinstance(t, (ast.Tuple, ast.List)):
                        for e in t.elts:
                            if isinstance(e, ast.Name) and e.id not in env:
                                env[e.id] = None
                                changed = True

        for n in ast.walk(fn):
            if isinstance(n, ast.Assign):
                for t in n.targets:
                    note_write(t, "assign")
            elif isinstance(n, (ast.AugAssign, ast.AnnAssign)):
                if not (isinstance(n, ast.AnnAssign) and n.value is None):
                    note_write(n.target, "assign")
            elif isinstance(n, ast.Delete):
                for t in n.targets:
                    note_write(t, "del")
            elif isinstance(n, ast.Attribute) and isinstance(n.ctx, ast.Load):
                t = typ(n.value)
                if t is None:
                    for k in self.by_field.get(n.attr, []):
                        if n.attr.startswith("m_") or not self.by_method.get(n.attr):
                            reads.add((k, n.attr))
                else:
                    for k in t:
                        d = self.declaring(k, n.attr)
                        if d is not None and self.find_method(k, n.attr) is None:
                            reads.add((d, n.attr))
            if isinstance(n, ast.Call):
                f = n.func
                if isinstance(f, ast.Name):
                    if f.id == "getattr":
                        if (rel, cname, mname) != GETATTR_SITE:
                            fail(f"{where}: getattr() call outside the known site")
                        calls.append(("getattr", None))
                    elif f.id in self.classes:
                        calls.append(("ctor", f.id))
                    elif f.id == "cls" and "cls" in env:
                        calls.append(("ctor", cname))
                    elif f.id in env and env[f.id] is None:
                        pass        # call of a local callable: cannot be resolved; bip_utils passes none
                elif isinstance(f, ast.Attribute):
                    if ast.unparse(f) == "self.__class__":
                        calls.append(("ctor", cname))
                        continue
                    if isinstance(f.value, ast.Call) and isinstance(f.value.func, ast.Name) and f.value.func.id == "super":
                        for b in self.mro(cname)[1:]:
                            if f.attr in self.classes[b].methods:
                                calls.append(("exact", (b, f.attr)))
                                break
                        continue
                    t = typ(f.value)
                    # in-place mutation of a container held in a field
                    if f.attr in MUTATING_CALLS and isinstance(f.value, ast.Attribute) and isinstance(f.value.value, ast.Name) \
                            and f.value.value.id in ("self", "cls"):
                        d = self.declaring(cname, f.value.attr)
                        if d is None:
                            fail(f"{where}: mutation of undeclared field {f.value.attr}")
                        writes.add((d, f.value.attr))
                    if t is None:
                        calls.append(("byname", f.attr))
                    else:
                        for k in t:
                            calls.append(("virtual", (k, f.attr)))
        # lazy initialisers: `if self.f is None: self.f = ...` or try: return self.f[k] except KeyError: self.f[k] = ...
        for n in ast.walk(fn):
            if isinstance(n, ast.If) and isinstance(n.test, ast.Compare) and len(n.test.ops) == 1 \
                    and isinstance(n.test.ops[0], ast.Is) and isinstance(n.test.comparators[0], ast.Constant) \
                    and n.test.comparators[0].value is None and isinstance(n.test.left, ast.Attribute) \
                    and isinstance(n.test.left.value, ast.Name) and n.test.left.value.id in ("self", "cls"):
                f0 = n.test.left.attr
                assigned = set()
                for m in ast.walk(ast.Module(body=n.body, type_ignores=[])):
                    if isinstance(m, ast.Assign):
                        for t in m.targets:
                            for e in (t.elts if isinstance(t, ast.Tuple) else [t]):
                                if isinstance(e, ast.Attribute) and isinstance(e.value, ast.Name) and e.value.id in ("self", "cls"):
                                    assigned.add(e.attr)
                if f0 in assigned:
                    for g in assigned:
                        d = self.declaring(cname, g)
                        lazy.add((d, g))
            if isinstance(n, ast.Try) and len(n.handlers) == 1 and n.handlers[0].type is not None \
                    and ast.unparse(n.handlers[0].type) == "KeyError":
                for m in n.handlers[0].body:
                    if isinstance(m, ast.Assign) and isinstance(m.targets[0], ast.Subscript) \
                            and isinstance(m.targets[0].value, ast.Attribute) \
                            and isinstance(m.targets[0].value.value, ast.Name) and m.targets[0].value.value.id == "self":
                        g = m.targets[0].value.attr
                        lazy.add((self.declaring(cname, g), g))
        res = (reads, writes, calls, lazy)
        self.memo_rw[key] = res
        return res

    def resolve(self, call, holder):
        """call descriptor -> list of (class, method) bodies that may run"""
        kind, x = call
        out = []
        if kind == "exact":
            out.append(x)
        elif kind == "ctor":
            k = self.find_method(x, "__init__")
            if k:
                out.append((k, "__init__"))
        elif kind == "virtual":
            k, m = x
            cands = set([k] + self.subclasses(k))
            if k == "BipCoinConf" or "BipCoinConf" in self.mro(k):
                allowed = self.conf_narrow.get(holder)
                if allowed is not None:
                    cands = set(a for a in cands if a in allowed or a not in self.subclasses("BipCoinConf"))
            for sc in sorted(cands):
                d = self.find_method(sc, m)
                if d:
                    out.append((d, m))
        elif kind == "byname":
            for k in self.by_method.get(x, []):
                out.append((k, x))
        elif kind == "getattr":
            for nm in self.getattr_names:
                for k in self.by_method.get(nm, []):
                    out.append((k, nm))
        return sorted(set(out))

    def closure(self, cname, mname):
        """transitive (reads, writes-outside-construction) of cname.mname"""
        reads, writes = set(), set()
        seen = set()
        todo = [(self.find_method(cname, mname), mname, False)]
        while todo:
            k, m, in_ctor = todo.pop()
            if k is None or (k, m, in_ctor) in seen:
                continue
            seen.add((k, m, in_ctor))
            r, w, calls, lazy = self.method_facts(k, m)
            # reads of a lazily initialised field inside its own initialiser are part of the memo
            reads |= set(x for x in r if x not in lazy)
            if not in_ctor and m != "__init__":
                writes |= w
            holder = None
            for a in self.mro(k):
                if a in self.conf_narrow:
                    holder = a
                    break
            for call in calls:
                for (k2, m2) in self.resolve(call, holder):
                    todo.append((k2, m2, in_ctor or call[0] == "ctor" or m == "__init__"))
        return reads, writes


def _getattr_names():
    """method names the coin tables ask BipCoinFctCallsConf.ResolveCalls to call"""
    from bip_utils.bip.conf.common.bip_coin_conf import BipCoinFctCallsConf
    names = set()
    for hid, cls, enum_name, name, conf, purpose in coin_table():
        params = [conf.m_addr_params]
        for p in params:
            stack = [p]
            while stack:
                x = stack.pop()
                if isinstance(x, dict):
                    stack += list(x.values())
                elif isinstance(x, BipCoinFctCallsConf):
                    names |= set(x.m_fct_names)
    return sorted(names)


def _check_holders():
    """CardanoShelley only wraps Cip1852 objects (narrowing premise of CONF_HOLDERS)."""
    from bip_utils import Bip44, Bip44Coins, CardanoShelley
    seed = bytes(range(64))
    try:
        CardanoShelley.FromCip1852Object(Bip44.FromSeed(seed, Bip44Coins.CARDANO_BYRON_ICARUS))
    except (TypeError, ValueError):
        return
    except Exception as e:  # noqa
        fail(f"CardanoShelley.FromCip1852Object(Bip44 object) raised {type(e).__name__}, expected TypeError/ValueError")
    fail("CardanoShelley.FromCip1852Object accepts a non-Cip1852 object: conf narrowing premise broken")


# ---- in-place mutation of parameters (C15: "never mutates caller-supplied inputs") ----

_IMMUTABLE_ANN = ("int", "str", "bytes", "bool", "float", "Optional[int]", "Optional[str]", "Optional[bytes]")


def _all_functions(A):
    """(qualified name, FunctionDef, class name or None, file) for every function in bip_utils"""
    out = []
    for k in sorted(A.classes):
        c = A.classes[k]
        for m in sorted(c.methods):
            out.append((k + "." + m, c.methods[m], k, c.file))
    root = os.path.join(REPO, PKG)
    for dp, dns, fs in sorted(os.walk(root)):
        dns.sort()
        for f in sorted(fs):
            if f.endswith(".py"):
                p = os.path.join(dp, f)
                rel = os.path.relpath(p, root)
                tree = ast.parse(open(p, encoding="utf-8").read())
                for n in tree.body:
                    if isinstance(n, ast.FunctionDef):
                        out.append((rel[:-3].replace("/", ".") + ":" + n.name, n, None, rel))
    return out


def _param_mutations(fn):
    """parameters of fn mutated in place before any rebinding: [(param, line, how)]"""
    params = [a for a in fn.args.posonlyargs + fn.args.args + fn.args.kwonlyargs if a.arg not in ("self", "cls")]
    if fn.args.vararg or fn.args.kwarg:
        pass
    res = []
    for a in params:
        ann = ast.unparse(a.annotation) if a.annotation is not None else None
        if ann in _IMMUTABLE_ANN:
            continue
        rebind = None
        muts = []
        for n in ast.walk(fn):
            if isinstance(n, ast.Assign):
                for t in n.targets:
                    for e in (t.elts if isinstance(t, (ast.Tuple, ast.List)) else [t]):
                        if isinstance(e, ast.Name) and e.id == a.arg:
                            rebind = n.lineno if rebind is None else min(rebind, n.lineno)
                        if isinstance(e, ast.Subscript) and isinstance(e.value, ast.Name) and e.value.id == a.arg:
                            muts.append((n.lineno, "item assignment"))
            elif isinstance(n, ast.AugAssign):
                if isinstance(n.target, ast.Name) and n.target.id == a.arg:
                    # `x += y` on a list/bytearray extends in place (and rebinds to the same object)
                    muts.append((n.lineno, "augmented assignment"))
                if isinstance(n.target, ast.Subscript) and isinstance(n.target.value, ast.Name) and n.target.value.id == a.arg:
                    muts.append((n.lineno, "augmented item assignment"))
            elif isinstance(n, ast.Delete):
                for t in n.targets:
                    if isinstance(t, ast.Subscript) and isinstance(t.value, ast.Name) and t.value.id == a.arg:
                        muts.append((n.lineno, "del item"))
            elif isinstance(n, ast.Call) and isinstance(n.func, ast.Attribute) and isinstance(n.func.value, ast.Name) \
                    and n.func.value.id == a.arg and n.func.attr in MUTATING_CALLS:
                muts.append((n.lineno, "." + n.func.attr + "()"))
        for (ln, how) in muts:
            if rebind is None or ln <= rebind:
                if how == "augmented assignment" and ann is not None and not any(w in ann for w in ("List", "Dict", "Set", "bytearray", "Any", "Union")):
                    continue
                res.append((a.arg, ln, how))
    return res


def _returns_fresh(A, funcs_by_name, fn, depth=0):
    """every `return` of fn yields None or an object created inside fn"""
    if depth > 4:
        return False
    local_fresh = set()
    params = set(a.arg for a in fn.args.posonlyargs + fn.args.args + fn.args.kwonlyargs)

    def fresh_expr(e):
        if isinstance(e, (ast.List, ast.ListComp, ast.Dict, ast.DictComp, ast.Set, ast.SetComp, ast.BinOp)):
            return True
        if isinstance(e, ast.Constant) and e.value is None:
            return True
        if isinstance(e, ast.Name):
            return e.id in local_fresh
        if isinstance(e, ast.Call):
            if isinstance(e.func, ast.Name) and e.func.id in ("list", "bytearray", "dict", "set", "sorted"):
                return True
            nm = e.func.attr if isinstance(e.func, ast.Attribute) else (e.func.id if isinstance(e.func, ast.Name) else None)
            cands = funcs_by_name.get(nm, [])
            return bool(cands) and all(_returns_fresh(A, funcs_by_name, f, depth + 1) for f in cands)
        return False
    # names bound only to fresh expressions
    binds = {}
    for n in ast.walk(fn):
        if isinstance(n, ast.Assign):
            for t in n.targets:
                if isinstance(t, ast.Name):
                    binds.setdefault(t.id, []).append(n.value)
    changed = True
    while changed:
        changed = False
        for nm, vs in binds.items():
            if nm not in params and nm not in local_fresh and all(fresh_expr(v) for v in vs):
                local_fresh.add(nm)
                changed = True
    rets = [n for n in ast.walk(fn) if isinstance(n, ast.Return)]
    return bool(rets) and all(r.value is None or fresh_expr(r.value) for r in rets)


def param_mutation_tables(A):
    funcs = _all_functions(A)
    by_name = {}
    for q, fn, k, rel in funcs:
        by_name.setdefault(fn.name, []).append(fn)
    mutators = []
    for q, fn, k, rel in funcs:
        for (param, ln, how) in _param_mutations(fn):
            mutators.append((q, param, how, fn))
    sites = []
    for q, param, how, fn in mutators:
        args = [a.arg for a in fn.args.posonlyargs + fn.args.args]
        off = 1 if args and args[0] in ("self", "cls") else 0
        pos = args.index(param) - off
        for q2, fn2, k2, rel2 in funcs:
            for n in ast.walk(fn2):
                if isinstance(n, ast.Call) and ((isinstance(n.func, ast.Attribute) and n.func.attr == fn.name)
                                                or (isinstance(n.func, ast.Name) and n.func.id == fn.name)):
                    arg = None
                    if pos < len(n.args):
                        arg = n.args[pos]
                    for kw in n.keywords:
                        if kw.arg == param:
                            arg = kw.value
                    if arg is None:
                        fail(f"{rel2}: {q2}: call of {q} without the mutated argument {param}")
                    fresh = False
                    if isinstance(arg, (ast.List, ast.ListComp, ast.BinOp)):
                        fresh = True
                    elif isinstance(arg, ast.Call):
                        if isinstance(arg.func, ast.Name) and arg.func.id in ("list", "bytearray"):
                            fresh = True
                        else:
                            nm = arg.func.attr if isinstance(arg.func, ast.Attribute) else getattr(arg.func, "id", None)
                            cands = by_name.get(nm, [])
                            fresh = bool(cands) and all(_returns_fresh(A, by_name, f) for f in cands)
                    sites.append((q2, q, ast.unparse(arg), fresh))
    return [(q, p, h) for q, p, h, _ in mutators], sites


def _qs(s):
    return '"' + s + '"'


def gen_objects():
    A = _Analysis()
    A.getattr_names = _getattr_names()
    _check_holders()
    table = coin_table()
    conf_cls = {}
    for hid, cls, enum_name, name, conf, purpose in table:
        conf_cls.setdefault(hid, set()).add(type(conf).__name__)
        if type(conf).__name__ not in A.classes:
            fail(f"{enum_name}.{name}: configuration class {type(conf).__name__} not found in the sources")
    for holder, hids in CONF_HOLDERS.items():
        if holder not in A.classes:
            fail(f"conf holder class {holder} not found")
        if A.declaring(holder, "m_coin_conf") is None:
            fail(f"{holder} has no m_coin_conf field")
        A.conf_narrow[holder] = sorted(set().union(*[conf_cls[h] for h in hids]))
    # every class with an m_coin_conf field must have a narrowing entry (else: all subclasses)
    for k, c in A.classes.items():
        if "m_coin_conf" in c.fields and "BipCoinConf" in A.ann_types(c.fields["m_coin_conf"]) and k not in CONF_HOLDERS:
            fail(f"{c.file}: {k} declares m_coin_conf but has no CONF_HOLDERS entry")
    out = ["From Coq Require Import String.", "Open Scope string_scope.", ""]
    names = sorted(A.classes)
    out.append("(* class, bases *)")
    out.append("Definition classes : list (string * list string) := [\n  " + ";\n  ".join(
        "(%s, %s)" % (_qs(k), coq_list([_qs(b) for b in A.classes[k].bases if b in A.classes])) for k in names) + "].")
    decl = []
    for k in names:
        for f in A.classes[k].fields:
            if f.startswith("m_") or f.startswith("auto_") or f.startswith("__"):
                decl.append(_qs(k + "." + f))
    out.append("Definition declared_fields : list string := [\n  " + ";\n  ".join(decl) + "].")
    # direct writes outside __init__ (mutators) and lazy initialisers
    mutators, lazies = [], []
    for k in names:
        for m in A.classes[k].methods:
            r, w, calls, lazy = A.method_facts(k, m)
            if m == "__init__":
                continue
            for (d, f) in sorted(w):
                (lazies if (d, f) in lazy else mutators).append((d + "." + f, k + "." + m))
    out.append("(* field written outside __init__, writing method -- lazy initialisers apart *)")
    out.append("Definition mutators : list (string * string) := [\n  " + ";\n  ".join(
        "(%s, %s)" % (_qs(a), _qs(b)) for a, b in sorted(mutators)) + "].")
    out.append("Definition lazy_inits : list (string * string) := [\n  " + ";\n  ".join(
        "(%s, %s)" % (_qs(a), _qs(b)) for a, b in sorted(lazies)) + "].")
    mutable = sorted(set(a for a, _ in mutators))
    lazyf = sorted(set(a for a, _ in lazies))
    out.append("Definition mutable_fields : list string := " + coq_list([_qs(x) for x in mutable]) + ".")
    out.append("Definition lazy_fields : list string := " + coq_list([_qs(x) for x in lazyf]) + ".")
    # cached methods with transitive read-sets (restricted to fields that are ever written after
    # construction -- the full read-set is large and irrelevant to the obligation -- plus its size)
    interesting = set(mutable) | set(lazyf)
    cached = []
    allm = []
    mw = []
    for k in names:
        for m in sorted(A.classes[k].methods):
            allm.append(k + "." + m)
            r, w = A.closure(k, m)
            if m != "__init__" and w:
                mw.append((k + "." + m, sorted(set(d + "." + f for d, f in w))))
            if m in A.classes[k].cached:
                rs = sorted(set(d + "." + f for d, f in r))
                cached.append((k + "." + m, [x for x in rs if x in interesting], len(rs)))
    out.append("(* @lru_cache method, fields of its transitive read-set that are written after construction"
               " (mutable or lazy), size of the whole read-set *)")
    out.append("Definition cached : list (string * list string * N) := [\n  " + ";\n  ".join(
        "(%s, %s, %d)" % (_qs(a), coq_list([_qs(x) for x in b]), n) for a, b, n in cached) + "].")
    out.append("Definition all_methods : list string := [\n  " + ";\n  ".join(_qs(x) for x in allm) + "].")
    out.append("(* transitive write-set (fields written on already constructed objects) of every method that has one *)")
    out.append("Definition method_writes : list (string * list string) := [\n  " + ";\n  ".join(
        "(%s, %s)" % (_qs(a), coq_list([_qs(x) for x in b])) for a, b in mw) + "].")
    out.append("(* coin enum member -> class of its configuration object *)")
    out.append("Definition coin_conf_classes : list (N * string * string) := [\n  " + ";\n  ".join(
        "(%d, %s, %s)" % (hid, _qs(name), _qs(type(conf).__name__)) for hid, cls, en, name, conf, pu in table) + "].")
    out.append("(* holder of an m_coin_conf field -> hierarchies feeding it, conf classes the analysis allowed there *)")
    out.append("Definition conf_holders : list (string * list N * list string) := [\n  " + ";\n  ".join(
        "(%s, %s, %s)" % (_qs(h), coq_list([str(x) for x in CONF_HOLDERS[h]]), coq_list([_qs(x) for x in A.conf_narrow[h]]))
        for h in sorted(CONF_HOLDERS)) + "].")
    out.append("(* fields assigned without a class-level annotation (outside the anchor files) *)")
    out.append("Definition undeclared_fields : list string := " + coq_list([_qs(x) for x in sorted(A.undeclared)]) + ".")
    out.append("(* assignments to fields of private copies / newly built objects (construction, not mutation) *)")
    out.append("Definition fresh_object_writes : list string := " + coq_list([_qs(x) for x in sorted(A.fresh_writes)]) + ".")
    pm, sites = param_mutation_tables(A)
    out.append("(* functions that mutate one of their parameters in place (before rebinding it): function, parameter, how *)")
    out.append("Definition param_mutators : list (string * string * string) := " + coq_list(
        ["(%s, %s, %s)" % (_qs(a), _qs(b), _qs(c)) for a, b, c in pm]) + ".")
    out.append("(* every call of such a function: caller, callee, argument expression, is the argument a newly created object *)")
    out.append("Definition param_mutator_call_sites : list (string * string * string * bool) := " + coq_list(
        ["(%s, %s, %s, %s)" % (_qs(a), _qs(b), _qs(c.replace('"', "'")), "true" if d else "false") for a, b, c, d in sites]) + ".")
    out.append("Definition conf_subclasses : list string := " + coq_list([_qs(x) for x in sorted(A.subclasses("BipCoinConf"))]) + ".")
    out.append("Definition getattr_call_names : list string := " + coq_list([_qs(x) for x in A.getattr_names]) + ".")
    return "\n".join(out) + "\n"


def generate():
    return {"Bip44Params.v": gen_bip44_params(), "Objects.v": gen_objects()}

"""Constants of bip_utils/ecc -> coq/Gen/Ecc.v (see translate.py for the policy: fail closed).

  * module-level constants of the in-repo pure-Python ed25519_lib (_Q, _L, _G, _D, _I, generator
    encodings, coordinate length): value read from the imported module AND required to be a
    module-level assignment in the AST;
  * constants inside function bodies of ed25519_lib (the clamp mask, the sign-bit mask, the 0x80 byte):
    Python ast;
  * key / point byte lengths and prefixes of every curve's *Const classes: translate.reflect;
  * curve orders and generators as configured in the <Curve>Const classes (the objects the library
    uses at run time);
  * field prime and coefficients of the two Weierstrass curves: these are not in /repo (they live in
    python-ecdsa / libsecp256k1); they are read from python-ecdsa's curve objects -- the ones the
    nist256p1 and secp256k1-ecdsa back-ends compute with -- and required to equal harness/ecref.py.
"""
import ast
import importlib

from translate import reflect, emit, fail, find_func, lit, module_ast, REPO

EDLIB = "bip_utils/ecc/ed25519/lib/ed25519_lib.py"


def reflect_module(relpath, name):
    """Value of a module-level name, after checking the AST has a module-level assignment to it."""
    tree = module_ast(relpath)
    found = False
    for n in tree.body:
        if isinstance(n, ast.Assign) and any(isinstance(t, ast.Name) and t.id == name for t in n.targets):
            found = True
        if isinstance(n, ast.AnnAssign) and isinstance(n.target, ast.Name) and n.target.id == name and n.value is not None:
            found = True
    if not found:
        fail(f"{relpath}: module-level assignment to {name} not found")
    modname = relpath[:-3].replace("/", ".")
    try:
        mod = importlib.import_module(modname)
    except Exception as e:  # noqa
        fail(f"cannot import {modname}: {e}")
    if not mod.__file__.startswith(REPO):
        fail(f"{modname} imported from {mod.__file__}, not from {REPO}")
    if not hasattr(mod, name):
        fail(f"{modname}.{name} missing at run time")
    return getattr(mod, name)


def body_assign(relpath, func, var):
    """Literal value of `var = <literal expr>` inside a module-level function (exactly one such assignment)."""
    f = find_func(relpath, None, func)
    hits = [n for n in ast.walk(f) if isinstance(n, ast.Assign) and len(n.targets) == 1
            and isinstance(n.targets[0], ast.Name) and n.targets[0].id == var]
    if len(hits) != 1:
        fail(f"{relpath}: {func}: expected exactly one assignment to {var}, found {len(hits)}")
    return lit(hits[0].value, relpath, f"{func}.{var}")


def body_shift_consts(relpath, func):
    """Set of values of literal `a << b` expressions inside a function, excluding those in `var = ...` of `skip`."""
    f = find_func(relpath, None, func)
    vals = set()
    for n in ast.walk(f):
        if isinstance(n, ast.BinOp) and isinstance(n.op, ast.LShift):
            vals.add(lit(n, relpath, f"{func}: shift constant"))
    return vals


def body_augor_const(relpath, func):
    """The constant c of the single statement `x[...] |= c` inside a function."""
    f = find_func(relpath, None, func)
    hits = [n for n in ast.walk(f) if isinstance(n, ast.AugAssign) and isinstance(n.op, ast.BitOr)]
    if len(hits) != 1:
        fail(f"{relpath}: {func}: expected exactly one `|=` statement, found {len(hits)}")
    return lit(hits[0].value, relpath, f"{func}: |= constant")


def D(name, kind, v):
    ty, txt = emit(kind, v)
    return f"Definition {name} : {ty} := {txt}."


def generate():
    import ecref
    out = []
    # ---- ed25519_lib module constants
    q = reflect_module(EDLIB, "_Q")
    ell = reflect_module(EDLIB, "_L")
    g = reflect_module(EDLIB, "_G")
    d = reflect_module(EDLIB, "_D")
    i = reflect_module(EDLIB, "_I")
    if not (isinstance(g, tuple) and len(g) == 2):
        fail(f"{EDLIB}: _G is not a pair")
    for nm, v in (("_Q", q), ("_L", ell), ("_D", d), ("_I", i), ("_G[0]", g[0]), ("_G[1]", g[1])):
        if not isinstance(v, int) or isinstance(v, bool):
            fail(f"{EDLIB}: {nm} is not an int")
    out.append(D("ed_q", "Z", q))
    out.append(D("ed_l", "Z", ell))
    out.append(D("ed_gx", "Z", g[0]))
    out.append(D("ed_gy", "Z", g[1]))
    out.append(D("ed_d", "Z", d))
    out.append(D("ed_sqrtm1", "Z", i))
    out.append(D("ed_g_dec_bytes", "bytes", reflect_module(EDLIB, "_G_DEC_BYTES")))
    out.append(D("ed_g_enc_bytes", "bytes", reflect_module(EDLIB, "_G_ENC_BYTES")))
    out.append(D("ed_coord_len", "nat", reflect_module(EDLIB, "_COORD_BYTE_LEN")))
    # ---- ed25519_lib constants inside function bodies
    clamp = body_assign(EDLIB, "point_decode_no_check", "clamp")
    shifts = body_shift_consts(EDLIB, "point_decode_no_check")
    # the function contains `(1 << 255) - 1` (clamp) and `point_int & (1 << 255)` (sign bit): one shift value
    if len(shifts) != 1:
        fail(f"{EDLIB}: point_decode_no_check: expected one distinct shift constant, found {sorted(shifts)}")
    out.append(D("ed_clamp", "Z", clamp))
    out.append(D("ed_sign_bit", "Z", shifts.pop()))
    out.append(D("ed_sign_byte", "N", body_augor_const(EDLIB, "point_encode")))
    # ---- key / point lengths and prefixes
    K = "bip_utils/ecc/"
    for name, f, cls, attr, kind in [
        ("ecdsa_coord_len", K + "ecdsa/ecdsa_keys.py", "EcdsaKeysConst", "POINT_COORD_BYTE_LEN", "nat"),
        ("ecdsa_priv_len", K + "ecdsa/ecdsa_keys.py", "EcdsaKeysConst", "PRIV_KEY_BYTE_LEN", "nat"),
        ("ecdsa_unc_prefix", K + "ecdsa/ecdsa_keys.py", "EcdsaKeysConst", "PUB_KEY_UNCOMPRESSED_PREFIX", "bytes"),
        ("ecdsa_pub_c_len", K + "ecdsa/ecdsa_keys.py", "EcdsaKeysConst", "PUB_KEY_COMPRESSED_BYTE_LEN", "nat"),
        ("ecdsa_pub_u_len", K + "ecdsa/ecdsa_keys.py", "EcdsaKeysConst", "PUB_KEY_UNCOMPRESSED_BYTE_LEN", "nat"),
        ("ed_pub_prefix", K + "ed25519/ed25519_keys.py", "Ed25519KeysConst", "PUB_KEY_PREFIX", "bytes"),
        ("ed_pub_len", K + "ed25519/ed25519_keys.py", "Ed25519KeysConst", "PUB_KEY_BYTE_LEN", "nat"),
        ("ed_priv_len", K + "ed25519/ed25519_keys.py", "Ed25519KeysConst", "PRIV_KEY_BYTE_LEN", "nat"),
        ("ed_point_coord_len", K + "ed25519/ed25519_point.py", "Ed25519PointConst", "POINT_COORD_BYTE_LEN", "nat"),
        ("kholaw_priv_len", K + "ed25519_kholaw/ed25519_kholaw_keys.py", "Ed25519KholawKeysConst", "PRIV_KEY_BYTE_LEN", "nat"),
        ("sr_pub_len", K + "sr25519/sr25519_keys.py", "Sr25519KeysConst", "PUB_KEY_BYTE_LEN", "nat"),
        ("sr_priv_len", K + "sr25519/sr25519_keys.py", "Sr25519KeysConst", "PRIV_KEY_BYTE_LEN", "nat"),
        ("dummy_coord_len", K + "common/dummy_point.py", "DummyPointConst", "POINT_COORD_BYTE_LEN", "nat"),
    ]:
        out.append(D(name, kind, reflect(f, cls, attr)))
    # ---- curve orders / generators as configured
    for pre, f, cls in [("secp", K + "secp256k1/secp256k1_const.py", "Secp256k1Const"),
                        ("nist", K + "nist256p1/nist256p1_const.py", "Nist256p1Const"),
                        ("edc", K + "ed25519/ed25519_const.py", "Ed25519Const")]:
        n = reflect(f, cls, "CURVE_ORDER")
        gen = reflect(f, cls, "GENERATOR")
        try:
            gx, gy = int(gen.X()), int(gen.Y())
        except Exception as e:  # noqa
            fail(f"{f}: {cls}.GENERATOR has no integer coordinates: {e}")
        out.append(D(pre + "_n", "N", int(n)))
        out.append(D(pre + "_gx", "N", gx))
        out.append(D(pre + "_gy", "N", gy))
    for f, cls in [(K + "ed25519_kholaw/ed25519_kholaw_const.py", "Ed25519KholawConst"),
                   (K + "ed25519_monero/ed25519_monero_const.py", "Ed25519MoneroConst")]:
        n = reflect(f, cls, "CURVE_ORDER")
        gen = reflect(f, cls, "GENERATOR")
        if int(n) != ell or (int(gen.X()), int(gen.Y())) != (g[0], g[1]):
            fail(f"{f}: {cls} order/generator differ from ed25519_lib's _L/_G")
    # ---- Weierstrass field parameters (third-party; cross-checked against the harness reference)
    try:
        from ecdsa.ecdsa import curve_secp256k1, curve_256
    except Exception as e:  # noqa
        fail(f"cannot import python-ecdsa curves: {e}")
    for pre, c, ref in [("secp", curve_secp256k1, ecref.SECP256K1), ("nist", curve_256, ecref.NIST256P1)]:
        p, a, b = int(c.p()), int(c.a()) % int(c.p()), int(c.b())
        if (p, a, b) != (ref.p, ref.a % ref.p, ref.b):
            fail(f"python-ecdsa curve parameters for {pre} differ from harness/ecref.py")
        out.append(D(pre + "_p", "N", p))
        out.append(D(pre + "_a", "N", a))
        out.append(D(pre + "_b", "N", b))
    return {"Ecc.v": "\n".join(out) + "\n"}

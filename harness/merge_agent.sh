#!/bin/bash
# harness/merge_agent.sh <name> : merge /work/<name> branch <name> into /verif main (ours wins on evidence conflicts)
cd /verif && git pull -q --no-edit -X ours /work/$1 $1 2>&1 | tail -5; git status --short | grep -E "^(UU|AA)" | awk '{print $2}' | while read f; do git checkout --ours "$f"; git add "$f"; done; git commit -qm "Merge branch $1" 2>/dev/null; git log --oneline | head -1

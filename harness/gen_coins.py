"""Coin tables of /repo -> coq/Gen/CoinsConsts.v (numeric constants, keyword names) and
coq/Gen/Coins.v (every member of the 7 coin enumerations resolved to its configuration, the
CoinsConf registry, the SLIP-44 table, the keyword table of the address encoders/decoders).

Two independent readings of the source are taken and required to agree (fail closed otherwise):

  * reflective: the conf modules only build data, so the objects are read in the running
    interpreter (the `m_*` fields, never through the toggling accessors: nothing is mutated);
  * `ast`: every `*_conf_getter.py` mapping dict, every class-level assignment of the conf
    container classes (constructor keywords, which CoinsConf entry / Slip44 constant / class a
    keyword names) and every class-level assignment of `coin_conf/coins_conf.py` (evaluated with
    a small literal evaluator) are read from the source text and compared with the objects.

Anything unknown (a class, a keyword, a value type, an AST shape) aborts the translation with a
message naming the file and the item.

`python gen_coins.py --registry` prints the text of coq/Lemmas/Registry.v (the committed golden
snapshot; regenerate it ONLY when a change of the constants has been reviewed)."""
import ast
import importlib
import inspect
import os
import sys

from translate import REPO, fail, module_ast, find_class, class_has_assign, reflect, find_func, lit, coq_codes, coq_list

# ----------------------------------------------------------------------------- vocabulary
# class name -> Coq constructor (Model/Coins.v).  Unknown classes fail closed.

BIP32_CLS = {
    "Bip32Slip10Secp256k1": "B32_Slip10Secp256k1", "Bip32Slip10Nist256p1": "B32_Slip10Nist256p1",
    "Bip32Slip10Ed25519": "B32_Slip10Ed25519", "Bip32Slip10Ed25519Blake2b": "B32_Slip10Ed25519Blake2b",
    "Bip32KholawEd25519": "B32_KholawEd25519", "CardanoIcarusBip32": "B32_CardanoIcarus",
}
CURVES = ["ED25519", "ED25519_BLAKE2B", "ED25519_KHOLAW", "ED25519_MONERO", "NIST256P1", "SECP256K1", "SR25519"]
KEY_KINDS = ["Ed25519", "Ed25519Blake2b", "Ed25519Monero", "Nist256p1", "Secp256k1", "Sr25519"]
ADDR_CLS = ["AdaByronIcarus", "AdaShelley", "Algo", "Aptos", "Atom", "AvaxPChain", "AvaxXChain", "BchP2PKH",
            "BchP2SH", "Egld", "Eos", "ErgoP2PKH", "Eth", "FilSecp256k1", "Icx", "Inj", "Nano", "Near",
            "NeoLegacy", "NeoN3", "Nim", "Okex", "One", "P2PKH", "P2SH", "P2TR", "P2WPKH", "Sol",
            "SubstrateEd25519", "SubstrateSr25519", "Sui", "Trx", "Xlm", "Xmr", "Xrp", "Xtz", "Zil"]
# decoder class of an encoder when it is not <Name>AddrDecoder
DECODER_OF = {"AdaByronIcarusAddrEncoder": "AdaByronAddrDecoder"}
CONF_CLS = {"BipCoinConf": "K_BipCoinConf", "BipBitcoinCashConf": "K_BipBitcoinCashConf",
            "BipLitecoinConf": "K_BipLitecoinConf"}

# keyword names the model refers to (emitted as k_<name> so that Model/Coins.v has no hand-typed code points)
KEYWORDS = ["net_ver", "hrp", "ver", "ss58_format", "addr_type", "prefix", "net_type", "net_tag", "chain_code",
            "pub_vkey", "pub_skey", "p2wpkh_wit_ver", "p2tr_wit_ver", "wif_net_ver", "addr_ss58_format",
            "addr_net_ver", "addr_int_net_ver", "subaddr_net_ver"]

B = "bip_utils/"
FAMILIES = [
    # tag, kind, enum (file, class), getter (file, const class, getter class), conf container (file, class), purpose
    ("FBip44", "bip", (B + "bip/conf/bip44/bip44_coins.py", "Bip44Coins"),
     (B + "bip/conf/bip44/bip44_conf_getter.py", "Bip44ConfGetterConst", "Bip44ConfGetter"),
     (B + "bip/conf/bip44/bip44_conf.py", "Bip44Conf"), (B + "bip/bip44/bip44.py", "Bip44Const", "purpose_bip44")),
    ("FBip49", "bip", (B + "bip/conf/bip49/bip49_coins.py", "Bip49Coins"),
     (B + "bip/conf/bip49/bip49_conf_getter.py", "Bip49ConfGetterConst", "Bip49ConfGetter"),
     (B + "bip/conf/bip49/bip49_conf.py", "Bip49Conf"), (B + "bip/bip49/bip49.py", "Bip49Const", "purpose_bip49")),
    ("FBip84", "bip", (B + "bip/conf/bip84/bip84_coins.py", "Bip84Coins"),
     (B + "bip/conf/bip84/bip84_conf_getter.py", "Bip84ConfGetterConst", "Bip84ConfGetter"),
     (B + "bip/conf/bip84/bip84_conf.py", "Bip84Conf"), (B + "bip/bip84/bip84.py", "Bip84Const", "purpose_bip84")),
    ("FBip86", "bip", (B + "bip/conf/bip86/bip86_coins.py", "Bip86Coins"),
     (B + "bip/conf/bip86/bip86_conf_getter.py", "Bip86ConfGetterConst", "Bip86ConfGetter"),
     (B + "bip/conf/bip86/bip86_conf.py", "Bip86Conf"), (B + "bip/bip86/bip86.py", "Bip86Const", "purpose_bip86")),
    ("FCip1852", "bip", (B + "cardano/cip1852/conf/cip1852_coins.py", "Cip1852Coins"),
     (B + "cardano/cip1852/conf/cip1852_conf_getter.py", "Cip1852ConfGetterConst", "Cip1852ConfGetter"),
     (B + "cardano/cip1852/conf/cip1852_conf.py", "Cip1852Conf"),
     (B + "cardano/cip1852/cip1852.py", "Cip1852Const", "purpose_cip1852")),
    ("FSubstrate", "substrate", (B + "substrate/conf/substrate_coins.py", "SubstrateCoins"),
     (B + "substrate/conf/substrate_conf_getter.py", "SubstrateConfGetterConst", "SubstrateConfGetter"),
     (B + "substrate/conf/substrate_conf.py", "SubstrateConf"), None),
    ("FMonero", "monero", (B + "monero/conf/monero_coins.py", "MoneroCoins"),
     (B + "monero/conf/monero_conf_getter.py", "MoneroConfGetterConst", "MoneroConfGetter"),
     (B + "monero/conf/monero_conf.py", "MoneroConf"), None),
]
COINS_CONF = B + "coin_conf/coins_conf.py"
SLIP44 = B + "slip/slip44/slip44.py"
SLIP173 = B + "slip/slip173/slip173.py"
CONF_CONST = B + "bip/conf/common/bip_conf_const.py"


def imp(relpath):
    modname = relpath[:-3].replace("/", ".")
    try:
        mod = importlib.import_module(modname)
    except Exception as e:  # noqa
        fail(f"cannot import {modname}: {e}")
    if not os.path.realpath(mod.__file__).startswith(os.path.realpath(REPO)):
        fail(f"{modname} imported from {mod.__file__}, not from {REPO}")
    return mod


def S(s):
    """Coq list N of a str (code points) or bytes."""
    return coq_codes(s)


def opt(x):
    return "None" if x is None else f"(Some {x})"


# ----------------------------------------------------------------------------- small AST helpers

def attr_chain(n):
    """a.b.c -> ['a','b','c'] or None."""
    out = []
    while isinstance(n, ast.Attribute):
        out.append(n.attr)
        n = n.value
    if isinstance(n, ast.Name):
        out.append(n.id)
        return out[::-1]
    return None


def class_assigns(relpath, cls):
    """Ordered {attr: value node or None} of the class-level (annotated) assignments of a class."""
    c = find_class(module_ast(relpath), cls, relpath)
    out = {}
    for n in c.body:
        if isinstance(n, ast.Expr) and isinstance(n.value, ast.Constant) and isinstance(n.value.value, str):
            continue                                                   # docstring
        if isinstance(n, ast.AnnAssign) and isinstance(n.target, ast.Name):
            if n.target.id in out:
                fail(f"{relpath}: {cls}.{n.target.id} assigned twice")
            out[n.target.id] = n.value
        elif isinstance(n, ast.Assign) and len(n.targets) == 1 and isinstance(n.targets[0], ast.Name):
            if n.targets[0].id in out:
                fail(f"{relpath}: {cls}.{n.targets[0].id} assigned twice")
            out[n.targets[0].id] = n.value
        else:
            fail(f"{relpath}: unexpected statement in class {cls}: {ast.dump(n)[:120]}")
    return out


def module_attr_aliases(relpath, cls):
    """Module-level `Cls.A = Cls.B` statements after the class -> {A: B}."""
    out = {}
    for n in module_ast(relpath).body:
        if isinstance(n, ast.Assign) and len(n.targets) == 1:
            t, v = attr_chain(n.targets[0]), attr_chain(n.value)
            if t and len(t) == 2 and t[0] == cls:
                if not (v and len(v) == 2 and v[0] == cls):
                    fail(f"{relpath}: unexpected module-level assignment to {cls}.{t[1]}")
                out[t[1]] = v[1]
    return out


def module_consts(relpath):
    """Module-level NAME = <expr> assignments, in order."""
    out = {}
    for n in module_ast(relpath).body:
        if isinstance(n, ast.AnnAssign) and isinstance(n.target, ast.Name) and n.value is not None:
            out[n.target.id] = n.value
        elif isinstance(n, ast.Assign) and len(n.targets) == 1 and isinstance(n.targets[0], ast.Name):
            out[n.targets[0].id] = n.value
    return out


def call_keywords(node, relpath, what):
    if not isinstance(node, ast.Call) or node.args and not all(isinstance(a, ast.Constant) for a in node.args):
        fail(f"{relpath}: {what}: not a keyword-only constructor call")
    kws = {}
    for k in node.keywords:
        if k.arg is None or k.arg in kws:
            fail(f"{relpath}: {what}: **kwargs or repeated keyword")
        kws[k.arg] = k.value
    return kws


# ----------------------------------------------------------------------------- SLIP tables, constants

def slip_table(relpath, cls, typ):
    """Class-level constants of Slip44/Slip173: AST literal and run-time value must agree."""
    mod = imp(relpath)
    c = getattr(mod, cls)
    out = []
    for name, node in class_assigns(relpath, cls).items():
        v = lit(node, relpath, f"{cls}.{name}")
        if not isinstance(v, typ) or isinstance(v, bool):
            fail(f"{relpath}: {cls}.{name} is not {typ.__name__}")
        if getattr(c, name, None) != v:
            fail(f"{relpath}: {cls}.{name}: source says {v!r}, run time says {getattr(c, name, None)!r}")
        out.append((name, v))
    extra = [k for k in vars(c) if not k.startswith("__") and k not in dict(out)]
    if extra:
        fail(f"{relpath}: {cls} has run-time attributes without class-level assignment: {extra}")
    return out


def gen_consts():
    L = []
    hb = reflect(B + "bip/bip32/bip32_key_data.py", "Bip32KeyDataConst", "KEY_INDEX_HARDENED_BIT_NUM")
    mx = reflect(B + "bip/bip32/bip32_key_data.py", "Bip32KeyDataConst", "KEY_INDEX_MAX_VAL")
    if not (isinstance(hb, int) and 0 < hb < 64):
        fail("KEY_INDEX_HARDENED_BIT_NUM out of range")
    L.append(f"Definition hardened_bit_num : N := {hb}.")
    L.append(f"Definition key_index_max : N := {mx}.")
    hc = reflect(B + "bip/bip32/bip32_path.py", "Bip32PathConst", "HARDENED_CHARS")
    mc = reflect(B + "bip/bip32/bip32_path.py", "Bip32PathConst", "MASTER_CHAR")
    if not all(isinstance(c, str) and len(c) == 1 for c in hc) or not isinstance(mc, str):
        fail("Bip32PathConst: unexpected HARDENED_CHARS / MASTER_CHAR")
    L.append(f"Definition path_hardened_chars : list N := {coq_list([str(ord(c)) for c in hc])}.")
    L.append(f"Definition path_master_char : list N := {S(mc)}.")
    for fam in FAMILIES:
        if fam[5]:
            f, cls, name = fam[5]
            v = reflect(f, cls, "PURPOSE")
            if not isinstance(v, int) or v < 0:
                fail(f"{f}: {cls}.PURPOSE is not a natural number")
            L.append(f"Definition {name} : N := {v}.")
    L.append("Definition ss58_format_max : N := %d." % reflect(B + "ss58/ss58.py", "SS58Const", "FORMAT_MAX_VAL"))
    rs = reflect(B + "ss58/ss58.py", "SS58Const", "RESERVED_FORMATS")
    L.append("Definition ss58_reserved : list N := %s." % coq_list([str(int(x)) for x in rs]))
    kl = reflect(B + "bip/bip32/bip32_key_net_ver.py", "Bip32KeyNetVersionsConst", "KEY_NET_VERSION_BYTE_LEN")
    if not 0 < kl < 100:
        fail("KEY_NET_VERSION_BYTE_LEN out of range")
    L.append(f"Definition key_net_ver_len : nat := {kl}%nat.")
    L.append("Definition p2wpkh_witness_ver : N := %d." % reflect(B + "addr/P2WPKH_addr.py", "P2WPKHAddrConst", "WITNESS_VER"))
    L.append("Definition p2tr_witness_ver : N := %d." % reflect(B + "addr/P2TR_addr.py", "P2TRConst", "WITNESS_VER"))
    L.append("Definition slip44_testnet : N := %d." % reflect(SLIP44, "Slip44", "TESTNET"))
    for k in KEYWORDS:
        L.append(f"Definition k_{k} : list N := {S(k)}.   (* \"{k}\" *)")
    return "\n".join(L) + "\n"


# ----------------------------------------------------------------------------- CoinsConf registry

def coins_conf_table():
    """[(attr, name, abbr, [(key, value)]), ...], aliases {A: B}; AST evaluation == run-time objects."""
    mod = imp(COINS_CONF)
    CC = mod.CoinsConf
    slip173 = dict(slip_table(SLIP173, "Slip173", str))
    env = {}

    def ev(n, what):
        if isinstance(n, ast.Constant) and isinstance(n.value, (bytes, str, int)) and not isinstance(n.value, bool):
            return n.value
        if isinstance(n, ast.Name):
            if n.id not in env:
                fail(f"{COINS_CONF}: {what}: unknown name {n.id}")
            return env[n.id]
        ch = attr_chain(n)
        if ch and len(ch) == 2 and ch[0] == "Slip173":
            if ch[1] not in slip173:
                fail(f"{COINS_CONF}: {what}: Slip173.{ch[1]} not defined")
            return slip173[ch[1]]
        fail(f"{COINS_CONF}: {what}: unsupported expression {ast.dump(n)[:120]}")

    for name, node in module_consts(COINS_CONF).items():
        env[name] = ev(node, name)
        if getattr(mod, name, None) != env[name]:
            fail(f"{COINS_CONF}: {name}: source says {env[name]!r}, run time says {getattr(mod, name, None)!r}")

    aliases = module_attr_aliases(COINS_CONF, "CoinsConf")
    table = []
    assigns = class_assigns(COINS_CONF, "CoinsConf")
    for attr, node in assigns.items():
        if node is None:
            if attr not in aliases:
                fail(f"{COINS_CONF}: CoinsConf.{attr} declared but never assigned")
            continue
        kws = call_keywords(node, COINS_CONF, f"CoinsConf.{attr}")
        if attr_chain(node.func) != ["CoinConf"] or set(kws) != {"coin_name", "params"}:
            fail(f"{COINS_CONF}: CoinsConf.{attr}: expected CoinConf(coin_name=, params=)")
        cn = kws["coin_name"]
        if not (isinstance(cn, ast.Call) and attr_chain(cn.func) == ["CoinNames"] and len(cn.args) == 2 and not cn.keywords):
            fail(f"{COINS_CONF}: CoinsConf.{attr}: coin_name is not CoinNames(name, abbr)")
        nm, ab = (ev(a, attr) for a in cn.args)
        if not isinstance(kws["params"], ast.Dict):
            fail(f"{COINS_CONF}: CoinsConf.{attr}: params is not a dict literal")
        params = []
        for k, v in zip(kws["params"].keys, kws["params"].values):
            if not (isinstance(k, ast.Constant) and isinstance(k.value, str)):
                fail(f"{COINS_CONF}: CoinsConf.{attr}: non-literal key")
            if k.value in dict(params):
                fail(f"{COINS_CONF}: CoinsConf.{attr}: key {k.value!r} repeated")
            params.append((k.value, ev(v, f"{attr}[{k.value}]")))
        obj = getattr(CC, attr, None)
        if type(obj).__name__ != "CoinConf":
            fail(f"{COINS_CONF}: CoinsConf.{attr} is not a CoinConf at run time")
        if (obj.CoinNames().Name(), obj.CoinNames().Abbreviation()) != (nm, ab):
            fail(f"{COINS_CONF}: CoinsConf.{attr}: names differ between source and run time")
        if list(obj.m_params.items()) != params or any(type(a) is not type(b) for (_, a), (_, b) in zip(obj.m_params.items(), params)):
            fail(f"{COINS_CONF}: CoinsConf.{attr}: params differ between source {params!r} and run time {obj.m_params!r}")
        table.append((attr, nm, ab, params))
    for a, b in aliases.items():
        if a not in assigns or b not in dict((t[0], 1) for t in table):
            fail(f"{COINS_CONF}: alias CoinsConf.{a} = CoinsConf.{b}: undeclared or unknown target")
        if getattr(CC, a) is not getattr(CC, b):
            fail(f"{COINS_CONF}: CoinsConf.{a} is not CoinsConf.{b} at run time")
    known = {t[0] for t in table} | set(aliases)
    extra = [k for k in vars(CC) if not k.startswith("__") and k not in known]
    if extra:
        fail(f"{COINS_CONF}: CoinsConf has run-time attributes the source analysis did not see: {extra}")
    return table, aliases


def pval(v, what):
    if isinstance(v, bool):
        fail(f"{what}: bool parameter")
    if isinstance(v, bytes):
        return f"PB {S(v)}"
    if isinstance(v, str):
        return f"PS {S(v)}"
    if isinstance(v, int) and v >= 0:
        return f"PI {v}"
    fail(f"{what}: unsupported parameter value {v!r}")


# ----------------------------------------------------------------------------- encoders / decoders

def class_source(cls):
    """(relpath, class name) where a class object is defined."""
    f = os.path.realpath(inspect.getsourcefile(cls))
    root = os.path.realpath(REPO) + os.sep
    if not f.startswith(root):
        fail(f"class {cls.__name__} defined outside {REPO}: {f}")
    return f[len(root):], cls.__name__


def kwargs_keys(relpath, cls, func, seen=()):
    """(required, optional, key kind) read by Class.func: kwargs["k"], kwargs.get("k", d),
    AddrKeyValidator.ValidateAndGet<Kind>Key, following delegation X.func(..., **kwargs)/X.func(.., k=kwargs["k"])."""
    f = find_func(relpath, cls, func)
    req, optk, kinds = [], [], []
    for n in ast.walk(f):
        if isinstance(n, ast.Subscript) and isinstance(n.value, ast.Name) and n.value.id == "kwargs":
            if not (isinstance(n.slice, ast.Constant) and isinstance(n.slice.value, str)):
                fail(f"{relpath}: {cls}.{func}: non-literal kwargs key")
            if n.slice.value not in req:
                req.append(n.slice.value)
        elif isinstance(n, ast.Call) and isinstance(n.func, ast.Attribute) and isinstance(n.func.value, ast.Name) \
                and n.func.value.id == "kwargs":
            if n.func.attr != "get" or not n.args or not (isinstance(n.args[0], ast.Constant) and isinstance(n.args[0].value, str)):
                fail(f"{relpath}: {cls}.{func}: unsupported use of kwargs.{n.func.attr}")
            if n.args[0].value not in optk:
                optk.append(n.args[0].value)
        elif isinstance(n, ast.Call):
            ch = attr_chain(n.func)
            if ch and len(ch) == 2 and ch[0] == "AddrKeyValidator":
                if not (ch[1].startswith("ValidateAndGet") and ch[1].endswith("Key")):
                    fail(f"{relpath}: {cls}.{func}: unknown AddrKeyValidator method {ch[1]}")
                kinds.append(ch[1][len("ValidateAndGet"):-len("Key")])
            elif ch and len(ch) == 2 and ch[1] == func and ch[0] != cls and (cls, func) not in seen:
                # delegation to another encoder/decoder class in the same module namespace
                mod = imp(relpath)
                tgt = getattr(mod, ch[0], None)
                if tgt is None or not inspect.isclass(tgt):
                    fail(f"{relpath}: {cls}.{func}: delegation to unknown class {ch[0]}")
                rp, cn = class_source(tgt)
                r2, o2, k2 = kwargs_keys(rp, cn, func, seen + ((cls, func),))
                explicit = {k.arg for k in n.keywords if k.arg is not None}
                splat = any(k.arg is None for k in n.keywords)
                if splat:
                    req += [k for k in r2 if k not in req and k not in explicit]
                    optk += [k for k in o2 if k not in optk and k not in explicit]
                kinds += k2
            elif any(k.arg is None for k in n.keywords) and not (ch and ch[-1] in ("__init__",)):
                fail(f"{relpath}: {cls}.{func}: **kwargs forwarded to {ast.unparse(n.func)} (not followed)")
    return req, optk, kinds


def addr_tables(used_encoders):
    addr = importlib.import_module("bip_utils.addr")
    rows = []
    for short in ADDR_CLS:
        ename = short + "AddrEncoder"
        enc = getattr(addr, ename, None)
        if enc is None:
            fail(f"bip_utils.addr has no {ename}")
        dname = DECODER_OF.get(ename, short + "AddrDecoder")
        dec = getattr(addr, dname, None)
        if dec is None:
            fail(f"bip_utils.addr has no {dname} (decoder of {ename})")
        erp, ecn = class_source(enc)
        drp, dcn = class_source(dec)
        er, eo, ek = kwargs_keys(erp, ecn, "EncodeKey")
        dr, do, _ = kwargs_keys(drp, dcn, "DecodeAddr")
        ek = sorted(set(ek))
        if len(ek) != 1 or ek[0] not in KEY_KINDS:
            fail(f"{erp}: {ecn}.EncodeKey: cannot determine the key class it validates ({ek})")
        rows.append((short, ek[0], er, eo, dr, do))
    for e in used_encoders:
        if not e.endswith("AddrEncoder") or e[:-len("AddrEncoder")] not in ADDR_CLS:
            fail(f"address encoder class {e} is used by a coin configuration but unknown to the model "
                 f"(add a tag to coq/Model/Coins.v and harness/gen_coins.py)")
    # which public-key classes a validator accepts, per curve (isinstance is what the code uses)
    ecc = importlib.import_module("bip_utils.ecc")
    getter = ecc.EllipticCurveGetter
    ctypes = ecc.EllipticCurveTypes
    if sorted(m.name for m in ctypes) != sorted(CURVES):
        fail(f"EllipticCurveTypes members changed: {[m.name for m in ctypes]}")
    acc = []
    for kk in KEY_KINDS:
        kcls = getattr(ecc, kk + "PublicKey", None)
        if kcls is None:
            fail(f"bip_utils.ecc has no {kk}PublicKey")
        acc.append((kk, [c for c in CURVES if issubclass(getter.FromType(ctypes[c]).PublicKeyClass(), kcls)]))
    # encoders Bip44PublicKey.ToAddress refuses (`if addr_cls is X: raise`)
    f = find_func(B + "bip/bip44_base/bip44_keys.py", "Bip44PublicKey", "ToAddress")
    refused = []
    for n in ast.walk(f):
        if isinstance(n, ast.If) and isinstance(n.test, ast.Compare) and len(n.test.ops) == 1 \
                and isinstance(n.test.ops[0], ast.Is) and isinstance(n.test.left, ast.Name) \
                and isinstance(n.test.comparators[0], ast.Name) and any(isinstance(s, ast.Raise) for s in n.body):
            nm = n.test.comparators[0].id
            if not nm.endswith("AddrEncoder") or nm[:-len("AddrEncoder")] not in ADDR_CLS:
                fail(f"Bip44PublicKey.ToAddress refuses unknown class {nm}")
            refused.append(nm[:-len("AddrEncoder")])
    return rows, acc, refused


# ----------------------------------------------------------------------------- coin configurations

def enum_val(v, what):
    """Enum-valued address parameter -> its value."""
    import enum
    if isinstance(v, enum.Enum):
        return v.value
    return v


def addr_conf(cls_name, params, what):
    """(Coq addr_conf text, encoder class name).  params: the dict the encoder receives (values raw)."""
    if not cls_name.endswith("AddrEncoder"):
        fail(f"{what}: address class {cls_name} is not an encoder")
    short = cls_name[:-len("AddrEncoder")]
    if short not in ADDR_CLS:
        fail(f"{what}: unknown address encoder class {cls_name}")
    static, calls = {}, {}
    for k, v in params.items():
        if type(v).__name__ == "BipCoinFctCallsConf":
            calls[k] = tuple(v.m_fct_names)
        else:
            static[k] = enum_val(v, what)
    ks = tuple(sorted(static))
    tb = lambda x: isinstance(x, bytes)                                  # noqa: E731
    ti = lambda x: isinstance(x, int) and not isinstance(x, bool) and x >= 0   # noqa: E731
    ts = lambda x: isinstance(x, str)                                    # noqa: E731
    p = None
    if calls:
        if calls == {"chain_code": ("ChainCode",)} and not static:
            p = "APChainCode"
    elif ks == ():
        p = "APNone"
    elif ks == ("net_ver",) and tb(static["net_ver"]):
        p = f"APNetVer {S(static['net_ver'])}"
    elif ks == ("hrp",) and ts(static["hrp"]):
        p = f"APHrp {S(static['hrp'])}"
    elif ks == ("hrp", "net_ver") and ts(static["hrp"]) and tb(static["net_ver"]):
        p = f"APBch {S(static['hrp'])} {S(static['net_ver'])}"
    elif ks == ("ver",) and tb(static["ver"]):
        p = f"APNeo {S(static['ver'])}"
    elif ks == ("ss58_format",) and ti(static["ss58_format"]):
        p = f"APSS58 {static['ss58_format']}"
    elif ks == ("addr_type",) and ti(static["addr_type"]):
        p = f"APXlm {int(static['addr_type'])}"
    elif ks == ("prefix",) and tb(static["prefix"]):
        p = f"APXtz {S(static['prefix'])}"
    elif ks == ("net_type",) and ti(static["net_type"]):
        p = f"APErgo {int(static['net_type'])}"
    elif ks == ("net_tag",) and ti(static["net_tag"]):
        p = f"APShelley {int(static['net_tag'])}"
    if p is None:
        fail(f"{what}: unsupported address parameter set {params!r}")
    keys = coq_list([S(k) for k in static])       # in the order the configuration lists them
    ckeys = coq_list([S(k) for k in calls])
    return f"{{| a_cls := A_{short}; a_keys := {keys}; a_call_keys := {ckeys}; a_params := {p} |}}", cls_name


def src_refs(node):
    """CoinsConf entries an expression refers to, Slip44 symbol, plain names."""
    ents = []
    for x in ast.walk(node):
        ch = attr_chain(x) if isinstance(x, ast.Attribute) else None
        if ch and len(ch) >= 2 and ch[0] == "CoinsConf" and ch[1] not in ents:
            ents.append(ch[1])
    return ents


def cc_param_ref(node, relpath, what):
    """CoinsConf.X.ParamByKey("k") -> (X, k) else None."""
    if isinstance(node, ast.Call) and len(node.args) == 1 and not node.keywords:
        ch = attr_chain(node.func)
        if ch and len(ch) == 3 and ch[0] == "CoinsConf" and ch[2] == "ParamByKey":
            if not (isinstance(node.args[0], ast.Constant) and isinstance(node.args[0].value, str)):
                fail(f"{relpath}: {what}: non-literal ParamByKey argument")
            return ch[1], node.args[0].value
    return None


def check_param_src(node, value, ccmap, relpath, what):
    """A source expression for one address parameter / WIF byte against its run-time value."""
    ref = cc_param_ref(node, relpath, what)
    if ref is not None:
        ent, key = ref
        if ent not in ccmap or key not in ccmap[ent]:
            fail(f"{relpath}: {what}: CoinsConf.{ent} has no parameter {key!r}")
        if ccmap[ent][key] != value or type(ccmap[ent][key]) is not type(value):
            fail(f"{relpath}: {what}: source names CoinsConf.{ent}[{key!r}] = {ccmap[ent][key]!r} "
                 f"but the object holds {value!r}")
        return
    if isinstance(node, ast.Constant):
        if node.value != value:
            fail(f"{relpath}: {what}: source literal {node.value!r} but the object holds {value!r}")
        return
    ch = attr_chain(node)
    if ch and len(ch) == 2:                         # an enum member such as XlmAddrTypes.PUB_KEY
        import enum
        if isinstance(value, enum.Enum) and type(value).__name__ == ch[0] and value.name == ch[1]:
            return
        fail(f"{relpath}: {what}: source names {'.'.join(ch)} but the object holds {value!r}")
    if isinstance(node, ast.Call) and attr_chain(node.func) == ["BipCoinFctCallsConf"]:
        names = tuple(lit(a, relpath, what) for a in node.args)
        if type(value).__name__ == "BipCoinFctCallsConf" and tuple(value.m_fct_names) == names:
            return
        fail(f"{relpath}: {what}: BipCoinFctCallsConf{names} in the source, {value!r} in the object")
    fail(f"{relpath}: {what}: unsupported parameter expression {ast.dump(node)[:120]}")


def key_ver(kv, what):
    if type(kv).__name__ != "Bip32KeyNetVersions":
        fail(f"{what}: key net versions object of type {type(kv).__name__}")
    a, b = kv.Public(), kv.Private()
    if not (isinstance(a, bytes) and isinstance(b, bytes)):
        fail(f"{what}: key net versions are not bytes")
    return a, b


def eval_key_ver_src(node, relpath, what):
    """Evaluate the key_net_ver source expression to (pub, priv) bytes."""
    consts = module_consts(relpath)
    seen = 0
    while isinstance(node, ast.Name):
        if node.id not in consts or seen > 5:
            fail(f"{relpath}: {what}: unknown name {node.id}")
        node = consts[node.id]
        seen += 1
    ch = attr_chain(node)
    if ch and len(ch) == 2 and ch[0] == "Bip32Const":
        v = reflect(B + "bip/bip32/bip32_const.py", "Bip32Const", ch[1])
        return key_ver(v, what)
    if isinstance(node, ast.Call) and attr_chain(node.func) == ["Bip32KeyNetVersions"] and len(node.args) == 2:
        a, b = (lit(x, relpath, what) for x in node.args)
        if isinstance(a, bytes) and isinstance(b, bytes):
            return a, b
    fail(f"{relpath}: {what}: unsupported key_net_ver expression {ast.dump(node)[:120]}")


def bip_conf_record(fam, relpath, cls, attr, node, obj, ccmap, slip44, used_enc):
    """One BipCoinConf-family object -> (cc entry, refs, name, abbr, Coq bip_conf text)."""
    what = f"{cls}.{attr}"
    kws = call_keywords(node, relpath, what)
    ctor = attr_chain(node.func)
    if not ctor or len(ctor) != 1 or ctor[0] not in CONF_CLS:
        fail(f"{relpath}: {what}: unknown configuration class {ast.unparse(node.func)}")
    if type(obj).__name__ != ctor[0]:
        fail(f"{relpath}: {what}: source constructs {ctor[0]}, run-time object is {type(obj).__name__}")
    base = {"coin_names", "coin_idx", "is_testnet", "def_path", "key_net_ver", "wif_net_ver", "bip32_cls",
            "addr_cls", "addr_params"}
    extra = {"BipCoinConf": set(), "BipBitcoinCashConf": {"addr_cls_legacy"}, "BipLitecoinConf": {"alt_key_net_ver"}}
    if set(kws) != base | extra[ctor[0]]:
        fail(f"{relpath}: {what}: unexpected keyword set {sorted(kws)}")
    fields = {"m_coin_names", "m_coin_idx", "m_is_testnet", "m_def_path", "m_key_net_ver", "m_wif_net_ver",
              "m_bip32_cls", "m_addr_params", "m_any_addr_params_fct_call", "m_addr_cls"}
    fextra = {"BipCoinConf": set(), "BipBitcoinCashConf": {"m_addr_cls_legacy", "m_use_legacy_addr"},
              "BipLitecoinConf": {"m_alt_key_net_ver", "m_use_alt_key_net_ver", "m_use_depr_addr"}}
    if set(vars(obj)) != fields | fextra[ctor[0]]:
        fail(f"{relpath}: {what}: unexpected instance fields {sorted(vars(obj))}")
    # names
    ch = attr_chain(kws["coin_names"].func) if isinstance(kws["coin_names"], ast.Call) else None
    if not (ch and len(ch) == 3 and ch[0] == "CoinsConf" and ch[2] == "CoinNames" and not kws["coin_names"].args):
        fail(f"{relpath}: {what}: coin_names is not CoinsConf.X.CoinNames()")
    cc = ch[1]
    if cc not in ccmap:
        fail(f"{relpath}: {what}: CoinsConf.{cc} unknown")
    name, abbr = obj.m_coin_names.Name(), obj.m_coin_names.Abbreviation()
    if (name, abbr) != ccmap[cc]["__names__"]:
        fail(f"{relpath}: {what}: coin names {name!r}/{abbr!r} are not those of CoinsConf.{cc}")
    # coin index
    ch = attr_chain(kws["coin_idx"])
    if not (ch and len(ch) == 2 and ch[0] == "Slip44" and ch[1] in slip44):
        fail(f"{relpath}: {what}: coin_idx is not a Slip44 constant")
    idx = obj.m_coin_idx
    if not isinstance(idx, int) or isinstance(idx, bool) or idx < 0 or slip44[ch[1]] != idx:
        fail(f"{relpath}: {what}: coin_idx {idx!r} is not Slip44.{ch[1]} = {slip44[ch[1]]}")
    sym = ch[1]
    # testnet flag
    if not (isinstance(kws["is_testnet"], ast.Constant) and isinstance(kws["is_testnet"].value, bool)
            and kws["is_testnet"].value is obj.m_is_testnet):
        fail(f"{relpath}: {what}: is_testnet differs between source and run time")
    # default path
    dp = kws["def_path"]
    if isinstance(dp, ast.Name):
        v = lit(module_consts(CONF_CONST).get(dp.id) or fail(f"{CONF_CONST}: {dp.id} not defined"), CONF_CONST, dp.id)
    else:
        v = lit(dp, relpath, what + ".def_path")
    if not isinstance(v, str) or v != obj.m_def_path:
        fail(f"{relpath}: {what}: def_path {obj.m_def_path!r} is not the source's {v!r}")
    # key versions
    pub, priv = key_ver(obj.m_key_net_ver, what)
    if eval_key_ver_src(kws["key_net_ver"], relpath, what) != (pub, priv):
        fail(f"{relpath}: {what}: key_net_ver differs between source and run time")
    alt = None
    if ctor[0] == "BipLitecoinConf":
        alt = key_ver(obj.m_alt_key_net_ver, what)
        if eval_key_ver_src(kws["alt_key_net_ver"], relpath, what) != alt:
            fail(f"{relpath}: {what}: alt_key_net_ver differs between source and run time")
        if obj.m_use_alt_key_net_ver is not False or obj.m_use_depr_addr is not False:
            fail(f"{what}: option toggles are not in their initial state")
    if ctor[0] == "BipBitcoinCashConf" and obj.m_use_legacy_addr is not False:
        fail(f"{what}: option toggle is not in its initial state")
    # WIF
    wif = obj.m_wif_net_ver
    if wif is not None and not isinstance(wif, bytes):
        fail(f"{relpath}: {what}: wif_net_ver is neither None nor bytes")
    check_param_src(kws["wif_net_ver"], wif, ccmap, relpath, what + ".wif_net_ver")
    # classes
    b32 = obj.m_bip32_cls.__name__
    if attr_chain(kws["bip32_cls"]) != [b32] or b32 not in BIP32_CLS:
        fail(f"{relpath}: {what}: bip32_cls {b32} unknown or differs from the source")
    cv = obj.m_bip32_cls.CurveType().name
    if cv not in CURVES:
        fail(f"{what}: unknown curve {cv}")
    acls = obj.m_addr_cls.__name__
    if attr_chain(kws["addr_cls"]) != [acls]:
        fail(f"{relpath}: {what}: addr_cls differs between source and run time")
    # address parameters (source expression of every value against the object)
    ap_node, ap = kws["addr_params"], obj.m_addr_params

    def dict_items(n, d, w):
        if not isinstance(n, ast.Dict) or not isinstance(d, dict):
            fail(f"{relpath}: {w}: addr_params is not a dict literal")
        ks = [k.value if isinstance(k, ast.Constant) else None for k in n.keys]
        if ks != list(d.keys()):
            fail(f"{relpath}: {w}: addr_params keys differ: source {ks}, run time {list(d.keys())}")
        return list(zip(ks, n.values, d.values()))

    if ctor[0] == "BipCoinConf":
        for k, vn, vv in dict_items(ap_node, ap, what):
            check_param_src(vn, vv, ccmap, relpath, f"{what}.addr_params[{k!r}]")
        main, _ = addr_conf(acls, ap, what)
        altaddr = None
    elif ctor[0] == "BipBitcoinCashConf":
        items = dict_items(ap_node, ap, what)
        if [k for k, _, _ in items] != ["std", "legacy"]:
            fail(f"{relpath}: {what}: BipBitcoinCashConf addr_params keys are not std/legacy")
        for k, vn, vv in items:
            for k2, vn2, vv2 in dict_items(vn, vv, f"{what}[{k}]"):
                check_param_src(vn2, vv2, ccmap, relpath, f"{what}.addr_params[{k!r}][{k2!r}]")
        lcls = obj.m_addr_cls_legacy.__name__
        if attr_chain(kws["addr_cls_legacy"]) != [lcls]:
            fail(f"{relpath}: {what}: addr_cls_legacy differs between source and run time")
        main, _ = addr_conf(acls, ap["std"], what)
        altaddr, _ = addr_conf(lcls, ap["legacy"], what + " (legacy)")
        used_enc.add(lcls)
    else:
        items = dict_items(ap_node, ap, what)
        if [k for k, _, _ in items] != ["std_net_ver", "depr_net_ver"]:
            fail(f"{relpath}: {what}: BipLitecoinConf addr_params keys are not std_net_ver/depr_net_ver")
        for k, vn, vv in items:
            check_param_src(vn, vv, ccmap, relpath, f"{what}.addr_params[{k!r}]")
        main, _ = addr_conf(acls, {"net_ver": ap["std_net_ver"]}, what)
        altaddr, _ = addr_conf(acls, {"net_ver": ap["depr_net_ver"]}, what + " (deprecated)")
    used_enc.add(acls)
    refs = sorted(src_refs(node))
    txt = ("{| b_conf_cls := %s; b_slip44_sym := %s; b_coin_idx := %d; b_testnet := %s;\n"
           "        b_def_path := %s; b_key_pub := %s; b_key_priv := %s; b_alt_key := %s; b_wif := %s;\n"
           "        b_bip32 := %s; b_curve := Cv_%s;\n        b_addr := %s;\n        b_alt_addr := %s |}") % (
        CONF_CLS[ctor[0]], S(sym), idx, "true" if obj.m_is_testnet else "false", S(obj.m_def_path), S(pub), S(priv),
        opt(None if alt is None else f"({S(alt[0])}, {S(alt[1])})"), opt(None if wif is None else S(wif)),
        BIP32_CLS[b32], cv, main, opt(altaddr))
    return cc, refs, name, abbr, f"CBip\n     {txt}"


def from_coin_conf_ref(node, relpath, what, ctor_cls):
    """SubstrateCoinConf.FromCoinConf(CoinsConf.X) -> X."""
    if isinstance(node, ast.Call) and attr_chain(node.func) == [ctor_cls, "FromCoinConf"] and len(node.args) == 1 \
            and not node.keywords:
        ch = attr_chain(node.args[0])
        if ch and len(ch) == 2 and ch[0] == "CoinsConf":
            return ch[1]
    fail(f"{relpath}: {what}: expected {ctor_cls}.FromCoinConf(CoinsConf.X)")


def conf_record(fam, kind, relpath, cls, attr, node, obj, ccmap, slip44, used_enc):
    what = f"{cls}.{attr}"
    if kind == "bip":
        return bip_conf_record(fam, relpath, cls, attr, node, obj, ccmap, slip44, used_enc)
    if kind == "substrate":
        cc = from_coin_conf_ref(node, relpath, what, "SubstrateCoinConf")
        if cc not in ccmap or set(vars(obj)) != {"m_coin_names", "m_ss58_format", "m_addr_params"}:
            fail(f"{relpath}: {what}: unknown CoinsConf entry or unexpected fields {sorted(vars(obj))}")
        f = obj.m_ss58_format
        if not isinstance(f, int) or isinstance(f, bool) or f < 0 or obj.m_addr_params != {"ss58_format": f} \
                or ccmap[cc].get("addr_ss58_format") != f:
            fail(f"{relpath}: {what}: ss58 format {f!r} inconsistent with CoinsConf.{cc} / AddrParams()")
        body = f"CSubstrate {f}"
    else:
        cc = from_coin_conf_ref(node, relpath, what, "MoneroCoinConf")
        if cc not in ccmap or set(vars(obj)) != {"m_coin_names", "m_addr_net_ver", "m_int_addr_net_ver", "m_subaddr_net_ver"}:
            fail(f"{relpath}: {what}: unknown CoinsConf entry or unexpected fields {sorted(vars(obj))}")
        vs = (obj.m_addr_net_ver, obj.m_int_addr_net_ver, obj.m_subaddr_net_ver)
        if not all(isinstance(v, bytes) for v in vs) or \
                vs != tuple(ccmap[cc].get(k) for k in ("addr_net_ver", "addr_int_net_ver", "subaddr_net_ver")):
            fail(f"{relpath}: {what}: net versions {vs!r} inconsistent with CoinsConf.{cc}")
        body = "CMonero %s %s %s" % tuple(S(v) for v in vs)
    name, abbr = obj.m_coin_names.Name(), obj.m_coin_names.Abbreviation()
    if (name, abbr) != ccmap[cc]["__names__"]:
        fail(f"{relpath}: {what}: coin names are not those of CoinsConf.{cc}")
    return cc, sorted(src_refs(node)), name, abbr, body


def getter_mapping(relpath, const_cls, enum_cls, conf_cls):
    """AST of COIN_TO_CONF: [(member name, conf attr)] in source order."""
    node = class_has_assign(relpath, const_cls, "COIN_TO_CONF")
    if not isinstance(node, ast.Dict):
        fail(f"{relpath}: {const_cls}.COIN_TO_CONF is not a dict literal")
    out = []
    for k, v in zip(node.keys, node.values):
        kc, vc = attr_chain(k) if k is not None else None, attr_chain(v)
        if not (kc and len(kc) == 2 and kc[0] == enum_cls and vc and len(vc) == 2 and vc[0] == conf_cls):
            fail(f"{relpath}: COIN_TO_CONF entry is not {enum_cls}.X: {conf_cls}.Y: {ast.unparse(k) if k else '**'}")
        if kc[1] in dict(out):
            fail(f"{relpath}: COIN_TO_CONF key {enum_cls}.{kc[1]} repeated")
        out.append((kc[1], vc[1]))
    return out


def cmt(s):
    """Text safe inside a Coq comment."""
    return "".join(c if (c.isalnum() or c in " ._-/'") and ord(c) < 127 else "?" for c in s)


def coin_text(fam, member, value, attr, cc, refs, name, abbr, body):
    return ("  (* %s %s -> %s: %s, %s *)\n" % (fam[1:], cmt(member), cmt(attr), cmt(name), cmt(abbr))) + \
           ("  {| c_family := %s; c_member := %s; c_value := %d; c_conf_attr := %s;\n"
            "     c_cc := %s; c_cc_refs := %s; c_name := %s; c_abbr := %s;\n     c_body := %s |}") % (
        fam, S(member), value, S(attr), S(cc), coq_list([S(r) for r in refs]), S(name), S(abbr), body)


def collect():
    """Everything, as Python data + Coq text fragments."""
    import enum
    slip44_rows = slip_table(SLIP44, "Slip44", int)
    slip44 = dict(slip44_rows)
    cctable, ccaliases = coins_conf_table()
    ccmap = {}
    for attr, nm, ab, params in cctable:
        d = dict(params)
        d["__names__"] = (nm, ab)
        ccmap[attr] = d
    for a, b in ccaliases.items():
        ccmap[a] = ccmap[b]
    used_enc = set()
    coins, enum_aliases, attr_aliases = [], [], []
    for fam, kind, (efile, ecls), (gfile, gconst, ggetter), (cfile, ccls), _purpose in FAMILIES:
        E = getattr(imp(efile), ecls)
        G = imp(gfile)
        C = getattr(imp(cfile), ccls)
        if not (inspect.isclass(E) and issubclass(E, enum.Enum)):
            fail(f"{efile}: {ecls} is not an Enum")
        # enum members: AST (class-level NAME = auto()/literal) against the run-time member list
        src_members = list(class_assigns(efile, ecls))
        members = list(E)
        if [m.name for m in members] != [n for n in src_members if n in E.__members__ and E.__members__[n].name == n] \
                or set(src_members) != set(E.__members__):
            fail(f"{efile}: members of {ecls} differ between source and run time")
        for nm, m in E.__members__.items():          # value aliases (none while the enums are @unique)
            if m.name != nm:
                enum_aliases.append((fam, nm, m.name))
        table = getattr(getattr(G, gconst), "COIN_TO_CONF")
        getter = getattr(G, ggetter)
        mapping = getter_mapping(gfile, gconst, ecls, ccls)
        if [k for k, _ in mapping] and set(k for k, _ in mapping) != set(m.name for m in members):
            fail(f"{gfile}: COIN_TO_CONF keys are not exactly the members of {ecls}: "
                 f"{sorted(set(k for k, _ in mapping) ^ set(m.name for m in members))}")
        if set(table.keys()) != set(members) or len(table) != len(mapping):
            fail(f"{gfile}: run-time COIN_TO_CONF keys are not exactly the members of {ecls}")
        amap = dict(mapping)
        assigns = class_assigns(cfile, ccls)
        aliases = module_attr_aliases(cfile, ccls)
        for a, b in aliases.items():
            if a not in assigns or assigns[a] is not None or assigns.get(b) is None:
                fail(f"{cfile}: alias {ccls}.{a} = {ccls}.{b}: undeclared, or target not a definition")
            if getattr(C, a) is not getattr(C, b):
                fail(f"{cfile}: {ccls}.{a} is not {ccls}.{b} at run time")
            attr_aliases.append((fam, a, b))
        extra = [k for k in vars(C) if not k.startswith("__") and k not in assigns]
        if extra:
            fail(f"{cfile}: {ccls} has run-time attributes the source analysis did not see: {extra}")
        by_obj = {}
        for m in members:
            attr = amap[m.name]
            canon = aliases.get(attr, attr)
            if canon not in assigns or assigns[canon] is None:
                fail(f"{cfile}: {ccls}.{attr} (target of {ecls}.{m.name}) is not a class-level definition")
            obj = table[m]
            if obj is not getattr(C, attr, None) or getter.GetConfig(m) is not obj:
                fail(f"{gfile}: {ecls}.{m.name}: the source maps it to {ccls}.{attr} but the run-time table / "
                     f"GetConfig returns a different object")
            if not isinstance(m.value, int) or isinstance(m.value, bool) or m.value < 0:
                fail(f"{efile}: {ecls}.{m.name} has a non-natural value {m.value!r}")
            cc, refs, name, abbr, body = conf_record(fam, kind, cfile, ccls, canon, assigns[canon], obj, ccmap, slip44, used_enc)
            coins.append((fam, m.name, coin_text(fam, m.name, m.value, canon, cc, refs, name, abbr, body)))
            by_obj.setdefault(id(obj), []).append(m.name)
        for names in by_obj.values():               # members that denote one configuration object
            for other in names[1:]:
                enum_aliases.append((fam, names[0], other))
    addr_rows, accepts, refused = addr_tables(used_enc)
    return dict(slip44=slip44_rows, cctable=cctable, ccaliases=ccaliases, coins=coins, enum_aliases=enum_aliases,
                attr_aliases=attr_aliases, addr_rows=addr_rows, accepts=accepts, refused=refused)


def slip44_text(rows):
    return coq_list(["(%s, %d)" % (S(k), v) for k, v in rows])


def cctable_text(cctable):
    rows = []
    for attr, nm, ab, params in cctable:
        ps = coq_list(["(%s, %s)" % (S(k), pval(v, f"CoinsConf.{attr}[{k}]")) for k, v in params])
        rows.append("  (* CoinsConf.%s: %s, %s; keys %s *)\n  {| cc_attr := %s; cc_name := %s; cc_abbr := %s;\n     cc_params := %s |}" %
                    (cmt(attr), cmt(nm), cmt(ab), cmt(" ".join(k for k, _ in params)), S(attr), S(nm), S(ab), ps))
    return "[\n" + ";\n".join(rows) + "\n]"


def coins_text(coins):
    return "[\n" + ";\n".join(t for _, _, t in coins) + "\n]"


def generate():
    try:
        return _generate()
    except Exception as e:  # noqa -- anything unexpected is a translation failure, never a crash of the build
        if type(e).__name__ == "TranslateError":
            raise
        import traceback
        fail("gen_coins: unexpected %s: %s (%s)" % (type(e).__name__, e, traceback.format_exc(limit=2).replace("\n", " | ")))


def _generate():
    d = collect()
    L = ["From BU Require Import Model.Coins.\n"]
    L.append("(* bip_utils/slip/slip44/slip44.py *)")
    L.append(f"Definition slip44_table : list (list N * N) :=\n  {slip44_text(d['slip44'])}.\n")
    L.append("(* bip_utils/coin_conf/coins_conf.py: %d entries *)" % len(d["cctable"]))
    L.append(f"Definition coins_conf_table : list cconf := {cctable_text(d['cctable'])}.\n")
    L.append("(* CoinsConf.A = CoinsConf.B compatibility aliases (same object) *)")
    L.append("Definition cconf_aliases : list (list N * list N) := %s.\n" %
             coq_list(["(%s, %s)" % (S(a), S(b)) for a, b in d["ccaliases"].items()]))
    rows = []
    for short, kk, er, eo, dr, do in d["addr_rows"]:
        rows.append("  {| ai_cls := A_%s; ai_key := KK_%s; ai_enc_req := %s; ai_enc_opt := %s;\n"
                    "     ai_dec_req := %s; ai_dec_opt := %s |}" %
                    (short, kk, *(coq_list([S(k) for k in ks]) for ks in (er, eo, dr, do))))
    L.append("(* keyword names read by <X>AddrEncoder.EncodeKey / its decoder's DecodeAddr *)")
    L.append("Definition addr_cls_table : list addr_cls_info := [\n" + ";\n".join(rows) + "\n].\n")
    L.append("(* which curves' public-key classes pass AddrKeyValidator.ValidateAndGet<Kind>Key (isinstance) *)")
    L.append("Definition key_accepts_table : list (key_kind * list curve) := %s.\n" %
             coq_list(["(KK_%s, %s)" % (k, coq_list(["Cv_" + c for c in cs])) for k, cs in d["accepts"]]))
    L.append("(* encoder classes Bip44PublicKey.ToAddress refuses (the owning wallet class must be used) *)")
    L.append("Definition toaddress_refused : list addr_cls := %s.\n" % coq_list(["A_" + r for r in d["refused"]]))
    L.append("(* every member of the 7 coin enumerations, in enumeration order: %d members *)" % len(d["coins"]))
    L.append(f"Definition all_coins : list coin := {coins_text(d['coins'])}.\n")
    L.append("(* members of one enumeration that the getter maps to the same configuration object\n"
             "   (family, first member, other member) *)")
    L.append("Definition enum_aliases : list (family * list N * list N) := %s.\n" %
             coq_list(["(%s, %s, %s)" % (f, S(a), S(b)) for f, a, b in d["enum_aliases"]]))
    L.append("(* <Conf>.A = <Conf>.B compatibility aliases of the configuration containers (same object) *)")
    L.append("Definition conf_attr_aliases : list (family * list N * list N) := %s.\n" %
             coq_list(["(%s, %s, %s)" % (f, S(a), S(b)) for f, a, b in d["attr_aliases"]]))
    return {"CoinsConsts.v": gen_consts(), "Coins.v": "\n".join(L)}


REGISTRY_HEADER = """(* GOLDEN SNAPSHOT of the coin constants of bip_utils at the pinned commit -- COMMITTED, not regenerated.

   Produced once by `PYTHONPATH=harness:/repo /venv/bin/python harness/gen_coins.py --registry`
   and reviewed by hand (see the cross-check notes at the end of this comment).
   Theorem `registry_equal` (Lemmas/CoinsOk.v, Props/C08.v) states that the table regenerated from
   /repo on every run equals this snapshot, so ANY edit of a coin constant (SLIP-44 index,
   extended-key / WIF version bytes, address version / HRP / prefix, default path, curve, class,
   names) breaks the build of C08 until the snapshot is deliberately regenerated and re-reviewed.

   What this does and does not establish: `registry_equal` guards against drift.  Agreement of the
   snapshot ITSELF with the external registries (SLIP-0044 coin types, SLIP-0132 version bytes,
   SLIP-0173 human-readable parts, the coins' own chain parameters) is a ONE-TIME MANUAL
   cross-check, not a theorem.

%s*)
From Coq Require Import NArith List.
From BU Require Import Model.Coins.
Import ListNotations.
Open Scope N_scope.

"""


# Places where the committed snapshot deliberately holds the value the external registries prescribe
# instead of the source's (a confirmed defect): (CoinsConf entry, key) -> (value in the source, right value).
# Must mirror coq/Lemmas/CoinsExpected.v cconf_offenders; drop an item once its fix is in /repo.
REGISTRY_OVERRIDES = {
    ("BitcoinRegTest", "p2wpkh_wit_ver"): (1, 0),      # F19
}


def registry_text(notes=""):
    d = collect()
    fixed = []
    for attr, nm, ab, params in d["cctable"]:
        ps = []
        for k, v in params:
            o = REGISTRY_OVERRIDES.get((attr, k))
            ps.append((k, o[1] if (o is not None and o[0] == v) else v))
        fixed.append((attr, nm, ab, ps))
    d["cctable"] = fixed
    t = REGISTRY_HEADER % notes
    t += f"Definition golden_slip44 : list (list N * N) :=\n  {slip44_text(d['slip44'])}.\n\n"
    t += f"Definition golden_coins_conf : list cconf := {cctable_text(d['cctable'])}.\n\n"
    t += f"Definition golden : list coin := {coins_text(d['coins'])}.\n"
    return t


if __name__ == "__main__":
    sys.path.insert(0, REPO)
    if "--registry" in sys.argv:
        notes = ""
        np = os.path.join(os.path.dirname(os.path.abspath(__file__)), "registry_notes.txt")
        if os.path.exists(np):
            notes = open(np, encoding="utf-8").read()
        sys.stdout.write(registry_text(notes))
    else:
        for k, v in generate().items():
            print("=====", k)
            print(v)

"""Core of the check: build, proof-obligation accounting, correspondence run, known findings,
evidence and the VIOLATION / KNOWN-FINDING protocol.  Property-specific parts live in
harness/props/Cxx.py."""
import fcntl
import hashlib
import importlib
import json
import os
import random
import re
import subprocess
import sys
import time
import traceback

HERE = os.path.dirname(os.path.abspath(__file__))
VERIF = os.path.normpath(os.path.join(HERE, ".."))
COQ = os.path.join(VERIF, "coq")
REPO = os.environ.get("VERIF_REPO", "/repo")
EVID = os.path.join(VERIF, "evidence")
REPLAY = os.path.join(EVID, "replay")
LOGS = os.path.join(EVID, "logs")

ALLOWED_AXIOMS = set()   # standard-library axioms we accept; none needed so far
FORBIDDEN = re.compile(
    r"\b(Admitted|admit|Axiom|Axioms|Parameter|Parameters|Conjecture|Conjectures|Admit Obligations|"
    r"bypass_check)\b|Unset\s+Guard|Unset\s+Positivity|Unset\s+Universe|-type-in-type|-impredicative-set|"
    r"\bgive_up\b|\bnative_compute\b")


# ------------------------------------------------------------------ JSON codec for case arguments

def jenc(v):
    from modeldrv import T, Z
    if isinstance(v, bool):
        return {"bool": v}
    if isinstance(v, Z):
        return {"z": str(int(v))}
    if isinstance(v, int):
        return {"n": str(v)}
    if isinstance(v, (bytes, bytearray)):
        return {"b": bytes(v).hex()}
    if isinstance(v, T):
        return {"t": list(v)}
    if isinstance(v, str):
        return {"t": [ord(c) for c in v]}
    if isinstance(v, (list, tuple)):
        return {"l": [jenc(x) for x in v]}
    if v is None:
        return {"none": 1}
    raise TypeError("jenc: %r" % (v,))


def jdec(j):
    from modeldrv import T, Z
    (k, v), = j.items()
    if k == "bool":
        return bool(v)
    if k == "z":
        return Z(int(v))
    if k == "n":
        return int(v)
    if k == "b":
        return bytes.fromhex(v)
    if k == "t":
        return "".join(chr(c) for c in v)
    if k == "l":
        return [jdec(x) for x in v]
    if k == "none":
        return None
    raise ValueError(k)


def show(v, limit=120):
    """Short human-readable rendering for evidence samples."""
    if isinstance(v, (bytes, bytearray)):
        s = "0x" + bytes(v).hex()
    elif isinstance(v, (list, tuple)) and not hasattr(v, "str"):
        s = "[" + ", ".join(show(x, 60) for x in v) + "]"
    elif hasattr(v, "str"):
        s = repr(v.str())
    else:
        s = repr(v)
    return s if len(s) <= limit else s[:limit] + "...(%d chars)" % len(s)


def norm(v):
    """Canonical form for comparing model and implementation values."""
    if isinstance(v, bool):
        return int(v)
    if isinstance(v, int):
        return int(v)
    if isinstance(v, (bytes, bytearray)):
        return ("s", tuple(bytes(v)))
    if isinstance(v, str):
        return ("s", tuple(ord(c) for c in v))
    if hasattr(v, "str") and isinstance(v, list):      # modeldrv.T
        return ("s", tuple(v))
    if isinstance(v, (list, tuple)):
        return ("l", tuple(norm(x) for x in v))
    if v is None:
        return ("l", ())
    raise TypeError("norm: %r" % (v,))


VALUE_ERRORS = {"ValueError", "UnicodeError"}


def exn_name(e):
    """Canonical exception class name of an implementation exception."""
    lib = ("Base58ChecksumError", "Bech32ChecksumError", "SS58ChecksumError", "MnemonicChecksumError",
           "Bip32KeyError", "Bip32PathError", "Bip44DepthError", "MoneroKeyError", "SubstrateKeyError",
           "SubstratePathError")
    n = type(e).__name__
    if n in lib:
        return n
    if isinstance(e, ValueError):
        return "ValueError"
    for c in (IndexError, KeyError, TypeError, OverflowError, AssertionError, AttributeError):
        if isinstance(e, c):
            return c.__name__
    return "Foreign:" + n


def run_impl(thunk):
    try:
        return ("ok", thunk())
    except RecursionError:
        raise
    except Exception as e:  # noqa
        return ("err", exn_name(e))


def canon_res(r):
    k, v = r
    if k == "err":
        return ("err", "ValueError" if v in VALUE_ERRORS else v)
    return ("ok", norm(v))


IN_FAMILY = {"ValueError", "UnicodeError", "Base58ChecksumError", "Bech32ChecksumError", "SS58ChecksumError",
             "MnemonicChecksumError", "Bip32KeyError", "Bip32PathError", "Bip44DepthError", "MoneroKeyError",
             "SubstrateKeyError", "SubstratePathError"}


# ------------------------------------------------------------------ functions under comparison

class Func:
    """One compared entry point.
       model(m, args) -> ('ok', v) | ('err', name)   (m: ModelDriver)   -- optional
       impl(args)     -> python value or raises                          -- optional
       direct(args)   -> None if the property holds on the implementation for this input,
                         else a string saying what fails (independent of the model) -- optional"""
    def __init__(self, model=None, impl=None, direct=None, doc=""):
        self.model, self.impl, self.direct, self.doc = model, impl, direct, doc


class Ctx:
    def __init__(self, prop, tier, seed, funcs, model):
        self.prop, self.tier, self.seed = prop, tier, seed
        self.rng = random.Random((seed << 8) ^ int(hashlib.sha256(prop.encode()).hexdigest()[:8], 16))
        self.funcs = funcs
        self.m = model
        self.evaluations = 0
        self.distinct = set()
        self.classes = {}
        self.samples = []
        self.divergences = []
        self.direct_failures = []
        self.dist = {}
        self.missing_groups = []     # API groups absent from the driver (their model does not build)
        self.model_skipped = 0
        self.exhaustive_notes = []
        self.t0 = time.time()
        self.budget_s = None

    @property
    def quick(self):
        return self.tier == "quick"

    def n(self, quick, thorough):
        return quick if self.quick else thorough

    def time_left(self):
        return True if self.budget_s is None else (time.time() - self.t0) < self.budget_s

    def run(self, fn, args, tag="", trivial=False):
        """Run one case through model, implementation and direct check; record everything."""
        f = self.funcs[fn]
        self.evaluations += 1
        key = hashlib.sha1(json.dumps([fn, jenc(list(args))], sort_keys=True).encode()).hexdigest()
        mres = ires = None
        if f.impl is not None:
            ires = run_impl(lambda: f.impl(args))
        if f.model is not None:
            mres = f.model(self.m, args)
            if self.missing_groups and mres == ("err", "ModelNoSuchApi"):
                mres = None          # that part of the model is not in the driver; reported once, as a proof case
                self.model_skipped += 1
        outcome = None
        if ires is not None:
            outcome = ires[1] if ires[0] == "err" else "ok"
        elif mres is not None:
            outcome = mres[1] if mres[0] == "err" else "ok"
        cls = (fn, tag, outcome)
        self.classes[cls] = self.classes.get(cls, 0) + 1
        if not trivial:
            self.distinct.add(key)
        if len(self.samples) < 12 and self.classes[cls] == 1:
            self.samples.append({"fn": fn, "tag": tag, "args": [show(a) for a in args],
                                 "impl": None if ires is None else (ires[1] if ires[0] == "err" else show(ires[1])),
                                 "model": None if mres is None else (mres[1] if mres[0] == "err" else show(mres[1]))})
        if mres is not None and ires is not None:
            try:
                same = canon_res(mres) == canon_res(ires)
            except TypeError as e:
                same = False
            if not same:
                self.divergences.append({"kind": "divergence", "fn": fn, "tag": tag, "args": jenc(list(args)),
                                         "model": _jres(mres), "impl": _jres(ires)})
        if f.direct is not None:
            try:
                msg = f.direct(args)
            except Exception as e:  # noqa
                msg = "direct check raised %s: %s" % (type(e).__name__, e)
            if msg:
                self.direct_failures.append({"kind": "direct", "fn": fn, "tag": tag, "args": jenc(list(args)),
                                             "what": msg})
        return mres, ires

    def note_exhaustive(self, what):
        self.exhaustive_notes.append(what)


def _jres(r):
    k, v = r
    if k == "err":
        return {"err": v}
    try:
        return {"ok": jenc(v)}
    except TypeError:
        return {"ok": {"t": [ord(c) for c in repr(v)]}}


# ------------------------------------------------------------------ build

def sh(cmd, cwd=None, timeout=3600, env=None):
    p = subprocess.run(cmd, cwd=cwd, shell=isinstance(cmd, str), stdout=subprocess.PIPE,
                       stderr=subprocess.STDOUT, text=True, timeout=timeout, env=env)
    return p.returncode, p.stdout


def coq_sources():
    out = []
    for d in ("Base", "Gen", "Model", "Lemmas", "Props", "Extract"):
        dd = os.path.join(COQ, d)
        if not os.path.isdir(dd):
            continue
        for root, _, files in os.walk(dd):
            for f in sorted(files):
                if f.endswith(".v") and f != "Extract.v":
                    out.append(os.path.relpath(os.path.join(root, f), COQ))
    return sorted(out)


def forbidden_scan():
    bad = []
    for rel in coq_sources() + ["Extract/Extract.v"]:
        p = os.path.join(COQ, rel)
        if not os.path.exists(p):
            continue
        with open(p, encoding="utf-8") as f:
            txt = f.read()
        # strip comments (nested)
        txt = strip_comments(txt)
        for m in FORBIDDEN.finditer(txt):
            bad.append("%s: %s" % (rel, m.group(0)))
    return bad


def strip_comments(txt):
    out, depth, i = [], 0, 0
    while i < len(txt):
        if txt.startswith("(*", i):
            depth += 1
            i += 2
        elif txt.startswith("*)", i) and depth > 0:
            depth -= 1
            i += 2
        else:
            if depth == 0:
                out.append(txt[i])
            i += 1
    return "".join(out)


def gen_api(exclude=()):
    """Extract/Api.v = concatenation of every Extract/Api_<group>.v table (minus the groups in [exclude]:
    those whose model no longer compiles, so that the other groups still get a driver built from the
    current sources instead of a stale one)."""
    d = os.path.join(COQ, "Extract")
    groups = sorted(f[4:-2] for f in os.listdir(d) if f.startswith("Api_") and f.endswith(".v")
                    and f[4:-2] not in exclude)
    txt = "(* GENERATED by harness/framework.py -- do not edit%s *)\n" % \
          ((" -- groups left out because they do not build: " + " ".join(sorted(exclude))) if exclude else "") + \
          "From Coq Require Import NArith List String.\n" \
          "From BU Require Import Base.Exn Base.Val Extract.ApiCommon.\n"
    for g in groups:
        txt += "From BU Require Extract.Api_%s.\n" % g
    txt += "Import ListNotations.\nOpen Scope string_scope.\n\n" \
           "Definition qualify (g : string) (l : list api_entry) : list api_entry :=\n" \
           "  map (fun e => (g ++ \".\" ++ fst e, snd e)) l.\n\n" \
           "Section Api.\n  Variable ask : string -> list val -> val.\n" \
           "  (* every entry is reachable as <group>.<name>; the harness always qualifies *)\n" \
           "  Definition api : list api_entry :=\n    " + \
           " ++\n    ".join("qualify \"%s\" (Api_%s.api ask)" % (g, g) for g in groups) + ".\n" \
           "  Definition dispatch (name : string) (args : list val) : res val :=\n" \
           "    match lookup name api with Some f => f args | None => Err (Foreign 1) end.\nEnd Api.\n"
    p = os.path.join(d, "Api.v")
    old = open(p).read() if os.path.exists(p) else None
    if old != txt:
        with open(p, "w") as f:
            f.write(txt)


class BuildResult:
    def __init__(self):
        self.translate_error = None
        self.translate_errors = {}  # generator name -> message (fail-closed translator)
        self.changed_gen = []
        self.failed = {}        # rel .v path -> error text
        self.log = ""
        self.forbidden = []
        self.extract_ok = False
        self.missing_groups = []   # API groups left out of the driver because their model does not build
        self.wall = 0.0


def build(clean=False, targets=None):
    """Regenerate Gen, build the Coq project (full .vo) and the extracted driver."""
    os.makedirs(LOGS, exist_ok=True)
    br = BuildResult()
    t0 = time.time()
    lock = open(os.path.join(VERIF, ".build.lock"), "w")
    fcntl.flock(lock, fcntl.LOCK_EX)
    try:
        sys.path.insert(0, HERE)
        import translate
        try:
            br.changed_gen = translate.gen_all()
        except translate.TranslateError as e:
            br.translate_error = str(e)
            br.translate_errors = dict(getattr(e, "per_gen", {"translate": str(e)}))
            br.changed_gen = list(getattr(e, "changed", []))
        gen_api()
        srcs = coq_sources()
        with open(os.path.join(COQ, "_CoqProject"), "w") as f:
            f.write("-Q . BU\n-arg -w -arg -notation-overridden,-deprecated\n" + "\n".join(srcs) + "\n")
        rc, out = sh("coq_makefile -f _CoqProject -o Makefile.coq", cwd=COQ)
        if rc != 0:
            br.failed["_CoqProject"] = out
            return br
        if clean:
            sh("make -f Makefile.coq clean", cwd=COQ)
            for f in ("model.ml", "model.mli", "driver"):
                try:
                    os.remove(os.path.join(COQ, "Extract", f))
                except OSError:
                    pass
        tgt = " ".join(t[:-2] + ".vo" for t in targets) if targets else ""
        rc, out = sh("timeout 3000 make -f Makefile.coq -k -j16 %s" % tgt, cwd=COQ, timeout=3100)
        br.log = out
        if rc != 0:
            br.failed.update(parse_make_errors(out))
            if not br.failed:
                br.failed["make"] = out[-2000:]
        br.forbidden = forbidden_scan()
        if br.failed and not targets:
            # a model that no longer compiles must not leave a stale driver behind: rebuild Api.v without the
            # groups that depend on a failed file
            d = os.path.join(COQ, "Extract")
            bad = []
            for f in sorted(os.listdir(d)):
                if f.startswith("Api_") and f.endswith(".v"):
                    rel = "Extract/" + f
                    if rel in br.failed or (deps_of(rel) & set(br.failed)):
                        bad.append(f[4:-2])
            if "Extract/ApiCommon.v" in br.failed or (deps_of("Extract/ApiCommon.v") & set(br.failed)):
                bad = []        # nothing can be extracted at all; extract_ok stays False below
                br.failed.setdefault("Extract/Api.v", "Extract/ApiCommon.v or a dependency of it does not build")
            if bad:
                br.missing_groups = bad
                gen_api(exclude=bad)
                rc, out = sh("timeout 3000 make -f Makefile.coq -k -j16 Extract/Api.vo", cwd=COQ, timeout=3100)
                if rc != 0:
                    br.failed["Extract/Api.v"] = out[-2000:]
        # extraction + driver
        api_vo = os.path.join(COQ, "Extract", "Api.vo")
        drv = os.path.join(COQ, "Extract", "driver")
        if os.path.exists(api_vo):
            need = (not os.path.exists(drv)) or os.path.getmtime(drv) < os.path.getmtime(api_vo) \
                or os.path.getmtime(drv) < os.path.getmtime(os.path.join(COQ, "Extract", "driver.ml"))
            if need:
                rc, out = sh("timeout 600 coqc -Q .. BU Extract.v && "
                             "timeout 600 ocamlfind ocamlopt -package str model.mli model.ml driver.ml -o driver",
                             cwd=os.path.join(COQ, "Extract"))
                if rc != 0:
                    br.failed["Extract/Extract.v"] = out[-3000:]
            br.extract_ok = os.path.exists(drv) and "Extract/Extract.v" not in br.failed \
                and "Extract/Api.v" not in br.failed
        else:
            br.extract_ok = False
    finally:
        br.wall = time.time() - t0
        fcntl.flock(lock, fcntl.LOCK_UN)
        lock.close()
    return br


def parse_make_errors(out):
    failed = {}
    # coqc error blocks: File "./X/Y.v", line N, characters a-b:\nError: ...
    for m in re.finditer(r'File "\./([^"]+\.v)", line (\d+), characters [^\n]*\n(Error:(?:.|\n)*?)(?=\nmake|\nFile |\nCOQC|\Z)', out):
        rel, line, err = m.group(1), int(m.group(2)), m.group(3)
        failed.setdefault(rel, "line %d: %s" % (line, err.strip()[:1500]))
    return failed


def enclosing_statement(rel, line):
    try:
        with open(os.path.join(COQ, rel), encoding="utf-8") as f:
            lines = f.read().split("\n")
    except OSError:
        return None
    name = None
    for i in range(min(line, len(lines)) - 1, -1, -1):
        m = re.match(r"\s*(Theorem|Lemma|Corollary|Example|Definition|Fixpoint|Fact)\s+([A-Za-z0-9_']+)", lines[i])
        if m:
            name = m.group(2)
            break
    return name


_DEP_CACHE = {}


def deps_of(rel):
    """Transitive .v dependencies (within the project) of a source, via coqdep output."""
    srcs = tuple(coq_sources())
    if _DEP_CACHE.get("srcs") == srcs:
        dep = _DEP_CACHE["dep"]
        out = ""
    else:
        rc, out = sh("coqdep -Q . BU %s" % " ".join(srcs), cwd=COQ)
        dep = {}
        _DEP_CACHE["srcs"], _DEP_CACHE["dep"] = srcs, dep
    for ln in out.split("\n"):
        if ":" not in ln:
            continue
        lhs, rhs = ln.split(":", 1)
        t = [x for x in lhs.split() if x.endswith(".vo")]
        if not t:
            continue
        dep[t[0][:-1]] = [x[:-1] for x in rhs.split() if x.endswith(".vo")]
    seen, todo = set(), [rel]
    while todo:
        x = todo.pop()
        for d in dep.get(x, []):
            d = os.path.normpath(d)
            if d not in seen:
                seen.add(d)
                todo.append(d)
    return seen


def check_props_file(prop):
    """Compile Props/<prop>.v on its own, parse the Print Assumptions output.
       Returns (obligations, discharged, axioms_by_theorem, error_text)."""
    rel = "Props/%s.v" % prop
    p = os.path.join(COQ, rel)
    if not os.path.exists(p):
        return [], [], {}, "missing " + rel
    with open(p, encoding="utf-8") as f:
        src = strip_comments(f.read())
    names = re.findall(r"Print Assumptions\s+([A-Za-z0-9_'.]+)\s*\.", src)
    stated = re.findall(r"^\s*(?:Theorem|Lemma|Corollary|Example)\s+([A-Za-z0-9_']+)", src, re.M)
    missing = [s for s in stated if s not in names]
    rc, out = sh("timeout 1200 coqc -Q . BU -w -notation-overridden,-deprecated %s" % rel, cwd=COQ, timeout=1300)
    if rc != 0:
        return names, [], {}, out[-3000:]
    # split the output into one chunk per Print Assumptions, in order
    chunks = re.split(r"(?=^Closed under the global context|^Axioms:)", out, flags=re.M)
    chunks = [c for c in chunks if c.startswith("Closed under") or c.startswith("Axioms:")]
    axioms, discharged = {}, []
    if len(chunks) != len(names):
        return names, [], {}, "Print Assumptions output count %d != %d" % (len(chunks), len(names))
    for nm, c in zip(names, chunks):
        if c.startswith("Closed under"):
            discharged.append(nm)
            axioms[nm] = []
        else:
            ax = re.findall(r"^([A-Za-z0-9_'.]+)\s*:", c, flags=re.M)
            axioms[nm] = ax
            if all(a in ALLOWED_AXIOMS for a in ax):
                discharged.append(nm)
    err = None
    if missing:
        err = "theorems without Print Assumptions: %s" % missing
    return names, discharged, axioms, err


# ------------------------------------------------------------------ known findings

def load_known(prop):
    """known_findings.json (the committed list) plus per-property staging files findings.d/*.json."""
    import glob
    allk = []
    for p in [os.path.join(VERIF, "known_findings.json")] + sorted(glob.glob(os.path.join(VERIF, "findings.d", "*.json"))):
        if os.path.exists(p):
            with open(p) as f:
                allk.extend(json.load(f))
    # "also" is documentation only: the predicate of a record lives in the module of its own property
    return [k for k in allk if k.get("property") == prop]


# ------------------------------------------------------------------ main

def write_replay(prop, payload):
    os.makedirs(REPLAY, exist_ok=True)
    h = hashlib.sha1(json.dumps(payload, sort_keys=True).encode()).hexdigest()[:12]
    path = os.path.join(REPLAY, "%s-%s.json" % (prop, h))
    with open(path, "w") as f:
        json.dump(payload, f, indent=1, sort_keys=True)
    return path


def replay(prop, path):
    mod = importlib.import_module("props." + prop)
    with open(path) as f:
        payload = json.load(f)
    from modeldrv import ModelDriver
    from oracles import ORACLES
    br = build()
    m = ModelDriver(ORACLES, groups=api_groups(prop, mod)) if br.extract_ok else None
    ctx = Ctx(prop, "quick", 0, mod.FUNCS, m)
    bad = 0
    for c in payload.get("cases", []):
        if c.get("kind") in ("divergence", "direct"):
            args = jdec(c["args"])
            n0 = len(ctx.divergences) + len(ctx.direct_failures)
            mres, ires = ctx.run(c["fn"], args, c.get("tag", ""))
            n1 = len(ctx.divergences) + len(ctx.direct_failures)
            print("replay %s %s: model=%s impl=%s -> %s" % (c["fn"], [show(a) for a in args],
                  None if mres is None else (mres[1] if mres[0] == "err" else show(mres[1])),
                  None if ires is None else (ires[1] if ires[0] == "err" else show(ires[1])),
                  "STILL FAILS" if n1 > n0 else "passes now"))
            bad += n1 > n0
        else:
            print("replay: proof-side break recorded:", c.get("what"))
            bad += 1
    return 1 if bad else 0


def main(argv):
    import argparse
    ap = argparse.ArgumentParser()
    ap.add_argument("prop")
    ap.add_argument("--tier", default=os.environ.get("VERIF_TIER", "quick"))
    ap.add_argument("--replay")
    ap.add_argument("--no-build", action="store_true")
    a = ap.parse_args(argv)
    prop, tier = a.prop, a.tier if a.tier in ("quick", "thorough") else "quick"
    seed = int(os.environ.get("VERIF_SEED", "0") or 0)
    sys.path.insert(0, HERE)
    if a.replay:
        return replay(prop, a.replay)
    t0 = time.time()
    mod = importlib.import_module("props." + prop)
    cases = []          # violation items (dicts)
    notes = []

    # 1. build + proof obligations
    br = build(clean=(tier == "thorough" and os.environ.get("VERIF_NO_CLEAN") != "1"))
    if br.translate_errors:
        # a generator that failed closed concerns this property when a Gen file it owns is a dependency of the
        # property's theorems or of the model groups its correspondence uses (unknown ownership: every property)
        import translate
        mine = deps_of("Props/%s.v" % prop)
        for g in (list(getattr(mod, "API_GROUPS", None) or API_OWNER.get(prop, [])) or api_groups(prop, mod)):
            if os.path.exists(os.path.join(COQ, "Extract", "Api_%s.v" % g)):
                mine |= deps_of("Extract/Api_%s.v" % g)
        for g, msg in sorted(br.translate_errors.items()):
            owned = translate.outputs_of(g)
            if owned is None or any(("Gen/" + f) in mine for f in owned):
                cases.append({"kind": "proof", "what": "translator (fail-closed): " + msg})
            else:
                notes.append("translator failure in %s does not concern this property: %s" % (g, msg[:200]))
    if br.forbidden:
        cases.append({"kind": "proof", "what": "forbidden construct in Coq sources: %s" % br.forbidden[:5]})
    rel = "Props/%s.v" % prop
    deps = deps_of(rel) | {rel}
    for f, err in br.failed.items():
        if f in deps or f in ("make", "_CoqProject"):
            m = re.match(r"line (\d+)", err)
            stmt = enclosing_statement(f, int(m.group(1))) if m else None
            cases.append({"kind": "proof", "what": "proof obligation no longer checks: %s%s -- %s" %
                          (f, (" (in %s)" % stmt) if stmt else "", err[:600])})
    names, discharged, axioms, perr = check_props_file(prop) if rel not in br.failed else ([], [], {}, "not built")
    if perr and not any(c["kind"] == "proof" for c in cases):
        cases.append({"kind": "proof", "what": "Props/%s.v: %s" % (prop, perr[:800])})
    for nm in names:
        if nm not in discharged and not perr:
            cases.append({"kind": "proof", "what": "theorem %s depends on axioms %s" % (nm, axioms.get(nm))})
    coqchk_out = None
    if tier == "thorough" and not cases and os.environ.get("VERIF_NO_COQCHK") != "1":
        rc, out = sh("timeout 3000 coqchk -silent -o -Q . BU BU.Props.%s" % prop, cwd=COQ, timeout=3100)
        coqchk_out = out[-1500:]
        if rc != 0:
            cases.append({"kind": "proof", "what": "coqchk failed: " + out[-600:]})

    # 2. correspondence + direct property checks on the implementation
    from modeldrv import ModelDriver
    from oracles import ORACLES
    m = None
    if br.extract_ok:
        m = ModelDriver(ORACLES, groups=api_groups(prop, mod))
    else:
        cases.append({"kind": "proof", "what": "model extraction/driver build failed: %s" %
                      str({k: v[:300] for k, v in br.failed.items()})[:900]})
    funcs = mod.FUNCS
    if m is None:   # run the implementation-side direct checks only
        funcs = {k: Func(model=None, impl=f.impl, direct=f.direct) for k, f in mod.FUNCS.items()}
    ctx = Ctx(prop, tier, seed, funcs, m)
    ctx.missing_groups = list(br.missing_groups)
    ctx.budget_s = getattr(mod, "BUDGET", {"quick": 150, "thorough": 1500})[tier]
    # corpus first
    cpath = os.path.join(VERIF, "corpus", prop + ".json")
    if os.path.exists(cpath):
        with open(cpath) as f:
            for c in json.load(f):
                ctx.run(c["fn"], jdec(c["args"]), "corpus")
    try:
        mod.generate(ctx)
    except Exception:  # noqa
        cases.append({"kind": "harness", "what": "generator crashed: " + traceback.format_exc()[-1500:]})
    if m is not None:
        m.close()
    if ctx.model_skipped:
        cases.append({"kind": "proof", "what": "model group(s) %s no longer build (%s): %d model evaluations this property "
                      "needs could not be run" % (br.missing_groups, sorted(br.failed)[:6], ctx.model_skipped)})

    # 3. known findings
    known = load_known(prop)
    preds = mod
    open_k = [k for k in known if k.get("status") == "open"]
    raw = ctx.divergences + ctx.direct_failures
    unexplained = []
    hit = {}
    for d in raw:
        owner = None
        for k in open_k:
            pr = getattr(preds, k["match"])
            try:
                if pr(d["fn"], jdec(d["args"]), d):
                    owner = k
                    break
            except Exception:  # noqa
                pass
        if owner is None:
            unexplained.append(d)
        else:
            hit[owner["id"]] = hit.get(owner["id"], 0) + 1
    for k in open_k:
        still = None
        try:
            still = getattr(preds, k["match"] + "_replay")()
        except AttributeError:
            still = None
        except Exception as e:  # noqa
            still = "replay raised %s" % type(e).__name__
        if still:
            print("KNOWN-FINDING: property=%s %s [%s] (%s; %d matching cases this run)" %
                  (prop, k["what"], k["id"], still, hit.get(k["id"], 0)))
        else:
            notes.append("known finding %s no longer reproduces" % k["id"])
    cases.extend(unexplained)

    # 4. verdict, replay, evidence
    violations = len(cases)
    wall = time.time() - t0
    n_oblig = max(len(names), 1)
    cov = {
        "obligations": n_oblig,
        "discharged": len(discharged),
        "checker_cmd": "cd /verif/coq && make -f Makefile.coq (coqc 8.16.1 full .vo build) && coqc Props/%s.v "
                       "(Print Assumptions parsed)%s" % (prop, "; coqchk -o" if coqchk_out else ""),
        "trusted_base": getattr(mod, "TRUSTED", []) + COMMON_TRUSTED,
        "theorems": names,
        "axioms": {k: v for k, v in axioms.items() if v},
        "evaluations": ctx.evaluations,
        "distinct_nontrivial": len(ctx.distinct),
        "rule": getattr(mod, "RULE", "") + " A case is (entry point, arguments); it counts as distinct by the SHA-1 "
                "of its canonical JSON and as non-trivial unless the generator marked it trivial (empty input).",
        "samples": ctx.samples,
        "classes": {"%s|%s|%s" % k: v for k, v in sorted(ctx.classes.items(), key=lambda kv: str(kv[0]))},
        "divergences": len(ctx.divergences),
        "direct_failures": len(ctx.direct_failures),
        "known_findings_matched": hit,
        "exhaustive": False,
        "exhaustive_subdomains": ctx.exhaustive_notes,
        "model_calls": 0 if m is None else m.calls,
        "oracle_calls": 0 if m is None else m.oracle_calls,
        "gen_changed": br.changed_gen,
        "input_distribution": ctx.dist,
        "missing_model_groups": br.missing_groups,
        "build_wall_s": round(br.wall, 1),
        "notes": notes,
    }
    if coqchk_out:
        cov["coqchk"] = coqchk_out
    ev = {"property_id": prop, "tier": tier, "seed": seed, "level": "proof", "coverage": cov,
          "assumptions": getattr(mod, "ASSUMPTIONS", []), "wall_s": round(wall, 2), "violations": violations}
    os.makedirs(EVID, exist_ok=True)
    with open(os.path.join(EVID, prop + ".json"), "w") as f:
        json.dump(ev, f, indent=1, sort_keys=True)
    if violations:
        concrete = [c for c in cases if c["kind"] in ("divergence", "direct")]
        for c in cases:
            if "args" in c and "readable" not in c:
                try:
                    c["readable"] = "%s(%s)" % (c.get("fn"), ", ".join(show(a, 200) for a in jdec(c["args"])))
                except Exception:  # noqa
                    pass
        path = write_replay(prop, {"property": prop, "seed": seed, "tier": tier, "cases": cases[:50]})
        for c in cases[:8]:
            d = {k: v for k, v in c.items() if k != "args"} if "readable" in c else c
            print("  violation-detail:", json.dumps(d, ensure_ascii=False)[:700])
        print("VIOLATION property=%s replay=%s%s" % (prop, path, "" if concrete else " no-failing-input-found"))
        return 1
    print("OK property=%s tier=%s theorems=%d/%d evaluations=%d distinct=%d wall=%.1fs" %
          (prop, tier, len(discharged), len(names), ctx.evaluations, len(ctx.distinct), wall))
    return 0


API_OWNER = {"C01": ["bip39"], "C02": ["bip39"], "C03": ["deriv"], "C04": ["deriv"], "C05": ["serbip"], "C06": ["paths"],
             "C07": ["objects", "registry"], "C08": ["coins"], "C09": ["addr", "addrtext", "addrbech"], "C10": ["bech32", "codecs", "base58"],
             "C11": ["codecs", "base58"], "C12": ["ecc"], "C13": ["serbip"], "C14": [], "C15": ["objects"],
             "C16": ["cardmon"], "C17": ["mnem"], "C18": ["cardmon"], "C19": ["paths"], "C20": ["serbip"]}


def api_groups(prop, mod=None):
    d = os.path.join(COQ, "Extract")
    allg = sorted(f[4:-2] for f in os.listdir(d) if f.startswith("Api_") and f.endswith(".v"))
    first = list(getattr(mod, "API_GROUPS", None) or API_OWNER.get(prop, []))
    return [g for g in first if g in allg] + [g for g in allg if g not in first]


COMMON_TRUSTED = [
    "Coq 8.16.1 kernel (coqc); vm_compute used for table/certificate theorems; native_compute not used",
    "no axioms declared; Print Assumptions of every Props theorem parsed on every run",
    "harness/translate.py (+gen_*.py): regenerates coq/Gen/*.v from /repo on every run, fail-closed",
    "extraction: ExtrOcamlBasic only (its Extract Inductive bool/option/unit/list/prod/sumbool/sumor), no Extract Constant; OCaml 4.13.1; coq/Extract/driver.ml",
    "correspondence harness (harness/framework.py, modeldrv.py, props/*.py) and reference primitives in harness/oracles.py (hashlib, pycryptodome, unicodedata, own EC arithmetic)",
    "coq/Model/*.v are hand transcriptions of the Python, tied to it by the correspondence run only",
]

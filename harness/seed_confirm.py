#!/usr/bin/env python3
"""Confirm a proposed seeded change and file it under /verif/seeded/<id>/.

    harness/seed_confirm.py <prop> <k> <new-id> [--out /tmp/mut/out2]

reads <out>/<prop>/patch<k>.diff, demo<k>.py, meta<k>.json (written by a seeding sub-agent that saw only the
property text), and in a scratch worktree of /repo (/tmp/mut/<prop>, reset to /repo's main first):
  * applies the patch, runs the complete existing test suite (must pass),
  * runs the demonstration with the change (must exit non-zero) and without it (must exit 0).
Only then is seeded/<new-id>/{patch.diff,demo.py,meta.json} written.  /repo itself is never touched.
"""
import json
import os
import shutil
import subprocess
import sys


def sh(cmd, **kw):
    return subprocess.run(cmd, shell=True, stdout=subprocess.PIPE, stderr=subprocess.STDOUT, text=True, **kw)


def main():
    prop, k, new_id = sys.argv[1:4]
    out = sys.argv[5] if len(sys.argv) > 5 and sys.argv[4] == "--out" else "/tmp/mut/out2"
    wt = "/tmp/mut/" + prop
    src = os.path.join(out, prop)
    patch, demo, meta = (os.path.join(src, n % k) for n in ("patch%s.diff", "demo%s.py", "meta%s.json"))
    for f in (patch, demo, meta):
        if not os.path.exists(f):
            print("missing", f)
            return 2
    sh("git -C %s checkout -q -- . && git -C %s clean -fdq && git -C %s checkout -q --detach main" % (wt, wt, wt))
    env = dict(os.environ, PYTHONPATH=wt, PYTHONHASHSEED="0")
    r0 = sh("/venv/bin/python %s" % demo, env=env, cwd=wt, timeout=1800)
    r = sh("git -C %s apply %s" % (wt, patch))
    if r.returncode != 0:
        print("patch does not apply:", r.stdout[-300:])
        return 1
    t = sh("/venv/bin/python -m pytest -q -p no:cacheprovider --timeout=900 -n 6 tests", env=env, cwd=wt, timeout=3600)
    tests_line = [ln for ln in t.stdout.strip().split("\n") if "passed" in ln or "failed" in ln or "error" in ln][-1:]
    r1 = sh("/venv/bin/python %s" % demo, env=env, cwd=wt, timeout=1800)
    sh("git -C %s checkout -q -- . && git -C %s clean -fdq" % (wt, wt))
    ok = t.returncode == 0 and r1.returncode != 0 and r0.returncode == 0
    print("%s/%s -> %s: tests rc=%d %s; demo with change rc=%d, without rc=%d => %s" %
          (prop, k, new_id, t.returncode, tests_line, r1.returncode, r0.returncode, "CONFIRMED" if ok else "REJECTED"))
    if not ok:
        print("  demo(with) tail:", r1.stdout[-300:].replace("\n", " | "))
        print("  demo(without) tail:", r0.stdout[-300:].replace("\n", " | "))
        return 1
    m = json.load(open(meta))
    d = os.path.join("/verif/seeded", new_id)
    os.makedirs(d, exist_ok=True)
    shutil.copy(patch, os.path.join(d, "patch.diff"))
    shutil.copy(demo, os.path.join(d, "demo.py"))
    head = sh("git -C /repo rev-parse --short HEAD").stdout.strip()
    json.dump({"id": new_id, "property": prop, "summary": m.get("summary"), "needs": m.get("needs"),
               "files": m.get("files"), "round": 4 if out.endswith("out4") else (3 if out.endswith("out3") else 2),
               "origin": "fresh sub-agent given only the property text (and one-line summaries of the earlier rounds' changes "
                         "to avoid) and a scratch worktree of /repo (nothing from /verif)",
               "confirmed": {"how": "harness/seed_confirm.py: scratch worktree %s at /repo main %s; git apply patch.diff; "
                                    "full pytest suite; demo.py with and without the change" % (wt, head),
                             "tests": tests_line[0] if tests_line else "", "demo_exit_with_change": r1.returncode,
                             "demo_exit_without_change": r0.returncode},
               "detected_by": []}, open(os.path.join(d, "meta.json"), "w"), indent=1)
    return 0


if __name__ == "__main__":
    sys.exit(main())

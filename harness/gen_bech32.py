"""Bech32 family + WIF constants and the interpreter's case tables -> coq/Gen/Bech32Consts.v, coq/Gen/CaseTables.v.

Class-level constants are reflected (translate.reflect).  The constants that live INSIDE function bodies
(polymod generators, shifts, masks, HRP expansion, checksum digit extraction) are taken from the AST:
the function body -- docstring dropped, every integer literal replaced by K, every string literal by S --
must be textually equal to the shape recorded here (fail closed on any other shape), and the integer
literals, in source order, are the constants.
"""
import ast
import copy

from translate import reflect, emit, fail, find_func, lit, coq_N, coq_list

B32 = "bip_utils/bech32/bech32.py"
BCH = "bip_utils/bech32/bch_bech32.py"
BASE = "bip_utils/bech32/bech32_base.py"
SEG = "bip_utils/bech32/segwit_bech32.py"
WIF = "bip_utils/wif/wif.py"


def body_consts(rel, cls, fn, shape):
    f = copy.deepcopy(find_func(rel, cls, fn))
    body = f.body
    if body and isinstance(body[0], ast.Expr) and isinstance(body[0].value, ast.Constant) \
            and isinstance(body[0].value.value, str):
        body = body[1:]
    ks = []

    class Tr(ast.NodeTransformer):
        def visit_Constant(self, n):
            if isinstance(n.value, bool) or n.value is None:
                return n
            if isinstance(n.value, int):
                ks.append(n.value)
                return ast.Name(id="K", ctx=ast.Load())
            if isinstance(n.value, str):
                return ast.Name(id="S", ctx=ast.Load())
            fail(f"{rel}: {cls}.{fn}: unexpected literal {n.value!r}")

        def visit_JoinedStr(self, n):
            return ast.Name(id="S", ctx=ast.Load())

    got = ast.unparse(ast.Module(body=[Tr().visit(b) for b in body], type_ignores=[]))
    shapes = [shape] if isinstance(shape, str) else list(shape)
    if got not in shapes:
        fail(f"{rel}: {cls}.{fn}: body shape not recognised (constants inside it cannot be located safely):\n"
             f"--- expected\n{shapes[0]}\n--- found\n{got}")
    return ks if isinstance(shape, str) else (shapes.index(got), ks)


SH_B32_POLYMOD = ("generator = [K, K, K, K, K]\nchk = K\nfor value in values:\n    top = chk >> K\n"
                  "    chk = (chk & K) << K ^ value\n    for i in range(K):\n"
                  "        chk ^= generator[i] if top >> i & K else K\nreturn chk")
SH_B32_HRP = "return [ord(x) >> K for x in hrp] + [K] + [ord(x) & K for x in hrp]"
SH_B32_CS = ("values = Bech32Utils.HrpExpand(hrp) + data\n"
             "polymod = Bech32Utils.PolyMod(values + [K, K, K, K, K, K]) ^ Bech32Const.ENCODING_CHECKSUM_CONST[encoding]\n"
             "return [polymod >> K * (K - i) & K for i in range(Bech32Const.CHECKSUM_STR_LEN)]")
SH_B32_VERIFY = ("polymod = Bech32Utils.PolyMod(Bech32Utils.HrpExpand(hrp) + data)\n"
                 "return polymod == Bech32Const.ENCODING_CHECKSUM_CONST[encoding]")
SH_BCH_POLYMOD = ("generator = [(K, K), (K, K), (K, K), (K, K), (K, K)]\nchk = K\nfor value in values:\n"
                  "    top = chk >> K\n    chk = (chk & K) << K ^ value\n    for i in generator:\n"
                  "        if top & i[K] != K:\n            chk ^= i[K]\nreturn chk ^ K")
SH_BCH_HRP = "return [ord(x) & K for x in hrp] + [K]"
SH_BCH_CS = ("values = BchBech32Utils.HrpExpand(hrp) + data\n"
             "polymod = BchBech32Utils.PolyMod(values + [K, K, K, K, K, K, K, K])\n"
             "return [polymod >> K * (K - i) & K for i in range(BchBech32Const.CHECKSUM_STR_LEN)]")
SH_BCH_VERIFY = "return BchBech32Utils.PolyMod(BchBech32Utils.HrpExpand(hrp) + data) == K"
SH_TO32 = ("conv_data = Bech32BaseUtils.ConvertBits(data, K, K)\nif conv_data is None:\n"
           "    raise ValueError(S)\nreturn conv_data")
SH_FROM32 = ("conv_data = Bech32BaseUtils.ConvertBits(data, K, K, False)\nif conv_data is None:\n"
             "    raise ValueError(S)\nreturn conv_data")
_DEC_ASCII = "if not bech_str.isascii():\n    raise ValueError(S)\n"
_DEC_BODY = ("if AlgoUtils.IsStringMixed(bech_str):\n    raise ValueError(S)\nbech_str = bech_str.lower()\n"
             "sep_pos = bech_str.rfind(sep)\nif sep_pos == -K:\n    raise ValueError(S)\nhrp = bech_str[:sep_pos]\n"
             "if len(hrp) == K or any((ord(x) < K or ord(x) > K for x in hrp)):\n    raise ValueError(S)\n"
             "data_part = bech_str[sep_pos + K:]\n"
             "if len(data_part) < checksum_len + %s or not all((x in Bech32BaseConst.CHARSET for x in data_part)):\n"
             "    raise ValueError(S)\nint_data = [Bech32BaseConst.CHARSET.find(x) for x in data_part]\n"
             "if not cls._VerifyChecksum(hrp, int_data):\n    raise Bech32ChecksumError(S)\n"
             "return (hrp, int_data[:-checksum_len])")
# the four admissible shapes of _DecodeBech32: as in the pinned tree, with the non-ASCII guard (repair of F16),
# with the minimum data length as a defaulted parameter (repair of F11), or with both
SH_DECODE = [_DEC_BODY % "K", _DEC_ASCII + _DEC_BODY % "K", _DEC_BODY % "min_data_len", _DEC_ASCII + _DEC_BODY % "min_data_len"]


def decode_call_min_data(rel, cls, default):
    """the min_data_len a decoder's Decode passes to cls._DecodeBech32 (4th positional argument), or the default"""
    f = find_func(rel, cls, "Decode")
    calls = [n for n in ast.walk(f) if isinstance(n, ast.Call) and isinstance(n.func, ast.Attribute)
             and n.func.attr == "_DecodeBech32"]
    if len(calls) != 1 or calls[0].keywords or len(calls[0].args) not in (3, 4):
        fail(f"{rel}: {cls}.Decode: call of _DecodeBech32 not recognised")
    if len(calls[0].args) == 3:
        return default
    a = calls[0].args[3]
    if not (isinstance(a, ast.Constant) and isinstance(a.value, int) and not isinstance(a.value, bool) and a.value >= 0):
        fail(f"{rel}: {cls}.Decode: minimum data length argument is not a literal")
    return a.value


def one_char(s, what):
    if not isinstance(s, str) or len(s) != 1:
        fail(f"{what}: expected a one-character string, got {s!r}")
    return ord(s)


def one_byte(b, what):
    if not isinstance(b, (bytes, bytearray)) or len(b) != 1:
        fail(f"{what}: expected a one-byte string, got {b!r}")
    return b[0]


def log2_exact(b, what):
    if not isinstance(b, int) or b <= 0 or b & (b - 1):
        fail(f"{what}: {b!r} is not a single-bit mask")
    return b.bit_length() - 1


def consts():
    out = []

    def d(name, kind, v):
        ty, txt = emit(kind, v)
        out.append(f"Definition {name} : {ty} := {txt}.")

    # ---- class-level constants
    d("bech32_charset", "str", reflect(BASE, "Bech32BaseConst", "CHARSET"))
    d("bech32_sep", "N", one_char(reflect(B32, "Bech32Const", "SEPARATOR"), "Bech32Const.SEPARATOR"))
    d("bech32_cklen", "nat", reflect(B32, "Bech32Const", "CHECKSUM_STR_LEN"))
    encs = reflect(B32, "Bech32Const", "ENCODING_CHECKSUM_CONST")
    import importlib
    E = importlib.import_module("bip_utils.bech32.bech32").Bech32Encodings
    if not isinstance(encs, dict) or set(encs) != {E.BECH32, E.BECH32M}:
        fail(f"{B32}: ENCODING_CHECKSUM_CONST keys changed: {encs!r}")
    d("bech32_const", "N", encs[E.BECH32])
    d("bech32m_const", "N", encs[E.BECH32M])
    d("segwit_sep", "N", one_char(reflect(SEG, "SegwitBech32Const", "SEPARATOR"), "SegwitBech32Const.SEPARATOR"))
    d("segwit_cklen", "nat", reflect(SEG, "SegwitBech32Const", "CHECKSUM_STR_LEN"))
    d("segwit_prog_min", "nat", reflect(SEG, "SegwitBech32Const", "WITNESS_PROG_MIN_BYTE_LEN"))
    d("segwit_prog_max", "nat", reflect(SEG, "SegwitBech32Const", "WITNESS_PROG_MAX_BYTE_LEN"))
    d("segwit_ver_bech32", "N", reflect(SEG, "SegwitBech32Const", "WITNESS_VER_BECH32"))
    d("segwit_ver_max", "N", reflect(SEG, "SegwitBech32Const", "WITNESS_VER_MAX_VAL"))
    d("segwit_v0_lens", "listnat", list(reflect(SEG, "SegwitBech32Const", "WITNESS_VER_ZERO_DATA_BYTE_LEN")))
    d("cash_sep", "N", one_char(reflect(BCH, "BchBech32Const", "SEPARATOR"), "BchBech32Const.SEPARATOR"))
    d("cash_cklen", "nat", reflect(BCH, "BchBech32Const", "CHECKSUM_STR_LEN"))
    d("wif_compr_suffix", "N", one_byte(reflect(WIF, "WifConst", "COMPR_PUB_KEY_SUFFIX"), "WifConst.COMPR_PUB_KEY_SUFFIX"))

    # ---- Bech32Utils.PolyMod
    ks = body_consts(B32, "Bech32Utils", "PolyMod", SH_B32_POLYMOD)
    gen, (init, shift, mask, symbits, ngen, one, zero) = ks[:5], ks[5:]
    if (ngen, one, zero) != (5, 1, 0):
        fail(f"{B32}: Bech32Utils.PolyMod: generator selection constants changed: range({ngen}), & {one}, else {zero}")
    d("bech32_gen", "listN", gen)
    d("bech32_pm_init", "N", init)
    d("bech32_pm_shift", "N", shift)
    d("bech32_pm_mask", "N", mask)
    d("bech32_pm_symbits", "N", symbits)
    ks = body_consts(B32, "Bech32Utils", "HrpExpand", SH_B32_HRP)
    d("bech32_hrp_shift", "N", ks[0])
    d("bech32_hrp_sepval", "N", ks[1])
    d("bech32_hrp_mask", "N", ks[2])
    ks = body_consts(B32, "Bech32Utils", "ComputeChecksum", SH_B32_CS)
    if any(ks[:6]):
        fail(f"{B32}: Bech32Utils.ComputeChecksum: padding template is not all zero: {ks[:6]}")
    d("bech32_cs_pad", "nat", 6)
    d("bech32_cs_bits", "N", ks[6])
    d("bech32_cs_top", "N", ks[7])
    d("bech32_cs_mask", "N", ks[8])
    body_consts(B32, "Bech32Utils", "VerifyChecksum", SH_B32_VERIFY)

    # ---- BchBech32Utils.PolyMod
    ks = body_consts(BCH, "BchBech32Utils", "PolyMod", SH_BCH_POLYMOD)
    pairs, (init, shift, mask, symbits, i0, z, i1, fin) = ks[:10], ks[10:]
    if (i0, z, i1) != (0, 0, 1):
        fail(f"{BCH}: BchBech32Utils.PolyMod: tuple indexing constants changed: {(i0, z, i1)}")
    cg = []
    for k in range(5):
        cg.append("(%s, %s)" % (coq_N(log2_exact(pairs[2 * k], f"{BCH}: PolyMod generator mask {k}")), coq_N(pairs[2 * k + 1])))
    out.append("(* (bit index of the mask i[0], generator word i[1]) *)")
    out.append("Definition cash_gen : list (N * N) := %s." % coq_list(cg))
    d("cash_pm_init", "N", init)
    d("cash_pm_shift", "N", shift)
    d("cash_pm_mask", "N", mask)
    d("cash_pm_symbits", "N", symbits)
    d("cash_pm_final", "N", fin)
    ks = body_consts(BCH, "BchBech32Utils", "HrpExpand", SH_BCH_HRP)
    d("cash_hrp_mask", "N", ks[0])
    d("cash_hrp_sepval", "N", ks[1])
    ks = body_consts(BCH, "BchBech32Utils", "ComputeChecksum", SH_BCH_CS)
    if any(ks[:8]):
        fail(f"{BCH}: BchBech32Utils.ComputeChecksum: padding template is not all zero: {ks[:8]}")
    d("cash_cs_pad", "nat", 8)
    d("cash_cs_bits", "N", ks[8])
    d("cash_cs_top", "N", ks[9])
    d("cash_cs_mask", "N", ks[10])
    ks = body_consts(BCH, "BchBech32Utils", "VerifyChecksum", SH_BCH_VERIFY)
    d("cash_verify_const", "N", ks[0])

    # ---- Bech32BaseUtils / Bech32DecoderBase
    ks = body_consts(BASE, "Bech32BaseUtils", "ConvertToBase32", SH_TO32)
    d("b32_to_from_bits", "N", ks[0])
    d("b32_to_to_bits", "N", ks[1])
    ks = body_consts(BASE, "Bech32BaseUtils", "ConvertFromBase32", SH_FROM32)
    d("b32_from_from_bits", "N", ks[0])
    d("b32_from_to_bits", "N", ks[1])
    which, ks = body_consts(BASE, "Bech32DecoderBase", "_DecodeBech32", SH_DECODE)
    ascii_guard, has_param = which in (1, 3), which in (2, 3)
    if (ks[0], ks[1], ks[4]) != (1, 0, 1):
        fail(f"{BASE}: _DecodeBech32: structural constants changed: {ks}")
    d("bech32_hrp_min_cp", "N", ks[2])
    d("bech32_hrp_max_cp", "N", ks[3])
    f = find_func(BASE, "Bech32DecoderBase", "_DecodeBech32")
    names = [a.arg for a in f.args.args]
    if has_param:
        if names != ["cls", "bech_str", "sep", "checksum_len", "min_data_len"] or len(f.args.defaults) != 1 \
                or f.args.kwonlyargs or f.args.vararg or f.args.kwarg:
            fail(f"{BASE}: _DecodeBech32: signature not recognised: {names}")
        dflt = lit(f.args.defaults[0], BASE, "_DecodeBech32 min_data_len default")
    else:
        if names != ["cls", "bech_str", "sep", "checksum_len"] or f.args.defaults:
            fail(f"{BASE}: _DecodeBech32: signature not recognised: {names}")
        dflt = ks[5]
    if not isinstance(dflt, int) or isinstance(dflt, bool) or dflt < 0:
        fail(f"{BASE}: _DecodeBech32: minimum data length is not a natural number: {dflt!r}")
    out.append("(* _DecodeBech32: is there an isascii() guard; minimum number of data symbols besides the checksum "
               "(the default and what each decoder passes) *)")
    d("bech32_dec_ascii_only", "bool", ascii_guard)
    d("bech32_decoder_min_data", "nat", decode_call_min_data(B32, "Bech32Decoder", dflt) if has_param else dflt)
    d("segwit_decoder_min_data", "nat", decode_call_min_data(SEG, "SegwitBech32Decoder", dflt) if has_param else dflt)
    d("cash_decoder_min_data", "nat", decode_call_min_data(BCH, "BchBech32Decoder", dflt) if has_param else dflt)
    if not has_param:
        for rel, cls in ((B32, "Bech32Decoder"), (SEG, "SegwitBech32Decoder"), (BCH, "BchBech32Decoder")):
            if decode_call_min_data(rel, cls, None) is not None:
                fail(f"{rel}: {cls}.Decode passes a fourth argument to _DecodeBech32")
    return "\n".join(out) + "\n"


# ----------------------------------------------------------------------------- case tables

def ranges(pred):
    r, s = [], None
    for c in range(0x110000 + 1):
        p = c < 0x110000 and pred(chr(c))
        if p and s is None:
            s = c
        if not p and s is not None:
            r.append((s, c - 1))
            s = None
    return r


def case_tables():
    low = [(c, [ord(x) for x in chr(c).lower()]) for c in range(0x110000) if chr(c).lower() != chr(c)]
    up = [(c, [ord(x) for x in chr(c).upper()]) for c in range(0x110000) if chr(c).upper() != chr(c)]
    # str.lower()/upper() of a whole string is the concatenation of the per-code-point images except for the
    # final-sigma rule (U+03A3).  Probe every code point in two contexts; anything else is not understood.
    ctx_dep = [c for c in range(0x110000)
               if ("a" + chr(c) + "a").lower() != "a" + chr(c).lower() + "a"
               or ("a" + chr(c)).lower() != "a" + chr(c).lower()
               or (chr(c) + "a").lower() != chr(c).lower() + "a"
               or ("A" + chr(c) + "A").upper() != "A" + chr(c).upper() + "A"]
    if ctx_dep not in ([], [0x3A3]):
        fail(f"str.lower()/upper() is context dependent on unexpected code points: {[hex(c) for c in ctx_dep[:10]]}")

    def tbl(name, t):
        rows = ["(%d, %s)" % (c, coq_list([str(x) for x in img])) for c, img in t]
        return "Definition %s : list (N * list N) :=\n [" % name + ";\n  ".join(
            "; ".join(rows[i:i + 6]) for i in range(0, len(rows), 6)) + "].\n"

    def rng(name, t):
        rows = ["(%d, %d)" % p for p in t]
        return "Definition %s : list (N * N) :=\n [" % name + ";\n  ".join(
            "; ".join(rows[i:i + 8]) for i in range(0, len(rows), 8)) + "].\n"

    txt = "(* Every code point c in 0..0x10FFFF with chr(c).lower() != chr(c), with its image; sorted by c. *)\n"
    txt += tbl("lower_table", low)
    txt += "(* Same for chr(c).upper(). *)\n"
    txt += tbl("upper_table", up)
    txt += "(* Maximal ranges (lo, hi) of code points with chr(c).islower() / chr(c).isupper(); sorted. *)\n"
    txt += rng("islower_ranges", ranges(str.islower))
    txt += rng("isupper_ranges", ranges(str.isupper))
    txt += "Definition code_space : N := %d.\n" % 0x110000
    return txt


def generate():
    return {"Bech32Consts.v": consts(), "CaseTables.v": case_tables()}

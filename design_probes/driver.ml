open Model
let rec n_of_int (i:int) : n = if i = 0 then N0 else Npos (pos_of_int i)
and pos_of_int i = if i = 1 then XH else if i land 1 = 1 then XI (pos_of_int (i lsr 1)) else XO (pos_of_int (i lsr 1))
let rec int_of_pos = function XH -> 1 | XO p -> 2 * int_of_pos p | XI p -> 2 * int_of_pos p + 1
let int_of_n = function N0 -> 0 | Npos p -> int_of_pos p
let hex_of l = String.concat "" (List.map (fun b -> Printf.sprintf "%02x" (int_of_n b)) l)
let of_hex s = List.init (String.length s / 2) (fun i -> n_of_int (int_of_string ("0x" ^ String.sub s (2*i) 2)))
let oracle name arg = print_string ("?" ^ name ^ " " ^ hex_of arg ^ "\n"); flush stdout; of_hex (input_line stdin)
let alph = List.map (fun c -> n_of_int (Char.code c)) (List.init 58 (String.get "123456789ABCDEFGHJKLMNPQRSTUVWXYZabcdefghijkmnopqrstuvwxyz"))
let () = try while true do
  let l = input_line stdin in
  let r = b58check alph (oracle "sha256") (of_hex l) in
  print_string ("=" ^ String.concat "" (List.map (fun b -> String.make 1 (Char.chr (int_of_n b))) r) ^ "\n"); flush stdout
done with End_of_file -> ()

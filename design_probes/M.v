From Coq Require Import NArith List.
Import ListNotations.
Open Scope N_scope.
Section B58.
  Variable alph : list N.            (* from Gen/Consts.v *)
  Variable sha256 : list N -> list N. (* oracle *)
  Fixpoint be_to_N (l : list N) (acc : N) : N := match l with [] => acc | b :: t => be_to_N t (acc * 256 + b) end.
  Fixpoint digits (fuel : nat) (v : N) (acc : list N) : list N :=
    match fuel with O => acc | S f => if N.eqb v 0 then acc else digits f (v / 58) (nth (N.to_nat (v mod 58)) alph 0 :: acc) end.
  Fixpoint lead0 (l : list N) : nat := match l with 0 :: t => S (lead0 t) | _ => O end.
  Definition b58enc (b : list N) : list N :=
    repeat (nth 0 alph 0) (lead0 b) ++ digits (2 * length b + 1) (be_to_N b 0) [].
  Definition b58check (b : list N) : list N := b58enc (b ++ firstn 4 (sha256 (sha256 b))).
End B58.
Require Import ExtrOcamlBasic.
Extraction "model.ml" b58check.

import sys, itertools
GEN=[0x3b6a57b2,0x26508e6d,0x1ea119fa,0x3d4233dd,0x2a1462b3]
def step(c,v):
    top=c>>25
    c=((c&0x1ffffff)<<5)^v
    for i in range(5):
        if (top>>i)&1: c^=GEN[i]
    return c
def synd(v,j):
    c=step(0,v)
    for _ in range(j): c=step(c,0)
    return c
def check(L):
    S=[[synd(v,j) for v in range(32)] for j in range(L)]
    A={}
    for v1 in range(1,32):
        s=S[0][v1]
        if s==0: return "w1"
        if s in A: return "dupA"
        A[s]=(0,)
    for v1 in range(1,32):
        for j2 in range(1,L):
            for v2 in range(1,32):
                s=S[0][v1]^S[j2][v2]
                if s==0: return "w2"
                if s in A: return ("dupA2",A[s],j2)
                A[s]=(j2,)
    # B: weight1, weight2 on positions 1..L-1
    for j3 in range(1,L):
        for v3 in range(1,32):
            s=S[j3][v3]
            if s in A and j3 not in A[s]: return ("w<=3",j3)
    for j3 in range(1,L):
        for j4 in range(j3+1,L):
            for v3 in range(1,32):
                a=S[j3][v3]
                for v4 in range(1,32):
                    s=a^S[j4][v4]
                    if s in A:
                        p=A[s]
                        if j3 not in p and j4 not in p: return ("w4",p,j3,j4)
    return "ok"
for L in [int(x) for x in sys.argv[1:]]:
    print(L,check(L))

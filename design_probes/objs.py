import ast, os, sys, collections
ROOT="/repo/bip_utils"
classes={}   # name -> dict(bases, fields{name:type}, methods{name:node}, file)
for dp,_,fs in os.walk(ROOT):
    for f in fs:
        if not f.endswith(".py"): continue
        p=os.path.join(dp,f); t=ast.parse(open(p).read())
        for n in t.body:
            if isinstance(n,ast.ClassDef):
                c=dict(bases=[ast.unparse(b) for b in n.bases],fields={},methods={},file=p[len(ROOT)+1:],cached=set())
                for b in n.body:
                    if isinstance(b,ast.AnnAssign) and isinstance(b.target,ast.Name) and b.target.id.startswith("m_"):
                        c["fields"][b.target.id]=ast.unparse(b.annotation)
                    if isinstance(b,ast.FunctionDef):
                        c["methods"][b.name]=b
                        for d in b.decorator_list:
                            if "lru_cache" in ast.unparse(d): c["cached"].add(b.name)
                classes[n.name]=c
def mro(c):
    out=[];todo=[c]
    while todo:
        x=todo.pop(0)
        if x in out or x not in classes: continue
        out.append(x); todo+= [b.split(".")[-1] for b in classes[x]["bases"]]
    return out
def subclasses(c): return [k for k in classes if c in mro(k)]
def field_type(c,f):
    for k in mro(c):
        if f in classes[k]["fields"]:
            t=classes[k]["fields"][f]
            for w in ("Optional[","Type["):
                if t.startswith(w): t=t[len(w):-1]
            return t
    return None
def find_method(c,m):
    for k in mro(c):
        if m in classes[k]["methods"]: return k,classes[k]["methods"][m]
    return None,None
# writes outside __init__
writes=collections.defaultdict(set)
for cn,c in classes.items():
    for mn,m in c["methods"].items():
        if mn=="__init__": continue
        for n in ast.walk(m):
            tg=[]
            if isinstance(n,ast.Assign): tg=n.targets
            elif isinstance(n,(ast.AugAssign,ast.AnnAssign)): tg=[n.target]
            for t in tg:
                for e in ([t] if not isinstance(t,ast.Tuple) else t.elts):
                    if isinstance(e,ast.Attribute) and isinstance(e.value,ast.Name) and e.value.id=="self":
                        writes[(cn,e.attr)].add(mn)
                    if isinstance(e,ast.Subscript) and isinstance(e.value,ast.Attribute) and isinstance(e.value.value,ast.Name) and e.value.value.id=="self":
                        writes[(cn,e.value.attr)].add(mn+"[]")
print("MUTABLE FIELDS (written outside __init__):")
for k,v in sorted(writes.items()): print("  ",k,sorted(v))
mutable=set()
for (cn,f) in writes:
    for k in subclasses(cn)+mro(cn): mutable.add((k,f))
# transitive read-set of a method: set of (class,field)
def reads(cn,mn,seen):
    key=(cn,mn)
    if key in seen: return set()
    seen.add(key)
    k,m=find_method(cn,mn)
    if m is None: return set()
    out=set()
    def typ(e):
        # static type of expression e (class name) or None
        if isinstance(e,ast.Name) and e.id=="self": return cn
        if isinstance(e,ast.Attribute):
            t=typ(e.value)
            if t: 
                ft=field_type(t,e.attr)
                if ft: return ft.split(".")[-1]
        if isinstance(e,ast.Call) and isinstance(e.func,ast.Attribute):
            t=typ(e.func.value)
            if t:
                kk,mm=find_method(t,e.func.attr)
                if mm is not None and mm.returns is not None:
                    r=ast.unparse(mm.returns)
                    for w in ("Optional[","Type["):
                        if r.startswith(w): r=r[len(w):-1]
                    return r.split(".")[-1]
        return None
    for n in ast.walk(m):
        if isinstance(n,ast.Attribute) and isinstance(n.ctx,ast.Load):
            t=typ(n.value)
            if t and field_type(t,n.attr) is not None:
                out.add((t,n.attr))
        if isinstance(n,ast.Call) and isinstance(n.func,ast.Attribute):
            t=typ(n.func.value)
            if t:
                # dynamic dispatch: union over subclasses overriding
                for sc in set([t]+subclasses(t)):
                    out|=reads(sc,n.func.attr,seen)
    return out
print("\nCACHED METHODS reading mutable fields:")
tot=0
for cn,c in sorted(classes.items()):
    for mn in sorted(c["cached"]):
        tot+=1
        r=reads(cn,mn,set())
        bad=sorted(x for x in r if x in mutable)
        if bad: print("  ",cn+"."+mn,"->",bad)
print("cached methods total:",tot)

import subprocess, hashlib, os, time, sys
sys.path.insert(0,"/repo")
from bip_utils import Base58Encoder
p=subprocess.Popen(["./driver"],stdin=subprocess.PIPE,stdout=subprocess.PIPE,text=True,bufsize=1)
import random; random.seed(1)
t=time.time(); n=0; bad=0
for i in range(2000):
    b=bytes([0]*random.randrange(3))+os.urandom(random.choice([0,1,20,33,74,78,110]))
    p.stdin.write(b.hex()+"\n"); p.stdin.flush()
    while True:
        l=p.stdout.readline().rstrip("\n")
        if l.startswith("?"):
            name,arg=l[1:].split(" ") if " " in l[1:] and len(l[1:].split(" "))==2 else (l[1:].strip(),"")
            p.stdin.write(hashlib.sha256(bytes.fromhex(arg)).hexdigest()+"\n"); p.stdin.flush()
        else:
            break
    n+=1
    if l[1:]!=Base58Encoder.CheckEncode(b): bad+=1; print("DIFF",b.hex(),l)
print(n,"cases",bad,"diffs",round(time.time()-t,2),"s")

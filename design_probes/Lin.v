From Coq Require Import NArith List Bool Lia.
Import ListNotations.
Open Scope N_scope.

Definition sel (b : bool) (g : N) : N := if b then g else 0.
Definition G0 := 0x3b6a57b2. Definition G1 := 0x26508e6d. Definition G2 := 0x1ea119fa.
Definition G3 := 0x3d4233dd. Definition G4 := 0x2a1462b3.
Definition gens (t : N) : N :=
  N.lxor (sel (N.testbit t 0) G0) (N.lxor (sel (N.testbit t 1) G1) (N.lxor (sel (N.testbit t 2) G2)
  (N.lxor (sel (N.testbit t 3) G3) (sel (N.testbit t 4) G4)))).
Definition step (c v : N) : N :=
  N.lxor (N.lxor (N.shiftl (N.land c 0x1ffffff) 5) v) (gens (N.shiftr c 25)).

Lemma sel_xorb a b g : sel (xorb a b) g = N.lxor (sel a g) (sel b g).
Proof. destruct a, b; cbn [sel xorb]; now rewrite ?N.lxor_nilpotent, ?N.lxor_0_r, ?N.lxor_0_l. Qed.

Lemma lxor_swap a b c d : N.lxor (N.lxor a b) (N.lxor c d) = N.lxor (N.lxor a c) (N.lxor b d).
Proof. rewrite !N.lxor_assoc. f_equal. rewrite <- !N.lxor_assoc. f_equal. apply N.lxor_comm. Qed.

Lemma gens_lin t u : gens (N.lxor t u) = N.lxor (gens t) (gens u).
Proof.
  unfold gens. rewrite !N.lxor_spec, !sel_xorb.
  set (a0 := sel (N.testbit t 0) G0). set (b0 := sel (N.testbit u 0) G0).
  set (a1 := sel (N.testbit t 1) G1). set (b1 := sel (N.testbit u 1) G1).
  set (a2 := sel (N.testbit t 2) G2). set (b2 := sel (N.testbit u 2) G2).
  set (a3 := sel (N.testbit t 3) G3). set (b3 := sel (N.testbit u 3) G3).
  set (a4 := sel (N.testbit t 4) G4). set (b4 := sel (N.testbit u 4) G4).
  rewrite (lxor_swap a3 b3 a4 b4).
  rewrite (lxor_swap a2 b2 (N.lxor a3 a4) (N.lxor b3 b4)).
  rewrite (lxor_swap a1 b1 _ _).
  rewrite (lxor_swap a0 b0 _ _). reflexivity.
Qed.

Lemma shiftr_lxor a b n : N.shiftr (N.lxor a b) n = N.lxor (N.shiftr a n) (N.shiftr b n).
Proof. apply N.shiftr_lxor. Qed.

Lemma land_lxor_l a b m : N.land (N.lxor a b) m = N.lxor (N.land a m) (N.land b m).
Proof. apply N.bits_inj; intro i. rewrite !N.land_spec, !N.lxor_spec, !N.land_spec.
  destruct (N.testbit a i), (N.testbit b i), (N.testbit m i); reflexivity. Qed.

Theorem step_linear c1 c2 v1 v2 :
  step (N.lxor c1 c2) (N.lxor v1 v2) = N.lxor (step c1 v1) (step c2 v2).
Proof.
  unfold step. rewrite shiftr_lxor, gens_lin, land_lxor_l, N.shiftl_lxor.
  rewrite (lxor_swap (N.shiftl _ _) (N.shiftl _ _)). apply lxor_swap.
Qed.
Print Assumptions step_linear.

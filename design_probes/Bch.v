From Coq Require Import NArith List FMapPositive Bool.
Import ListNotations.
Open Scope N_scope.

Definition GEN : list N := [0x3b6a57b2; 0x26508e6d; 0x1ea119fa; 0x3d4233dd; 0x2a1462b3].
Definition step (c v : N) : N :=
  let top := N.shiftr c 25 in
  let c1 := N.lxor (N.shiftl (N.land c 0x1ffffff) 5) v in
  fst (fold_left (fun '(acc,i) g => (if N.testbit top i then N.lxor acc g else acc, N.succ i)) GEN (c1,0)).

Fixpoint iter_step (n : nat) (c : N) : N := match n with O => c | S k => iter_step k (step c 0) end.

(* S[j][v] : syndrome of symbol v followed by j zero symbols *)
Definition vals : list N := map N.of_nat (seq 1 31).
Definition row (j : nat) : list N := map (fun v => iter_step j (step 0 v)) vals.
Definition table (L : nat) : list (list N) := map row (seq 0 L).

Definition key (s : N) : positive := N.succ_pos s.

(* A: map syndrome -> j2 (0 for weight 1) ; returns None on duplicate or zero *)
Definition insA (m : option (PositiveMap.t nat)) (s : N) (j : nat) : option (PositiveMap.t nat) :=
  match m with None => None | Some m =>
    if N.eqb s 0 then None else
    match PositiveMap.find (key s) m with Some _ => None | None => Some (PositiveMap.add (key s) j m) end end.

Definition buildA (T : list (list N)) : option (PositiveMap.t nat) :=
  match T with [] => None | r0 :: rest =>
    let m1 := fold_left (fun m s => insA m s O) r0 (Some (PositiveMap.empty nat)) in
    fold_left (fun m s1 =>
      fst (fold_left (fun '(m,j) rj => (fold_left (fun m s2 => insA m (N.lxor s1 s2) j) rj m, S j)) rest (m, 1%nat)))
      r0 m1
  end.

(* check B against A *)
Definition hit (A : PositiveMap.t nat) (s : N) (j3 j4 : nat) : bool :=
  match PositiveMap.find (key s) A with
  | None => false
  | Some p => negb (Nat.eqb p j3 || Nat.eqb p j4)
  end.

Fixpoint checkB2 (A : PositiveMap.t nat) (j3 : nat) (r3 : list N) (j4 : nat) (rs : list (list N)) : bool :=
  match rs with [] => true | r4 :: rs' =>
    forallb (fun a => forallb (fun b => negb (hit A (N.lxor a b) j3 j4)) r4) r3
    && checkB2 A j3 r3 (S j4) rs' end.

Fixpoint checkB (A : PositiveMap.t nat) (j3 : nat) (rs : list (list N)) : bool :=
  match rs with [] => true | r3 :: rs' =>
    forallb (fun a => negb (hit A a j3 j3)) r3 && checkB2 A j3 r3 (S j3) rs' && checkB A (S j3) rs' end.

Definition certificate (L : nat) : bool :=
  let T := table L in
  match buildA T with None => false | Some A => checkB A 1 (tl T) end.

Time Eval vm_compute in certificate 40.
Time Eval vm_compute in certificate 89.
Time Eval vm_compute in certificate 90.

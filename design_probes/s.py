import ast,sys
for fn in sys.argv[1:]:
    src=open(fn).read()
    t=ast.parse(src)
    for n in ast.walk(t):
        if isinstance(n,(ast.FunctionDef,ast.ClassDef,ast.AsyncFunctionDef,ast.Module)):
            if n.body and isinstance(n.body[0],ast.Expr) and isinstance(getattr(n.body[0],'value',None),ast.Constant) and isinstance(n.body[0].value.value,str):
                n.body=n.body[1:] or [ast.Pass()]
    # drop imports
    t.body=[b for b in t.body if not isinstance(b,(ast.Import,ast.ImportFrom))]
    print("########",fn)
    print(ast.unparse(t))

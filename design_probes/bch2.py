import sys
GEN=[(1,0x98f2bc8e61),(2,0x79b76d99e2),(4,0xf33e5fb3c4),(8,0xae2eabe2a8),(16,0x1e4f43e470)]
def step(c,v):
    top=c>>35
    c=((c&0x07ffffffff)<<5)^v
    for b,g in GEN:
        if top&b: c^=g
    return c
def synd(v,j):
    c=step(0,v)
    for _ in range(j): c=step(c,0)
    return c
def check(L):
    S=[[synd(v,j) for v in range(32)] for j in range(L)]
    A={}
    for v1 in range(1,32):
        s=S[0][v1]
        if s==0 or s in A: return "w1"
        A[s]=0
    for v1 in range(1,32):
        for j2 in range(1,L):
            for v2 in range(1,32):
                s=S[0][v1]^S[j2][v2]
                if s==0 or s in A: return "w<=3a"
                A[s]=j2
    for j3 in range(1,L):
        for v3 in range(1,32):
            s=S[j3][v3]
            if s in A and A[s]!=j3: return "w3"
        for j4 in range(j3+1,L):
            for v3 in range(1,32):
                a=S[j3][v3]
                for v4 in range(1,32):
                    s=a^S[j4][v4]
                    if s in A and A[s] not in (j3,j4): return ("w4",A[s],j3,j4)
    return "ok"
for L in map(int,sys.argv[1:]): print(L,check(L))

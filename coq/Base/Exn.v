(* Explicit model of Python's exceptional control flow. *)
From Coq Require Import NArith List.
Import ListNotations.

(* Library-defined exception classes (all distinct Python classes). *)
Inductive lib_exn :=
| Base58ChecksumError | Bech32ChecksumError | SS58ChecksumError | MnemonicChecksumError
| Bip32KeyError | Bip32PathError | Bip44DepthError
| MoneroKeyError | SubstrateKeyError | SubstratePathError.

Inductive exn :=
| ValueError | IndexError | KeyError | TypeError | OverflowError | AssertionError
| AttributeError | UnicodeError            (* UnicodeError is a ValueError subclass *)
| LibError (e : lib_exn)
| Foreign (code : N)                        (* a third-party exception that is no ValueError *)
| OutOfFuel.                                (* model artefact: never a Python outcome *)

Definition res (A : Type) := sum A exn.
Definition Ok {A} (a : A) : res A := inl a.
Definition Err {A} (e : exn) : res A := inr e.

Definition bind {A B} (r : res A) (f : A -> res B) : res B :=
  match r with inl a => f a | inr e => inr e end.
Definition rmap {A B} (f : A -> B) (r : res A) : res B :=
  match r with inl a => inl (f a) | inr e => inr e end.

Declare Scope res_scope.
Delimit Scope res_scope with res.
Notation "x <- r ;; k" := (bind r (fun x => k))
  (at level 61, r at next level, right associativity) : res_scope.
Notation "'guard' b 'else' e ;; k" := (if b then k else inr e)
  (at level 61, b at next level, e at next level, right associativity) : res_scope.
Open Scope res_scope.

Definition of_option {A} (o : option A) (e : exn) : res A :=
  match o with Some a => Ok a | None => Err e end.

Fixpoint mapM {A B} (f : A -> res B) (l : list A) : res (list B) :=
  match l with
  | [] => Ok []
  | x :: t => y <- f x ;; ys <- mapM f t ;; Ok (y :: ys)
  end.

(* The documented family of C14: ValueError and subclasses, or a library class. *)
Definition exn_in_family (e : exn) : bool :=
  match e with
  | ValueError | UnicodeError | LibError _ => true
  | _ => false
  end.
Definition in_family {A} (r : res A) : bool :=
  match r with inl _ => true | inr e => exn_in_family e end.

(* Is the exception a ValueError in the Python sense (isinstance(e, ValueError))?
   Base58ChecksumError, Bech32ChecksumError, SS58ChecksumError and MnemonicChecksumError
   are plain Exception subclasses in bip_utils; Bip32KeyError etc. likewise. *)
Definition is_value_error (e : exn) : bool :=
  match e with ValueError | UnicodeError => true | _ => false end.

Definition lib_code (e : lib_exn) : N :=
  match e with
  | Base58ChecksumError => 1 | Bech32ChecksumError => 2 | SS58ChecksumError => 3
  | MnemonicChecksumError => 4 | Bip32KeyError => 5 | Bip32PathError => 6
  | Bip44DepthError => 7 | MoneroKeyError => 9
  | SubstrateKeyError => 10 | SubstratePathError => 11
  end%N.

Definition exn_code (e : exn) : N :=
  match e with
  | ValueError => 1 | IndexError => 2 | KeyError => 3 | TypeError => 4 | OverflowError => 5
  | AssertionError => 6 | AttributeError => 7 | UnicodeError => 8
  | LibError l => 100 + lib_code l
  | Foreign c => 1000 + c
  | OutOfFuel => 99
  end%N.

Lemma bind_ok {A B} (a : A) (f : A -> res B) : bind (Ok a) f = f a.
Proof. reflexivity. Qed.
Lemma bind_err {A B} e (f : A -> res B) : bind (Err e) f = Err e.
Proof. reflexivity. Qed.

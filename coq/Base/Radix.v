(* Positional radix codecs (least-significant digit first internally), proved once and
   reused for Base58 (58), bytes (256), Electrum v2 (2048), word chunks (1626). *)
From Coq Require Import NArith Arith List Lia.
Import ListNotations.
Open Scope N_scope.

Section Radix.
  Variable r : N.

  Fixpoint from_le (ds : list N) : N :=
    match ds with [] => 0 | d :: t => d + r * from_le t end.

  Fixpoint to_le_fuel (fuel : nat) (v : N) : list N :=
    match fuel with
    | O => []
    | S f => if v =? 0 then [] else v mod r :: to_le_fuel f (v / r)
    end.

  Definition to_le (v : N) : list N := to_le_fuel (N.to_nat (N.size v)) v.

  Definition from_be (ds : list N) : N := from_le (rev ds).
  Definition to_be (v : N) : list N := rev (to_le v).

  (* canonical: every digit below the radix, most significant digit non-zero *)
  Fixpoint canon_le (ds : list N) : Prop :=
    match ds with
    | [] => True
    | d :: t => d < r /\ match t with [] => d <> 0 | _ => canon_le t end
    end.

  Definition digits_ok (ds : list N) : Prop := Forall (fun d => d < r) ds.

  Hypothesis r_ge2 : 2 <= r.

  Lemma canon_le_tail d t : canon_le (d :: t) -> canon_le t.
  Proof. destruct t; simpl; tauto. Qed.

  Lemma canon_le_digits ds : canon_le ds -> digits_ok ds.
  Proof.
    induction ds as [|d t IH]; intros H; constructor.
    - simpl in H; tauto.
    - apply IH. eapply canon_le_tail; eauto.
  Qed.

  Lemma canon_le_pos ds : canon_le ds -> ds <> [] -> 0 < from_le ds.
  Proof.
    induction ds as [|d t IH]; intros H Hne; [congruence|].
    destruct t as [|e t'].
    - simpl in *. lia.
    - assert (0 < from_le (e :: t')) by (apply IH; [eapply canon_le_tail; eauto | congruence]).
      change (0 < d + r * from_le (e :: t')). nia.
  Qed.

  Lemma from_le_inj a : forall b, canon_le a -> canon_le b -> from_le a = from_le b -> a = b.
  Proof.
    induction a as [|d a' IH]; intros b Ha Hb E.
    - destruct b as [|e b']; [reflexivity|].
      pose proof (canon_le_pos _ Hb ltac:(congruence)) as P. cbn [from_le] in *. lia.
    - destruct b as [|e b'].
      + pose proof (canon_le_pos _ Ha ltac:(congruence)) as P. cbn [from_le] in *. lia.
      + change (d + r * from_le a' = e + r * from_le b') in E.
        assert (Hd : d < r) by (simpl in Ha; tauto).
        assert (He : e < r) by (simpl in Hb; tauto).
        destruct (N.div_mod_unique r (from_le a') (from_le b') d e Hd He) as [Eq Er]; [lia|].
        subst e. f_equal. apply IH; auto; eapply canon_le_tail; eauto.
  Qed.

  Lemma to_le_fuel_from fuel : forall v, v < 2 ^ N.of_nat fuel -> from_le (to_le_fuel fuel v) = v.
  Proof.
    induction fuel as [|f IH]; intros v Hv.
    - simpl in *. lia.
    - cbn [to_le_fuel]. destruct (N.eqb_spec v 0) as [->|Hn]; [reflexivity|].
      cbn [from_le]. rewrite IH.
      + rewrite N.add_comm. symmetry. apply N.div_mod. lia.
      + apply N.div_lt_upper_bound; [lia|].
        rewrite Nnat.Nat2N.inj_succ, N.pow_succ_r' in Hv. nia.
  Qed.

  Lemma to_le_fuel_canon fuel : forall v, v < 2 ^ N.of_nat fuel -> canon_le (to_le_fuel fuel v).
  Proof.
    induction fuel as [|f IH]; intros v Hv; [exact I|].
    cbn [to_le_fuel]. destruct (N.eqb_spec v 0) as [->|Hn]; [exact I|].
    assert (Hq : v / r < 2 ^ N.of_nat f).
    { apply N.div_lt_upper_bound; [lia|].
      rewrite Nnat.Nat2N.inj_succ, N.pow_succ_r' in Hv. nia. }
    specialize (IH _ Hq).
    cbn [canon_le]. split; [apply N.mod_lt; lia|].
    destruct (to_le_fuel f (v / r)) as [|e t] eqn:E; [|exact IH].
    (* quotient printed no digit: it is 0 (or fuel ran out, excluded) *)
    destruct f as [|f'].
    - change (N.of_nat 0) with 0 in Hq. rewrite N.pow_0_r in Hq. apply N.lt_1_r in Hq.
      intro Hm. pose proof (N.div_mod v r ltac:(lia)). nia.
    - cbn [to_le_fuel] in E. destruct (N.eqb_spec (v / r) 0) as [Hz|Hz]; [|discriminate].
      intro Hm. pose proof (N.div_mod v r ltac:(lia)). nia.
  Qed.

  Lemma size_bound v : v < 2 ^ N.of_nat (N.to_nat (N.size v)).
  Proof. rewrite Nnat.N2Nat.id. apply N.size_gt. Qed.

  Theorem from_to_le v : from_le (to_le v) = v.
  Proof. apply to_le_fuel_from, size_bound. Qed.

  Theorem to_le_canon v : canon_le (to_le v).
  Proof. apply to_le_fuel_canon, size_bound. Qed.

  Theorem to_from_le ds : canon_le ds -> to_le (from_le ds) = ds.
  Proof.
    intros H. apply from_le_inj; auto using to_le_canon. apply from_to_le.
  Qed.

  Lemma to_le_0 : to_le 0 = [].
  Proof. reflexivity. Qed.

  Lemma to_le_nonzero v : v <> 0 -> to_le v <> [].
  Proof.
    intros Hv E. pose proof (from_to_le v) as F. rewrite E in F. simpl in F. congruence.
  Qed.

  (* fuel independence: any sufficient fuel gives the canonical digits *)
  Lemma to_le_fuel_any fuel v : v < 2 ^ N.of_nat fuel -> to_le_fuel fuel v = to_le v.
  Proof.
    intros H. apply from_le_inj; auto using to_le_canon, to_le_fuel_canon.
    rewrite from_to_le. apply to_le_fuel_from; auto.
  Qed.

  Lemma from_le_app a b : from_le (a ++ b) = from_le a + r ^ N.of_nat (length a) * from_le b.
  Proof.
    induction a as [|d a IH]; cbn [app from_le length].
    - change (N.of_nat 0) with 0. rewrite N.pow_0_r. lia.
    - rewrite IH, Nnat.Nat2N.inj_succ, N.pow_succ_r'. lia.
  Qed.

  Lemma from_le_zeros k : from_le (repeat 0 k) = 0.
  Proof. induction k; simpl; [reflexivity|]. rewrite IHk. lia. Qed.

  Lemma from_le_pad ds k : from_le (ds ++ repeat 0 k) = from_le ds.
  Proof. rewrite from_le_app, from_le_zeros. lia. Qed.

  Lemma from_le_lt ds : digits_ok ds -> from_le ds < r ^ N.of_nat (length ds).
  Proof.
    induction 1 as [|d t Hd Ht IH]; cbn [from_le length].
    - simpl. lia.
    - rewrite Nnat.Nat2N.inj_succ, N.pow_succ_r'. nia.
  Qed.

  Lemma from_le_ge ds : canon_le ds -> ds <> [] -> r ^ N.of_nat (length ds - 1) <= from_le ds.
  Proof.
    induction ds as [|d t IH]; intros H Hne; [congruence|].
    destruct t as [|e t'].
    - simpl in *. lia.
    - assert (P : r ^ N.of_nat (length (e :: t') - 1) <= from_le (e :: t'))
        by (apply IH; [eapply canon_le_tail; eauto | congruence]).
      change (from_le (d :: e :: t')) with (d + r * from_le (e :: t')).
      replace (length (d :: e :: t') - 1)%nat with (S (length (e :: t') - 1)) by (simpl; lia).
      rewrite Nnat.Nat2N.inj_succ, N.pow_succ_r'. nia.
  Qed.

  (* canonical digits followed by zeros: the shape of fixed-width encodings *)
  Lemma canon_le_split ds : digits_ok ds ->
    exists c k, ds = c ++ repeat 0 k /\ canon_le c.
  Proof.
    induction 1 as [|d t Hd Ht (c & k & E & Hc)].
    - exists [], 0%nat. split; [reflexivity|exact I].
    - subst t. destruct c as [|e c'].
      + destruct (N.eq_dec d 0) as [->|Hn].
        * exists [], (S k). split; [reflexivity|exact I].
        * exists [d], k. split; [reflexivity|]. simpl. auto.
      + exists (d :: e :: c'), k. split; [reflexivity|]. cbn [canon_le] in *. auto.
  Qed.

  Lemma canon_le_snoc s x : digits_ok s -> x < r -> x <> 0 -> canon_le (s ++ [x]).
  Proof.
    intros Hs Hx Hx0. induction Hs as [|y s Hy Hs IH]; [simpl; auto|].
    cbn [app canon_le]. split; [exact Hy|].
    destruct (s ++ [x]) as [|n l] eqn:E; [destruct s; discriminate|exact IH].
  Qed.

  Lemma digits_ok_app a b : digits_ok (a ++ b) <-> digits_ok a /\ digits_ok b.
  Proof. unfold digits_ok. apply Forall_app. Qed.

  Lemma digits_ok_zeros k : digits_ok (repeat 0 k).
  Proof. unfold digits_ok. apply Forall_forall. intros x Hx. apply repeat_spec in Hx. lia. Qed.

  Lemma digits_ok_rev a : digits_ok a -> digits_ok (rev a).
  Proof. unfold digits_ok. apply Forall_rev. Qed.

  Lemma to_le_digits v : digits_ok (to_le v).
  Proof. apply canon_le_digits, to_le_canon. Qed.

  Lemma to_le_length_le v w : v < r ^ N.of_nat w -> (length (to_le v) <= w)%nat.
  Proof.
    intros Hv. pose proof (from_le_ge (to_le v) (to_le_canon v)) as G. rewrite from_to_le in G.
    destruct (Nat.leb_spec (length (to_le v)) w) as [|Hgt]; [assumption|].
    exfalso. assert (Hne : to_le v <> []) by (intro E; rewrite E in Hgt; simpl in Hgt; lia).
    specialize (G Hne).
    assert (r ^ N.of_nat w <= r ^ N.of_nat (length (to_le v) - 1))
      by (apply N.pow_le_mono_r; lia).
    lia.
  Qed.

End Radix.

Arguments from_le r ds : simpl nomatch.

(* Uniform value type of the model API used by the correspondence driver. *)
From Coq Require Import NArith ZArith List String.
From BU Require Import Base.Exn.
Import ListNotations.

Inductive val := VN (n : N) | VZ (z : Z) | VB (l : list N) | VL (l : list val).

Definition VBool (b : bool) : val := VN (if b then 1%N else 0%N).
Definition VNat (n : nat) : val := VN (N.of_nat n).
Definition VOpt (o : option val) : val := match o with Some v => VL [v] | None => VL [] end.
Definition VUnit : val := VL [].

Definition bad_call {A} : res A := Err (Foreign 0).

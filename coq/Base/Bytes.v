(* Byte strings / code-point strings as [list N]; Python primitives on them. *)
From Coq Require Import NArith Arith List Lia Bool.
From BU Require Import Base.Exn Base.Radix.
Import ListNotations.
Open Scope N_scope.

Lemma r256 : 2 <= 256. Proof. lia. Qed.

Definition bytes_ok (l : list N) : Prop := Forall (fun b => b < 256) l.
Definition bytes_okb (l : list N) : bool := forallb (fun b => b <? 256) l.

Lemma bytes_okb_spec l : bytes_okb l = true <-> bytes_ok l.
Proof.
  unfold bytes_okb, bytes_ok. rewrite forallb_forall, Forall_forall.
  split; intros H x Hx; specialize (H x Hx); [apply N.ltb_lt|apply N.ltb_lt]; assumption.
Qed.

Lemma bytes_ok_digits l : bytes_ok l <-> digits_ok 256 l.
Proof. reflexivity. Qed.

Fixpoint list_eqb (a b : list N) : bool :=
  match a, b with
  | [], [] => true
  | x :: a', y :: b' => (x =? y) && list_eqb a' b'
  | _, _ => false
  end.

Lemma list_eqb_spec a : forall b, list_eqb a b = true <-> a = b.
Proof.
  induction a as [|x a IH]; destruct b as [|y b]; simpl; try (split; congruence).
  rewrite andb_true_iff, N.eqb_eq, IH. split; [intros [-> ->]; reflexivity|intros E; inversion E; auto].
Qed.

Lemma list_eqb_refl a : list_eqb a a = true.
Proof. apply list_eqb_spec; reflexivity. Qed.

(* int.from_bytes / int.to_bytes *)
Definition be_to_int (b : list N) : N := from_be 256 b.
Definition le_to_int (b : list N) : N := from_le 256 b.

(* minimal-width big-endian digits: 0 -> [] *)
Definition int_to_be_min (v : N) : list N := to_be 256 v.
Definition int_to_le_min (v : N) : list N := to_le 256 v.

(* int.to_bytes(w, 'little'/'big'): OverflowError when it does not fit *)
Definition int_to_le_fixed (w : nat) (v : N) : res (list N) :=
  let d := to_le 256 v in
  if (length d <=? w)%nat then Ok (d ++ repeat 0 (w - length d)) else Err OverflowError.
Definition int_to_be_fixed (w : nat) (v : N) : res (list N) :=
  rmap (@rev N) (int_to_le_fixed w v).

(* IntegerUtils.GetBytesNumber / ToBytes(bytes_num=None) *)
Definition get_bytes_number (v : N) : nat := Nat.max 1 (length (to_le 256 v)).
Definition int_to_be_auto (v : N) : list N :=
  match int_to_be_fixed (get_bytes_number v) v with inl b => b | inr _ => [] end.

(* str/bytes.lstrip(c) for a single symbol c *)
Fixpoint lstrip (c : N) (l : list N) : list N :=
  match l with
  | x :: t => if x =? c then lstrip c t else l
  | [] => []
  end.
Fixpoint lead_count (c : N) (l : list N) : nat :=
  match l with
  | x :: t => if x =? c then S (lead_count c t) else O
  | [] => O
  end.

Lemma lead_count_lstrip c l : l = repeat c (lead_count c l) ++ lstrip c l.
Proof.
  induction l as [|x t IH]; [reflexivity|]. simpl.
  destruct (N.eqb_spec x c) as [->|]; [simpl; f_equal; exact IH | reflexivity].
Qed.

Lemma lead_count_length c l : (length l = lead_count c l + length (lstrip c l))%nat.
Proof.
  rewrite (lead_count_lstrip c l) at 1. rewrite app_length, repeat_length. reflexivity.
Qed.

Lemma lstrip_hd c l : forall x t, lstrip c l = x :: t -> x <> c.
Proof.
  induction l as [|y l IH]; intros x t E; [discriminate|]. simpl in E.
  destruct (N.eqb_spec y c); [eauto|]. inversion E; subst; auto.
Qed.

Lemma lead_count_repeat_app c k l : (forall x t, l = x :: t -> x <> c) ->
  lead_count c (repeat c k ++ l) = k /\ lstrip c (repeat c k ++ l) = l.
Proof.
  intros H. induction k as [|k [IH1 IH2]]; simpl.
  - destruct l as [|x t]; [auto|]. simpl. specialize (H x t eq_refl).
    destruct (N.eqb_spec x c); [contradiction|auto].
  - rewrite N.eqb_refl. split; congruence.
Qed.

(* str.index(c): position of first occurrence or ValueError *)
Fixpoint index_of (c : N) (l : list N) : option nat :=
  match l with
  | [] => None
  | x :: t => if x =? c then Some O else option_map S (index_of c t)
  end.

Lemma index_of_nth c l : forall i, index_of c l = Some i -> nth_error l i = Some c.
Proof.
  induction l as [|x t IH]; intros i E; [discriminate|]. simpl in E.
  destruct (N.eqb_spec x c) as [->|].
  - inversion E; reflexivity.
  - destruct (index_of c t) as [j|]; [|discriminate]. inversion E; subst. simpl. auto.
Qed.

Lemma index_of_lt c l i : index_of c l = Some i -> (i < length l)%nat.
Proof. intros H. apply index_of_nth in H. apply nth_error_Some. congruence. Qed.

Lemma index_of_nodup l : NoDup l -> forall i c, nth_error l i = Some c -> index_of c l = Some i.
Proof.
  induction 1 as [|x t Hx Hnd IH]; intros i c E; [destruct i; discriminate|].
  destruct i as [|i]; simpl in *.
  - inversion E; subst. rewrite N.eqb_refl. reflexivity.
  - destruct (N.eqb_spec x c) as [->|].
    + exfalso. apply Hx. eapply nth_error_In; eauto.
    + rewrite (IH _ _ E). reflexivity.
Qed.

Lemma index_of_none c l : index_of c l = None <-> ~ In c l.
Proof.
  induction l as [|x t IH]; simpl; [tauto|].
  destruct (N.eqb_spec x c) as [->|Hn].
  - split; [discriminate|intros H; exfalso; apply H; auto].
  - destruct (index_of c t) as [k|]; simpl.
    + split; [discriminate|]. intros H. exfalso. apply H. right.
      destruct (in_dec N.eq_dec c t) as [|Hni]; auto.
      apply IH in Hni. discriminate.
    + split; [|reflexivity]. intros _ [E|I]; [congruence|]. apply IH in I; auto.
Qed.

(* Python slicing b[i:j] with 0 <= i, clamped *)
Definition slice (i j : nat) (l : list N) : list N := firstn (j - i) (skipn i l).
(* b[-k:] and b[:-k] for k > 0 *)
Definition take_last (k : nat) (l : list N) : list N := skipn (length l - k) l.
Definition drop_last (k : nat) (l : list N) : list N := firstn (length l - k) l.

Lemma drop_take_last k l : drop_last k l ++ take_last k l = l.
Proof. apply firstn_skipn. Qed.

Lemma drop_last_app a b : drop_last (length b) (a ++ b) = a.
Proof.
  unfold drop_last. rewrite app_length, Nat.add_sub, firstn_app, Nat.sub_diag, firstn_all.
  simpl. apply app_nil_r.
Qed.
Lemma take_last_app a b : take_last (length b) (a ++ b) = b.
Proof.
  unfold take_last. rewrite app_length, Nat.add_sub, skipn_app, Nat.sub_diag, skipn_all.
  reflexivity.
Qed.

Lemma drop_last_app' k a b : length b = k -> drop_last k (a ++ b) = a.
Proof. intros <-. apply drop_last_app. Qed.
Lemma take_last_app' k a b : length b = k -> take_last k (a ++ b) = b.
Proof. intros <-. apply take_last_app. Qed.

Lemma bytes_ok_app a b : bytes_ok (a ++ b) <-> bytes_ok a /\ bytes_ok b.
Proof. apply Forall_app. Qed.
Lemma bytes_ok_firstn k a : bytes_ok a -> bytes_ok (firstn k a).
Proof.
  intros H. rewrite <- (firstn_skipn k a) in H. apply Forall_app in H. tauto.
Qed.
Lemma bytes_ok_skipn k a : bytes_ok a -> bytes_ok (skipn k a).
Proof.
  intros H. rewrite <- (firstn_skipn k a) in H. apply Forall_app in H. tauto.
Qed.
Lemma bytes_ok_rev a : bytes_ok a -> bytes_ok (rev a).
Proof. apply Forall_rev. Qed.
Lemma bytes_ok_repeat0 k : bytes_ok (repeat 0 k).
Proof. apply (digits_ok_zeros 256 r256). Qed.

(* ---- integer <-> bytes round trips ---- *)

Lemma int_to_be_min_ok v : bytes_ok (int_to_be_min v).
Proof. apply bytes_ok_rev, (to_le_digits 256 r256). Qed.

Lemma be_to_int_min v : be_to_int (int_to_be_min v) = v.
Proof. unfold be_to_int, int_to_be_min, from_be, to_be. rewrite rev_involutive. apply from_to_le, r256. Qed.

Lemma repeat_snoc (x : N) k : repeat x k ++ [x] = x :: repeat x k.
Proof. induction k; simpl; [reflexivity|]. f_equal; exact IHk. Qed.
Lemma rev_repeat (x : N) k : rev (repeat x k) = repeat x k.
Proof. induction k; simpl; [reflexivity|]. rewrite IHk. apply repeat_snoc. Qed.

Lemma be_to_int_zeros k b : be_to_int (repeat 0 k ++ b) = be_to_int b.
Proof.
  unfold be_to_int, from_be. rewrite rev_app_distr, rev_repeat. apply (from_le_pad 256 r256).
Qed.

(* bytes with no leading zero are the minimal encoding of their value *)
Lemma int_to_be_min_of_stripped b : bytes_ok b -> (forall x t, b = x :: t -> x <> 0) ->
  int_to_be_min (be_to_int b) = b.
Proof.
  intros Hb Hhd. unfold int_to_be_min, be_to_int, to_be, from_be.
  rewrite (to_from_le 256 r256); [apply rev_involutive|].
  destruct b as [|x t]; [exact I|].
  assert (Hx : x < 256) by (inversion Hb; auto).
  assert (Ht : bytes_ok t) by (inversion Hb; auto).
  assert (Hx0 : x <> 0) by (eapply Hhd; eauto).
  simpl. apply (canon_le_snoc 256); auto. apply bytes_ok_rev; auto.
Qed.

Lemma int_to_le_fixed_ok w v b : int_to_le_fixed w v = Ok b -> bytes_ok b /\ length b = w /\ le_to_int b = v.
Proof.
  unfold int_to_le_fixed. destruct (Nat.leb_spec (length (to_le 256 v)) w) as [Hl|]; [|discriminate].
  intros E. inversion E; subst; clear E. split; [|split].
  - apply bytes_ok_app; split; [apply (to_le_digits 256 r256)|apply bytes_ok_repeat0].
  - rewrite app_length, repeat_length. lia.
  - unfold le_to_int. rewrite (from_le_pad 256 r256). apply from_to_le, r256.
Qed.

Lemma int_to_le_fixed_fits w v : v < 256 ^ N.of_nat w -> exists b, int_to_le_fixed w v = Ok b.
Proof.
  intros H. unfold int_to_le_fixed. pose proof (to_le_length_le 256 r256 v w H) as L.
  destruct (Nat.leb_spec (length (to_le 256 v)) w); [eauto|lia].
Qed.

Lemma le_fixed_roundtrip b : bytes_ok b -> int_to_le_fixed (length b) (le_to_int b) = Ok b.
Proof.
  intros Hb. destruct (canon_le_split 256 b Hb) as (c & k & -> & Hc).
  unfold int_to_le_fixed, le_to_int. rewrite (from_le_pad 256 r256), (to_from_le 256 r256 c Hc).
  rewrite app_length, repeat_length.
  destruct (Nat.leb_spec (length c) (length c + k)); [|lia].
  do 2 f_equal. f_equal. lia.
Qed.

Lemma be_fixed_roundtrip b : bytes_ok b -> int_to_be_fixed (length b) (be_to_int b) = Ok b.
Proof.
  intros Hb. unfold int_to_be_fixed, be_to_int, from_be.
  rewrite <- (rev_length b). change (from_le 256 (rev b)) with (le_to_int (rev b)).
  rewrite le_fixed_roundtrip by (apply bytes_ok_rev; auto). simpl. unfold Ok. f_equal. apply rev_involutive.
Qed.

(* decidable NoDup on list N *)
Fixpoint memb (x : N) (l : list N) : bool :=
  match l with [] => false | y :: t => (x =? y) || memb x t end.
Fixpoint nodupb (l : list N) : bool :=
  match l with [] => true | x :: t => negb (memb x t) && nodupb t end.

Lemma memb_In x l : memb x l = true <-> In x l.
Proof.
  induction l as [|y t IH]; simpl; [split; [discriminate|tauto]|].
  rewrite orb_true_iff, N.eqb_eq, IH. split; intros [H|H]; auto.
Qed.

Lemma nodupb_sound l : nodupb l = true -> NoDup l.
Proof.
  induction l as [|x t IH]; simpl; [constructor|].
  rewrite andb_true_iff, negb_true_iff. intros [H1 H2]. constructor; auto.
  intro I. apply memb_In in I. congruence.
Qed.

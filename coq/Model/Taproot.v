(* bip_utils/addr/P2TR_addr.py : _P2TRUtils (BIP-341 key-path output key, no script tree).
   Curve arithmetic is abstract: points are affine pairs, [None] is the point at infinity. *)
From Coq Require Import NArith List.
From BU Require Import Base.Exn Base.Radix Base.Bytes Gen.AddrTextConsts.
Import ListNotations.
Open Scope N_scope.

Section Taproot.
  Variable sha256 : list N -> list N.
  Variable sqrt_even : N -> option N.                (* LiftX: the even y with y^2 = x^3 + 7 mod p, if any *)
  Variable ec_add : option (N * N) -> option (N * N) -> option (N * N).
  Variable ec_mul_base : N -> res (option (N * N)). (* k*G; the coincurve back-end raises for k = 0 mod n / k >= n *)
  Variable coord_len : nat.                          (* Secp256k1Point.CoordinateLength() *)

  Definition tagged_hash (tag_hash data : list N) : list N := sha256 (tag_hash ++ tag_hash ++ data).

  (* x: the X coordinate of the (already validated) public key *)
  Definition tweak_x (x : N) : res (list N) :=
    xb <- int_to_be_fixed coord_len x ;;
    let h := tagged_hash p2tr_tap_tweak_sha256 xb in
    _ <- (if p2tr_field_size <=? x then Err ValueError else Ok tt) ;;
    y <- of_option (sqrt_even x) ValueError ;;
    hG <- ec_mul_base (be_to_int h) ;;
    match ec_add (Some (x, y)) hG with
    | None => Err ValueError
    | Some (qx, _) => int_to_be_fixed coord_len qx
    end.

  (* pub_c: 33-byte compressed key; only its X coordinate is used *)
  Definition tweak (pub_c : list N) : res (list N) := tweak_x (be_to_int (skipn 1 pub_c)).
End Taproot.

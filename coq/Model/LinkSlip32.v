(* LINK (definitions only): SLIP-32 on the concrete Bech32 codec of Model/Bech32.v.
   Model/Slip32.v takes the encoder as a TOTAL function [list N -> list N -> list N]; the concrete
   [bech32_encode] returns [res] (it regroups bits and indexes the character set, both partial), so
   the serialiser is restated here over a [res]-valued encoder -- the only change is that the
   encoder's result is bound instead of wrapped.  The payload builder [slip32_payload] and the whole
   deserialiser are those of Model/Slip32.v. *)
From Coq Require Import NArith ZArith List Bool.
From BU Require Import Base.Exn Base.Radix Base.Bytes Gen.SerbipConsts Model.Bip32Data Model.Slip32 Model.Bech32.
Import ListNotations.
Open Scope N_scope.

Section Slip32Res.
  Variable bech_enc : list N -> list N -> res (list N).       (* Bech32Encoder.Encode(hrp, data) *)

  Definition slip32_serialize_r (key_bytes path cc hrp : list N) : res (list N) :=
    p <- slip32_payload key_bytes path cc ;; bech_enc hrp p.
  Definition slip32_ser_priv_r (v : slip32_ver) (path cc raw : list N) : res (list N) :=
    slip32_serialize_r (slip32_priv_pad :: raw) path cc (snd v).
  Definition slip32_ser_pub_r (v : slip32_ver) (path cc compressed : list N) : res (list N) :=
    slip32_serialize_r compressed path cc (fst v).
End Slip32Res.

(* Slip32PrivateKeySerializer.Serialize / Slip32PublicKeySerializer.Serialize / Slip32KeyDeserializer.DeserializeKey
   with nothing left abstract *)
Definition slip32c_ser_priv : slip32_ver -> list N -> list N -> list N -> res (list N) := slip32_ser_priv_r bech32_encode.
Definition slip32c_ser_pub : slip32_ver -> list N -> list N -> list N -> res (list N) := slip32_ser_pub_r bech32_encode.
Definition slip32c_deserialize : list N -> slip32_ver -> res (list N * list N * list N * bool) :=
  slip32_deserialize bech32_decode.

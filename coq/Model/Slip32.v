(* bip_utils/slip/slip32/slip32.py : SLIP-32 extended keys (path-carrying, Bech32 text layer).
   The Bech32 codec (bip_utils/bech32, modelled elsewhere) is a pair of Section variables; paths are
   lists of already-parsed key indices (Bip32Path objects). *)
From Coq Require Import NArith ZArith List Bool.
From BU Require Import Base.Exn Base.Radix Base.Bytes Gen.SerbipConsts Model.Bip32Data.
Import ListNotations.
Open Scope N_scope.

Section Slip32.
  Variable bech_enc : list N -> list N -> list N.          (* Bech32Encoder.Encode(hrp, data) *)
  Variable bech_dec : list N -> list N -> res (list N).    (* Bech32Decoder.Decode(hrp, str) *)

  Definition slip32_ver := (list N * list N)%type.         (* (public hrp, private hrp) *)

  (* _Slip32KeySerializer.Serialize (path given as a Bip32Path: a list of key indices) *)
  Definition slip32_payload (key_bytes : list N) (path : list N) (cc : list N) : res (list N) :=
    cc' <- mk_chain_code cc ;;
    d <- (dd <- mk_depth (Z.of_nat (length path)) ;; depth_to_bytes dd) ;;
    pb <- mapM index_to_bytes path ;;
    Ok (d ++ concat pb ++ cc' ++ key_bytes).
  Definition slip32_serialize (key_bytes path cc hrp : list N) : res (list N) :=
    p <- slip32_payload key_bytes path cc ;; Ok (bech_enc hrp p).

  Definition slip32_ser_priv (v : slip32_ver) (path cc raw : list N) : res (list N) :=
    slip32_serialize (slip32_priv_pad :: raw) path cc (snd v).
  Definition slip32_ser_pub (v : slip32_ver) (path cc compressed : list N) : res (list N) :=
    slip32_serialize compressed path cc (fst v).

  (* Slip32KeyDeserializer.__GetIfPublic : a prefix test on the raw string *)
  Definition slip32_get_if_public (s : list N) (v : slip32_ver) : res bool :=
    if list_eqb (firstn (length (fst v)) s) (fst v) then Ok true
    else if list_eqb (firstn (length (snd v)) s) (snd v) then Ok false
    else Err ValueError.

  Definition path_idx := bip32_depth_len.

  (* the for-loop collecting [depth] key indices *)
  Fixpoint slip32_path (ser : list N) (start : nat) (count : nat) : res (list N) :=
    match count with
    | O => Ok []
    | S c =>
      i <- index_from_bytes (slice start (start + bip32_index_len) ser) ;;
      t <- slip32_path ser (start + bip32_index_len) c ;;
      Ok (i :: t)
    end.

  (* Slip32KeyDeserializer.__GetPartsFromBytes
     (an empty payload and a private payload that ends before the key part are rejected with ValueError
      by explicit length tests placed before the two index operations -- the repair of finding F12) *)
  Definition slip32_parts (ser : list N) (is_public : bool) : res (list N * list N * list N) :=
    depth <- of_option (nth_error ser 0) ValueError ;;
    let dn := N.to_nat depth in
    path <- slip32_path ser path_idx dn ;;
    let chain_code_idx := (path_idx + dn * bip32_index_len)%nat in
    let key_idx := (chain_code_idx + bip32_chaincode_len)%nat in
    let chain_code_bytes := slice chain_code_idx key_idx ser in
    let key_bytes := skipn key_idx ser in
    key <- (if is_public then Ok key_bytes
            else k0 <- of_option (nth_error key_bytes 0) ValueError ;;
                 if negb (k0 =? slip32_priv_pad_expected) then Err ValueError else Ok (skipn 1 key_bytes)) ;;
    cc <- mk_chain_code chain_code_bytes ;;
    Ok (key, path, cc).

  (* Slip32KeyDeserializer.DeserializeKey -> (key bytes, path, chain code, is_public) *)
  Definition slip32_deserialize (s : list N) (v : slip32_ver) : res (list N * list N * list N * bool) :=
    is_public <- slip32_get_if_public s v ;;
    ser <- bech_dec (if is_public then fst v else snd v) s ;;
    p <- slip32_parts ser is_public ;;
    Ok (p, is_public).
End Slip32.

(* bip_utils/wif/wif.py : WifEncoder.Encode / WifDecoder.Decode (bytes keys).
   Secp256k1PrivateKey.IsValidBytes / FromBytes is an oracle [valid_key] (32 bytes, 0 < k < n);
   for a valid key, [priv_key.Raw().ToBytes()] is the key bytes themselves.
   The public-key mode is a bool: true = COMPRESSED. *)
From Coq Require Import NArith Arith List Bool.
From BU Require Import Base.Exn Base.Radix Base.Bytes Model.Base58.
Import ListNotations.
Open Scope N_scope.

Section Wif.
  Variable alph : list N.                 (* Base58 Bitcoin alphabet *)
  Variable radix : N.
  Variable cklen : nat.
  Variable sha256 : list N -> list N.     (* oracle *)
  Variable valid_key : list N -> bool.    (* oracle: Secp256k1PrivateKey.IsValidBytes *)
  Variable suffix : N.                    (* ord(WifConst.COMPR_PUB_KEY_SUFFIX) *)

  (* WifEncoder.Encode(priv_key: bytes, net_ver, pub_key_mode) *)
  Definition wif_encode (priv_key net_ver : list N) (compressed : bool) : res (list N) :=
    if negb (valid_key priv_key) then Err ValueError else
    let k := if compressed then priv_key ++ [suffix] else priv_key in
    Ok (check_encode alph radix cklen sha256 (net_ver ++ k)).

  (* ord(net_ver): TypeError unless exactly one byte *)
  Definition ord1 (b : list N) : res N :=
    match b with [x] => Ok x | _ => Err TypeError end.

  (* b[-1] *)
  Definition last_byte (b : list N) : res N :=
    match rev b with x :: _ => Ok x | [] => Err IndexError end.

  (* WifDecoder.Decode(wif_str, net_ver) *)
  Definition wif_decode (wif_str net_ver : list N) : res (list N * bool) :=
    if negb (length net_ver =? 1)%nat then Err ValueError else      (* "Invalid net version length" *)
    priv_key_bytes <- check_decode alph radix cklen sha256 wif_str ;;
    if (length priv_key_bytes =? 0)%nat then Err ValueError else    (* "Invalid decoded key (empty)" *)
    first <- of_option (hd_error priv_key_bytes) IndexError ;;      (* priv_key_bytes[0] *)
    nv <- ord1 net_ver ;;
    if negb (first =? nv) then Err ValueError else
    let k := tl priv_key_bytes in                                  (* priv_key_bytes[1:] *)
    if valid_key (drop_last 1 k) then                              (* priv_key_bytes[:-1] *)
      l <- last_byte k ;;
      if negb (l =? suffix) then Err ValueError
      else Ok (drop_last 1 k, true)
    else if negb (valid_key k) then Err ValueError
    else Ok (k, false).
End Wif.

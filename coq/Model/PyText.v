(* Table-driven Python str / int() primitives over code-point lists (DESIGN.md section 3, "Text").
   The tables are Gen/Unicode.v, measured on the running interpreter by harness/gen_unicode.py.
   Definitions only; proofs are in Lemmas/PyText.v and Lemmas/UnicodeOk.v. *)
From Coq Require Import NArith ZArith List Bool.
From BU Require Import Base.Exn Base.Radix Base.Bytes Gen.Unicode.
Import ListNotations.
Open Scope N_scope.

(* ---- range tables ---- *)

(* membership in a list of inclusive ranges (linear scan; the largest table has ~200 entries) *)
Fixpoint in_ranges (rs : list (N * N)) (c : N) : bool :=
  match rs with
  | [] => false
  | (lo, hi) :: t => ((lo <=? c) && (c <=? hi)) || in_ranges t c
  end.

(* [lo, hi] is covered by the union of the ranges; fuel = number of ranges is always enough *)
Fixpoint find_range (rs : list (N * N)) (c : N) : option (N * N) :=
  match rs with
  | [] => None
  | (lo, hi) :: t => if (lo <=? c) && (c <=? hi) then Some (lo, hi) else find_range t c
  end.
Fixpoint covers_fuel (fuel : nat) (rs : list (N * N)) (lo hi : N) : bool :=
  match fuel with
  | O => false
  | S f => match find_range rs lo with
           | None => false
           | Some (_, h) => if hi <=? h then true else covers_fuel f rs (h + 1) hi
           end
  end.
Definition ranges_subset (a b : list (N * N)) : bool :=
  forallb (fun r => covers_fuel (S (length b)) b (fst r) (snd r)) a.
(* no common point *)
Definition ranges_disjoint (a b : list (N * N)) : bool :=
  forallb (fun r => forallb (fun s => (snd r <? fst s) || (snd s <? fst r)) b) a.
(* every range lies below a bound *)
Definition ranges_below (bound : N) (a : list (N * N)) : bool :=
  forallb (fun r => snd r <? bound) a.

(* ---- code-point predicates ---- *)
Definition cp_isnumeric (c : N) : bool := in_ranges uc_isnumeric_ranges c.
Definition cp_isdecimal (c : N) : bool := in_ranges uc_isdecimal_ranges c.
Definition cp_isdigit (c : N) : bool := in_ranges uc_isdigit_ranges c.
Definition cp_isspace (c : N) : bool := in_ranges uc_isspace_ranges c.
Definition cp_strip_ws (c : N) : bool := in_ranges uc_strip_ranges c.
Definition cp_split_ws (c : N) : bool := in_ranges uc_split_ranges c.
Definition cp_int_space (c : N) : bool := in_ranges uc_int_space_ranges c.

(* digit value int() assigns to a decimal code point *)
Fixpoint run_value (runs : list (N * N * N)) (c : N) : option N :=
  match runs with
  | [] => None
  | (lo, hi, v0) :: t => if (lo <=? c) && (c <=? hi) then Some (v0 + (c - lo)) else run_value t c
  end.
Definition cp_digit_val (c : N) : option N := run_value uc_decimal_runs c.

(* ---- str methods ---- *)

(* s.isnumeric() / s.isdecimal(): non-empty and every character qualifies *)
Definition nonempty {A} (l : list A) : bool := match l with [] => false | _ => true end.
Definition py_isnumeric (s : list N) : bool := nonempty s && forallb cp_isnumeric s.
Definition py_isdecimal (s : list N) : bool := nonempty s && forallb cp_isdecimal s.

Fixpoint lstrip_by (p : N -> bool) (l : list N) : list N :=
  match l with
  | x :: t => if p x then lstrip_by p t else l
  | [] => []
  end.
Definition rstrip_by (p : N -> bool) (l : list N) : list N := rev (lstrip_by p (rev l)).
Definition strip_by (p : N -> bool) (l : list N) : list N := rstrip_by p (lstrip_by p l).

(* s.strip() *)
Definition py_strip (s : list N) : list N := strip_by cp_strip_ws s.

(* s.split(sep) for a one-character separator: always at least one field *)
Fixpoint split_on (c : N) (s : list N) : list (list N) :=
  match s with
  | [] => [[]]
  | x :: t => if x =? c then [] :: split_on c t
              else match split_on c t with
                   | h :: r => (x :: h) :: r
                   | [] => [[x]]
                   end
  end.

(* s.endswith(suffix) *)
Fixpoint starts_with (p s : list N) : bool :=
  match p, s with
  | [], _ => true
  | x :: p', y :: s' => (x =? y) && starts_with p' s'
  | _ :: _, [] => false
  end.
Definition ends_with (suf s : list N) : bool := starts_with (rev suf) (rev s).

(* str(n) for n >= 0 *)
Definition ascii_zero : N := 48.
Definition str_of_N (n : N) : list N :=
  if n =? 0 then [ascii_zero] else map (fun d => ascii_zero + d) (to_be 10 n).

(* ---- int(str) (base 10) ----
   Grammar accepted by CPython (Objects/longobject.c: PyLong_FromUnicodeObject, PyLong_FromString):
       ws* [+-]? D (_? D)* ws*
   D any Unicode decimal digit (each is first mapped to its ASCII digit), ws the interpreter's
   int-white-space set; more than sys.get_int_max_str_digits() digits (leading zeros included,
   underscores not) -> ValueError as well.  Every deviation is a plain ValueError.
   These grammar facts are probed by harness/gen_unicode.py on every run (fail-closed). *)
Definition ch_plus : N := 43.
Definition ch_minus : N := 45.
Definition ch_underscore : N := 95.

Fixpoint int_digits (l : list N) : option (list N) :=
  match l with
  | [] => None
  | c :: r =>
    match cp_digit_val c with
    | None => None
    | Some d =>
      match r with
      | [] => Some [d]
      | u :: r' => if u =? ch_underscore then option_map (cons d) (int_digits r')
                   else option_map (cons d) (int_digits r)
      end
    end
  end.

Definition int_limit_ok (ndigits : nat) : bool :=
  (uc_int_max_str_digits =? 0) || (N.of_nat ndigits <=? uc_int_max_str_digits).

Definition py_int (s : list N) : res Z :=
  let t := strip_by cp_int_space s in
  let '(neg, body) := match t with
                      | c :: r => if c =? ch_plus then (false, r)
                                  else if c =? ch_minus then (true, r) else (false, t)
                      | [] => (false, t)
                      end in
  match int_digits body with
  | None => Err ValueError
  | Some ds =>
    if int_limit_ok (length ds)
    then let v := Z.of_N (from_be 10 ds) in Ok (if neg then Z.opp v else v)
    else Err ValueError
  end.

(* LINK (definitions only): the Substrate wallet path end to end -- derive along a path (Model/SubstratePath.v, sr25519
   an oracle), then SubstratePublicKey.ToAddress(): SubstrateSr25519AddrEncoder.EncodeKey(pub, ss58_format=...), which
   is SS58 (Model/SS58.v through Model/Codecs.v) of the 32-byte public key. *)
From Coq Require Import NArith ZArith List Bool.
From BU Require Import Base.Exn Base.Bytes Model.Codecs Model.AddrText Model.SubstratePath.
Import ListNotations.
Open Scope N_scope.

Section SubstrateC.
  Variables blake2b_256 blake2b_512 : list N -> list N.
  Variable hard_derive : list N -> list N -> list N -> list N * list N.
  Variable soft_derive : list N -> list N -> list N -> list N * list N.
  Variable soft_derive_pub : list N -> list N -> list N.
  Variable valid_pub : N -> list N -> bool.

  Definition ss58_enc_c (d : list N) (f : N) : res (list N) := ss58_encode blake2b_512 d (Z.of_N f).
  Definition ss58_dec_c (s : list N) : res (N * list N) := ss58_decode blake2b_512 s.

  (* SubstratePublicKey.ToAddress() under the coin's SS58 format *)
  Definition sub_address (fmt : N) (k : skey) : res (list N) := substrate_encode ss58_enc_c fmt (k_pub k).
  (* SubstrateSr25519AddrDecoder.DecodeAddr(addr, ss58_format=fmt); 4 is the sr25519 tag of [valid_pub] *)
  Definition sub_address_decode (fmt : N) (addr : list N) : res (list N) :=
    substrate_decode valid_pub ss58_dec_c 4 fmt addr.

  (* Substrate.DerivePath(path).PublicKey().ToAddress() *)
  Definition sub_wallet_address (fmt : N) (k : skey) (path : list N) : res (list N) :=
    k' <- derive_path_str blake2b_256 hard_derive soft_derive soft_derive_pub k path ;; sub_address fmt k'.
End SubstrateC.

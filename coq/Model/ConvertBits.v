(* bip_utils/bech32/bech32_base.py : Bech32BaseUtils.ConvertBits / ConvertToBase32 / ConvertFromBase32.
   Definitions only.  The loop is transcribed with the code's own shifts and masks; the result list is
   accumulated in reverse (ret.append(x) is x :: rret) and reversed at the end. *)
From Coq Require Import NArith List Bool.
From BU Require Import Base.Exn.
Import ListNotations.
Open Scope N_scope.

Section ConvertBits.
  Variables from_bits to_bits : N.

  Definition max_out_val : N := N.shiftl 1 to_bits - 1.
  Definition max_acc : N := N.shiftl 1 (from_bits + to_bits - 1) - 1.

  (* while bits >= to_bits: bits -= to_bits; ret.append((acc >> bits) & max_out_val)
     Fuel: one more than the number of bits held; with to_bits = 0 the Python loop never ends and the
     model runs out of fuel. *)
  Fixpoint emit (fuel : nat) (acc bits : N) (rret : list N) : option (N * list N) :=
    if bits <? to_bits then Some (bits, rret)
    else match fuel with
         | O => None
         | S f => emit f acc (bits - to_bits)
                       (N.land (N.shiftr acc (bits - to_bits)) max_out_val :: rret)
         end.

  (* for value in data: ...   Result: Ok None = the function returned None (value out of range) *)
  Fixpoint loop (data : list N) (acc bits : N) (rret : list N) : res (option (N * N * list N)) :=
    match data with
    | [] => Ok (Some (acc, bits, rret))
    | v :: t =>
        if negb (N.shiftr v from_bits =? 0) then Ok None
        else
          let acc1 := N.land (N.lor (N.shiftl acc from_bits) v) max_acc in
          let bits1 := bits + from_bits in
          match emit (S (N.to_nat bits1)) acc1 bits1 rret with
          | None => Err OutOfFuel
          | Some (bits2, rret2) => loop t acc1 bits2 rret2
          end
    end.

  (* Bech32BaseUtils.ConvertBits(data, from_bits, to_bits, pad) -> Optional[list] *)
  Definition convert_bits (data : list N) (pad : bool) : res (option (list N)) :=
    r <- loop data 0 0 [] ;;
    match r with
    | None => Ok None
    | Some (acc, bits, rret) =>
        let last := N.land (N.shiftl acc (to_bits - bits)) max_out_val in
        if pad then Ok (Some (rev (if bits =? 0 then rret else last :: rret)))
        else if (from_bits <=? bits) || negb (last =? 0) then Ok None
        else Ok (Some (rev rret))
    end.

  (* The same loop without the final checks: the complete to_bits groups, left-over bits dropped.
     Not a library entry point; it is the regrouping performed by base64.b32decode (Model/Base32.v). *)
  Definition convert_floor (data : list N) : res (option (list N)) :=
    r <- loop data 0 0 [] ;;
    match r with
    | None => Ok None
    | Some (_, _, rret) => Ok (Some (rev rret))
    end.
End ConvertBits.

Definition none_is_value_error (r : res (option (list N))) : res (list N) :=
  o <- r ;; match o with Some l => Ok l | None => Err ValueError end.


(* bip_utils/wif/wif.py : WifEncoder.Encode / WifDecoder.Decode, and the secp256k1 private-key validity
   test (Secp256k1PrivateKey.IsValidBytes: 32 bytes, 0 < k < n). *)
From Coq Require Import NArith Arith List Bool.
From BU Require Import Base.Exn Base.Radix Base.Bytes Gen.SerbipConsts Model.Base58.
Import ListNotations.
Open Scope N_scope.

(* Secp256k1PrivateKey.FromBytes succeeds / IsValidBytes *)
Definition secp_priv_valid (k : list N) : bool :=
  (length k =? ecdsa_priv_len)%nat && (0 <? be_to_int k) && (be_to_int k <? secp256k1_order).

Section Wif.
  Variable alph : list N.
  Variable radix : N.
  Variable cklen : nat.
  Variable sha256 : list N -> list N.

  (* WifEncoder.Encode(priv_key bytes, net_ver, pub_key_mode); compressed = (mode == COMPRESSED) *)
  Definition wif_encode (key : list N) (net_ver : list N) (compressed : bool) : res (list N) :=
    if negb (secp_priv_valid key) then Err ValueError
    else
      let k := if compressed then key ++ [wif_compr_suffix] else key in
      Ok (check_encode alph radix cklen sha256 (net_ver ++ k)).

  (* ord(net_ver): TypeError unless a single byte (unreachable since Decode checks len(net_ver) first) *)
  Definition ord1 (b : list N) : res N := match b with [v] => Ok v | _ => Err TypeError end.

  (* WifDecoder.Decode -> (key bytes, compressed?) *)
  Definition wif_decode (s : list N) (net_ver : list N) : res (list N * bool) :=
    if negb (length net_ver =? 1)%nat then Err ValueError else      (* "Invalid net version length" *)
    dec <- check_decode alph radix cklen sha256 s ;;
    if (length dec =? 0)%nat then Err ValueError else
    b0 <- of_option (nth_error dec 0) IndexError ;;
    nv <- ord1 net_ver ;;
    if negb (b0 =? nv) then Err ValueError else
    let k := skipn 1 dec in
    if secp_priv_valid (drop_last 1 k) then
      last <- of_option (nth_error k (length k - 1)) IndexError ;;
      if negb (last =? wif_compr_suffix) then Err ValueError else Ok (drop_last 1 k, true)
    else if secp_priv_valid k then Ok (k, false)
    else Err ValueError.
End Wif.

(* LINK (definitions only): Cardano Shelley addresses (Model/AddrAdaShelley.v) on the concrete Bech32 codec.
   The abstract model has a TOTAL text encoder [b32_enc : list N -> list N -> list N]; Bech32Encoder.Encode
   is partial in the model ([res]), so the two encoders and the two wallet methods that call them are
   restated with the encoder's result bound instead of wrapped; payload builders, decoders and key
   derivation are those of Model/AddrAdaShelley.v.  The decoders catch Bech32ChecksumError and re-raise
   ValueError, and every other refusal of Bech32Decoder.Decode is a ValueError already: [b32_dec_c] maps
   every refusal to [None], which [decode_payment] turns into ValueError. *)
From Coq Require Import NArith ZArith Arith List Bool.
From BU Require Import Base.Exn Base.Radix Base.Bytes Gen.ConstsCardmon.
From BU Require Import Model.EdLib Model.Bip32Kholaw Model.AddrAdaShelley Model.Bech32.
Import ListNotations.
Open Scope N_scope.

Definition b32_dec_c (hrp s : list N) : option (list N) :=
  match bech32_decode hrp s with inl d => Some d | inr _ => None end.

Section ShelleyC.
  Variable blake2b_224 : list N -> list N.
  Variable G : Type.
  Variable pdec : list N -> option G.

  (* AdaShelleyAddrEncoder.EncodeKey / AdaShelleyStakingAddrEncoder.EncodeKey *)
  Definition encode_payment_c (net : ada_net) (pub pub_sk : list N) : res (list N) :=
    pk <- EdLib.pub_from_bytes G pdec pub ;;
    sk <- EdLib.pub_from_bytes G pdec pub_sk ;;
    bech32_encode (net_hrp net) (payment_payload blake2b_224 net pk sk).
  Definition encode_staking_c (net : ada_net) (pub_sk : list N) : res (list N) :=
    sk <- EdLib.pub_from_bytes G pdec pub_sk ;;
    bech32_encode (net_stake_hrp net) (staking_payload blake2b_224 net sk).

  (* AdaShelleyAddrDecoder.DecodeAddr / AdaShelleyStakingAddrDecoder.DecodeAddr *)
  Definition decode_payment_c : ada_net -> list N -> res (list N) := decode_payment b32_dec_c.
  Definition decode_staking_c : ada_net -> list N -> res (list N) := decode_staking b32_dec_c.

  Section Wallet.
    Variable derive : node -> list Z -> res node.

    Definition shelley_address_c (net : ada_net) (account : node) (change idx : Z) : res (list N) :=
      s <- staking_node derive account ;;
      a <- address_node derive account change idx ;;
      encode_payment_c net (n_pub a) (n_pub s).
    Definition shelley_staking_address_c (net : ada_net) (account : node) : res (list N) :=
      s <- staking_node derive account ;;
      encode_staking_c net (n_pub s).
  End Wallet.
End ShelleyC.

(* bip_utils/monero/monero.py, monero_keys.py, monero_subaddr.py: the Monero class.
   A wallet is an immutable record; the [lru_cache]d address methods are pure functions of it. *)
From Coq Require Import NArith ZArith Arith List Bool.
From BU Require Import Base.Exn Base.Radix Base.Bytes Gen.ConstsCardmon.
From BU Require Model.EdLib Model.AddrXmr.
Import ListNotations.
Open Scope N_scope.

(* MoneroCoinConf: address / integrated address / sub-address net versions *)
Definition netconf := (list N * list N * list N)%type.
Definition net_addr (c : netconf) : list N := fst (fst c).
Definition net_int (c : netconf) : list N := snd (fst c).
Definition net_sub (c : netconf) : list N := snd c.

Record wallet := mk_wallet {
  w_priv_s : option (list N);      (* m_priv_skey (None: watch-only) *)
  w_priv_v : list N;               (* m_priv_vkey, 32 bytes little-endian *)
  w_pub_s : list N;                (* m_pub_skey, the stored (encoded) bytes *)
  w_pub_v : list N;
  w_net : netconf }.

Section Monero.
  Variable keccak : list N -> list N.
  Variable G : Type.
  Variable gadd : G -> G -> G.
  Variable gmul : N -> G -> G.
  Variable gbase : G.
  Variable g_is_zero : G -> bool.
  Variable penc : G -> list N.
  Variable pdec : list N -> option G.
  Variable p_refused : list N -> bool.

  Definition key_err {A} (r : res A) : res A :=     (* except ValueError -> MoneroKeyError *)
    match r with
    | inr e => if is_value_error e then Err (LibError MoneroKeyError) else Err e
    | _ => r
    end.

  (* MoneroPrivateKey.FromBytes / MoneroPublicKey.FromBytes *)
  Definition priv_from_bytes (b : list N) : res (list N) := key_err (EdLib.monero_priv_from_bytes b).
  Definition pub_from_bytes (b : list N) : res (list N) := key_err (EdLib.pub_from_bytes G pdec b).
  (* MoneroPrivateKey.PublicKey: no validation, the bytes libsodium returns *)
  Definition priv_public (k : list N) : res (list N) :=
    EdLib.mul_base_bytes G gmul gbase g_is_zero penc k.

  (* Monero.__ViewFromSpendKey *)
  Definition view_from_spend (sk : list N) : res (list N) := priv_from_bytes (EdLib.sc_reduce (keccak sk)).

  (* Monero.FromPrivateSpendKey *)
  Definition from_priv_spend (b : list N) (net : netconf) : res wallet :=
    sk <- priv_from_bytes b ;;
    vk <- view_from_spend sk ;;
    ps <- priv_public sk ;;
    pv <- priv_public vk ;;
    Ok (mk_wallet (Some sk) vk ps pv net).

  (* Monero.FromSeed *)
  Definition spend_bytes_of_seed (seed : list N) : list N :=
    EdLib.sc_reduce (if (length seed =? ed_priv_len)%nat then seed else keccak seed).
  Definition from_seed (seed : list N) (net : netconf) : res wallet :=
    from_priv_spend (spend_bytes_of_seed seed) net.

  (* Monero.FromBip44PrivateKey (bytes argument) *)
  Definition from_bip44_priv (k : list N) (net : netconf) : res wallet :=
    from_priv_spend (EdLib.sc_reduce (keccak k)) net.

  (* Monero.FromWatchOnly *)
  Definition from_watch_only (vb pb : list N) (net : netconf) : res wallet :=
    vk <- priv_from_bytes vb ;;
    ps <- pub_from_bytes pb ;;
    pv <- priv_public vk ;;
    Ok (mk_wallet None vk ps pv net).

  (* Monero.PrivateSpendKey *)
  Definition private_spend_key (w : wallet) : res (list N) :=
    match w_priv_s w with Some k => Ok k | None => Err (LibError MoneroKeyError) end.

  (* the sub-address scalar m = H_s("SubAddr\0" ‖ a ‖ le32 major ‖ le32 minor) *)
  Definition subaddr_scalar (vk : list N) (major minor : N) : res N :=
    mj <- int_to_le_fixed xmr_sub_idx_len major ;;
    mn <- int_to_le_fixed xmr_sub_idx_len minor ;;
    Ok (EdLib.int_decode (EdLib.sc_reduce (keccak (xmr_sub_prefix ++ vk ++ mj ++ mn)))).

  Definition idx_ok (i : Z) : bool := (0 <=? i)%Z && (i <=? xmr_sub_max_idx)%Z.

  (* MoneroPublicKey.FromPoint: re-validation of an encoded point *)
  Definition pub_from_point (p : list N) : res (list N) := pub_from_bytes p.

  (* MoneroSubaddress.ComputeKeys(minor, major) -> (spend, view) public key bytes.
     (The library's is-generator shortcut for [D * a] computes the same point and is not modelled.) *)
  Definition compute_keys (w : wallet) (minor major : Z) : res (list N * list N) :=
    guard (idx_ok minor) else ValueError ;;
    guard (idx_ok major) else ValueError ;;
    if ((minor =? 0)%Z && (major =? 0)%Z)%bool then Ok (w_pub_s w, w_pub_v w) else
    m <- subaddr_scalar (w_priv_v w) (Z.to_N major) (Z.to_N minor) ;;
    mG <- EdLib.mul_base_int G gmul gbase g_is_zero penc m ;;
    D <- EdLib.add_bytes G gadd penc pdec (w_pub_s w) mG ;;
    C <- EdLib.mul_int G gmul g_is_zero penc pdec p_refused (le_to_int (w_priv_v w)) D ;;
    ds <- pub_from_point D ;;
    cs <- pub_from_point C ;;
    Ok (ds, cs).

  Definition xmr_encode := AddrXmr.encode_key keccak G pdec.

  (* MoneroSubaddress.ComputeAndEncodeKeys *)
  Definition compute_and_encode (w : wallet) (minor major : Z) (net : list N) : res (list N) :=
    k <- compute_keys w minor major ;;
    xmr_encode (fst k) (snd k) net None.

  (* Monero.PrimaryAddress / Subaddress(minor, major) / IntegratedAddress(payment_id) *)
  Definition primary_address (w : wallet) : res (list N) :=
    compute_and_encode w 0 0 (net_addr (w_net w)).
  Definition subaddress (w : wallet) (minor major : Z) : res (list N) :=
    if ((minor =? 0)%Z && (major =? 0)%Z)%bool then primary_address w
    else compute_and_encode w minor major (net_sub (w_net w)).
  Definition integrated_address (w : wallet) (payid : list N) : res (list N) :=
    xmr_encode (w_pub_s w) (w_pub_v w) (net_int (w_net w)) (Some payid).
End Monero.

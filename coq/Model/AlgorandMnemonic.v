(* bip_utils/algorand/mnemonic/*.py : AlgorandMnemonicUtils.ConvertBits / ComputeChecksumWordIndex,
   AlgorandMnemonicEncoder.Encode, AlgorandMnemonicDecoder.Decode (also behind AlgorandMnemonicValidator and
   AlgorandSeedGenerator, whose seed IS the decoded entropy), for the decoder's default language (English;
   Algorand has no other).

   A mnemonic is the word list held by the AlgorandMnemonic object (a Bip39Mnemonic: each word lower-cased
   and NFKD-normalised by the constructor -- not modelled here).

   [decode true] is the property-conformant decoder: the 33rd byte produced by the 11 -> 8 bit regrouping
   must be zero (behaviour after fixes/F9.diff); [decode false] is the code as it stands, which drops that
   byte unseen (finding F9). *)
From Coq Require Import NArith List.
From BU Require Import Base.Exn Base.Bytes Model.MnemWords.
Import ListNotations.
Open Scope N_scope.

(* the inner `while bits >= to_bits` loop: emitted values (in order), acc, bits *)
Fixpoint cb_drain (fuel : nat) (to acc bits : N) : list N * N * N :=
  match fuel with
  | O => ([], acc, bits)
  | S f =>
    if to <=? bits then
      let '(o, a, b) := cb_drain f to (N.shiftr acc to) (bits - to) in
      (N.land acc (N.shiftl 1 to - 1) :: o, a, b)
    else ([], acc, bits)
  end.

Fixpoint cb_loop (from to : N) (data : list N) (acc bits : N) : option (list N) :=
  match data with
  | [] => Some (if bits =? 0 then [] else [N.land acc (N.shiftl 1 to - 1)])
  | v :: t =>
    if N.shiftr v from =? 0 then
      let '(o, a, b) := cb_drain (N.to_nat (bits + from)) to (N.lor acc (N.shiftl v bits)) (bits + from) in
      option_map (app o) (cb_loop from to t a b)
    else None                          (* value >> from_bits: not a from_bits-bit value *)
  end.

(* AlgorandMnemonicUtils.ConvertBits (least significant bits first); None in case of errors *)
Definition convert_bits (data : list N) (from to : N) : option (list N) := cb_loop from to data 0 0.

Section Algorand.
  Variable wl : list (list N).            (* Bip39 English list *)
  Variable word_nums : list N.            (* AlgorandMnemonicConst.MNEMONIC_WORD_NUM *)
  Variable cklen : nat.                   (* AlgorandMnemonicConst.CHECKSUM_BYTE_LEN *)
  Variable ent_bit_lens : list N.         (* AlgorandEntropyGeneratorConst.ENTROPY_BIT_LEN *)
  Variable word_bits : N.                 (* 11: the literal of ConvertBits(.., 8, 11) / (.., 11, 8) *)
  Variable sha512_256 : list N -> list N. (* oracle *)

  (* AlgorandMnemonicUtils.ComputeChecksumWordIndex: `assert chksum_11bit is not None`, then [0] *)
  Definition checksum_idx (b : list N) : res N :=
    l <- of_option (convert_bits (firstn cklen (sha512_256 b)) 8 word_bits) AssertionError ;;
    of_option (nth_error l 0) IndexError.

  (* AlgorandMnemonicEncoder.Encode *)
  Definition encode (b : list N) : res (list (list N)) :=
    guard memb (N.of_nat (length b) * 8) ent_bit_lens else ValueError ;;
    c <- checksum_idx b ;;
    idx <- of_option (convert_bits b 8 word_bits) AssertionError ;;
    mapM (word_at wl) (idx ++ [c]).

  (* AlgorandMnemonicDecoder.Decode *)
  Definition decode (conformant : bool) (ws : list (list N)) : res (list N) :=
    guard memb (N.of_nat (length ws)) word_nums else ValueError ;;
    idx <- mapM (word_idx wl) ws ;;
    l <- of_option (convert_bits (removelast idx) word_bits 8) AssertionError ;;
    let b := removelast l in
    c <- checksum_idx b ;;
    guard c =? last idx 0 else LibError MnemonicChecksumError ;;
    (* conformant only: the byte dropped by `[:-1]` must be zero (after the checksum test, as in fixes/F9.diff) *)
    guard (if conformant then last l 0 =? 0 else true) else ValueError ;;
    Ok b.
End Algorand.

(* bip_utils/substrate/substrate_path.py (SubstratePathElem, SubstratePath, SubstratePathParser) and the
   path-walking part of bip_utils/substrate/substrate.py (ChildKey / DerivePath / ConvertToPublic) over
   abstract sr25519 operations.  Definitions only; proofs in Lemmas/SubstratePath.v. *)
From Coq Require Import NArith ZArith List Bool.
From BU Require Import Base.Exn Base.Radix Base.Bytes Gen.PathConsts Model.PyText Model.SubstrateScale.
Import ListNotations.
Open Scope N_scope.

Definition sl : N := hd 0 sub_body_slash.          (* the literal "/" of startswith / rfind / replace (one character) *)

(* ---- re.findall(r"\/+[^/]+", s) as a scanner ----
   A match is a maximal run of slashes followed by a maximal non-empty run of non-slashes; characters
   before the first slash and a trailing run of slashes belong to no match. *)
Inductive scan_state := Skip | InSlashes (acc : list N) | InBody (acc : list N).

Fixpoint re_scan (st : scan_state) (l : list N) : list (list N) :=
  match l with
  | [] => match st with InBody acc => [acc] | _ => [] end
  | x :: t =>
    if x =? sl then
      match st with
      | Skip => re_scan (InSlashes [x]) t
      | InSlashes acc => re_scan (InSlashes (acc ++ [x])) t
      | InBody acc => acc :: re_scan (InSlashes [x]) t
      end
    else
      match st with
      | Skip => re_scan Skip t
      | InSlashes acc => re_scan (InBody (acc ++ [x])) t
      | InBody acc => re_scan (InBody (acc ++ [x])) t
      end
  end.
Definition re_findall (s : list N) : list (list N) := re_scan Skip s.

(* ---- SubstratePathElem ---- *)
Record elem := mk_elem { e_body : list N; e_hard : bool }.

(* str.rfind(c): index of the last occurrence *)
Fixpoint rfind (c : N) (l : list N) : option nat :=
  match l with
  | [] => None
  | x :: t => match rfind c t with
              | Some i => Some (S i)
              | None => if x =? c then Some O else None
              end
  end.
Definition remove_char (c : N) (l : list N) : list N := filter (fun x => negb (x =? c)) l.

(* __IsElemValid *)
Definition elem_valid (e : list N) : bool :=
  (starts_with sub_soft_prefix e || starts_with sub_hard_prefix e)
  && match rfind sl e with None => true | Some i => (i <? sub_rfind_bound)%nat end
  && nonempty (remove_char sl e).

(* SubstratePathElem.__init__ *)
Definition make_elem (e : list N) : res elem :=
  if elem_valid e then Ok (mk_elem (remove_char sl e) (starts_with sub_hard_prefix e))
  else Err (LibError SubstratePathError).

(* SubstratePathElem.ToStr *)
Definition elem_to_str (el : elem) : list N :=
  (if e_hard el then sub_hard_prefix else sub_soft_prefix) ++ e_body el.

(* SubstratePathElem.__ComputeChainCode.  A junction made of decimal digits only (str.isdecimal(): exactly the
   characters int() converts) is an integer; int() can then fail only on the interpreter's digit limit, which
   the code reports as SubstratePathError.  Every other junction is text. *)
Definition bit_length (v : Z) : N := N.size (Z.abs_N v).

Section ChainCode.
  Variable blake2b_256 : list N -> list N.         (* oracle: Blake2b256.QuickDigest *)

  Definition chain_code (body : list N) : res (list N) :=
    enc <- (if py_isdecimal body then
              match py_int body with
              | inr _ => Err (LibError SubstratePathError)
              | inl v =>
                match find (fun be => bit_length v <=? fst be) sub_scale_int_encoders with
                | None => Err (LibError SubstratePathError)
                | Some (_, nbytes) => uint_encode_str nbytes body
                end
              end
            else bytes_encode_str body) ;;
    if (sub_enc_elem_max_len <? length enc)%nat then Ok (blake2b_256 enc)
    else Ok (enc ++ repeat 0 (sub_enc_elem_max_len - length enc)).
End ChainCode.

(* ---- SubstratePath / SubstratePathParser ---- *)
Definition to_str (p : list elem) : list N := flat_map elem_to_str p.

Definition parse (s : list N) : res (list elem) :=
  if nonempty s && negb (starts_with sub_body_slash s) then Err (LibError SubstratePathError)
  else mapM make_elem (re_findall s).

(* ---- Substrate.ChildKey / DerivePath / ConvertToPublic over abstract sr25519 ---- *)
Section Derive.
  Variable blake2b_256 : list N -> list N.
  (* sr25519.hard_derive_keypair / derive_keypair ((cc, pub, priv), b"") -> (pub', priv');
     sr25519.derive_pubkey ((cc, pub), b"") -> pub' *)
  Variable hard_derive : list N -> list N -> list N -> list N * list N.
  Variable soft_derive : list N -> list N -> list N -> list N * list N.
  Variable soft_derive_pub : list N -> list N -> list N.

  Record skey := mk_skey { k_priv : option (list N); k_pub : list N; k_path : list elem }.

  (* __CkdPriv evaluates the chain code first; __CkdPub tests hardness first *)
  Definition child_key (k : skey) (el : elem) : res skey :=
    match k_priv k with
    | Some sk =>
      cc <- chain_code blake2b_256 (e_body el) ;;
      let '(pk', sk') := if e_hard el then hard_derive cc (k_pub k) sk else soft_derive cc (k_pub k) sk in
      Ok (mk_skey (Some sk') pk' (k_path k ++ [el]))
    | None =>
      if e_hard el then Err (LibError SubstrateKeyError)
      else cc <- chain_code blake2b_256 (e_body el) ;;
           Ok (mk_skey None (soft_derive_pub cc (k_pub k)) (k_path k ++ [el]))
    end.

  Fixpoint derive_path (k : skey) (p : list elem) : res skey :=
    match p with
    | [] => Ok k
    | el :: r => k' <- child_key k el ;; derive_path k' r
    end.

  Definition derive_path_str (k : skey) (s : list N) : res skey := p <- parse s ;; derive_path k p.

  Definition to_public (k : skey) : skey := mk_skey None (k_pub k) (k_path k).
End Derive.

(* Python str operations used by the Bech32 decoders, over the tables regenerated from the running
   interpreter (Gen/CaseTables.v): chr(c).lower(), chr(c).upper(), chr(c).islower(), chr(c).isupper(),
   AlgoUtils.IsStringMixed, str.rfind of a one-character separator.

   str.lower() of a whole string is modelled as the concatenation of the per-code-point images.  CPython
   deviates from that in exactly one place, checked by the generator: U+03A3 in final-sigma context gives
   U+03C2 instead of U+03C3.  Both are non-ASCII, which is all the decoders can observe. *)
From Coq Require Import NArith List Bool.
From BU Require Import Base.Exn Gen.CaseTables.
Import ListNotations.
Open Scope N_scope.

Fixpoint assoc (c : N) (t : list (N * list N)) : option (list N) :=
  match t with
  | [] => None
  | (k, v) :: r => if k =? c then Some v else assoc c r
  end.

Definition lower_cp (c : N) : list N :=
  match assoc c lower_table with Some img => img | None => [c] end.
Definition upper_cp (c : N) : list N :=
  match assoc c upper_table with Some img => img | None => [c] end.

Definition py_lower (s : list N) : list N := flat_map lower_cp s.
Definition py_upper (s : list N) : list N := flat_map upper_cp s.

Definition in_ranges (c : N) (t : list (N * N)) : bool :=
  existsb (fun r => (fst r <=? c) && (c <=? snd r)) t.

Definition is_lower (c : N) : bool := in_ranges c islower_ranges.
Definition is_upper (c : N) : bool := in_ranges c isupper_ranges.

(* AlgoUtils.IsStringMixed: any(c.islower()) and any(c.isupper()) *)
Definition is_string_mixed (s : list N) : bool := existsb is_lower s && existsb is_upper s.

(* str.rfind(c) for a one-character c: index of the last occurrence *)
Fixpoint rfind (c : N) (l : list N) : option nat :=
  match l with
  | [] => None
  | x :: t =>
    match rfind c t with
    | Some i => Some (S i)
    | None => if x =? c then Some O else None
    end
  end.

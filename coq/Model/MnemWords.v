(* bip_utils/utils/mnemonic/mnemonic_utils.py : MnemonicWordsList and the language finder, shared by the
   Monero / Algorand / Electrum mnemonic models.  A word is a list of code points. *)
From Coq Require Import NArith List.
From BU Require Import Base.Exn Base.Bytes.
Import ListNotations.
Open Scope N_scope.

(* MnemonicWordsList.m_words_to_idx[word]: position of the word.  (The dict keeps the LAST position of a
   duplicated word, [widx_opt] the first; the lists are duplicate-free -- proved from Gen in
   Lemmas/MnemConstsOk.v -- so the two coincide.) *)
Fixpoint widx_opt (w : list N) (wl : list (list N)) : option nat :=
  match wl with
  | [] => None
  | x :: t => if list_eqb x w then Some O else option_map S (widx_opt w t)
  end.

(* MnemonicWordsList.GetWordIdx: ValueError when absent *)
Definition word_idx (wl : list (list N)) (w : list N) : res N :=
  match widx_opt w wl with Some i => Ok (N.of_nat i) | None => Err ValueError end.

(* MnemonicWordsList.GetWordAtIdx: m_idx_to_words[i] *)
Definition word_at (wl : list (list N)) (i : N) : res (list N) :=
  of_option (nth_error wl (N.to_nat i)) IndexError.

(* MnemonicWordsList.Length *)
Definition wl_len (wl : list (list N)) : N := N.of_nat (length wl).

Definition in_wl (wl : list (list N)) (w : list N) : bool :=
  match widx_opt w wl with Some _ => true | None => false end.
Definition all_in (wl : list (list N)) (ws : list (list N)) : bool := forallb (in_wl wl) ws.

(* MnemonicWordsListFinderBase._FindLanguageGeneric: the first language (enum order) whose list contains
   every word of the mnemonic; ValueError when there is none.  [A] carries per-language data. *)
Definition find_language {A} (wl_of : A -> list (list N)) (langs : list A) (ws : list (list N)) : res A :=
  of_option (find (fun L => all_in (wl_of L) ws) langs) ValueError.

(* for i in range(m): l[i*k : i*k+k] *)
Fixpoint groups {A} (k m : nat) (l : list A) : list (list A) :=
  match m with
  | O => []
  | S m' => firstn k l :: groups k m' (skipn k l)
  end.

(* decidable duplicate-freeness of a word list *)
Fixpoint wmemb (w : list N) (l : list (list N)) : bool :=
  match l with [] => false | x :: t => list_eqb x w || wmemb w t end.
Fixpoint wnodupb (l : list (list N)) : bool :=
  match l with [] => true | x :: t => negb (wmemb x t) && wnodupb t end.

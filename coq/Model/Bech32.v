(* bip_utils/bech32 : bech32_base.py (Bech32EncoderBase / Bech32DecoderBase), bech32.py (Bech32Utils,
   Bech32Encoder, Bech32Decoder; BECH32 and BECH32M checksum constants), segwit_bech32.py, bch_bech32.py.
   Strings are lists of code points; all constants come from Gen/Bech32Consts.v (regenerated from the
   source, including those living inside PolyMod / HrpExpand / ComputeChecksum bodies). *)
From Coq Require Import NArith Arith List Bool.
From BU Require Import Base.Exn Base.Radix Base.Bytes Model.Bech32Bits Model.Bech32Str.
From BU Require Import Gen.Bech32Consts.
Import ListNotations.
Open Scope N_scope.

(* ------------------------------------------------------------------ PolyMod (both widths) *)
Section Polymod.
  (* (bit index tested in [top], generator word) ; chk initial value ; >> shift ; & mask ; << symbits *)
  Variable gens : list (N * N).
  Variables init shift mask symbits : N.

  Definition pm_step (chk value : N) : N :=
    let top := N.shiftr chk shift in
    let chk1 := N.lxor (N.shiftl (N.land chk mask) symbits) value in
    fold_left (fun c g => if N.testbit top (fst g) then N.lxor c (snd g) else c) gens chk1.

  Definition pm_from (chk : N) (values : list N) : N := fold_left pm_step values chk.
  Definition polymod_raw (values : list N) : N := pm_from init values.
End Polymod.

(* generator[i] selected by (top >> i) & 1, i in range(len) *)
Definition indexed (l : list N) : list (N * N) := combine (map N.of_nat (seq 0 (length l))) l.

(* [(polymod >> bits * (top - i)) & mask for i in range(cklen)] *)
Definition cs_digits (bits top mask : N) (cklen : nat) (polymod : N) : list N :=
  map (fun i => N.land (N.shiftr polymod (bits * (top - N.of_nat i))) mask) (seq 0 cklen).

(* ------------------------------------------------------------------ Bech32Utils *)
Definition b32_polymod : list N -> N :=
  polymod_raw (indexed bech32_gen) bech32_pm_init bech32_pm_shift bech32_pm_mask bech32_pm_symbits.

Definition b32_hrp_expand (hrp : list N) : list N :=
  map (fun x => N.shiftr x bech32_hrp_shift) hrp ++ [bech32_hrp_sepval]
  ++ map (fun x => N.land x bech32_hrp_mask) hrp.

(* encoding constant: Bech32Const.ENCODING_CHECKSUM_CONST[encoding] *)
Definition b32_compute_checksum (enc_const : N) (hrp data : list N) : list N :=
  let values := b32_hrp_expand hrp ++ data in
  let polymod := N.lxor (b32_polymod (values ++ repeat 0 bech32_cs_pad)) enc_const in
  cs_digits bech32_cs_bits bech32_cs_top bech32_cs_mask bech32_cklen polymod.

Definition b32_verify_checksum (enc_const : N) (hrp data : list N) : bool :=
  b32_polymod (b32_hrp_expand hrp ++ data) =? enc_const.

(* ------------------------------------------------------------------ BchBech32Utils *)
Definition cash_polymod (values : list N) : N :=
  N.lxor (polymod_raw cash_gen cash_pm_init cash_pm_shift cash_pm_mask cash_pm_symbits values) cash_pm_final.

Definition cash_hrp_expand (hrp : list N) : list N :=
  map (fun x => N.land x cash_hrp_mask) hrp ++ [cash_hrp_sepval].

Definition cash_compute_checksum (hrp data : list N) : list N :=
  let values := cash_hrp_expand hrp ++ data in
  let polymod := cash_polymod (values ++ repeat 0 cash_cs_pad) in
  cs_digits cash_cs_bits cash_cs_top cash_cs_mask cash_cklen polymod.

Definition cash_verify_checksum (hrp data : list N) : bool :=
  cash_polymod (cash_hrp_expand hrp ++ data) =? cash_verify_const.

(* ------------------------------------------------------------------ Bech32EncoderBase / Bech32DecoderBase *)
Section Base.
  Variable charset : list N.              (* Bech32BaseConst.CHARSET *)
  Variables hrp_min hrp_max : N.          (* 33, 126 *)
  Variable sep : N.                       (* the subclass' SEPARATOR *)
  Variable cklen : nat.                   (* the subclass' CHECKSUM_STR_LEN *)
  (* two switches read off the source by harness/gen_bech32.py: is there an [if not bech_str.isascii()] guard,
     and the minimum number of data symbols besides the checksum (the literal 1, or the min_data_len
     parameter / argument where the code has one) *)
  Variable ascii_only : bool.
  Variable min_data : nat.
  (* cls._ComputeChecksum / cls._VerifyChecksum (SegWit's index data[0]) *)
  Variable compute_checksum : list N -> list N -> res (list N).
  Variable verify_checksum : list N -> list N -> res bool.

  (* CHARSET[d] *)
  Definition char_at (d : N) : res N :=
    if d <? N.of_nat (length charset) then of_option (nth_error charset (N.to_nat d)) IndexError
    else Err IndexError.

  (* _EncodeBech32 *)
  Definition encode_base (hrp data : list N) : res (list N) :=
    cs <- compute_checksum hrp data ;;
    chars <- mapM char_at (data ++ cs) ;;
    Ok (hrp ++ [sep] ++ chars).

  (* CHARSET.find(x); -1 (absent) cannot occur below: every character was tested with [x in CHARSET] *)
  Definition charset_find (x : N) : N :=
    match index_of x charset with Some i => N.of_nat i | None => 0 end.

  (* int_data[:-checksum_len]  ([:-0] is the empty list) *)
  Definition strip_checksum (l : list N) : list N :=
    match cklen with O => [] | _ => drop_last cklen l end.

  (* _DecodeBech32 *)
  Definition decode_base (bech_str : list N) : res (list N * list N) :=
    if ascii_only && negb (forallb (fun c => c <? 128) bech_str) then Err ValueError else   (* str.isascii() *)
    if is_string_mixed bech_str then Err ValueError else
    let s := py_lower bech_str in
    match rfind sep s with
    | None => Err ValueError
    | Some sep_pos =>
      let hrp := firstn sep_pos s in
      if (length hrp =? 0)%nat || existsb (fun x => (x <? hrp_min) || (hrp_max <? x)) hrp
      then Err ValueError else
      let data_part := skipn (S sep_pos) s in
      if (length data_part <? cklen + min_data)%nat || negb (forallb (fun x => memb x charset) data_part)
      then Err ValueError else
      let int_data := map charset_find data_part in
      ok <- verify_checksum hrp int_data ;;
      if negb ok then Err (LibError Bech32ChecksumError)
      else Ok (hrp, strip_checksum int_data)
    end.
End Base.

(* ------------------------------------------------------------------ bech32.py : Bech32Encoder / Bech32Decoder *)
Definition b32_to_base32 := to_base32 b32_to_from_bits b32_to_to_bits.
Definition b32_from_base32 := from_base32 b32_from_from_bits b32_from_to_bits.

Definition bech32_encode_base := encode_base bech32_charset bech32_sep.
Definition bech32_decode_base (sep : N) (cklen min_data : nat) :=
  decode_base bech32_charset bech32_hrp_min_cp bech32_hrp_max_cp sep cklen bech32_dec_ascii_only min_data.

Definition bech32_decode_raw (s : list N) : res (list N * list N) :=
  bech32_decode_base bech32_sep bech32_cklen bech32_decoder_min_data
    (fun hrp data => Ok (b32_verify_checksum bech32_const hrp data)) s.

(* Bech32Encoder.Encode(hrp, data) *)
Definition bech32_encode (hrp data : list N) : res (list N) :=
  syms <- b32_to_base32 data ;;
  bech32_encode_base (fun hrp d => Ok (b32_compute_checksum bech32_const hrp d)) hrp syms.

(* Bech32Decoder.Decode(hrp, addr) *)
Definition bech32_decode (hrp addr : list N) : res (list N) :=
  r <- bech32_decode_raw addr ;;
  if negb (list_eqb hrp (fst r)) then Err ValueError
  else b32_from_base32 (snd r).

(* ------------------------------------------------------------------ segwit_bech32.py *)
Definition segwit_enc_const (data : list N) : res N :=
  match data with
  | [] => Err IndexError                                   (* data[0] *)
  | v :: _ => Ok (if v =? segwit_ver_bech32 then bech32_const else bech32m_const)
  end.

Definition segwit_compute (hrp data : list N) : res (list N) :=
  c <- segwit_enc_const data ;; Ok (b32_compute_checksum c hrp data).
Definition segwit_verify (hrp data : list N) : res bool :=
  c <- segwit_enc_const data ;; Ok (b32_verify_checksum c hrp data).

(* SegwitBech32Encoder.Encode(hrp, wit_ver, wit_prog)   (wit_ver >= 0) *)
Definition segwit_encode (hrp : list N) (wit_ver : N) (wit_prog : list N) : res (list N) :=
  syms <- b32_to_base32 wit_prog ;;
  encode_base bech32_charset segwit_sep segwit_compute hrp (wit_ver :: syms).

Definition segwit_decode_raw (s : list N) : res (list N * list N) :=
  bech32_decode_base segwit_sep segwit_cklen segwit_decoder_min_data segwit_verify s.

(* SegwitBech32Decoder.Decode(hrp, addr) *)
Definition segwit_decode (hrp addr : list N) : res (N * list N) :=
  r <- segwit_decode_raw addr ;;
  if negb (list_eqb hrp (fst r)) then Err ValueError else
  let data := snd r in
  conv_data <- b32_from_base32 (tl data) ;;
  if (length conv_data <? segwit_prog_min)%nat || (segwit_prog_max <? length conv_data)%nat
  then Err ValueError else
  wit_ver <- of_option (hd_error data) IndexError ;;
  if segwit_ver_max <? wit_ver then Err ValueError else
  if (wit_ver =? 0) && negb (existsb (Nat.eqb (length conv_data)) segwit_v0_lens)
  then Err ValueError
  else Ok (wit_ver, conv_data).

(* ------------------------------------------------------------------ bch_bech32.py *)
(* BchBech32Encoder.Encode(hrp, net_ver, data) *)
Definition cash_encode (hrp net_ver data : list N) : res (list N) :=
  syms <- b32_to_base32 (net_ver ++ data) ;;
  encode_base bech32_charset cash_sep (fun h d => Ok (cash_compute_checksum h d)) hrp syms.

Definition cash_decode_raw (s : list N) : res (list N * list N) :=
  bech32_decode_base cash_sep cash_cklen cash_decoder_min_data (fun h d => Ok (cash_verify_checksum h d)) s.

(* BchBech32Decoder.Decode(hrp, addr) : (IntegerUtils.ToBytes(conv_data[0]), bytes(conv_data[1:])) *)
Definition cash_decode (hrp addr : list N) : res (list N * list N) :=
  r <- cash_decode_raw addr ;;
  if negb (list_eqb hrp (fst r)) then Err ValueError else
  conv_data <- b32_from_base32 (snd r) ;;
  match conv_data with
  | [] => Err IndexError
  | v :: rest => Ok (int_to_be_auto v, rest)
  end.

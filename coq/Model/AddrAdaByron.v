(* bip_utils/addr/ada_byron_addr.py (Byron addresses: Icarus "Ae2..." and legacy "Ddz..." with the encrypted
   derivation path), bip_utils/utils/misc/cbor_indefinite_len_array.py and the address part of
   bip_utils/cardano/byron/cardano_byron_legacy.py.

   Encoding is concrete: RFC 8949 definite-length CBOR of the shapes the library passes to cbor2.dumps
   (Model/CborEnc.v), the indefinite-length array of the path, CRC-32 envelope, Base58.
   Decoding of untrusted CBOR is done by cbor2 in the library and is an oracle here ([parse_outer],
   [parse_payload], [parse_bytes]): each answers None unless the input is well-formed CBOR of the shape the
   library then insists on.  All three demand EXACTLY ONE item -- nothing may follow it (_CborLoadsExact; before the
   repairs of findings C10-BYRON-TRAILING and C10-BYRON-CBOR-LAX cbor2.loads ignored what followed) -- and integers
   proper for the CRC and the type (a CBOR false / true is refused).  The harness answers the three oracles with its
   own CBOR reader (harness/cborref.py), not with cbor2.  Hashes, PBKDF2, ChaCha20-Poly1305 and CRC-32 are oracles.

   The decoder is modelled as property C14 demands: EVERY input that is not well-formed CBOR of the expected shape
   (tag 24 around a byte string, CRC-32, [28-byte hash, attribute map with byte-string values, type]) is a ValueError.
   The code as it stands lets TypeError escape when the tagged value, an attribute value, or the content of attribute 1
   is not a byte string (finding C14-BYRON-ATTRS), and lets cbor2's own TypeError / OverflowError / decimal exceptions
   escape on ill-typed decimal-fraction / bigfloat tags (finding C14-BYRON-CBOR2-EXC); the correspondence run of
   harness/props/C14.py (CBOR-level mutations under a valid CRC) shows both divergences. *)
From Coq Require Import NArith ZArith Arith List Bool.
From BU Require Import Base.Exn Base.Radix Base.Bytes Gen.Consts Gen.ConstsCardmon.
From BU Require Import Model.EdLib Model.CborEnc Model.Bip32Kholaw.
From BU Require Model.Base58.
Import ListNotations.
Open Scope N_scope.

(* CborIndefiniteLenArrayEncoder.Encode *)
Definition indef_encode (l : list N) : list N := [cbor_indef_start] ++ concat (map cbor_uint l) ++ [cbor_indef_end].

(* one element: cbor2.loads of a slice that starts with an unsigned-integer head.  Heads the encoder never
   produces (negative integers, strings, simple values, ...) are refused here; the library hands them to
   cbor2 and may accept some of them -- only reachable with the wallet's own path key. *)
(* UINT_IDS_TO_BYTE_LEN.get(x, 1) *)
Fixpoint lookup_len (x : N) (tab : list (N * nat)) : nat :=
  match tab with
  | [] => 1%nat
  | (k, v) :: t => if x =? k then v else lookup_len x t
  end.
Definition indef_elem_len (x : N) : nat := lookup_len x cbor_uint_id_lens.
Definition indef_elem (s : list N) : res N :=
  match s with
  | [] => Err ValueError
  | x :: t =>
    if x <? 24 then Ok x
    else if (x <=? 27) then
      (if (length s =? indef_elem_len x)%nat then Ok (be_to_int t) else Err ValueError)   (* truncated *)
    else Err ValueError
  end.
Fixpoint indef_elems (fuel : nat) (b : list N) : res (list N) :=
  match fuel with
  | O => Err OutOfFuel
  | S f =>
    match b with
    | [] => Err ValueError                                  (* index overflow *)
    | x :: _ =>
      if x =? cbor_indef_end then Ok []
      else
        let n := indef_elem_len x in
        e <- indef_elem (firstn n b) ;;
        rest <- indef_elems f (skipn n b) ;;
        Ok (e :: rest)
    end
  end.
(* CborIndefiniteLenArrayDecoder.Decode *)
Definition indef_decode (b : list N) : res (list N) :=
  guard (cbor_indef_min_len <=? length b)%nat else ValueError ;;
  guard (hd 0 b =? cbor_indef_start) else ValueError ;;
  guard (last b 0 =? cbor_indef_end) else ValueError ;;
  indef_elems (length b) (tl b).

Section Byron.
  Variable sha3_256 : list N -> list N.
  Variable blake2b_224 : list N -> list N.
  Variable pbkdf2_sha512 : list N -> list N -> N -> N -> list N.
  Variable chacha_enc : list N -> list N -> list N -> list N -> list N.                 (* key nonce aad pt -> ct ‖ tag *)
  Variable chacha_dec : list N -> list N -> list N -> list N -> list N -> option (list N).  (* key nonce aad ct tag *)
  Variable crc32 : list N -> N.
  Variable G : Type.
  Variable pdec : list N -> option G.
  (* cbor2.loads on untrusted bytes, per expected shape *)
  Variable parse_outer : list N -> option (N * list N * N).          (* [CBORTag(t, bytes v), int c] *)
  (* [bytes root, dict attrs, int type] with len(attrs) <= 2 and (empty or 1 in attrs or 2 in attrs):
     (root, value stored under key 1 if any, type) *)
  Variable parse_payload : list N -> option (list N * option (list N) * N).
  (* the value of attribute 1 read as exactly one CBOR item: the content of a byte string; None = anything else
     (another item -- also CBOR null, which was taken for "no HD path" before the repair of C10-BYRON-CBOR-LAX --,
     bytes after the item, malformed CBOR): ValueError *)
  Variable parse_bytes : list N -> option (list N).

  (* _AdaByronAddrHdPath.Encrypt / Decrypt *)
  Definition encrypt_path (key : list N) (path : list N) : list N :=
    chacha_enc key ada_byron_nonce ada_byron_assoc (indef_encode path).
  Definition path_index_ok (i : N) : bool := (Z.of_N i <=? b32_index_max)%Z.
  Definition decrypt_path (key enc : list N) : res (list N) :=
    pt <- of_option (chacha_dec key ada_byron_nonce ada_byron_assoc
                       (drop_last chacha_tag_len enc) (take_last chacha_tag_len enc)) ValueError ;;
    elems <- indef_decode pt ;;
    (* Bip32Path(elems, True): every element must be a valid key index *)
    guard (forallb path_index_ok elems) else (LibError Bip32PathError) ;;
    Ok elems.

  (* _AdaByronAddrAttrs.ToDict (network magic is never set by the encoders) *)
  Definition attrs_cbor (enc : option (list N)) : list N :=
    match enc with
    | Some e => cbor_map [(cbor_uint 1, cbor_bytes (cbor_bytes e))]
    | None => cbor_map []
    end.
  (* _AdaByronAddrRoot.Serialize / Hash *)
  Definition root_cbor (ty : N) (key_cc : list N) (enc : option (list N)) : list N :=
    cbor_array [cbor_uint ty; cbor_array [cbor_uint ty; cbor_bytes key_cc]; attrs_cbor enc].
  Definition root_hash (ty : N) (key_cc : list N) (enc : option (list N)) : list N :=
    blake2b_224 (sha3_256 (root_cbor ty key_cc enc)).
  (* _AdaByronAddrPayload.Serialize *)
  Definition payload_cbor (rh : list N) (enc : option (list N)) (ty : N) : list N :=
    cbor_array [cbor_bytes rh; attrs_cbor enc; cbor_uint ty].
  (* _AdaByronAddr.Serialize / Encode *)
  Definition addr_cbor (payload : list N) : list N :=
    cbor_array [cbor_tag ada_byron_payload_tag (cbor_bytes payload); cbor_uint (crc32 payload)].
  Definition b58enc := Base58.encode b58_alph_btc b58_radix.
  Definition b58dec := Base58.decode b58_alph_btc b58_radix.

  (* _AdaByronAddrUtils.EncodeKey(pub_key (with its 0x00 prefix removed), chain code, type, enc path) *)
  Definition encode_key (pub cc : list N) (enc : option (list N)) : list N :=
    let ty := ada_byron_type_pubkey in
    b58enc (addr_cbor (payload_cbor (root_hash ty (pub ++ cc) enc) enc ty)).

  (* AdaByronIcarusAddrEncoder / AdaByronLegacyAddrEncoder with raw key bytes *)
  Definition encode_icarus (pub cc : list N) : res (list N) :=
    guard (length cc =? b32_chaincode_len)%nat else ValueError ;;
    pk <- EdLib.pub_from_bytes G pdec pub ;;
    Ok (encode_key pk cc None).
  Definition encode_legacy (pub cc : list N) (path : list N) (key : list N) : res (list N) :=
    guard (length key =? chacha_key_len)%nat else ValueError ;;
    guard (length cc =? b32_chaincode_len)%nat else ValueError ;;
    pk <- EdLib.pub_from_bytes G pdec pub ;;
    Ok (encode_key pk cc (Some (encrypt_path key path))).

  (* AdaByronAddrDecoder.DecodeAddr (expected type: public key) -> root hash ‖ encrypted path *)
  Definition decode_addr (addr : list N) : res (list N) :=
    ser <- b58dec addr ;;
    o <- of_option (parse_outer ser) ValueError ;;
    let '(tag, value, crc) := o in
    guard (tag =? ada_byron_payload_tag) else ValueError ;;
    guard (crc32 value =? crc) else ValueError ;;
    p <- of_option (parse_payload value) ValueError ;;
    let '(rh, attr1, ty) := p in
    guard (length rh =? ada_keyhash_len)%nat else ValueError ;;
    enc <- match attr1 with
           | Some v => rmap (@Some _) (of_option (parse_bytes v) ValueError)
           | None => Ok None
           end ;;
    guard (ty =? ada_byron_type_pubkey) else ValueError ;;
    Ok (rh ++ match enc with Some e => e | None => [] end).

  (* ---- CardanoByronLegacy ---- *)
  (* HdPathKey *)
  Definition hd_path_key (master : node) : list N :=
    pbkdf2_sha512 (n_pub master ++ n_cc master) by_hdkey_salt by_hdkey_rounds (N.of_nat by_hdkey_out_len).

  (* the indices of the path string f"m/{first}'/{second}'" *)
  Definition wallet_index (i : Z) : res Z :=
    if ((0 <=? i)%Z && (i <=? b32_index_max)%Z)%bool then Ok (Z.lor i (2 ^ Z.of_N b32_hardened_bit))
    else Err (LibError Bip32PathError).

  (* Bip44(CARDANO_BYRON_ICARUS / CARDANO_BYRON_LEDGER): m/44'/1815'/acc'/change/index with the
     Khovratovich-Law derivator [kh_derive]; the address is the Icarus-style Byron address of the key and its
     chain code *)
  Definition icarus_wallet_address (kh_derive : node -> list Z -> res node) (master : node) (acc change idx : Z)
      : res (list N) :=
    let harden i := Z.lor i (2 ^ Z.of_N b32_hardened_bit) in
    k <- kh_derive master [bip44_purpose; harden bip44_cardano_coin; harden acc; change; idx] ;;
    encode_icarus (n_pub k) (n_cc k).

  Section Wallet.
    Variable derive : node -> list Z -> res node.     (* derivation with the Byron-legacy derivator *)

    Definition wallet_key (master : node) (first second : Z) : res node :=
      i <- wallet_index first ;;
      j <- wallet_index second ;;
      derive master [i; j].
    (* GetAddress(first, second) with int arguments *)
    Definition get_address (master : node) (first second : Z) : res (list N) :=
      k <- wallet_key master first second ;;
      i <- wallet_index first ;;
      j <- wallet_index second ;;
      encode_legacy (n_pub k) (n_cc k) [Z.to_N i; Z.to_N j] (hd_path_key master).
    (* HdPathFromAddress *)
    Definition hd_path_from_address (master : node) (addr : list N) : res (list N) :=
      dec <- decode_addr addr ;;
      decrypt_path (hd_path_key master) (skipn ada_keyhash_len dec).
  End Wallet.
End Byron.

(* Abstract signature of the elliptic-curve groups the library computes in (secp256k1, NIST P-256,
   and -- for other contributors -- ed25519).  Definitions only.  No elliptic-curve development is
   installed, so the operations are *parameters* of the models (instantiated by oracles answered with
   harness/ecref.py when the extracted model runs) and their laws are *hypotheses* of theorems
   (Lemmas/GroupLaws.v), never axioms. *)
From Coq Require Import NArith List.
Import ListNotations.
Open Scope N_scope.

Record group_ops := mk_group_ops {
  pt : Type;                      (* carrier: the points, including the point at infinity *)
  zero : pt;                      (* point at infinity / neutral element *)
  add : pt -> pt -> pt;           (* IPoint.__add__ *)
  smul : N -> pt -> pt;           (* IPoint.__mul__ (scalar first) *)
  base : pt;                      (* EllipticCurve.Generator() *)
  order : N;                      (* EllipticCurve.Order() *)
  is_zero : pt -> bool;           (* decides P = zero *)
  ser_c : pt -> list N;           (* IPublicKey.RawCompressed(): SEC1 compressed, 33 bytes, for P <> zero *)
  ser_u : pt -> list N            (* IPublicKey.RawUncompressed(): 0x04 || X || Y, 65 bytes, for P <> zero *)
}.

Arguments zero {g}.
Arguments add {g}.
Arguments smul {g}.
Arguments base {g}.
Arguments is_zero {g}.
Arguments ser_c {g}.
Arguments ser_u {g}.

(* point(p) of BIP-32: the public point of the scalar p *)
Definition point_of {G : group_ops} (k : N) : pt G := smul k base.

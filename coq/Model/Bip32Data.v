(* bip_utils/bip/bip32/bip32_key_data.py and bip32_key_net_ver.py : the metadata containers of an
   extended key with their range checks.  Python ints that may be negative arrive as Z. *)
From Coq Require Import NArith ZArith List Bool.
From BU Require Import Base.Exn Base.Radix Base.Bytes Gen.SerbipConsts.
Import ListNotations.
Open Scope N_scope.

(* Bip32Depth(depth): only a sign check at construction ... *)
Definition mk_depth (d : Z) : res N :=
  if (d <? 0)%Z then Err ValueError else Ok (Z.to_N d).
(* ... the one-byte range is enforced when the depth is rendered (int.to_bytes -> OverflowError) *)
Definition depth_to_bytes (d : N) : res (list N) := int_to_be_fixed bip32_depth_len d.
Definition depth_increase (d : N) : N := d + 1.

(* Bip32KeyIndex(idx) *)
Definition mk_index (i : Z) : res N :=
  if ((i <? 0) || (Z.of_N bip32_index_max <? i))%Z then Err ValueError else Ok (Z.to_N i).
Definition index_to_bytes (i : N) : res (list N) := int_to_be_fixed bip32_index_len i.
(* Bip32KeyIndex.FromBytes *)
Definition index_from_bytes (b : list N) : res N := mk_index (Z.of_N (be_to_int b)).
Definition index_is_hardened (i : N) : bool := N.testbit i bip32_hardened_bit.
Definition index_harden (i : N) : N := N.setbit i bip32_hardened_bit.
Definition index_unharden (i : N) : N := N.clearbit i bip32_hardened_bit.

(* Bip32ChainCode(bytes) *)
Definition mk_chain_code (b : list N) : res (list N) :=
  if (length b =? bip32_chaincode_len)%nat then Ok b else Err ValueError.

(* Bip32FingerPrint(bytes): too short is an error, longer input is truncated *)
Definition mk_fprint (b : list N) : res (list N) :=
  if (length b <? bip32_fprint_len)%nat then Err ValueError else Ok (firstn bip32_fprint_len b).
Definition fprint_is_master (fp : list N) : bool := list_eqb fp bip32_fprint_master.

(* Bip32KeyNetVersions(pub, priv) *)
Definition mk_key_net_ver (pub priv : list N) : res (list N * list N) :=
  if negb (length pub =? bip32_ver_len)%nat || negb (length priv =? bip32_ver_len)%nat
  then Err ValueError else Ok (pub, priv).

(* Bip32KeyData *)
Record key_data := mk_kd { kd_depth : N; kd_index : N; kd_cc : list N; kd_fp : list N }.

Definition mk_key_data (d i : Z) (cc fp : list N) : res key_data :=
  d' <- mk_depth d ;; i' <- mk_index i ;; cc' <- mk_chain_code cc ;; fp' <- mk_fprint fp ;;
  Ok (mk_kd d' i' cc' fp').

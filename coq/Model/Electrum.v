(* bip_utils/electrum/electrum_v1.py : ElectrumV1 (old-style Electrum deterministic keys on secp256k1).
   Definitions only.  Oracles: sha256 and the group operations.  Address encoding (GetAddress) is the
   P2PKH pipeline of C09 applied to the key computed here and is not modelled in this file.
   Electrum v2 (bip_utils/electrum/electrum_v2.py) is plain BIP-32: ElectrumV2Standard derives
   m/change/addr from a Bip32Slip10Secp256k1 master object, i.e. [derive_elems] of Model/Bip32Slip10.v. *)
From Coq Require Import NArith Arith List Bool.
From BU Require Import Base.Exn Base.Radix Base.Bytes Model.Group Gen.DerivConsts Model.Bip32Slip10.
Import ListNotations.
Open Scope N_scope.

(* str(int) for a non-negative int: decimal digits, "0" for zero (f"{idx}") *)
Definition dec_str (v : N) : list N :=
  if v =? 0 then [48] else map (fun d => 48 + d) (to_be 10 v).

Section ElectrumV1.
  Variable G : group_ops.
  Variable sha256 : list N -> list N.
  Notation n := (order G).

  (* m_priv_key (None when public-only), m_pub_key *)
  Record ev1 := mk_ev1 { e_priv : option (list N); e_pub : pt G }.

  (* FromPrivateKey(bytes): Secp256k1PrivateKey.FromBytes raises ValueError when invalid *)
  Definition ev1_from_private_key (kb : list N) : res ev1 :=
    k <- ecdsa_priv_of_bytes G kb ;; Ok (mk_ev1 (Some k) (point_of (be_to_int k))).
  (* FromPublicKey(point) *)
  Definition ev1_from_public_key (P : pt G) : res ev1 :=
    P' <- ecdsa_pub_check G P ;; Ok (mk_ev1 None P').
  Definition ev1_to_public (o : ev1) : ev1 := mk_ev1 None (e_pub o).

  (* __ValidateIndexes: Bip32KeyIndex(change_idx); Bip32KeyIndex(addr_idx) *)
  Definition ev1_indexes_ok (change addr : N) : bool :=
    (change <=? bip32_index_max) && (addr <=? bip32_index_max).

  (* __GetSequence *)
  Definition ev1_sequence (o : ev1) (change addr : N) : list N :=
    sha256 (sha256 (dec_str addr ++ electrum_v1_sep1 ++ dec_str change ++ electrum_v1_sep2 ++
                    skipn electrum_v1_pub_skip (ser_u (e_pub o)))).

  (* GetPrivateKey -> raw key bytes *)
  Definition ev1_get_private_key (o : ev1) (change addr : N) : res (list N) :=
    match e_priv o with
    | None => Err ValueError
    | Some kb =>
      guard (ev1_indexes_ok change addr) else ValueError ;;
      let s := be_to_int (ev1_sequence o change addr) in
      kb' <- int_to_be_fixed ecdsa_priv_len ((be_to_int kb + s) mod n) ;;
      ecdsa_priv_of_bytes G kb'
    end.

  (* GetPublicKey -> point *)
  Definition ev1_get_public_key (o : ev1) (change addr : N) : res (pt G) :=
    match e_priv o with
    | None =>
      guard (ev1_indexes_ok change addr) else ValueError ;;
      let s := be_to_int (ev1_sequence o change addr) in
      ecdsa_pub_check G (add (e_pub o) (smul s base))
    | Some _ =>
      kb' <- ev1_get_private_key o change addr ;; Ok (point_of (be_to_int kb'))
    end.
End ElectrumV1.

(* The BIP-39 text as a specification, in plain bit vocabulary (no strings):
     mnemonic bits = ENT || first ENT/32 bits of SHA-256(ENT), cut into 11-bit groups, each group
     the index of a word; a sentence is accepted iff it has 12/15/18/21/24 listed words and the
     trailing len/33 bits are the SHA-256 prefix of the leading bits.
   The numerals here (11, 32, 33, 16..32, 12..24) are those of the BIP, not constants read from
   the library; Lemmas/Bip39.v proves the library's constants agree with them.
   Definitions only. *)
From Coq Require Import NArith Arith List Bool.
From BU Require Import Base.Exn Base.Bytes Model.BinStr Model.Bip39.
Import ListNotations.
Open Scope N_scope.

Definition legal_entropy_len (n : nat) : bool := existsb (Nat.eqb n) [16; 20; 24; 28; 32]%nat.
Definition legal_word_count (n : nat) : bool := existsb (Nat.eqb n) [12; 15; 18; 21; 24]%nat.

Section Spec.
  Variable sha256 : list N -> list N.
  Variable wl : list (list N).

  Definition mnemonic_bits (ent : list N) : list N :=
    bits_of_bytes ent ++ firstn (length ent / 4) (bits_of_bytes (sha256 ent)).

  Definition word_of (g : N) : list N := nth (N.to_nat g) wl [].

  Definition encode_spec (ent : list N) : res (list (list N)) :=
    if legal_entropy_len (length ent) then Ok (map word_of (groups 11 (mnemonic_bits ent)))
    else Err ValueError.

  (* indices of the words, None when some word is not listed *)
  Fixpoint sentence_indices (ws : list (list N)) : option (list N) :=
    match ws with
    | [] => Some []
    | w :: t => match word_index wl w, sentence_indices t with
                | Some i, Some r => Some (N.of_nat i :: r)
                | _, _ => None
                end
    end.

  Definition sentence_bits (idxs : list N) : list N := flat_map (fixed_be 2 11) idxs.

  Definition decode_spec (ws : list (list N)) : res (list N) :=
    if legal_word_count (length ws) then
      match sentence_indices ws with
      | None => Err ValueError
      | Some idxs =>
        let bits := sentence_bits idxs in
        let cl := (length ws / 3)%nat in
        let ent := bytes_of_bits (firstn (length bits - cl) bits) in
        if list_eqb (skipn (length bits - cl) bits) (firstn cl (bits_of_bytes (sha256 ent)))
        then Ok ent else Err (LibError MnemonicChecksumError)
      end
    else Err ValueError.

  (* DecodeWithChecksum: all mnemonic bits, right-aligned in whole bytes *)
  Definition decode_with_checksum_spec (ws : list (list N)) : res (list N) :=
    _ <- decode_spec ws ;;
    match sentence_indices ws with
    | None => Err ValueError
    | Some idxs =>
      let bits := sentence_bits idxs in
      let pad := ((8 - length bits mod 8) mod 8)%nat in
      Ok (bytes_of_bits (repeat 0 pad ++ bits))
    end.
End Spec.

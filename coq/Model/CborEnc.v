(* The definite-length CBOR encodings (RFC 8949) of the shapes bip_utils hands to cbor2.dumps in the
   Cardano code: unsigned integers, byte strings, arrays, maps with small integer keys, tags.
   Decoding of untrusted CBOR is delegated by the library to cbor2 and is an oracle in the models. *)
From Coq Require Import NArith Arith List.
From BU Require Import Base.Exn Base.Radix Base.Bytes.
From BU Require Import Model.EdLib.   (* le_pad *)
Import ListNotations.
Open Scope N_scope.

Definition be_pad (w : nat) (v : N) : list N := rev (le_pad w v).

(* initial byte(s): major type and argument (cbor2 always uses the shortest form) *)
Definition cbor_head (major n : N) : list N :=
  if n <? 24 then [major * 32 + n]
  else if n <? 2 ^ 8 then [major * 32 + 24; n]
  else if n <? 2 ^ 16 then (major * 32 + 25) :: be_pad 2 n
  else if n <? 2 ^ 32 then (major * 32 + 26) :: be_pad 4 n
  else (major * 32 + 27) :: be_pad 8 n.          (* arguments >= 2^64 do not occur *)

Definition cbor_uint (n : N) : list N := cbor_head 0 n.
Definition cbor_bytes (b : list N) : list N := cbor_head 2 (N.of_nat (length b)) ++ b.
Definition cbor_array (items : list (list N)) : list N := cbor_head 4 (N.of_nat (length items)) ++ concat items.
Definition cbor_map (kvs : list (list N * list N)) : list N :=
  cbor_head 5 (N.of_nat (length kvs)) ++ concat (map (fun kv => fst kv ++ snd kv) kvs).
Definition cbor_tag (t : N) (item : list N) : list N := cbor_head 6 t ++ item.

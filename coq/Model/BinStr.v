(* Python's binary-/hex-string helpers as used by bip_utils/utils/misc/{bytes,integer}.py:
     IntegerUtils.ToBinaryStr   bin(v)[2:].zfill(pad)
     IntegerUtils.FromBinaryStr int(s, 2)
     BytesUtils.ToBinaryStr     IntegerUtils.ToBinaryStr(int.from_bytes(b, "big"), pad)
     BytesUtils.FromBinaryStr   binascii.unhexlify(hex(int(s, 2))[2:].zfill(pad))
   plus the plain bit-level vocabulary (fixed-width digits, grouping) in which the BIP-39
   definition is stated.  Strings are code-point lists.  Definitions only; proofs are in
   Lemmas/BinStr.v. *)
From Coq Require Import NArith Arith List Bool.
From BU Require Import Base.Exn Base.Radix Base.Bytes.
Import ListNotations.
Open Scope N_scope.

(* ---- fixed-width positional digits (the specification vocabulary) ---- *)

(* w digits of v in radix r, least significant first (v mod r^w) *)
Fixpoint fixed_le (r : N) (w : nat) (v : N) : list N :=
  match w with
  | O => []
  | S w' => v mod r :: fixed_le r w' (v / r)
  end.
(* most significant first *)
Definition fixed_be (r : N) (w : nat) (v : N) : list N := rev (fixed_le r w v).

(* the 8 bits of every byte, most significant bit first *)
Definition bits_of_bytes (b : list N) : list N := flat_map (fixed_be 2 8) b.
(* value of a bit list, most significant bit first *)
Definition bits_to_N (bits : list N) : N := from_be 2 bits.

(* m consecutive chunks of k elements *)
Fixpoint chunk (k m : nat) (l : list N) : list (list N) :=
  match m with
  | O => []
  | S m' => firstn k l :: chunk k m' (skipn k l)
  end.
(* values of the consecutive k-bit groups of a bit list *)
Definition groups (k : nat) (bits : list N) : list N :=
  map bits_to_N (chunk k (length bits / k) bits).
Definition bytes_of_bits (bits : list N) : list N := groups 8 bits.

(* ---- Python primitives ---- *)

(* "0123456789abcdef"[d] *)
Definition digit_char (d : N) : N := if d <? 10 then 48 + d else 87 + d.

(* bin(v)[2:] and hex(v)[2:] : minimal digits, "0" for 0 *)
Definition py_bin (v : N) : list N := if v =? 0 then [48] else map digit_char (to_be 2 v).
Definition py_hex (v : N) : list N := if v =? 0 then [48] else map digit_char (to_be 16 v).

(* str.zfill(w) on a string that does not start with a sign *)
Definition zfill (w : nat) (s : list N) : list N := repeat 48 (w - length s) ++ s.

(* int(s, 2) on the strings the library builds (only '0'/'1'); anything else, and "", is a ValueError *)
Definition bin_digit (c : N) : res N :=
  if c =? 48 then Ok 0 else if c =? 49 then Ok 1 else Err ValueError.
Definition int_of_binstr (s : list N) : res N :=
  match s with
  | [] => Err ValueError
  | _ => ds <- mapM bin_digit s ;; Ok (from_be 2 ds)
  end.

(* binascii.unhexlify: odd length or a non-hex digit raise binascii.Error (a ValueError) *)
Definition hex_val (c : N) : res N :=
  if (48 <=? c) && (c <=? 57) then Ok (c - 48)
  else if (97 <=? c) && (c <=? 102) then Ok (c - 87)
  else if (65 <=? c) && (c <=? 70) then Ok (c - 55)
  else Err ValueError.
Fixpoint unhexlify (s : list N) : res (list N) :=
  match s with
  | [] => Ok []
  | [_] => Err ValueError
  | a :: b :: t => x <- hex_val a ;; y <- hex_val b ;; r <- unhexlify t ;; Ok (16 * x + y :: r)
  end.

(* IntegerUtils.ToBinaryStr / BytesUtils.ToBinaryStr *)
Definition int_to_binstr (v : N) (pad : nat) : list N := zfill pad (py_bin v).
Definition bytes_to_binstr (b : list N) (pad : nat) : list N := int_to_binstr (be_to_int b) pad.

(* BytesUtils.FromBinaryStr(s, pad): NB the pad counts hex digits *)
Definition bytes_of_binstr (s : list N) (hexpad : nat) : res (list N) :=
  v <- int_of_binstr s ;; unhexlify (zfill hexpad (py_hex v)).

(* s[:-k] and s[-k:] with Python's meaning of -0 *)
Definition py_drop_last (k : nat) (s : list N) : list N :=
  match k with O => [] | _ => drop_last k s end.
Definition py_take_last (k : nat) (s : list N) : list N :=
  match k with O => s | _ => take_last k s end.

(* bip_utils/ss58/ss58.py : SS58Encoder.Encode / SS58Decoder.Decode.  Definitions only.
   Constants of SS58Const are section variables instantiated from Gen/CodecConsts.v; blake2b-512 is an
   oracle.  The bit manipulations of the format prefix are transcribed with the code's own shifts/masks. *)
From Coq Require Import NArith ZArith List Bool.
From BU Require Import Base.Exn Base.Radix Base.Bytes.
From BU Require Model.Base58 Model.IntBytes.
Import ListNotations.
Open Scope N_scope.

(* bytes([...]) : ValueError when a member is not in range(256) *)
Definition bytes_of_ints (l : list N) : res (list N) :=
  if forallb (fun x => x <? 256) l then Ok l else Err ValueError.

Section SS58.
  Variable alph : list N.              (* Base58 alphabet (Bitcoin) *)
  Variable radix : N.
  Variable simple_max : N.             (* SIMPLE_ACCOUNT_FORMAT_MAX_VAL *)
  Variable format_max : N.             (* FORMAT_MAX_VAL *)
  Variable reserved : list N.          (* RESERVED_FORMATS *)
  Variable data_len : nat.             (* DATA_BYTE_LEN *)
  Variable cklen : nat.                (* CHECKSUM_BYTE_LEN *)
  Variable ck_prefix : list N.         (* CHECKSUM_PREFIX *)
  Variable blake2b512 : list N -> list N.

  (* _SS58Utils.ComputeChecksum *)
  Definition checksum (b : list N) : list N := firstn cklen (blake2b512 (ck_prefix ++ b)).

  (* the format prefix written by the encoder *)
  Definition format_bytes (f : N) : res (list N) :=
    if f <=? simple_max then IntBytes.to_bytes (Z.of_N f) 0 true        (* IntegerUtils.ToBytes(format) *)
    else bytes_of_ints [N.lor (N.shiftr (N.land f 252) 2) 64;
                        N.lor (N.shiftr f 8) (N.shiftl (N.land f 3) 6)].

  (* SS58Encoder.Encode(data_bytes, ss58_format) *)
  Definition encode (data : list N) (fmt : Z) : res (list N) :=
    if negb (length data =? data_len)%nat then Err ValueError
    else if (fmt <? 0)%Z || (Z.of_N format_max <? fmt)%Z then Err ValueError
    else let f := Z.to_N fmt in
      if memb f reserved then Err ValueError
      else
        fb <- format_bytes f ;;
        let payload := fb ++ data in
        Ok (Base58.encode alph radix (payload ++ checksum payload)).

  (* the format prefix read by the decoder: (format, number of bytes it occupies) *)
  Definition parse_header (dec : list N) : res (N * nat) :=
    match dec with
    | [] => Err ValueError                                   (* len(dec_bytes) == 0 *)
    | b0 :: r =>
        if negb (N.land b0 128 =? 0) then Err ValueError     (* reserved first byte *)
        else if negb (N.land b0 64 =? 0) then
          match r with
          | [] => Err ValueError                             (* len(dec_bytes) < 2 *)
          | b1 :: _ =>
              let f := N.lor (N.lor (N.shiftl (N.land b0 63) 2) (N.shiftr b1 6)) (N.shiftl (N.land b1 63) 8) in
              if f <=? simple_max then Err ValueError        (* non-canonical two-byte encoding *)
              else Ok (f, 2%nat)
          end
        else Ok (b0, 1%nat)
    end.

  (* SS58Decoder.Decode(data_str) -> (format, data_bytes) *)
  Definition decode (s : list N) : res (N * list N) :=
    dec <- Base58.decode alph radix s ;;
    hd <- parse_header dec ;;
    let '(f, flen) := hd in
    if memb f reserved then Err ValueError
    else
      let data := slice flen (length dec - cklen) dec in       (* dec[flen:-cklen] *)
      let ck := take_last cklen dec in                         (* dec[-cklen:] *)
      if negb (length data =? data_len)%nat then Err ValueError
      else if list_eqb ck (checksum (drop_last cklen dec)) then Ok (f, data)
      else Err (LibError SS58ChecksumError).
End SS58.

(* bip_utils/base58/base58_xmr.py : Base58XmrEncoder / Base58XmrDecoder (Monero block Base58).
   Definitions only.  The constants (alphabet, 8, 11, BLOCK_ENC_BYTE_LENS) are section variables
   instantiated from Gen/Consts.v. *)
From Coq Require Import NArith Arith List.
From BU Require Import Base.Exn Base.Radix Base.Bytes.
From BU Require Model.Base58.
Import ListNotations.
Open Scope N_scope.

(* list.index(x) on a list of ints: position of the first occurrence (ValueError when absent) *)
Fixpoint index_of_nat (c : nat) (l : list nat) : option nat :=
  match l with
  | [] => None
  | x :: t => if Nat.eqb x c then Some O else option_map S (index_of_nat c t)
  end.

Section Base58Xmr.
  Variable alph : list N.          (* Base58XmrConst.ALPHABET *)
  Variable radix : N.              (* Base58Const.RADIX *)
  Variable dec_max : nat.          (* BLOCK_DEC_MAX_BYTE_LEN *)
  Variable enc_max : nat.          (* BLOCK_ENC_MAX_BYTE_LEN *)
  Variable enc_lens : list nat.    (* BLOCK_ENC_BYTE_LENS *)

  Definition b58enc : list N -> list N := Base58.encode alph radix.
  Definition b58dec : list N -> res (list N) := Base58.decode alph radix.

  (* __Pad: enc_str.rjust(pad_len, ALPHABET[0]) -- unchanged when already long enough *)
  Definition pad (n : nat) (s : list N) : list N :=
    repeat (Base58.a0 alph) (n - length s) ++ s.

  (* __UnPad: dec_bytes[len(dec_bytes) - unpad_len : len(dec_bytes)].
     When the start is negative Python adds the length once more and clamps at 0. *)
  Definition unpad (n : nat) (b : list N) : list N :=
    let l := length b in
    if (n <=? l)%nat then skipn (l - n) b
    else skipn (l - (n - l)) b.

  (* the loop over the full blocks: data_bytes[i*8:(i+1)*8] for i in range(cnt) *)
  Fixpoint enc_blocks (cnt : nat) (b : list N) : list N :=
    match cnt with
    | O => []
    | S c => pad enc_max (b58enc (firstn dec_max b)) ++ enc_blocks c (skipn dec_max b)
    end.

  (* Base58XmrEncoder.Encode; BLOCK_ENC_BYTE_LENS[last] is a list subscript (IndexError) *)
  Definition encode (b : list N) : res (list N) :=
    let cnt := (length b / dec_max)%nat in
    let last := (length b mod dec_max)%nat in
    let full := enc_blocks cnt b in
    if (0 <? last)%nat then
      e <- of_option (nth_error enc_lens last) IndexError ;;
      Ok (full ++ pad e (b58enc (slice (cnt * dec_max) (cnt * dec_max + last) b)))
    else Ok full.

  (* One block of the decoder: Base58-decode, then __UnPad, which raises ValueError when the decoded
     value needs more than unpad_len bytes (len(dec_bytes.lstrip(b"\x00")) > unpad_len) and otherwise
     keeps the last unpad_len bytes. *)
  Definition dec_block (d : nat) (t : list N) : res (list N) :=
    dec <- b58dec t ;;
    if (d <? length (lstrip 0 dec))%nat then Err ValueError else Ok (unpad d dec).

  Section Decoder.
    Variable blk : nat -> list N -> res (list N).

    Fixpoint dec_blocks (cnt : nat) (s : list N) : res (list N) :=
      match cnt with
      | O => Ok []
      | S c =>
          d <- blk dec_max (firstn enc_max s) ;;
          r <- dec_blocks c (skipn enc_max s) ;;
          Ok (d ++ r)
      end.

    (* Base58XmrDecoder.Decode; BLOCK_ENC_BYTE_LENS.index(last) raises ValueError *)
    Definition decode_gen (s : list N) : res (list N) :=
      let cnt := (length s / enc_max)%nat in
      let last := (length s mod enc_max)%nat in
      last_dec <- of_option (index_of_nat last enc_lens) ValueError ;;
      full <- dec_blocks cnt s ;;
      if (0 <? last)%nat then
        d <- blk last_dec (slice (cnt * enc_max) (cnt * enc_max + last) s) ;;
        Ok (full ++ d)
      else Ok full.
  End Decoder.

  Definition decode : list N -> res (list N) := decode_gen dec_block.

  (* value of a block string (digits most significant first); used by the canonicity lemma *)
  Definition block_value (s : list N) : res N :=
    ds <- mapM (Base58.sym_index alph) s ;; Ok (from_be radix ds).

End Base58Xmr.

(* bip_utils/ecc/{secp256k1,nist256p1,ed25519,ed25519_blake2b,ed25519_kholaw,ed25519_monero,sr25519}/*.py --
   the ADAPTER logic of the key layer: length checks, prefix handling, scalar padding, exception
   normalisation and the Raw*/X/Y/+/* forms, around an ABSTRACT group.

   The arithmetic itself (libsecp256k1 through coincurve, python-ecdsa, libsodium through PyNaCl,
   ed25519-blake2b) is represented by Section variables: group operations [add smul], the SEC1 square root
   [lift_x], hashes, and the third-party acceptance tests [lib_accepts_*].  SEC1 / RFC 8032 byte formats are
   written out concretely, so that "compressed and uncompressed denote the same point" is a statement about
   bytes.  Nothing here claims a group law.

   Main model = behaviour the property demands: off-curve / not-a-point / non-canonical input is a ValueError.
   Where today's code differs (F17: python-ecdsa-backed classes do not validate; F18: non-canonical ed25519
   encodings accepted; ed25519-blake2b 64-byte keys; libsodium clearing bit 255 of unclamped scalars) the faithful
   variant is selected by [cur = true] ("_current"); it exists for the _refuted witnesses and is cheap.
   Where the two secp256k1 back-ends differ by design of the wrapped library (accepted encodings, identity
   results, scalar range of Point * s) each back-end is modelled faithfully and the difference is the finding. *)
From Coq Require Import NArith ZArith List Bool.
From BU Require Import Base.Exn Base.Radix Base.Bytes Model.Ed25519Lib.
Import ListNotations.
Open Scope N_scope.

(* IPublicKey.IsValidBytes / IPrivateKey.IsValidBytes / IsValidPoint: only ValueError is caught *)
Definition is_valid {A} (r : res A) : res bool :=
  match r with
  | inl _ => Ok true
  | inr ValueError => Ok false
  | inr UnicodeError => Ok false
  | inr e => Err e
  end.

(* every failure of a third-party call that the adapter wraps in try/except ValueError *)
Definition to_value_error {A} (o : option A) : res A := of_option o ValueError.

Definition nat_eqb := Nat.eqb.

(* =========================================================================== Weierstrass curves *)

Definition wpt := option (N * N).          (* None = point at infinity *)

Inductive backend := Coincurve | Ecdsa.    (* secp256k1: both; nist256p1: Ecdsa (python-ecdsa) *)

Module Weier.
Section Weierstrass.
  Variables (p a b n : N).                 (* field prime, coefficients (a reduced mod p), group order *)
  Variable base : wpt.                     (* generator *)
  (* lengths and prefix of EcdsaKeysConst *)
  Variables (coord_len priv_len pub_c_len pub_u_len : nat) (unc_prefix : list N).
  (* oracles *)
  Variable add : wpt -> wpt -> wpt.
  Variable smul : N -> wpt -> wpt.
  Variable lift_x : N -> bool -> option (N * N).     (* SEC1 decompression: the point with abscissa x and y parity *)
  Variable lib_accepts_priv : list N -> bool.         (* coincurve.PrivateKey(b) / ecdsa.SigningKey.from_string(b) succeed *)

  (* specification of the acceptance oracle (hypothesis of the theorems; the API instantiates the oracle with it) *)
  Definition accepts_priv_spec (k : list N) : bool := (0 <? be_to_int k) && (be_to_int k <? n).

  Definition on_curve (x y : N) : bool :=
    (x <? p) && (y <? p) && ((y * y) mod p =? (x * x * x + a * x + b) mod p).

  Definition be_coord (v : N) : res (list N) := int_to_be_fixed coord_len v.

  (* ---- SEC1 byte formats ---- *)
  Definition ser_raw (P : N * N) : res (list N) :=
    xb <- be_coord (fst P) ;; yb <- be_coord (snd P) ;; Ok (xb ++ yb).
  Definition ser_u (P : N * N) : res (list N) := r <- ser_raw P ;; Ok (unc_prefix ++ r).
  Definition ser_c (P : N * N) : res (list N) :=
    xb <- be_coord (fst P) ;; Ok ((2 + snd P mod 2) :: xb).

  Definition split_xy (r : list N) : N * N := (be_to_int (firstn coord_len r), be_to_int (skipn coord_len r)).

  (* 0x02 / 0x03 || X *)
  Definition deser_c (bs : list N) : option (N * N) :=
    match bs with
    | pre :: xb =>
      if nat_eqb (length bs) pub_c_len && ((pre =? 2) || (pre =? 3)) then lift_x (be_to_int xb) (pre =? 3) else None
    | [] => None
    end.
  (* X || Y, validated *)
  Definition deser_raw (r : list N) : option (N * N) :=
    if nat_eqb (length r) (coord_len * 2) then
      let '(x, y) := split_xy r in if on_curve x y then Some (x, y) else None
    else None.
  (* 0x04 || X || Y *)
  Definition deser_u (bs : list N) : option (N * N) :=
    match bs with
    | pre :: r => if nat_eqb (length bs) pub_u_len && list_eqb [pre] unc_prefix then deser_raw r else None
    | [] => None
    end.
  (* hybrid 0x06 / 0x07 || X || Y: parity of Y must match the prefix *)
  Definition deser_h (bs : list N) : option (N * N) :=
    match bs with
    | pre :: r =>
      if nat_eqb (length bs) pub_u_len && ((pre =? 6) || (pre =? 7)) then
        match deser_raw r with
        | Some (x, y) => if (y mod 2 =? pre - 6) then Some (x, y) else None
        | None => None
        end
      else None
    | [] => None
    end.

  Definition first_some {A} (l : list (option A)) : option A :=
    fold_right (fun o acc => match o with Some x => Some x | None => acc end) None l.

  (* ---- private keys: Secp256k1PrivateKeyCoincurve / Secp256k1PrivateKeyEcdsa / Nist256p1PrivateKey ----
     coincurve: explicit length check, then the library; ecdsa: the library checks both (MalformedPointError
     is mapped to ValueError).  The key object is the 32 bytes. *)
  Definition priv_from_bytes (be : backend) (k : list N) : res (list N) :=
    match be with
    | Coincurve =>
      if negb (nat_eqb (length k) priv_len) then Err ValueError else
      if lib_accepts_priv k then Ok k else Err ValueError
    | Ecdsa =>
      if nat_eqb (length k) priv_len && lib_accepts_priv k then Ok k else Err ValueError
    end.
  Definition priv_raw (k : list N) : list N := k.
  (* PublicKey(): the point k*G *)
  Definition priv_public (k : list N) : wpt := smul (be_to_int k) base.

  (* ---- public keys ----
     coincurve.PublicKey(b): 33-byte compressed, 65-byte uncompressed or hybrid;
     ecdsa.VerifyingKey.from_string(b): additionally the raw 64-byte form.  Both validate the point. *)
  Definition pub_from_bytes (be : backend) (bs : list N) : res wpt :=
    match be with
    | Coincurve => rmap Some (to_value_error (first_some [deser_c bs; deser_u bs; deser_h bs]))
    | Ecdsa => rmap Some (to_value_error (first_some [deser_c bs; deser_u bs; deser_h bs; deser_raw bs]))
    end.
  Definition pub_raw_compressed (P : wpt) : res (list N) :=
    match P with Some c => ser_c c | None => Err AttributeError end.
  Definition pub_raw_uncompressed (P : wpt) : res (list N) :=
    match P with Some c => ser_u c | None => Err AttributeError end.

  (* ---- points ---- *)
  (* Point.FromCoordinates.  [cur]: python-ecdsa's Point constructor only *asserts* the curve equation
     (modulo p, so unreduced coordinates pass and are kept) -- F17. *)
  Definition point_from_coords (cur : bool) (be : backend) (x y : N) : res wpt :=
    match be, cur with
    | Ecdsa, true =>
      if ((y * y) mod p =? (x * x * x + a * x + b) mod p) then Ok (Some (x, y)) else Err AssertionError
    | _, _ => if on_curve x y then Ok (Some (x, y)) else Err ValueError
    end.

  (* Point.FromBytes.
     coincurve back-end: 64 raw bytes (0x04 is prepended) or 33 compressed bytes, anything else ValueError.
     ecdsa back-end: PointJacobi.from_bytes accepts raw, uncompressed, hybrid and compressed.
     [cur]: PointJacobi.from_bytes does not validate raw / uncompressed / hybrid coordinates at all and
     decompresses x modulo p while keeping x unreduced -- F17. *)
  Definition deser_raw_nocheck (r : list N) : option (N * N) :=
    if nat_eqb (length r) (coord_len * 2) then Some (split_xy r) else None.
  Definition point_from_bytes (cur : bool) (be : backend) (bs : list N) : res wpt :=
    match be, cur with
    | Coincurve, _ => rmap Some (to_value_error (first_some [deser_raw bs; deser_c bs]))
    | Ecdsa, false =>
      rmap Some (to_value_error (first_some [deser_raw bs; deser_c bs; deser_u bs; deser_h bs]))
    | Ecdsa, true =>
      rmap Some (to_value_error (first_some [
        deser_raw_nocheck bs;
        match bs with
        | pre :: xb =>
          if nat_eqb (length bs) pub_c_len && ((pre =? 2) || (pre =? 3)) then
            match lift_x (be_to_int xb mod p) (pre =? 3) with
            | Some (_, y) => Some (be_to_int xb, y) | None => None end
          else None
        | [] => None end;
        match bs with
        | pre :: r =>
          if nat_eqb (length bs) pub_u_len && list_eqb [pre] unc_prefix then deser_raw_nocheck r else None
        | [] => None end;
        match bs with
        | pre :: r =>
          if nat_eqb (length bs) pub_u_len && ((pre =? 6) || (pre =? 7)) then
            match deser_raw_nocheck r with
            | Some (x, y) => if (y mod 2 =? pre - 6) then Some (x, y) else None
            | None => None end
          else None
        | [] => None end]))
    end.

  (* X(), Y(), Raw() = RawDecoded(), RawEncoded().  The identity exists as an object only on the ecdsa
     back-end (python-ecdsa's INFINITY): its X()/Y() are None and its Raw*() raise AttributeError. *)
  Definition point_x (P : wpt) : res N := match P with Some c => Ok (fst c) | None => Err AttributeError end.
  Definition point_y (P : wpt) : res N := match P with Some c => Ok (snd c) | None => Err AttributeError end.
  Definition point_raw (P : wpt) : res (list N) := match P with Some c => ser_raw c | None => Err AttributeError end.
  Definition point_raw_encoded (P : wpt) : res (list N) := match P with Some c => ser_c c | None => Err AttributeError end.

  (* __add__: coincurve's combine refuses an identity sum; python-ecdsa returns INFINITY *)
  Definition point_add (be : backend) (P Q : wpt) : res wpt :=
    match be with
    | Coincurve => match add P Q with None => Err ValueError | R => Ok R end
    | Ecdsa => Ok (add P Q)
    end.

  (* __mul__ / __rmul__: coincurve's multiply takes IntegerUtils.ToBytes(s) (minimal big-endian) and requires
     0 < s < n (ValueError otherwise, also for more than 32 bytes); python-ecdsa multiplies by any integer -- F15 *)
  Definition point_mul (be : backend) (P : wpt) (s : N) : res wpt :=
    match be with
    | Coincurve => if (0 <? s) && (s <? n) then Ok (smul s P) else Err ValueError
    | Ecdsa => Ok (smul s P)
    end.

  (* PublicKey.FromPoint: from the point's coordinates; both libraries validate.  An INFINITY object (ecdsa
     back-end only) has X() = None: TypeError *)
  Definition pub_from_point (be : backend) (P : wpt) : res wpt :=
    match P with
    | Some (x, y) => if on_curve x y then Ok (Some (x, y)) else
                       match be with Coincurve => Err ValueError | Ecdsa => Err AssertionError end
    | None => Err TypeError
    end.
End Weierstrass.
End Weier.

(* =========================================================================== ed25519 family *)

Inductive edkind := Ed25519 | Ed25519Blake2b | Ed25519Kholaw | Ed25519Monero.

Module Edw.
Section Edwards.
  Open Scope Z_scope.
  (* ed25519_lib constants (Gen/Ecc.v) *)
  Variables (q l d : Z) (g : zpt) (g_enc : list N) (clen : nat) (clamp sign_bit : Z) (sign_byte : N).
  (* Ed25519KeysConst / Ed25519KholawKeysConst *)
  Variables (pub_prefix : list N) (pub_len priv_len kholaw_priv_len : nat).
  (* oracles *)
  Variable xrec : Z -> Z.                                  (* _x_recover *)
  Variable eadd : zpt -> zpt -> zpt.                       (* group addition on reduced affine coordinates *)
  Variable esmul : Z -> zpt -> zpt.                        (* scalar multiplication by any non-negative integer *)
  Variables (sha512 blake2b512 : list N -> list N).
  Variable nacl_sk_accepts : list N -> bool.               (* nacl.signing.SigningKey(b) succeeds *)
  Variable nacl_vk_accepts : list N -> bool.               (* nacl.signing.VerifyKey(b) succeeds *)
  Variable b2b_sk_accepts : list N -> bool.                (* ed25519_blake2b.SigningKey(b) succeeds *)
  Variable in_prime_subgroup : zpt -> bool.                (* l * P = identity *)

  (* specifications of the acceptance oracles *)
  Definition accepts_len32_spec (k : list N) : bool := nat_eqb (length k) 32.
  (* what ed25519_blake2b.SigningKey really accepts today: a 32-byte seed, or 64 bytes seed || public key
     (the public half is NOT checked against the seed) *)
  Definition b2b_accepts_current_spec (k : list N) : bool := nat_eqb (length k) 32 || nat_eqb (length k) 64.

  Definition decode := point_decode_no_check q clen clamp sign_bit xrec.
  Definition to_coord := point_bytes_to_coord q clen clamp sign_bit xrec.
  Definition on_curve_bytes := point_is_on_curve_bytes q d clen clamp sign_bit xrec.
  Definition encode := point_encode clen sign_byte.
  Definition reduce (P : zpt) : zpt := (fst P mod q, snd P mod q).

  (* RFC 8032 canonical encoding: y < q, and not (x = 0 with the sign bit set); in terms of the library's
     decoding: both decoded coordinates are reduced (x = 0 with sign set decodes to x = q) *)
  Definition canonical_coord (P : zpt) : bool := (0 <=? fst P) && (fst P <? q) && (0 <=? snd P) && (snd P <? q).
  Definition canonical_enc (bs : list N) : bool :=
    match decode bs with inl P => canonical_coord P | inr _ => false end.

  (* ---- public keys: Ed25519PublicKey (also Kholaw, Monero by inheritance), Ed25519Blake2bPublicKey ---- *)
  Definition strip_prefix (bs : list N) : list N :=
    match bs with
    | pre :: t => if nat_eqb (length bs) (pub_len + length pub_prefix) && list_eqb [pre] pub_prefix then t else bs
    | [] => bs
    end.
  Definition pub_from_bytes (cur : bool) (k : edkind) (bs : list N) : res (list N) :=
    let bs1 := strip_prefix bs in
    (* Ed25519Blake2bPublicKey: explicit length check ("the library does not raise any exception") *)
    if (match k with Ed25519Blake2b => negb (nat_eqb (length bs1) pub_len) | _ => false end) then Err ValueError else
    oc <- on_curve_bytes bs1 ;;
    if negb oc then Err ValueError else
    (* VerifyKey / VerifyingKey constructor: 32 bytes *)
    if negb (match k with Ed25519Blake2b => true | _ => nacl_vk_accepts bs1 end) then Err ValueError else
    if negb cur && negb (canonical_enc bs1) then Err ValueError else       (* property; not in today's code: F18 *)
    Ok bs1.
  Definition pub_raw_compressed (k : edkind) (key : list N) : list N :=
    match k with Ed25519Monero => key | _ => pub_prefix ++ key end.
  Definition pub_raw_uncompressed := pub_raw_compressed.

  (* ---- points: Ed25519Point and its three subclasses (the point object is its 32-byte encoding) ---- *)
  Definition point_from_bytes (cur : bool) (bs : list N) : res (list N) :=
    oc <- on_curve_bytes bs ;;
    if negb oc then Err ValueError else
    enc <- (if point_is_decoded_bytes clen bs then P <- to_coord bs ;;
              (if negb cur && negb (canonical_coord P) then Err ValueError else encode P)
            else Ok bs) ;;
    if negb (point_is_encoded_bytes clen enc) then Err ValueError else
    if negb cur && negb (canonical_enc enc) then Err ValueError else
    Ok enc.
  Definition point_from_coords (cur : bool) (x y : Z) : res (list N) :=
    bs <- point_coord_to_bytes clen (x, y) ;; point_from_bytes cur bs.
  Definition point_x (enc : list N) : res Z := rmap fst (to_coord enc).
  Definition point_y (enc : list N) : res Z := rmap snd (to_coord enc).
  Definition point_raw (enc : list N) : res (list N) :=
    P <- to_coord enc ;; point_coord_to_bytes clen P.
  Definition point_raw_encoded (enc : list N) : list N := enc.

  (* __add__: crypto_core_ed25519_add -- every curve point is accepted (torsion, non-canonical included) *)
  Definition point_add (e1 e2 : list N) : res (list N) :=
    if negb (point_is_encoded_bytes clen e1 && point_is_encoded_bytes clen e2) then Err TypeError else
    P1 <- sodium_point q d clen clamp sign_bit xrec e1 ;; P2 <- sodium_point q d clen clamp sign_bit xrec e2 ;;
    encode (eadd (reduce P1) (reduce P2)).

  (* __mul__ / __rmul__ and the unclamped PublicKey() of Kholaw / Monero keys:
     crypto_scalarmult_ed25519[_base]_noclamp.  libsodium rejects points outside the prime-order subgroup,
     small-order and non-canonical points (not for the base-point variant), a zero scalar and an identity
     result; ed25519_lib maps all of these to ValueError.  Main model: the scalar is the integer s.
     [cur]: libsodium CLEARS BIT 255 of the scalar (t[31] &= 127), so today s >= 2^255 silently multiplies by
     s - 2^255. *)
  Definition mul_scalar (cur : bool) (s : Z) : Z := if cur then Z.land s clamp else s.
  Definition unclamped_mul (cur : bool) (is_gen : bool) (s : Z) (enc : list N) : res (list N) :=
    sb <- int_encode clen s ;;
    if negb (point_is_encoded_bytes clen enc) then Err TypeError else
    P <- decode enc ;;
    if negb is_gen && negb ((snd P <? q) && Ed25519Lib.on_curve q d P && in_prime_subgroup (reduce P)
                            && negb (zpt_eqb (reduce P) (0, 1))) then Err ValueError else
    let R := esmul (mul_scalar cur s) (reduce P) in
    if zpt_eqb R (0, 1) || (s =? 0) then Err ValueError else encode R.
  Definition point_mul (cur : bool) (enc : list N) (s : Z) : res (list N) :=
    unclamped_mul cur (list_eqb enc g_enc) s enc.

  (* ---- private keys ---- *)
  Definition priv_from_bytes (cur : bool) (k : edkind) (bs : list N) : res (list N) :=
    match k with
    | Ed25519 => if nacl_sk_accepts bs then Ok bs else Err ValueError
    | Ed25519Blake2b => if b2b_sk_accepts bs then Ok bs else Err ValueError
    | Ed25519Kholaw =>
      (* Ed25519PrivateKey.FromBytes(key_bytes[:32]), then the extension must be 32 bytes *)
      if negb (nacl_sk_accepts (firstn priv_len bs)) then Err ValueError else
      if negb (nat_eqb (length (skipn priv_len bs)) priv_len) then Err ValueError else Ok bs
    | Ed25519Monero =>
      (* scalar_is_valid: int_decode(bytes) < l -- for any length; then the 32-byte check of nacl.
         (0 passes; PublicKey() of it is a ValueError, see unclamped_mul) *)
      if negb (scalar_is_valid_bytes l bs) then Err ValueError else
      if nacl_sk_accepts bs then Ok bs else Err ValueError
    end.
  (* Raw(): the key bytes; ed25519_blake2b's to_bytes() is the 32-byte seed (only relevant for [cur] 64-byte keys) *)
  Definition priv_raw (k : edkind) (key : list N) : list N :=
    match k with Ed25519Blake2b => firstn 32 key | _ => key end.

  (* RFC 8032 secret scalar of a 32-byte seed with a 64-byte hash *)
  Definition rfc8032_scalar (h : list N) : Z :=
    Z.lor (Z.land (int_decode (firstn 32 h)) (2 ^ 254 - 8)) (2 ^ 254).

  (* PublicKey() -- the 32-byte public key *)
  Definition priv_public (cur : bool) (k : edkind) (key : list N) : res (list N) :=
    match k with
    | Ed25519 => encode (esmul (rfc8032_scalar (sha512 key)) (reduce g))
    | Ed25519Blake2b =>
      (* [cur]: a 64-byte key carries its own, unchecked, public half *)
      if cur && nat_eqb (length key) 64 then Ok (skipn 32 key)
      else encode (esmul (rfc8032_scalar (blake2b512 key)) (reduce g))
    | Ed25519Kholaw => unclamped_mul cur true (int_decode (firstn priv_len key)) g_enc
    | Ed25519Monero => unclamped_mul cur true (int_decode key) g_enc
    end.
End Edwards.
End Edw.

(* =========================================================================== sr25519 (lengths only) *)
Module Sr.
Section Sr25519.
  Variables (pub_len priv_len : nat).
  Definition sr_priv_from_bytes (bs : list N) : res (list N) :=
    if nat_eqb (length bs) priv_len then Ok bs else Err ValueError.
  Definition sr_pub_from_bytes (bs : list N) : res (list N) :=
    if nat_eqb (length bs) pub_len then Ok bs else Err ValueError.
End Sr25519.
End Sr.

(* Address encoders/decoders layered on the checksummed text codecs (Bech32, SegWit, CashAddr,
   Base32, SS58): Atom family, Avax, Egld, Inj/Okex/One, Zil, P2WPKH, P2TR, BCH P2PKH/P2SH,
   Algo, Xlm, Fil, Nano, Substrate.  The text codecs are Section variables here (their models and
   round-trip theorems live in Model/Bech32*.v, Model/Base32.v, Model/SS58.v); the theorems about
   these pipelines take the codec round-trip law as an explicit hypothesis, which is then
   discharged by the codec's own theorem where it is instantiated. *)
From Coq Require Import NArith ZArith Arith List Bool.
From BU Require Import Base.Exn Base.Bytes Gen.Consts Gen.AddrConsts Gen.AddrTextConsts
  Model.AddrUtils Model.AddrB58.
Import ListNotations.
Open Scope N_scope.

Section AddrText.
  Variables sha256 ripemd160 keccak256 sha512_256 : list N -> list N.
  Variable blake2b : nat -> list N -> list N.
  Variable valid_pub : N -> list N -> bool.        (* curve tag (0 secp256k1, 2 ed25519, 3 ed25519-blake2b, 4 sr25519), key bytes *)
  Variable crc16_xmodem : list N -> list N.        (* 2 bytes, big-endian, as XModemCrc.QuickDigest *)

  (* text codecs *)
  Variable bech32_enc : list N -> list N -> res (list N).
  Variable bech32_dec : list N -> list N -> res (list N).
  Variable segwit_enc : list N -> N -> list N -> res (list N).
  Variable segwit_dec : list N -> list N -> res (N * list N).
  Variable cash_enc : list N -> list N -> list N -> res (list N).
  Variable cash_dec : list N -> list N -> res (list N * list N).
  Variable b32_enc_nopad : option (list N) -> list N -> res (list N).
  Variable b32_dec : option (list N) -> list N -> res (list N).
  Variable ss58_enc : list N -> N -> res (list N).
  Variable ss58_dec : list N -> res (N * list N).

  Notation h160 := (hash160 sha256 ripemd160).

  (* ---- Bech32 with a fixed-length payload: Atom family (hash160 of the compressed key) *)
  Definition bech32_fixed_decode (hrp : list N) (n : nat) (addr : list N) : res (list N) :=
    d <- checksum_to_value_error (bech32_dec hrp addr) ;;
    _ <- validate_length d n ;;
    Ok d.

  Definition atom_encode (hrp pub_c : list N) : res (list N) := bech32_enc hrp (h160 pub_c).
  Definition atom_decode (hrp addr : list N) : res (list N) := bech32_fixed_decode hrp hash160_len addr.

  (* AvaxPChain / AvaxXChain: "P-" / "X-" in front of an Atom address under the avax HRP *)
  Definition avax_encode (prefix hrp pub_c : list N) : res (list N) :=
    rmap (app prefix) (atom_encode hrp pub_c).
  Definition avax_decode (prefix hrp addr : list N) : res (list N) :=
    a <- validate_and_remove_prefix addr prefix ;; atom_decode hrp a.

  (* Egld: the raw 32-byte ed25519 key *)
  Definition egld_encode (pub32 : list N) : res (list N) := bech32_enc egld_hrp pub32.
  Definition egld_decode (addr : list N) : res (list N) :=
    d <- bech32_fixed_decode egld_hrp (ed25519_compr_len - 1)%nat addr ;;
    if valid_pub 2 d then Ok d else Err ValueError.

  (* Inj / Okex / One: Bech32 of the 20 Ethereum address bytes *)
  Definition eth_bytes (pub_u : list N) : res (list N) :=
    from_hex (skipn 2 (eth_encode keccak256 false pub_u)).
  Definition ethb32_encode (hrp pub_u : list N) : res (list N) :=
    raw <- eth_bytes pub_u ;; bech32_enc hrp raw.
  Definition inj_decode (addr : list N) : res (list N) :=
    bech32_fixed_decode inj_hrp (Nat.div eth_addr_len 2)%nat addr.
  (* Okex and One decode through EthAddrDecoder (skip_chksum_enc = true) *)
  Definition ethb32_decode (hrp addr : list N) : res (list N) :=
    d <- checksum_to_value_error (bech32_dec hrp addr) ;;
    eth_decode keccak256 true (eth_prefix ++ to_hex d).

  (* Zil: last 20 bytes of SHA-256 of the compressed key *)
  Definition zil_encode (pub_c : list N) : res (list N) :=
    bech32_enc zil_hrp (take_last zil_hash_len (sha256 pub_c)).
  Definition zil_decode (addr : list N) : res (list N) := bech32_fixed_decode zil_hrp zil_hash_len addr.

  (* ---- SegWit *)
  Definition p2wpkh_encode (hrp pub_c : list N) : res (list N) := segwit_enc hrp p2wpkh_wit_ver (h160 pub_c).
  (* the length check: SegwitBech32Decoder also admits 32-byte programs for version 0 (P2WSH) *)
  Definition p2wpkh_decode (hrp addr : list N) : res (list N) :=
    vd <- checksum_to_value_error (segwit_dec hrp addr) ;;
    let '(v, d) := vd in
    _ <- validate_length d hash160_len ;;
    if v =? p2wpkh_wit_ver then Ok d else Err ValueError.

  (* P2TR: the tweaked output key (BIP-341) is computed by [tweak] (EC arithmetic: C12's layer) *)
  Variable taproot_tweak : list N -> list N.       (* compressed key -> 32-byte x of the output key *)
  Definition p2tr_encode (hrp pub_c : list N) : res (list N) := segwit_enc hrp p2tr_wit_ver (taproot_tweak pub_c).
  Definition p2tr_decode (hrp addr : list N) : res (list N) :=
    vd <- checksum_to_value_error (segwit_dec hrp addr) ;;
    let '(v, d) := vd in
    _ <- validate_length d (secp_compr_len - 1)%nat ;;
    if v =? p2tr_wit_ver then Ok d else Err ValueError.

  (* ---- CashAddr *)
  Definition bch_p2pkh_encode (hrp net_ver pub_c : list N) : res (list N) := cash_enc hrp net_ver (h160 pub_c).
  Definition bch_p2sh_encode (hrp net_ver pub_c : list N) : res (list N) :=
    cash_enc hrp net_ver (p2sh_script_hash sha256 ripemd160 pub_c).
  Definition bch_decode (hrp net_ver addr : list N) : res (list N) :=
    nd <- checksum_to_value_error (cash_dec hrp addr) ;;
    let '(nv, d) := nd in
    if negb (list_eqb net_ver nv) then Err ValueError
    else _ <- validate_length d hash160_len ;; Ok d.

  (* ---- Base32 *)
  Definition algo_checksum (pub32 : list N) : list N := take_last algo_cklen (sha512_256 pub32).
  Definition algo_encode (pub32 : list N) : res (list N) := b32_enc_nopad None (pub32 ++ algo_checksum pub32).
  (* only the canonical encoding is an address: Base32Encoder.EncodeNoPadding(decoded) != addr -> ValueError
     (no '=' characters, unused bits of the last character zero) *)
  Definition canonical_b32 (al : option (list N)) (d text : list N) : res unit :=
    e <- b32_enc_nopad al d ;; if list_eqb e text then Ok tt else Err ValueError.
  Definition algo_decode (addr : list N) : res (list N) :=
    d <- b32_dec None addr ;;
    _ <- canonical_b32 None d addr ;;
    _ <- validate_length d (ed25519_compr_len + algo_cklen - 1)%nat ;;
    let (pub, ck) := split_by_checksum d algo_cklen in
    _ <- validate_checksum pub ck algo_checksum ;;
    if valid_pub 2 pub then Ok pub else Err ValueError.

  Definition xlm_checksum (payload : list N) : list N := rev (crc16_xmodem payload).
  Definition xlm_encode (addr_type : N) (pub32 : list N) : res (list N) :=
    let payload := [addr_type] ++ pub32 in b32_enc_nopad None (payload ++ xlm_checksum payload).
  Definition xlm_decode (addr_type : N) (addr : list N) : res (list N) :=
    d <- b32_dec None addr ;;
    _ <- validate_length d (ed25519_compr_len + xlm_cklen)%nat ;;
    let (payload, ck) := split_by_checksum d xlm_cklen in
    match payload with
    | [] => Err IndexError
    | t :: pub =>
      if negb (t =? addr_type) then Err ValueError
      else _ <- validate_checksum payload ck xlm_checksum ;;
           if valid_pub 2 pub then Ok pub else Err ValueError
    end.

  Definition fil_checksum (addr_type : N) (h : list N) : list N := blake2b blake2b32_len ([addr_type] ++ h).
  Definition fil_encode (pub_u : list N) : res (list N) :=
    let h := blake2b blake2b160_len pub_u in
    e <- b32_enc_nopad (Some fil_alphabet) (h ++ fil_checksum fil_secp_type h) ;;
    Ok (fil_prefix ++ [48 + fil_secp_type] ++ e).
  Definition fil_decode (addr : list N) : res (list N) :=
    a <- validate_and_remove_prefix addr fil_prefix ;;
    match a with
    | [] => Err ValueError
    | t :: body =>
      if negb (Z.eqb (Z.of_N t - 48) (Z.of_N fil_secp_type)) then Err ValueError
      else d <- b32_dec (Some fil_alphabet) body ;;
           _ <- canonical_b32 (Some fil_alphabet) d body ;;
           _ <- validate_length d (blake2b160_len + blake2b32_len)%nat ;;
           let (h, ck) := split_by_checksum d blake2b32_len in
           _ <- validate_checksum h ck (fil_checksum fil_secp_type) ;;
           Ok h
    end.

  Definition nano_checksum (pub32 : list N) : list N := rev (blake2b blake2b40_len pub32).
  Definition nano_encode (pub32 : list N) : res (list N) :=
    let payload := nano_pad_dec ++ pub32 ++ nano_checksum pub32 in
    e <- b32_enc_nopad (Some nano_alphabet) payload ;;
    Ok (nano_prefix ++ skipn (length nano_pad_enc) e).
  Definition nano_decode (addr : list N) : res (list N) :=
    a <- validate_and_remove_prefix addr nano_prefix ;;
    d <- b32_dec (Some nano_alphabet) (nano_pad_enc ++ a) ;;
    _ <- validate_length d (ed25519_compr_len + blake2b40_len + length nano_pad_dec - 1)%nat ;;
    _ <- validate_and_remove_prefix d nano_pad_dec ;;      (* the bits in front of the key shall be zero *)
    let (pub, ck) := split_by_checksum (skipn (length nano_pad_dec) d) blake2b40_len in
    _ <- validate_checksum pub ck nano_checksum ;;
    if valid_pub 3 pub then Ok pub else Err ValueError.

  (* ---- Nimiq: IBAN-style mod-97 checksum in front, Base32 (own alphabet) in groups of four.
     The Python computes int(x / 10) in floating point; on the values that occur (< 10^6) that is
     exact integer division -- tied by the correspondence, not proved. *)
  Definition nim_val (c : N) : N := if (48 <=? c) && (c <=? 57) then c - 48 else c - 55.
  Fixpoint nim_shift (fuel : nat) (rem ck : N) : N :=
    match fuel with
    | O => ck
    | S f => if rem =? 0 then ck else nim_shift f (rem / 10) (ck * 10)
    end.
  Definition nim_add (ck v : N) : N :=
    if v =? 0 then (ck * 10) mod 97 else (nim_shift 8 v ck + v) mod 97.
  Definition nim_checksum (s : list N) : list N :=
    let ck := 98 - nim_add (fold_left (fun acc c => nim_add acc (nim_val c)) s 0) 232600 in
    [48 + ck / 10; 48 + ck mod 10].
  Fixpoint nim_groups (fuel : nat) (s : list N) : list N :=
    match fuel with
    | O => s
    | S f => if (length s <=? nim_group_len)%nat then s
             else firstn nim_group_len s ++ [32] ++ nim_groups f (skipn nim_group_len s)
    end.
  Definition nim_encode (pub32 : list N) : res (list N) :=
    e <- b32_enc_nopad (Some nim_alphabet) (firstn nim_hash_len (blake2b blake2b256_len pub32)) ;;
    Ok (nim_prefix ++ nim_checksum e ++ [32] ++ nim_groups (length e) e).
  (* decoder: symbols outside the Nimiq alphabet always end in ValueError (checksum mismatch or
     Base32 rejection), whatever str.isdigit() says about them: the model exits directly *)
  Definition nim_decode (addr : list N) : res (list N) :=
    let a := filter (fun c => negb (c =? 32)) addr in
    a' <- validate_and_remove_prefix a nim_prefix ;;
    _ <- validate_length a' (nim_ck_enc_len + nim_hash_enc_len)%nat ;;
    let ck := firstn nim_ck_enc_len a' in
    let body := skipn nim_ck_enc_len a' in
    if negb (forallb (fun c => memb c nim_alphabet) body) then Err ValueError
    else _ <- validate_checksum body ck nim_checksum ;;
         b32_dec (Some nim_alphabet) body.

  (* ---- SS58 *)
  Definition substrate_encode (fmt : N) (pub32 : list N) : res (list N) := ss58_enc pub32 fmt.
  Definition substrate_decode (curve fmt : N) (addr : list N) : res (list N) :=
    fd <- checksum_to_value_error (ss58_dec addr) ;;
    let '(f, d) := fd in
    if negb (f =? fmt) then Err ValueError
    else if valid_pub curve d then Ok d else Err ValueError.
End AddrText.

(* Abstract model of the library's object state for C15: a store of fields (immutable and
   mutable ones), operations that call methods or write fields, and memoisation
   (functools.lru_cache keyed by (object, arguments); lazy singletons are the same thing with a
   single key).  A method identifier [M] stands for (object, method, arguments) -- the cache key;
   a field identifier [F] for (object, field).  [sem m st] is the uncached pure function of the
   logical state.  Second part: two threads racing on one cache slot with the atomic steps
   test / compute / store.  Executable definitions only. *)
From Coq Require Import List Bool.
Import ListNotations.

Section Memo.
  Variable F : Type.
  Variable feqb : F -> F -> bool.
  Variable M : Type.
  Variable meqb : M -> M -> bool.
  Variable V : Type.
  Variable sem : M -> (F -> V) -> V.        (* the method body as a function of the field values *)
  Variable is_cached : M -> bool.           (* carries @lru_cache / is a lazy initialiser *)

  Definition store := F -> V.
  Definition cache := list (M * V).
  Definition state := (store * cache)%type.

  Inductive op :=
  | Call (m : M)                 (* any method call; calls do not write fields *)
  | Write (f : F) (v : V).       (* a mutator: ConvertToPublic, a toggle, ... *)

  Definition update (st : store) (f : F) (v : V) : store :=
    fun g => if feqb g f then v else st g.

  Fixpoint lookup (m : M) (c : cache) : option V :=
    match c with
    | [] => None
    | (k, v) :: t => if meqb k m then Some v else lookup m t
    end.

  (* one operation: new state and, for calls, the value returned *)
  Definition step (s : state) (o : op) : state * option V :=
    let '(st, c) := s in
    match o with
    | Write f v => ((update st f v, c), None)
    | Call m =>
        if is_cached m then
          match lookup m c with
          | Some v => ((st, c), Some v)
          | None => let v := sem m st in ((st, (m, v) :: c), Some v)
          end
        else ((st, c), Some (sem m st))
    end.

  Fixpoint run (s : state) (h : list op) : state :=
    match h with [] => s | o :: t => run (fst (step s o)) t end.

  (* value returned by [Call m] issued after history [h] *)
  Definition result_after (s : state) (h : list op) (m : M) : option V := snd (step (run s h) (Call m)).

  (* the logical state alone: writes applied, calls ignored *)
  Fixpoint logical (st : store) (h : list op) : store :=
    match h with
    | [] => st
    | Write f v :: t => logical (update st f v) t
    | Call _ :: t => logical st t
    end.

  Definition writes_of (h : list op) : list F :=
    flat_map (fun o => match o with Write f _ => [f] | Call _ => [] end) h.
End Memo.

Arguments Call {F M V}. Arguments Write {F M V}.

(* ---- two threads, one cache slot (lazy singleton / one lru_cache key) ----
   Thread program:   test:    v = slot; if v is not None: return v
                     compute: r = f(state)            (pure; the logical state does not change)
                     store:   slot = r; return r                                                  *)
Section Race.
  Variable V : Type.
  Variable fval : V.            (* the value the pure computation yields in the current logical state *)

  Inductive pc := Test | Compute | Store (r : V) | Done (r : V).
  Record config := mkConfig { slot : option V; t0 : pc; t1 : pc }.

  Definition thread_step (sl : option V) (p : pc) : option V * pc :=
    match p with
    | Test => match sl with Some v => (sl, Done v) | None => (sl, Compute) end
    | Compute => (sl, Store fval)
    | Store r => (Some r, Done r)
    | Done r => (sl, Done r)
    end.

  (* a schedule names the thread that makes the next atomic step *)
  Definition sched_step (c : config) (who : bool) : config :=
    if who then let '(s, p) := thread_step (slot c) (t1 c) in mkConfig s (t0 c) p
    else let '(s, p) := thread_step (slot c) (t0 c) in mkConfig s p (t1 c).

  Definition run_sched (c : config) (sch : list bool) : config := fold_left sched_step sch c.

  Definition finished (p : pc) : option V := match p with Done r => Some r | _ => None end.

  (* sequential run: thread 0 to completion, then thread 1 *)
  Definition sequential : list bool := [false; false; false; true; true; true].
End Race.

Arguments Test {V}. Arguments Compute {V}. Arguments Store {V}. Arguments Done {V}.

(* ---- a process as a state machine (the shape the history check tests) ----
   [S]: the whole state of the process -- the immutable fields of every object AND everything else
   (caches, class attributes, module-level configuration objects).  [Op]: a call with its arguments.
   [step s o] = (state after the call, result).  A history is a list of calls; [exec] is the fold of
   [step] over it; [result_at s h o] is what call [o] returns when issued after history [h].
   [result_at s [] o] is the value "first thing in a fresh process". *)
Section Machine.
  Variable S Op R : Type.
  Variable step : S -> Op -> S * R.

  Definition exec (s : S) (h : list Op) : S := fold_left (fun s o => fst (step s o)) h s.
  Definition result_at (s : S) (h : list Op) (o : Op) : R := snd (step (exec s h) o).
  (* every result of a history, in order (what a worker reports) *)
  Fixpoint results (s : S) (h : list Op) : list R :=
    match h with [] => [] | o :: t => snd (step s o) :: results (fst (step s o)) t end.
End Machine.

(* the memo model above is such a machine: operations [op], results [option V] *)
Definition memo_exec (F : Type) (feqb : F -> F -> bool) (M : Type) (meqb : M -> M -> bool) (V : Type)
    (sem : M -> (F -> V) -> V) (is_cached : M -> bool) :=
  exec (state F M V) (op F M V) (option V) (step F feqb M meqb V sem is_cached).

(* a two-operation machine with hidden state, used as the satisfiability / refutation witness:
   state = (immutable field, hidden "last argument seen"); [leaky] returns the hidden part too *)
Definition clean_step (s : nat * nat) (o : nat) : (nat * nat) * nat := ((fst s, o), fst s + o).
Definition leaky_step (s : nat * nat) (o : nat) : (nat * nat) * nat := ((fst s, o), fst s + o + snd s).

(* ---- check-then-fill of a shared table IN PLACE (the race the schedule stream of the check looks for) ----
   A lazily initialised lookup table (word -> index) shared by all threads.  Thread program for lookup k:
     test:   if the shared table is not empty: go to lookup        (the "already initialised?" check)
     fill i: insert the i-th source entry into the SHARED table; after the last one go to lookup
     lookup: return find k in the shared table
   Unlike the test/compute/store protocol above (build privately, publish with one store) a second thread
   can pass the test while the first is still filling and look its key up in a partial table. *)
Section FillRace.
  Variable src : list (nat * nat).

  Inductive fpc := FTest | FFill (i : nat) | FLookup | FDone (r : option nat).
  Record fconfig := mkF { table : list (nat * nat); f0 : fpc; f1 : fpc }.

  Fixpoint tfind (k : nat) (t : list (nat * nat)) : option nat :=
    match t with [] => None | (a, b) :: r => if Nat.eqb a k then Some b else tfind k r end.

  Definition fthread (k : nat) (t : list (nat * nat)) (p : fpc) : list (nat * nat) * fpc :=
    match p with
    | FTest => match t with [] => (t, FFill 0) | _ => (t, FLookup) end
    | FFill i => match nth_error src i with
                 | Some e => (t ++ [e], if Nat.eqb (S i) (length src) then FLookup else FFill (S i))
                 | None => (t, FLookup)
                 end
    | FLookup => (t, FDone (tfind k t))
    | FDone r => (t, FDone r)
    end.

  (* thread 0 looks up k0, thread 1 looks up k1 *)
  Definition fsched_step (k0 k1 : nat) (c : fconfig) (who : bool) : fconfig :=
    if who then let '(t, p) := fthread k1 (table c) (f1 c) in mkF t (f0 c) p
    else let '(t, p) := fthread k0 (table c) (f0 c) in mkF t p (f1 c).

  Definition frun (k0 k1 : nat) (sch : list bool) : fconfig :=
    fold_left (fsched_step k0 k1) sch (mkF [] FTest FTest).
End FillRace.

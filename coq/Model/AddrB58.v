(* Address encoders/decoders built on Base58 / Base58Check and on hex strings:
   P2PKH, P2SH, XRP, NEO, XTZ, TRX, EOS, ERGO, SOL, ETH (EIP-55), ICX, NEAR, SUI, APTOS.
   Public keys enter already serialised (compressed / uncompressed / raw bytes): the key layer
   is property C12.  [valid_pub] is the IsValidBytes oracle of the key class concerned. *)
From Coq Require Import NArith Arith List Bool.
From BU Require Import Base.Exn Base.Bytes Gen.Consts Gen.AddrConsts Model.Base58 Model.AddrUtils.
Import ListNotations.
Open Scope N_scope.

Section Addr.
  Variables sha256 ripemd160 keccak256 sha3_256 : list N -> list N.
  Variable blake2b : nat -> list N -> list N.      (* digest size in bytes, data *)

  Definition hash160 (b : list N) : list N := ripemd160 (sha256 b).
  Definition b58c_enc (alph : list N) := Base58.check_encode alph b58_radix b58_cklen sha256.
  Definition b58c_dec (alph : list N) (s : list N) : res (list N) :=
    checksum_to_value_error (Base58.check_decode alph b58_radix b58_cklen sha256 s).
  Definition b58_enc (alph : list N) := Base58.encode alph b58_radix.
  Definition b58_dec (alph : list N) := Base58.decode alph b58_radix.

  (* ---- family A: Base58Check (prefix ++ digest) *)
  Definition fam_a_encode (alph prefix digest : list N) : list N := b58c_enc alph (prefix ++ digest).
  Definition fam_a_decode (alph prefix : list N) (dlen : nat) (addr : list N) : res (list N) :=
    dec <- b58c_dec alph addr ;;
    _ <- validate_length dec (dlen + length prefix)%nat ;;
    validate_and_remove_prefix dec prefix.

  (* P2PKHAddrEncoder / Decoder (pub: compressed or uncompressed serialisation, by key mode) *)
  Definition p2pkh_encode (alph net_ver pub : list N) := fam_a_encode alph net_ver (hash160 pub).
  Definition p2pkh_decode (alph net_ver addr : list N) := fam_a_decode alph net_ver hash160_len addr.

  (* P2SHAddrEncoder (P2WPKH nested in P2SH) *)
  Definition p2sh_script_hash (pub_c : list N) : list N := hash160 (p2sh_script_bytes ++ hash160 pub_c).
  Definition p2sh_encode (net_ver pub_c : list N) := fam_a_encode b58_alph_btc net_ver (p2sh_script_hash pub_c).
  Definition p2sh_decode (net_ver addr : list N) := fam_a_decode b58_alph_btc net_ver hash160_len addr.

  (* XrpAddr *)
  Definition xrp_encode (pub_c : list N) := p2pkh_encode b58_alph_xrp xrp_net_ver pub_c.
  Definition xrp_decode (addr : list N) := p2pkh_decode b58_alph_xrp xrp_net_ver addr.

  (* XtzAddr: prefix is an XtzAddrPrefixes member; pub32 = raw ed25519 key without the 0x00 byte *)
  Definition xtz_encode (prefix pub32 : list N) := fam_a_encode b58_alph_btc prefix (blake2b blake2b160_len pub32).
  Definition xtz_decode (prefix addr : list N) := fam_a_decode b58_alph_btc prefix blake2b160_len addr.

  (* NeoAddr (legacy and N3): the decoder compares the first byte only *)
  Definition neo_encode (ver prefix suffix pub_c : list N) :=
    b58c_enc b58_alph_btc (ver ++ hash160 (prefix ++ pub_c ++ suffix)).
  Definition neo_decode (ver addr : list N) : res (list N) :=
    dec <- b58c_dec b58_alph_btc addr ;;
    _ <- validate_length dec (hash160_len + length ver)%nat ;;
    match dec with
    | [] => Err IndexError
    | v0 :: rest => if list_eqb ver [v0] then Ok rest else Err ValueError
    end.

  (* ---- family B: plain Base58 with an own checksum *)
  Variable valid_pub : list N -> bool.

  Definition eos_checksum (pub : list N) := firstn eos_cklen (ripemd160 pub).
  Definition eos_encode (pub_c : list N) := eos_prefix ++ b58_enc b58_alph_btc (pub_c ++ eos_checksum pub_c).
  Definition eos_decode (addr : list N) : res (list N) :=
    a <- validate_and_remove_prefix addr eos_prefix ;;
    dec <- b58_dec b58_alph_btc a ;;
    _ <- validate_length dec (secp_compr_len + eos_cklen)%nat ;;
    let (pub, ck) := split_by_checksum dec eos_cklen in
    _ <- validate_checksum pub ck eos_checksum ;;
    if valid_pub pub then Ok pub else Err ValueError.

  Definition ergo_checksum (b : list N) := firstn ergo_cklen (blake2b blake2b256_len b).
  Definition ergo_prefix (net : N) : list N := [ergo_p2pkh_type + net].
  Definition ergo_encode (net : N) (pub_c : list N) :=
    let payload := ergo_prefix net ++ pub_c in
    b58_enc b58_alph_btc (payload ++ ergo_checksum payload).
  Definition ergo_decode (net : N) (addr : list N) : res (list N) :=
    dec <- b58_dec b58_alph_btc addr ;;
    _ <- validate_length dec (secp_compr_len + ergo_cklen + 1)%nat ;;
    let (body, ck) := split_by_checksum dec ergo_cklen in
    _ <- validate_checksum body ck ergo_checksum ;;
    pub <- validate_and_remove_prefix body (ergo_prefix net) ;;
    if valid_pub pub then Ok pub else Err ValueError.

  Definition sol_encode (pub32 : list N) := b58_enc b58_alph_btc pub32.
  Definition sol_decode (addr : list N) : res (list N) :=
    dec <- b58_dec b58_alph_btc addr ;;
    _ <- validate_length dec (ed25519_compr_len - 1)%nat ;;
    if valid_pub dec then Ok dec else Err ValueError.

  (* ---- family C: hex strings *)
  (* _EthAddrUtils.ChecksumEncode on a string of ASCII symbols (EIP-55) *)
  Definition eth_checksum_encode (a : list N) : list N :=
    let dg := to_hex (keccak256 (map ascii_lower a)) in
    map (fun ch => let '(c, h) := ch in
                   match hex_val h with
                   | Some v => if 8 <=? v then ascii_upper c else ascii_lower c
                   | None => c
                   end) (combine a dg).

  (* pub_u: 65-byte uncompressed key *)
  Definition eth_hash_hex (pub_u : list N) : list N := skipn eth_start_byte (to_hex (keccak256 (tl pub_u))).
  Definition eth_encode (skip_ck : bool) (pub_u : list N) : list N :=
    eth_prefix ++ (if skip_ck then eth_hash_hex pub_u else eth_checksum_encode (eth_hash_hex pub_u)).

  (* EthAddrDecoder.  A symbol that is not an ASCII hex digit always ends in ValueError (checksum
     mismatch, or binascii.Error from unhexlify, or UnicodeEncodeError), whatever str.lower()/upper()
     do to it; the model takes that exit directly -- tied by the correspondence on non-ASCII input. *)
  Definition eth_decode (skip_ck : bool) (addr : list N) : res (list N) :=
    a <- validate_and_remove_prefix addr eth_prefix ;;
    _ <- validate_length a eth_addr_len ;;
    if negb (forallb is_hex_char a) then Err ValueError
    else if negb skip_ck && negb (list_eqb a (eth_checksum_encode a)) then Err ValueError
    else from_hex a.

  (* TrxAddr *)
  Definition trx_encode (pub_u : list N) : res (list N) :=
    raw <- from_hex (skipn 2 (eth_encode false pub_u)) ;;
    Ok (b58c_enc b58_alph_btc (trx_prefix ++ raw)).
  Definition trx_decode (addr : list N) : res (list N) :=
    dec <- b58c_dec b58_alph_btc addr ;;
    _ <- validate_length dec (Nat.div eth_addr_len 2 + length trx_prefix)%nat ;;
    raw <- validate_and_remove_prefix dec trx_prefix ;;
    eth_decode true (eth_prefix ++ to_hex raw).

  (* IcxAddr *)
  Definition icx_encode (pub_u : list N) : list N :=
    icx_prefix ++ to_hex (take_last icx_hash_len (sha3_256 (tl pub_u))).
  Definition icx_decode (addr : list N) : res (list N) :=
    a <- validate_and_remove_prefix addr icx_prefix ;;
    h <- from_hex a ;;
    _ <- validate_length h icx_hash_len ;;
    Ok h.

  (* NearAddr *)
  Definition near_encode (pub32 : list N) : list N := to_hex pub32.
  Definition near_decode (addr : list N) : res (list N) :=
    k <- from_hex addr ;;
    _ <- validate_length k (ed25519_compr_len - 1)%nat ;;
    if valid_pub k then Ok k else Err ValueError.

  (* SuiAddr *)
  Definition sui_encode (pub32 : list N) : list N :=
    sui_prefix ++ to_hex (blake2b blake2b256_len (sui_key_type ++ pub32)).
  Definition sui_decode (addr : list N) : res (list N) :=
    a <- validate_and_remove_prefix addr sui_prefix ;;
    _ <- validate_length a (blake2b256_len * 2)%nat ;;
    from_hex a.

  (* AptosAddr: optional trimming of leading '0' characters; the decoder pads them back *)
  Definition aptos_encode (trim : bool) (pub32 : list N) : list N :=
    let h := to_hex (sha3_256 (pub32 ++ aptos_suffix)) in
    aptos_prefix ++ (if trim then lstrip 48 h else h).
  Definition aptos_decode (addr : list N) : res (list N) :=
    a <- validate_and_remove_prefix addr aptos_prefix ;;
    let a' := repeat 48 (sha3_256_len * 2 - length a)%nat ++ a in
    _ <- validate_length a' (sha3_256_len * 2)%nat ;;
    from_hex a'.
End Addr.

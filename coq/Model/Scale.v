(* bip_utils/substrate/scale/*.py : SCALE encoders for unsigned integers (u8..u256), compact unsigned
   integers and bytes.  The library has encoders only; the decoders below are model decoders written from
   the SCALE specification and exist to state (and prove) that the encodings are uniquely decodable.
   Definitions only; thresholds come from Gen/CodecConsts.v as section variables. *)
From Coq Require Import NArith ZArith List Bool.
From BU Require Import Base.Exn Base.Radix Base.Bytes.
From BU Require Model.IntBytes.
Import ListNotations.
Open Scope N_scope.

(* SubstrateScaleUintEncoder._EncodeWithBytesLength(value, bytes_len) for an int value:
   ValueError outside 0 .. 2^(8 bytes_len) - 1, else little-endian on bytes_len bytes *)
Definition uint_encode (bytes_len : N) (v : Z) : res (list N) :=
  let max_val := (Z.shiftl 1 (Z.of_N (bytes_len * 8)) - 1)%Z in
  if (v <? 0)%Z || (max_val <? v)%Z then Err ValueError
  else IntBytes.to_bytes v bytes_len false.

Section Compact.
  Variables single_max two_max four_max big_max : N.

  (* SubstrateScaleCUintEncoder.Encode on a non-negative value *)
  Definition compact_encode_N (v : N) : res (list N) :=
    if v <=? single_max then IntBytes.to_bytes (Z.of_N (N.shiftl v 2)) 1 false
    else if v <=? two_max then IntBytes.to_bytes (Z.of_N (N.lor (N.shiftl v 2) 1)) 2 false
    else if v <=? four_max then IntBytes.to_bytes (Z.of_N (N.lor (N.shiftl v 2) 2)) 4 false
    else if v <=? big_max then
      vb <- IntBytes.to_bytes (Z.of_N v) 0 false ;;                       (* minimal width *)
      lb <- IntBytes.to_bytes (Z.lor (Z.shiftl (Z.of_nat (length vb) - 4) 2) 3) 1 false ;;
      Ok (lb ++ vb)
    else Err ValueError.

  (* a negative value takes the first branch (value <= 63) and int.to_bytes raises OverflowError *)
  Definition compact_encode (v : Z) : res (list N) :=
    if (v <? 0)%Z then Err OverflowError else compact_encode_N (Z.to_N v).

  (* SubstrateScaleBytesEncoder.Encode on bytes *)
  Definition bytes_encode (b : list N) : res (list N) :=
    c <- compact_encode (Z.of_nat (length b)) ;; Ok (c ++ b).
End Compact.

(* ---- model decoders (SCALE specification) ---- *)
Definition take_le (k : nat) (b : list N) : res (N * list N) :=
  if (length b <? k)%nat then Err ValueError else Ok (le_to_int (firstn k b), skipn k b).

Definition compact_decode (b : list N) : res (N * list N) :=
  match b with
  | [] => Err ValueError
  | b0 :: r =>
      let mode := b0 mod 4 in
      if mode =? 0 then Ok (b0 / 4, r)
      else if mode =? 1 then x <- take_le 2 b ;; Ok (fst x / 4, snd x)
      else if mode =? 2 then x <- take_le 4 b ;; Ok (fst x / 4, snd x)
      else take_le (N.to_nat (b0 / 4) + 4) r
  end.

Definition bytes_decode (s : list N) : res (list N * list N) :=
  x <- compact_decode s ;;
  let n := N.to_nat (fst x) in
  if (length (snd x) <? n)%nat then Err ValueError else Ok (firstn n (snd x), skipn n (snd x)).

Definition uint_decode (bytes_len : nat) (s : list N) : res (N * list N) := take_le bytes_len s.

(* bip_utils/electrum/mnemonic_v2/*.py : ElectrumV2EntropyGenerator.AreEntropyBitsEnough,
   ElectrumV2MnemonicUtils.IsValidMnemonic, ElectrumV2MnemonicEncoder.Encode, ElectrumV2MnemonicDecoder.Decode
   (also behind ElectrumV2MnemonicValidator), ElectrumV2MnemonicGenerator.FromEntropy.

   A mnemonic is the word list held by the ElectrumV2Mnemonic object (a Bip39Mnemonic: each word lower-cased
   and NFKD-normalised by the constructor -- not modelled here).  An encoder language is its position in
   ElectrumV2Languages, a mnemonic type its position in ElectrumV2MnemonicTypes (enum orders, Gen/).
   HMAC-SHA512 is an oracle; "is a valid BIP-39 mnemonic" and "is a valid Electrum v1 mnemonic" are
   parameters ([bip39_valid], [ev1_valid]).

   The entropy gate is a parameter of the encoder: [gate_conformant] is the bit-length gate the property
   demands (behaviour after fixes/F10.diff: the entropy integer has exactly 12 or 24 base-2048 digits),
   [gate_current] the code as it stands, with floor(log2) read as the exact integer logarithm (F10; the
   floating-point evaluation of math.log is compared at the boundaries by the correspondence run). *)
From Coq Require Import NArith List Bool.
From BU Require Import Base.Exn Base.Radix Base.Bytes Model.MnemWords Model.MnemText.
Import ListNotations.
Open Scope N_scope.

(* BytesUtils.ToHexString: lower-case hex digits of each byte *)
Definition hex_digit (d : N) : N := if d <? 10 then 48 + d else 87 + d.
Definition to_hex (b : list N) : list N := flat_map (fun x => [hex_digit (x / 16); hex_digit (x mod 16)]) b.

(* str.startswith *)
Fixpoint starts_with (p s : list N) : bool :=
  match p, s with
  | [], _ => true
  | x :: p', y :: s' => (x =? y) && starts_with p' s'
  | _ :: _, [] => false
  end.

(* " ".join(words) *)
Fixpoint join_words (ws : list (list N)) : list N :=
  match ws with
  | [] => []
  | [w] => w
  | w :: t => w ++ 32 :: join_words t
  end.

Section ElectrumV2.
  Variable b39_langs : list (list (list N)).      (* Bip39Languages order: the decoder's language finder *)
  Variable enc_langs : list (list (list N)).      (* ElectrumV2Languages order: encoder / explicit decoder language *)
  Variable word_nums : list N.                    (* ElectrumV2MnemonicConst.MNEMONIC_WORD_NUM *)
  Variable word_bit_len : N.                      (* ElectrumV2MnemonicConst.WORD_BIT_LEN *)
  Variable type_prefixes : list (list N).         (* TYPE_TO_PREFIX in ElectrumV2MnemonicTypes order *)
  Variable hmac_key : list N.                     (* ElectrumV2MnemonicUtilsConst.HMAC_KEY *)
  Variable ent_bit_lens : list N.                 (* ElectrumV2EntropyGeneratorConst.ENTROPY_BIT_LEN *)
  Variable max_attempts : N.                      (* ElectrumV2MnemonicGeneratorConst.MAX_ATTEMPTS *)
  Variable hmac_sha512 : list N -> list N -> list N.        (* oracle: key, message *)
  Variable bip39_valid : list (list N) -> bool.   (* Bip39MnemonicValidator().IsValid *)
  Variable ev1_valid : list (list N) -> bool.     (* ElectrumV1MnemonicValidator().IsValid *)

  (* ElectrumV2EntropyGenerator.IsValidEntropyBitLen *)
  Definition valid_bit_len (bl : N) : bool :=
    existsb (fun L => (L <=? bl + word_bit_len) && (bl <=? L)) ent_bit_lens.

  (* ElectrumV2EntropyGenerator.AreEntropyBitsEnough as it stands:
     entropy_bit_len = 0 if entropy <= 0 else floor(log(entropy, 2)) *)
  Definition gate_current (e : N) : bool := valid_bit_len (if e =? 0 then 0 else N.log2 e).

  (* the gate the property demands: with bl = entropy.bit_length(), L - WORD_BIT_LEN < bl <= L *)
  Definition gate_conformant (e : N) : bool :=
    let bl := N.size e in
    existsb (fun L => (L <? bl + word_bit_len) && (bl <=? L)) ent_bit_lens.

  (* HmacSha512.QuickDigest(HMAC_KEY, mnemonic.ToStr()) as a hex string; UnicodeEncodeError for surrogates *)
  Definition seed_version_hex (ws : list (list N)) : res (list N) :=
    m <- utf8 (join_words ws) ;; Ok (to_hex (hmac_sha512 hmac_key m)).

  (* ElectrumV2MnemonicUtils.IsValidMnemonic(mnemonic, mnemonic_type) *)
  Definition is_valid_mnemonic (ws : list (list N)) (ty : option nat) : res bool :=
    if bip39_valid ws || ev1_valid ws then Ok false
    else
      h <- seed_version_hex ws ;;
      match ty with
      | Some t => p <- of_option (nth_error type_prefixes t) KeyError ;; Ok (starts_with p h)
      | None => Ok (existsb (fun p => starts_with p h) type_prefixes)
      end.

  Section Encoder.
    Variable gate : N -> bool.

    (* ElectrumV2MnemonicEncoder(mnemonic_type, lang).Encode *)
    Definition encode (ty lang : nat) (b : list N) : res (list (list N)) :=
      _ <- of_option (nth_error type_prefixes ty) TypeError ;;
      wl <- of_option (nth_error enc_langs lang) TypeError ;;
      let e := be_to_int b in
      guard gate e else ValueError ;;
      ws <- mapM (word_at wl) (to_le (wl_len wl) e) ;;
      v <- is_valid_mnemonic ws (Some ty) ;;
      guard v else ValueError ;;
      Ok ws.

    (* the retry loop of ElectrumV2MnemonicGenerator.FromEntropy: attempts i, i+1, ... while i < MAX_ATTEMPTS;
       a ValueError of Encode moves on, anything else propagates *)
    Fixpoint attempts (fuel : nat) (ty lang : nat) (e i : N) : res (list (list N)) :=
      match fuel with
      | O => Err OutOfFuel
      | S f =>
        if i <? max_attempts then
          match encode ty lang (int_to_be_auto (e + i)) with
          | inl ws => Ok ws
          | inr ValueError | inr UnicodeError => attempts f ty lang e (i + 1)
          | inr x => Err x
          end
        else Err ValueError
      end.

    (* ElectrumV2MnemonicGenerator(mnemonic_type, lang).FromEntropy *)
    Definition from_entropy (fuel : nat) (ty lang : nat) (b : list N) : res (list (list N)) :=
      _ <- of_option (nth_error type_prefixes ty) TypeError ;;
      _ <- of_option (nth_error enc_langs lang) TypeError ;;
      if gate (be_to_int b) then attempts fuel ty lang (be_to_int b) 0 else Err ValueError.
  End Encoder.

  (* ElectrumV2MnemonicDecoder(mnemonic_type, lang).Decode; None = all types / automatic language detection *)
  Definition decode (ty : option nat) (lang : option nat) (ws : list (list N)) : res (list N) :=
    _ <- match ty with Some t => rmap (fun _ => tt) (of_option (nth_error type_prefixes t) TypeError) | None => Ok tt end ;;
    fixed <- match lang with
             | Some l => rmap (@Some _) (of_option (nth_error enc_langs l) TypeError)
             | None => Ok None
             end ;;
    guard memb (N.of_nat (length ws)) word_nums else ValueError ;;
    v <- is_valid_mnemonic ws ty ;;
    guard v else ValueError ;;
    wl <- match fixed with
          | Some wl => Ok wl
          | None => find_language (fun wl => wl) b39_langs ws
          end ;;
    idx <- mapM (word_idx wl) ws ;;
    Ok (int_to_be_auto (from_le (wl_len wl) idx)).
End ElectrumV2.

(* bip_utils/bech32/bech32_base.py : Bech32BaseUtils.ConvertBits / ConvertToBase32 / ConvertFromBase32.
   Exact transcription of the accumulator algorithm (local copy for the Bech32 family; the generic
   regrouping codec of C11 is modelled independently elsewhere).
   Python ints are modelled by N, so the [value < 0] test is vacuous here. *)
From Coq Require Import NArith List Bool.
From BU Require Import Base.Exn.
Import ListNotations.
Open Scope N_scope.

Section ConvertBits.
  Variables from_bits to_bits : N.

  Definition max_out_val : N := N.shiftl 1 to_bits - 1.
  Definition max_acc : N := N.shiftl 1 (from_bits + to_bits - 1) - 1.

  (* while bits >= to_bits: bits -= to_bits; ret.append((acc >> bits) & max_out_val)
     returns the remaining bit count and the appended symbols.  Each turn removes to_bits >= 1 bits, so
     [fuel = bits] turns are enough; to_bits = 0 never terminates in Python (OutOfFuel here). *)
  Fixpoint drain (fuel : nat) (acc bits : N) : res (N * list N) :=
    if bits <? to_bits then Ok (bits, [])
    else match fuel with
         | O => Err OutOfFuel
         | S f =>
           let bits' := bits - to_bits in
           r <- drain f acc bits' ;;
           Ok (fst r, N.land (N.shiftr acc bits') max_out_val :: snd r)
         end.

  (* the [for value in data] loop; [None] is Python's [return None];
     result: symbols appended by the remaining iterations, final acc, final bits *)
  Fixpoint conv_loop (data : list N) (acc bits : N) : res (option (list N * N * N)) :=
    match data with
    | [] => Ok (Some ([], acc, bits))
    | value :: rest =>
      if negb (N.shiftr value from_bits =? 0) then Ok None
      else
        let acc' := N.land (N.lor (N.shiftl acc from_bits) value) max_acc in
        r <- drain (N.to_nat (bits + from_bits)) acc' (bits + from_bits) ;;
        o <- conv_loop rest acc' (fst r) ;;
        match o with
        | None => Ok None
        | Some (out, acc'', bits'') => Ok (Some (snd r ++ out, acc'', bits''))
        end
    end.

  (* Bech32BaseUtils.ConvertBits(data, from_bits, to_bits, pad) : Optional[List[int]] *)
  Definition convert_bits (pad : bool) (data : list N) : res (option (list N)) :=
    o <- conv_loop data 0 0 ;;
    match o with
    | None => Ok None
    | Some (ret, acc, bits) =>
      let last := N.land (N.shiftl acc (to_bits - bits)) max_out_val in
      if pad then
        Ok (Some (if bits =? 0 then ret else ret ++ [last]))
      else if (from_bits <=? bits) || negb (last =? 0) then Ok None
      else Ok (Some ret)
    end.
End ConvertBits.

(* ConvertToBase32 / ConvertFromBase32: None -> ValueError.  The bit widths are the literals of the two
   call sites (Gen.Bech32Consts: b32_to_from_bits etc.), passed in by the callers. *)
Definition to_base32 (fb tb : N) (data : list N) : res (list N) :=
  o <- convert_bits fb tb true data ;;
  match o with Some l => Ok l | None => Err ValueError end.

Definition from_base32 (fb tb : N) (data : list N) : res (list N) :=
  o <- convert_bits fb tb false data ;;
  match o with Some l => Ok l | None => Err ValueError end.

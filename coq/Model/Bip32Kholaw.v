(* bip_utils/bip/bip32/kholaw/*.py (Khovratovich-Law BIP32-Ed25519), cardano/bip32/cardano_icarus_*.py,
   and the part of bip32/base/bip32_base.py they run through (object construction, ChildKey).

   A node is the key material of a Bip32 object: optional 64-byte extended private key kL ‖ kR,
   32-byte encoded public key, chain code, depth.  Index, fingerprint and net versions belong to the
   serialisation properties (C03/C05) and are not modelled here.

   The child arithmetic is a parameter ([derivator]) because Byron legacy (Model/ByronLegacyDeriv.v) runs
   through the same base class with its own byte-wise variant. *)
From Coq Require Import NArith ZArith Arith List Bool.
From BU Require Import Base.Exn Base.Radix Base.Bytes Gen.ConstsCardmon.
From BU Require Model.EdLib.
Import ListNotations.
Open Scope N_scope.

Record node := mk_node {
  n_priv : option (list N);
  n_pub : list N;
  n_cc : list N;
  n_depth : N }.

(* BitUtils.ResetBits / SetBits on one byte of a bytearray: the tweak programs are regenerated from the
   source (Gen/ConstsCardmon.v: kh_tweak_ops, ic_tweak_ops, by_tweak_ops) *)
Fixpoint set_nth (i : nat) (v : N) (l : list N) : list N :=
  match l, i with
  | [], _ => []
  | _ :: t, O => v :: t
  | x :: t, S j => x :: set_nth j v t
  end.
Definition apply_bit_op (op : N * nat * N) (b : list N) : res (list N) :=
  let '(k, i, m) := op in
  match nth_error b i with
  | None => Err IndexError
  | Some v => Ok (set_nth i (if k =? 0 then N.ldiff v m else N.lor v m) b)
  end.
Fixpoint tweak (ops : list (N * nat * N)) (b : list N) : res (list N) :=
  match ops with
  | [] => Ok b
  | op :: t => b' <- apply_bit_op op b ;; tweak t b'
  end.
(* BitUtils.AreBitsSet(b[i], mask) *)
Definition bits_set (i : nat) (mask : N) (b : list N) : res bool :=
  match nth_error b i with
  | None => Err IndexError
  | Some v => Ok (negb (N.land v mask =? 0))
  end.

(* what distinguishes the Khovratovich-Law derivator from the Byron legacy one *)
Record derivator := mk_derivator {
  d_ser_index : N -> res (list N);                       (* _SerializeIndex *)
  d_new_left : list N -> list N -> res (list N);         (* _NewPrivateKeyLeftPart(zl, kl) *)
  d_new_right : list N -> list N -> res (list N);        (* _NewPrivateKeyRightPart(zr, kr) *)
  d_pub_scalar_mul : list N -> res (list N) }.           (* the point added to the parent in _NewPublicKeyPoint *)

Section Kholaw.
  Variable hmac_sha512 : list N -> list N -> list N.     (* key, message *)
  Variable hmac_sha256 : list N -> list N -> list N.
  Variable pbkdf2_sha512 : list N -> list N -> N -> N -> list N.   (* password, salt, rounds, length *)
  Variable G : Type.
  Variable gadd : G -> G -> G.
  Variable gmul : N -> G -> G.
  Variable gbase : G.
  Variable g_is_zero : G -> bool.
  Variable penc : G -> list N.
  Variable pdec : list N -> option G.

  Definition key_err {A} (r : res A) : res A :=          (* except ValueError -> Bip32KeyError *)
    match r with
    | inr e => if is_value_error e then Err (LibError Bip32KeyError) else Err e
    | _ => r
    end.

  Definition halves (h : list N) : list N * list N := (firstn kh_half_len h, skipn kh_half_len h).

  (* ---------------- master keys ---------------- *)

  (* Bip32KholawEd25519MstKeyGenerator.__HashRepeatedly *)
  Fixpoint kh_hash_repeatedly (fuel : nat) (data : list N) : res (list N * list N) :=
    match fuel with
    | O => Err OutOfFuel
    | S f =>
      let (kl, kr) := halves (hmac_sha512 kh_hmac_key data) in
      again <- bits_set kh_repeat_idx kh_repeat_mask kl ;;
      if again then kh_hash_repeatedly f (kl ++ kr) else Ok (kl, kr)
    end.

  (* Bip32KholawEd25519MstKeyGenerator.GenerateFromSeed -> (kL ‖ kR, chain code) *)
  Definition kh_master (fuel : nat) (seed : list N) : res (list N * list N) :=
    guard (kh_seed_min_len <=? length seed)%nat else ValueError ;;
    k <- kh_hash_repeatedly fuel seed ;;
    kl <- tweak kh_tweak_ops (fst k) ;;
    Ok (kl ++ snd k, hmac_sha256 kh_hmac_key (kh_cc_prefix ++ seed)).

  (* CardanoIcarusMstKeyGenerator.GenerateFromSeed *)
  Definition ic_master (seed : list N) : res (list N * list N) :=
    guard (ic_seed_min_len <=? length seed)%nat else ValueError ;;
    let key := pbkdf2_sha512 ic_pbkdf2_password seed ic_pbkdf2_rounds (N.of_nat ic_pbkdf2_out_len) in
    key' <- tweak ic_tweak_ops key ;;
    Ok (firstn kh_priv_len key', skipn kh_priv_len key').

  (* ---------------- objects ---------------- *)

  (* Ed25519KholawPrivateKey.FromBytes + PublicKey(), as run by Bip32Base.__init__(priv_key=bytes):
     the left half must make a 32-byte nacl seed, the right half must be 32 bytes (else ValueError ->
     Bip32KeyError); the public key is (kL with bit 255 cleared)*G, and a zero scalar / identity result
     (ValueError of ed25519_lib) is reported by Bip32Base as Bip32KeyError too. *)
  Definition priv_check (k : list N) : res (list N) :=
    key_err (guard (length (firstn ed_priv_len k) =? ed_priv_len)%nat else ValueError ;;
             guard (length (skipn ed_priv_len k) =? ed_priv_len)%nat else ValueError ;;
             Ok k).
  Definition pub_of_priv (k : list N) : res (list N) :=
    EdLib.mul_base_bytes G gmul gbase g_is_zero penc (firstn ed_priv_len k).
  Definition node_from_priv (k cc : list N) (depth : N) : res node :=
    k' <- priv_check k ;;
    p <- key_err (pub_of_priv k') ;;
    Ok (mk_node (Some k') p cc depth).

  (* Bip32Base.__init__(pub_key=point): Ed25519KholawPublicKey.FromPoint re-validates the encoding *)
  Definition node_from_pub (p cc : list N) (depth : N) : res node :=
    p' <- key_err (EdLib.pub_from_bytes G pdec p) ;;
    Ok (mk_node None p' cc depth).

  (* Bip32Base.FromSeed for the two master schemes *)
  Definition kh_from_seed (fuel : nat) (seed : list N) : res node :=
    m <- kh_master fuel seed ;; node_from_priv (fst m) (snd m) 0.
  Definition ic_from_seed (seed : list N) : res node :=
    m <- ic_master seed ;; node_from_priv (fst m) (snd m) 0.

  (* Bip32Base.ConvertToPublic *)
  Definition to_public (n : node) : node := mk_node None (n_pub n) (n_cc n) (n_depth n).

  (* ---------------- children ---------------- *)

  Definition is_hardened (i : N) : bool := N.testbit i b32_hardened_bit.
  Definition index_ok (i : Z) : bool := (0 <=? i)%Z && (i <=? b32_index_max)%Z.

  Section Derive.
    Variable d : derivator.

    (* Bip32KholawEd25519KeyDerivatorBase.CkdPriv followed by the construction of the child object *)
    Definition ckd_priv (n : node) (k : list N) (i : N) : res node :=
      ib <- d_ser_index d i ;;
      let cc := n_cc n in
      let '(tz, tc, material) :=
        if is_hardened i then (kh_tag_hard_z, kh_tag_hard_cc, k) else (kh_tag_soft_z, kh_tag_soft_cc, n_pub n) in
      let z := hmac_sha512 cc (tz ++ material ++ ib) in
      let cc' := snd (halves (hmac_sha512 cc (tc ++ material ++ ib))) in
      kl <- d_new_left d (firstn kh_half_len z) (firstn kh_half_len k) ;;
      kr <- d_new_right d (skipn kh_half_len z) (skipn kh_half_len k) ;;
      node_from_priv (kl ++ kr) cc' (n_depth n + 1).

    (* ... CkdPub *)
    Definition ckd_pub (n : node) (i : N) : res node :=
      guard (negb (is_hardened i)) else (LibError Bip32KeyError) ;;
      ib <- d_ser_index d i ;;
      let cc := n_cc n in
      let z := hmac_sha512 cc (kh_tag_soft_z ++ n_pub n ++ ib) in
      let cc' := snd (halves (hmac_sha512 cc (kh_tag_soft_cc ++ n_pub n ++ ib))) in
      zP <- d_pub_scalar_mul d (firstn kh_half_len z) ;;
      p <- EdLib.add_bytes G gadd penc pdec (n_pub n) zP ;;
      is_id <- match pdec p with Some P => Ok (g_is_zero P) | None => Err ValueError end ;;
      guard (negb is_id) else (LibError Bip32KeyError) ;;
      node_from_pub p cc' (n_depth n + 1).

    (* Bip32Base.ChildKey(int) *)
    Definition child_key (n : node) (i : Z) : res node :=
      guard (index_ok i) else ValueError ;;
      match n_priv n with
      | Some k => ckd_priv n k (Z.to_N i)
      | None => ckd_pub n (Z.to_N i)
      end.

    (* Bip32Base.DerivePath on a list of indices (the parsing of path strings is C06) *)
    Fixpoint derive (n : node) (path : list Z) : res node :=
      match path with
      | [] => Ok n
      | i :: t => c <- child_key n i ;; derive c t
      end.
  End Derive.

  (* Bip32KholawEd25519KeyDerivator *)
  Definition ser_index (little : bool) (i : N) : res (list N) :=
    if little then int_to_le_fixed b32_index_len i else int_to_be_fixed b32_index_len i.
  Definition zl8 (zl : list N) : N := le_to_int (firstn kh_zl_len zl) * kh_zl_mult.
  Definition kh_new_left (zl kl : list N) : res (list N) :=
    let prvl := zl8 zl + le_to_int kl in
    guard (negb (prvl mod ed_curve_order =? 0)) else (LibError Bip32KeyError) ;;
    (* IntegerUtils.GetBytesNumber(prvl) > Length() // 2: the child that does not fit the key length is discarded
       (since fix 71d2424, finding C14-KHOLAW-OVERFLOW; before it int.to_bytes raised OverflowError here).  Only
       reachable from a parent with kL >= 2^256 - 2^227, which no key derived from a seed is for 2^28 levels. *)
    guard (prvl <? 256 ^ N.of_nat (kh_priv_len / 2)) else (LibError Bip32KeyError) ;;
    int_to_le_fixed (kh_priv_len / 2) prvl.
  Definition kh_new_right (zr kr : list N) : res (list N) :=
    int_to_le_fixed (kh_priv_len / 2) ((le_to_int zr + le_to_int kr) mod kh_kr_modulus).
  Definition kh_pub_scalar_mul (zl : list N) : res (list N) :=
    EdLib.mul_base_int G gmul gbase g_is_zero penc (zl8 zl).
  Definition kh_derivator : derivator :=
    mk_derivator (ser_index kh_index_little) kh_new_left kh_new_right kh_pub_scalar_mul.
End Kholaw.

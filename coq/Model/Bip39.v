(* bip_utils/bip/bip39: Bip39Mnemonic (normalisation), Bip39MnemonicEncoder, Bip39MnemonicDecoder,
   Bip39MnemonicValidator, and the word-list classes of bip_utils/utils/mnemonic/mnemonic_utils.py.
   Written the way the code does it (binary strings, zfill, slicing, int(s,2)).
   A mnemonic *object* is a list of words; a word is a code-point list.
   Definitions only; proofs are in Lemmas/Bip39.v. *)
From Coq Require Import NArith Arith List Bool.
From BU Require Import Base.Exn Base.Radix Base.Bytes Model.BinStr Gen.Bip39Consts.
Import ListNotations.
Open Scope N_scope.

(* ---- str.split() ---- *)
Definition in_ranges (rs : list (N * N)) (c : N) : bool :=
  existsb (fun r => (fst r <=? c) && (c <=? snd r)) rs.
Definition is_space (c : N) : bool := in_ranges py_space_ranges c.

(* maximal runs of non-space code points *)
Fixpoint split_ws (s : list N) : list (list N) :=
  match s with
  | [] => []
  | c :: t =>
    if is_space c then split_ws t
    else match t with
         | [] => [[c]]
         | d :: _ => if is_space d then [c] :: split_ws t
                     else match split_ws t with
                          | w :: r => (c :: w) :: r
                          | [] => [[c]]
                          end
         end
  end.

(* " ".join(words) : Mnemonic.ToStr *)
Fixpoint join_sp (ws : list (list N)) : list N :=
  match ws with
  | [] => []
  | [w] => w
  | w :: t => w ++ 32 :: join_sp t
  end.

(* ---- MnemonicWordsList ---- *)

(* m_words_to_idx[word]: the dict comprehension keeps the LAST index of a repeated word *)
Fixpoint word_index_from (i : nat) (wl : list (list N)) (w : list N) : option nat :=
  match wl with
  | [] => None
  | x :: t => match word_index_from (S i) t w with
              | Some j => Some j
              | None => if list_eqb x w then Some i else None
              end
  end.
Definition word_index (wl : list (list N)) (w : list N) : option nat := word_index_from 0 wl w.

(* GetWordIdx: KeyError is converted to ValueError *)
Definition get_word_idx (wl : list (list N)) (w : list N) : res N :=
  match word_index wl w with Some i => Ok (N.of_nat i) | None => Err ValueError end.
(* GetWordAtIdx: plain list indexing *)
Definition get_word_at (wl : list (list N)) (i : N) : res (list N) :=
  of_option (nth_error wl (N.to_nat i)) IndexError.

Fixpoint mem_nat (x : nat) (l : list nat) : bool :=
  match l with [] => false | y :: t => Nat.eqb x y || mem_nat x t end.

Section Bip39.
  Variable sha256 : list N -> list N.     (* oracle *)
  Variable nfkd : list N -> list N.       (* oracle: unicodedata.normalize("NFKD", .) *)
  Variable lower : list N -> list N.      (* oracle: str.lower() *)
  Variable langs : list (list (list N)).  (* Gen.WlBip39.bip39_langs, in enumeration order *)

  (* Bip39Mnemonic._Normalize on a list / on a string *)
  Definition norm_word (w : list N) : list N := nfkd (lower w).
  Definition normalize_list (ws : list (list N)) : list (list N) := map norm_word ws.
  Definition normalize (s : list N) : list (list N) := normalize_list (split_ws s).

  Definition valid_entropy_byte_len (n : nat) : bool := mem_nat (n * 8) bip39_entropy_bit_lens.

  (* Bip39MnemonicEncoder(lang).Encode(entropy).ToList()   [wl = the list of lang] *)
  Definition encode (wl : list (list N)) (ent : list N) : res (list (list N)) :=
    let n := length ent in
    guard valid_entropy_byte_len n else ValueError ;;
    let ebs := bytes_to_binstr ent (n * 8) in
    let hbs := bytes_to_binstr (sha256 ent) (sha256_digest_size * 8) in
    let mbs := ebs ++ firstn (n / bip39_enc_cksum_divisor) hbs in
    ws <- mapM (fun i =>
                  idx <- int_of_binstr (slice (i * bip39_word_bit_len) ((i + 1) * bip39_word_bit_len) mbs) ;;
                  get_word_at wl idx)
               (seq 0 (length mbs / bip39_word_bit_len)) ;;
    Ok (normalize_list ws).                                  (* Bip39Mnemonic.FromList *)

  (* MnemonicWordsListFinderBase._FindLanguageGeneric *)
  Definition all_found (wl : list (list N)) (ws : list (list N)) : bool :=
    forallb (fun w => match word_index wl w with Some _ => true | None => false end) ws.
  Fixpoint find_language_in (ls : list (list (list N))) (ws : list (list N)) : res (list (list N)) :=
    match ls with
    | [] => Err ValueError
    | wl :: t => if all_found wl ws then Ok wl else find_language_in t ws
    end.
  (* MnemonicDecoderBase._FindLanguage: the explicit list if one was given *)
  Definition find_language (lang : option (list (list N))) (ws : list (list N)) : res (list (list N)) :=
    match lang with Some wl => Ok wl | None => find_language_in langs ws end.

  Definition cksum_len (mbs : list N) : nat := length mbs / bip39_cksum_divisor.

  (* __EntropyBytesFromBinaryStr *)
  Definition entropy_of_binstr (mbs : list N) : res (list N) :=
    let cl := cksum_len mbs in
    bytes_of_binstr (py_drop_last cl mbs) (cl * 8).

  (* __ComputeChecksumBinaryStr *)
  Definition compute_cksum (mbs : list N) : res (list N) :=
    ent <- entropy_of_binstr mbs ;;
    Ok (firstn (cksum_len mbs) (bytes_to_binstr (sha256 ent) (sha256_digest_size * 8))).

  (* __DecodeAndVerifyBinaryStr on a mnemonic object *)
  Definition decode_bin (lang : option (list (list N))) (ws : list (list N)) : res (list N) :=
    guard mem_nat (length ws) bip39_word_nums else ValueError ;;
    wl <- find_language lang ws ;;
    bs <- mapM (fun w => i <- get_word_idx wl w ;; Ok (int_to_binstr i bip39_word_bit_len)) ws ;;
    let mbs := concat bs in
    let ck := py_take_last (cksum_len mbs) mbs in
    ck' <- compute_cksum mbs ;;
    if list_eqb ck ck' then Ok mbs else Err (LibError MnemonicChecksumError).

  (* Decode / DecodeWithChecksum on a mnemonic object *)
  Definition decode (lang : option (list (list N))) (ws : list (list N)) : res (list N) :=
    mbs <- decode_bin lang ws ;; entropy_of_binstr mbs.

  Definition decode_with_checksum (lang : option (list (list N))) (ws : list (list N)) : res (list N) :=
    mbs <- decode_bin lang ws ;;
    let l := length mbs in
    let pad := if Nat.eqb (l mod 8) 0 then l else (l + (8 - l mod 8))%nat in
    bytes_of_binstr mbs (pad / 4).

  (* the same on a str argument: Bip39Mnemonic.FromString first *)
  Definition decode_str lang (s : list N) : res (list N) := decode lang (normalize s).
  Definition decode_with_checksum_str lang (s : list N) : res (list N) :=
    decode_with_checksum lang (normalize s).

  (* MnemonicValidator.IsValid: catches ValueError and MnemonicChecksumError only *)
  Definition caught_by_is_valid (e : exn) : bool :=
    match e with
    | ValueError | UnicodeError | LibError MnemonicChecksumError => true
    | _ => false
    end.
  Definition is_valid (lang : option (list (list N))) (ws : list (list N)) : res bool :=
    match decode lang ws with
    | inl _ => Ok true
    | inr e => if caught_by_is_valid e then Ok false else Err e
    end.
  Definition is_valid_str lang (s : list N) : res bool := is_valid lang (normalize s).

  (* Bip39MnemonicGenerator(lang).FromEntropy = Encode *)
  Definition from_entropy := encode.
End Bip39.

(* The library's object table (Gen/Objects.v, regenerated from /repo) as an instance of the memo
   model (Model/Memo.v).  Method key = (object, "Class.Method", arguments); field key =
   (object, "Class.field").  Executable definitions only. *)
From Coq Require Import List String Bool NArith Ascii.
From BU Require Import Base.Bytes Gen.Objects Model.Memo.
Import ListNotations.
Open Scope string_scope.

Definition smem (x : string) (l : list string) : bool := existsb (String.eqb x) l.
Definition disjointb (a b : list string) : bool := forallb (fun x => negb (smem x b)) a.

Definition centry := (string * list string * N)%type.
Definition name_of (m : centry) : string := fst (fst m).
Definition reads_of (m : centry) : list string := snd (fst m).

(* THE OBLIGATION: every memoised method reads no field that is written after construction *)
Definition caches_over_immutable_b (cs : list centry) (mut : list string) : bool :=
  forallb (fun m => disjointb (reads_of m) mut) cs.

(* the (method, field) pairs violating it *)
Definition offenders_of (cs : list centry) (mut : list string) : list (string * string) :=
  flat_map (fun m => map (fun f => (name_of m, f)) (filter (fun f => smem f mut) (reads_of m))) cs.

Definition offenders : list (string * string) := offenders_of cached mutable_fields.

Definition mkey := (N * string * list N)%type.
Definition fkey := (N * string)%type.
Definition mkeyb (a b : mkey) : bool :=
  let '(o1, n1, a1) := a in let '(o2, n2, a2) := b in N.eqb o1 o2 && String.eqb n1 n2 && list_eqb a1 a2.
Definition fkeyb (a b : fkey) : bool := N.eqb (fst a) (fst b) && String.eqb (snd a) (snd b).
Definition mname (m : mkey) : string := snd (fst m).
Definition is_cached_key (m : mkey) : bool := smem (mname m) (map name_of cached).
(* the mutable/lazy fields the generated analysis found in the method's transitive read-set *)
Definition gen_reads (n : string) : list string :=
  match find (fun e => String.eqb (name_of e) n) cached with Some e => reads_of e | None => [] end.

(* ---- runnable instance used by the correspondence: which calls of a history return a value that
   differs from the uncached function of the current state ("stale")?
   [graph]: for an object, the object that owns each field its methods read (the harness supplies
   this static object graph); the "value" of a method is the tuple of the current values of the
   mutable fields in its generated read-set. *)
Definition graph := list (N * list (string * N)).
Definition owner (g : graph) (o : N) (f : string) : option N :=
  match find (fun e => N.eqb (fst e) o) g with
  | Some e => match find (fun p => String.eqb (fst p) f) (snd e) with Some p => Some (snd p) | None => None end
  | None => None
  end.
Definition sem_inst (g : graph) (m : mkey) (st : fkey -> N) : list N :=
  flat_map (fun f => match owner g (fst (fst m)) f with Some o => [st (o, f)] | None => [] end) (gen_reads (mname m)).

Inductive hop := HCall (m : mkey) | HWrite (f : fkey) (v : N).

Fixpoint stale_flags (g : graph) (s : state fkey mkey (list N)) (h : list hop) : list bool :=
  match h with
  | [] => []
  | HWrite f v :: t =>
      (* field values are lifted to one-element tuples in the store of the generic model *)
      stale_flags g (fst (step fkey fkeyb mkey mkeyb (list N)
                               (fun m st => sem_inst g m (fun k => hd 0%N (st k))) is_cached_key s (Write f [v]))) t
  | HCall m :: t =>
      let semf := fun m st => sem_inst g m (fun k => hd 0%N (st k)) in
      let r := step fkey fkeyb mkey mkeyb (list N) semf is_cached_key s (Call m) in
      let fresh := semf m (fst s) in
      (match snd r with Some v => negb (list_eqb v fresh) | None => false end) :: stale_flags g (fst r) t
  end.

Definition stale_run (g : graph) (h : list hop) : list bool :=
  stale_flags g (fun _ => [0%N], []) h.

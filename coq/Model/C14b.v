(* Thin compositions of existing models: the public entry points of property C14's census that are one more
   library layer on top of an already modelled function (wallet-level constructors, key containers, seed generators,
   FromString of the mnemonic containers).  Definitions only; every function here is one Python method, named in
   the comment above it.  Theorems: Lemmas/NoEscapeWallets.v, NoEscapeCardano.v, NoEscapeMonero.v; Props/C14.v. *)
From Coq Require Import NArith ZArith Arith List Bool.
From BU Require Import Base.Exn Base.Radix Base.Bytes Gen.Consts Gen.SerbipConsts Gen.ConstsCardmon Gen.Bip44Params
                       Gen.Ecc Gen.C14bConsts.
From BU Require Model.Bip39 Model.Bip32Data Model.Bip32Ser Model.Bip44 Model.Cbor Model.Codecs Model.CborEnc Model.EdLib
                Model.Bip32Kholaw Model.ByronLegacyDeriv Model.AddrAdaByron Model.Bip32Path Model.EccAdapter
                Model.Monero Model.ElectrumWallet.
Import ListNotations.
Open Scope N_scope.

(* ================================================================== mnemonic containers *)
(* Mnemonic.FromString(str) (MoneroMnemonic): str.split(), no error site *)
Definition mnemonic_from_string (s : list N) : res (list (list N)) := Ok (Bip39.split_ws s).
(* Bip39Mnemonic.FromString(str) (also AlgorandMnemonic, ElectrumV1Mnemonic, ElectrumV2Mnemonic, which inherit it):
   split, then lower + NFKD of every word *)
Definition bip39_mnemonic_from_string (nfkd lower : list N -> list N) (s : list N) : res (list (list N)) :=
  Ok (Bip39.normalize nfkd lower s).

(* ================================================================== Cardano seed generators *)
Section CardanoSeeds.
  Variables sha256 nfkd lower : list N -> list N.
  Variable langs : list (list (list N)).
  Variable blake2b_256 : list N -> list N.
  (* CardanoIcarusSeedGenerator(mnemonic, lang).Generate(): the BIP-39 entropy *)
  Definition icarus_seed lang (s : list N) : res (list N) := Bip39.decode_str sha256 nfkd lower langs lang s.
  (* CardanoByronLegacySeedGenerator(mnemonic, lang).Generate(): Blake2b-256 of cbor2.dumps(entropy) *)
  Definition byron_legacy_seed lang (s : list N) : res (list N) :=
    e <- Bip39.decode_str sha256 nfkd lower langs lang s ;; Ok (blake2b_256 (CborEnc.cbor_bytes e)).
End CardanoSeeds.

(* ================================================================== Bip44 / Bip49 / Bip84 / Bip86 / Cip1852 constructors *)
Section Bip44Ctors.
  Variable alph : list N.
  Variable radix : N.
  Variable cklen : nat.
  Variable sha256 : list N -> list N.
  Variable priv_ok : list N -> bool.                  (* the coin's Bip32 class: private key validity *)
  Variable pub_parse : list N -> option (list N).     (* ... public key parser *)

  (* Bip44Base.__init__(bip32_obj, coin_conf): the depth check of Model/Bip44.v on the imported object *)
  Definition bip44_init (o : Bip32Ser.bip32_obj) : res Bip32Ser.bip32_obj :=
    let kd := Bip32Ser.o_kd o in
    _ <- Bip44.init_check unit
           (Bip44.mkState unit (Bip32Data.kd_depth kd) (Bip32Ser.o_public o) (Bip32Data.kd_index kd)
                          (Bip32Data.kd_depth kd) [] tt) ;;
    Ok o.

  (* Bip32KeyData(depth = d) with the defaults of the other fields: index 0, zero chain code, master fingerprint *)
  Definition default_key_data (d i : N) : Bip32Data.key_data :=
    Bip32Data.mk_kd d i (repeat 0 bip32_chaincode_len) bip32_fprint_master.

  (* cls.FromExtendedKey(str, coin) *)
  Definition bip44_from_extended (s : list N) (v : list N * list N) : res Bip32Ser.bip32_obj :=
    o <- Bip32Ser.from_extended alph radix cklen sha256 priv_ok pub_parse s v ;; bip44_init o.
  (* cls.FromPrivateKey(bytes, coin): default key data = master *)
  Definition bip44_from_private_key (raw : list N) : res Bip32Ser.bip32_obj :=
    o <- Bip32Ser.construct priv_ok pub_parse false raw
           (default_key_data from_private_default_depth from_private_default_index) ;;
    bip44_init o.
  (* cls.FromPublicKey(bytes, coin): default key data = account level *)
  Definition bip44_from_public_key (pk : list N) : res Bip32Ser.bip32_obj :=
    o <- Bip32Ser.construct priv_ok pub_parse true pk
           (default_key_data from_public_default_depth from_public_default_index) ;;
    bip44_init o.
End Bip44Ctors.

(* cls.FromSeed(bytes, coin) over the coin's Bip32 class master-key function *)
Definition bip44_from_seed {K : Type} (master : res K) : res (Bip44.state K) :=
  k <- master ;; Bip44.from_seed K k.

(* ================================================================== Khovratovich-Law / Icarus / Byron-legacy Bip32 classes *)
Section KholawPaths.
  Variable hmac_sha512 : list N -> list N -> list N.
  Variable G : Type.
  Variable gadd : G -> G -> G.
  Variable gmul : N -> G -> G.
  Variable gbase : G.
  Variable g_is_zero : G -> bool.
  Variable penc : G -> list N.
  Variable pdec : list N -> option G.
  Variable d : Bip32Kholaw.derivator.

  (* Bip32Base.ChildKey on a Bip32KeyIndex (already range-checked by the path parser) *)
  Definition kh_ckd (n : Bip32Kholaw.node) (i : N) : res Bip32Kholaw.node :=
    Bip32Kholaw.child_key hmac_sha512 G gadd gmul gbase g_is_zero penc pdec d n (Z.of_N i).

  (* cls.FromSeedAndPath(seed, str) = cls.FromSeed(seed).DerivePath(str) *)
  Definition kh_from_seed_and_path_str (from_seed : list N -> res Bip32Kholaw.node) (seed s : list N)
      : res Bip32Kholaw.node :=
    n <- from_seed seed ;;
    Bip32Path.derive_path_str Bip32Kholaw.node Bip32Kholaw.n_depth kh_ckd n s.
End KholawPaths.

(* ================================================================== Byron: HD path decryption, library-faithful *)
(* AdaByronAddrDecoder.DecryptHdPath(bytes, key) = Bip32Path(CborIndefiniteLenArrayDecoder.Decode(ChaCha20Poly1305.Decrypt(..)), True).
   Differs from AddrAdaByron.decrypt_path (the C18 model, which refuses every head the encoder never produces) in
   using the C11 model of the array decoder: a non-integer item is accepted by the decoder and kept by Bip32Path as
   it is; an integer item outside [0, 2^32-1] is a Bip32PathError. *)
Section ByronPath.
  Variable chacha_dec : list N -> list N -> list N -> list N -> list N -> option (list N).   (* key nonce aad ct tag *)
  Definition item_index_ok (it : Cbor.item) : bool :=
    match it with
    | Cbor.CInt z => ((0 <=? z) && (z <=? b32_index_max))%Z
    | Cbor.COther _ => true
    end.
  Definition byron_decrypt_path (key enc : list N) : res (list Cbor.item) :=
    pt <- of_option (chacha_dec key ada_byron_nonce ada_byron_assoc
                       (drop_last chacha_tag_len enc) (take_last chacha_tag_len enc)) ValueError ;;
    items <- Codecs.cbor_decode pt ;;
    guard (forallb item_index_ok items) else (LibError Bip32PathError) ;;
    Ok items.
End ByronPath.

(* ================================================================== Sr25519 / Substrate key layers *)
(* Sr25519PrivateKey.IsValidBytes / Sr25519PublicKey.IsValidBytes *)
Definition sr_priv_is_valid (b : list N) : res bool := EccAdapter.is_valid (EccAdapter.Sr.sr_priv_from_bytes sr_priv_len b).
Definition sr_pub_is_valid (b : list N) : res bool := EccAdapter.is_valid (EccAdapter.Sr.sr_pub_from_bytes sr_pub_len b).
(* Sr25519Point.FromBytes (DummyPoint): the two big-endian coordinates, no validation at all *)
Definition sr_point_from_bytes (b : list N) : res (N * N) :=
  Ok (be_to_int (firstn dummy_coord_len b), be_to_int (skipn dummy_coord_len b)).

(* except ValueError -> SubstrateKeyError *)
Definition sub_key_err {A} (r : res A) : res A :=
  match r with
  | inr e => if is_value_error e then Err (LibError SubstrateKeyError) else Err e
  | _ => r
  end.
(* SubstratePrivateKey.FromBytes / SubstratePublicKey.FromBytes *)
Definition substrate_priv_from_bytes (b : list N) : res (list N) := sub_key_err (EccAdapter.Sr.sr_priv_from_bytes sr_priv_len b).
Definition substrate_pub_from_bytes (b : list N) : res (list N) := sub_key_err (EccAdapter.Sr.sr_pub_from_bytes sr_pub_len b).

Section Substrate.
  (* sr25519.public_from_secret_key: None when the binding refuses the secret key (its ValueError) *)
  Variable pub_of_secret : list N -> option (list N).
  (* sr25519.pair_from_seed(32 bytes) -> (public, secret) *)
  Variable pair_from_seed : list N -> list N * list N.

  (* a Substrate object as far as its construction goes: private key (None = public-only), public key *)
  Definition sub_obj := (option (list N) * list N)%type.

  (* Substrate.FromPrivateKey(bytes, coin): the public key is computed outside any try/except *)
  Definition substrate_from_private_key (b : list N) : res sub_obj :=
    k <- substrate_priv_from_bytes b ;;
    p <- of_option (pub_of_secret k) ValueError ;;
    Ok (Some k, p).
  (* Substrate.FromPublicKey(bytes, coin) *)
  Definition substrate_from_public_key (b : list N) : res sub_obj :=
    p <- substrate_pub_from_bytes b ;; Ok (None, p).
  (* Substrate.FromSeed(bytes, coin) *)
  Definition substrate_from_seed (seed : list N) : res sub_obj :=
    guard (substrate_seed_min_len <=? length seed)%nat else ValueError ;;
    let '(pub, sec) := pair_from_seed (firstn substrate_seed_min_len seed) in
    k <- substrate_priv_from_bytes sec ;;
    p <- substrate_pub_from_bytes pub ;;
    Ok (Some k, p).
End Substrate.

(* ================================================================== Electrum wallets from a seed *)
(* ElectrumV1.FromSeed(bytes) = ElectrumV1.FromPrivateKey(bytes) *)
Definition electrum_v1_from_seed (G : Type) (seed : list N) : res (ElectrumWallet.v1_wallet G) :=
  ElectrumWallet.v1_from_private_key G seed.
Section ElectrumV2Seed.
  Variable obj : Type.
  Variable ckd : obj -> N -> res obj.
  Variable obj_depth : obj -> N.
  Variable from_seed : list N -> res obj.        (* Bip32Slip10Secp256k1.FromSeed *)
  (* ElectrumV2Standard.FromSeed(bytes) / ElectrumV2Segwit.FromSeed(bytes) *)
  Definition electrum_v2_standard_from_seed (seed : list N) : res obj :=
    m <- from_seed seed ;; ElectrumWallet.v2_new obj obj_depth m.
  Definition electrum_v2_segwit_from_seed (seed : list N) : res obj :=
    m <- from_seed seed ;; ElectrumWallet.v2_segwit_new obj ckd obj_depth m.
End ElectrumV2Seed.

(* The C11 codec models instantiated on the constants regenerated from /repo (Gen/*.v).
   Definitions only; these are the functions run by the correspondence driver and the ones the
   theorems of Props/C11.v speak about. *)
From Coq Require Import NArith ZArith List.
From BU Require Import Base.Exn Base.Bytes Gen.Consts Gen.CodecConsts.
From BU Require Model.Base58 Model.Base58Xmr Model.ConvertBits Model.Base32 Model.SS58 Model.Scale Model.Cbor.
Import ListNotations.
Open Scope N_scope.

(* ---- Monero block Base58 ---- *)
Definition xmr_encode := Base58Xmr.encode xmr_alph b58_radix xmr_block_dec_max xmr_block_enc_max xmr_block_enc_lens.
Definition xmr_decode := Base58Xmr.decode xmr_alph b58_radix xmr_block_dec_max xmr_block_enc_max xmr_block_enc_lens.
Definition xmr_b58dec := Base58Xmr.b58dec xmr_alph b58_radix.
Definition xmr_b58enc := Base58Xmr.b58enc xmr_alph b58_radix.
Definition xmr_block_value := Base58Xmr.block_value xmr_alph b58_radix.
Definition xmr_pad := Base58Xmr.pad xmr_alph.

(* ---- Bech32BaseUtils.ConvertToBase32 / ConvertFromBase32 (a None result becomes ValueError);
        the bit widths are the literal arguments of the two ConvertBits calls in the source ---- *)
Definition to_base32 (data : list N) : res (list N) :=
  ConvertBits.none_is_value_error (ConvertBits.convert_bits cb_to32_from cb_to32_to data true).
Definition from_base32 (data : list N) : res (list N) :=
  ConvertBits.none_is_value_error (ConvertBits.convert_bits cb_from32_from cb_from32_to data false).

(* ---- Base32Encoder / Base32Decoder ---- *)
Definition b32_encode := Base32.encode b32_alphabet.
Definition b32_encode_no_padding := Base32.encode_no_padding b32_alphabet b32_pad_char.
Definition b32_decode := Base32.decode b32_alphabet b32_pad_char.

(* ---- SS58Encoder / SS58Decoder (Base58 with the Bitcoin alphabet; blake2b-512 is an oracle) ---- *)
Definition ss58_encode (blake2b512 : list N -> list N) :=
  SS58.encode b58_alph_btc b58_radix ss58_simple_max ss58_format_max ss58_reserved ss58_data_len ss58_cklen
              ss58_ck_prefix blake2b512.
Definition ss58_decode (blake2b512 : list N -> list N) :=
  SS58.decode b58_alph_btc b58_radix ss58_simple_max ss58_reserved ss58_data_len ss58_cklen
              ss58_ck_prefix blake2b512.
Definition ss58_format_bytes := SS58.format_bytes ss58_simple_max.
Definition ss58_parse_header := SS58.parse_header ss58_simple_max.

(* ---- Substrate SCALE encoders ---- *)
Definition scale_compact_encode := Scale.compact_encode scale_single_max scale_two_max scale_four_max scale_big_max.
Definition scale_bytes_encode := Scale.bytes_encode scale_single_max scale_two_max scale_four_max scale_big_max.
(* SubstrateScaleU8/16/32/64/128/256Encoder: kind k = 0..5 selects the byte length of the k-th class *)
Definition scale_uint_encode (kind : nat) (v : Z) : res (list N) :=
  match nth_error scale_uint_byte_lens kind with
  | Some w => Scale.uint_encode w v
  | None => Err (Foreign 0)
  end.

(* ---- CborIndefiniteLenArrayEncoder / Decoder ---- *)
Definition cbor_encode := Cbor.encode cbor_indef_len_array_start cbor_indef_len_array_end.
Definition cbor_decode := Cbor.decode cbor_indef_len_array_start cbor_indef_len_array_end cbor_uint_ids_to_len.

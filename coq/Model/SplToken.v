(* bip_utils/solana/spl_token.py : program-derived addresses and the associated token account address. *)
From Coq Require Import NArith Arith List Bool.
From BU Require Import Base.Exn Base.Radix Base.Bytes Gen.SerbipConsts Model.Base58.
Import ListNotations.
Open Scope N_scope.

Section SplToken.
  Variable alph : list N.                       (* Base58 (Bitcoin alphabet) for the result *)
  Variable radix : N.
  Variable sha256 : list N -> list N.
  Variable on_curve : list N -> bool.           (* Ed25519PublicKey.IsValidBytes *)
  Variable sol_decode : list N -> res (list N). (* SolAddrDecoder.DecodeAddr *)

  (* SplToken.__CreatePda: hash of seeds || bump || program id || marker; a valid point is refused *)
  Definition pda_hash (seeds_cat : list N) (bump : N) (program_id : list N) : list N :=
    sha256 (seeds_cat ++ int_to_be_auto bump ++ program_id ++ spl_pda_marker).

  (* the bump search: [fuel] iterations starting at [bump], counting down *)
  Fixpoint find_pda_loop (seeds_cat program_id : list N) (bump : N) (fuel : nat) : res (list N) :=
    match fuel with
    | O => Err ValueError
    | S f =>
      let h := pda_hash seeds_cat bump program_id in
      if on_curve h then find_pda_loop seeds_cat program_id (bump - 1) f else Ok h
    end.

  Definition seed_max_len : nat := (ed25519_pub_len + length ed25519_pub_prefix - 1)%nat.

  (* SplToken.FindPda *)
  Definition find_pda (seeds : list (list N)) (program_id : list N) : res (list N) :=
    if (spl_seeds_max_num <? length seeds)%nat then Err ValueError else
    if existsb (fun s => (seed_max_len <? length s)%nat) seeds then Err ValueError else
    prog <- sol_decode program_id ;;
    h <- find_pda_loop (concat seeds) prog spl_bump_max (N.to_nat spl_bump_max) ;;
    Ok (encode alph radix h).

  (* SplToken.GetAssociatedTokenAddressWithProgramId / GetAssociatedTokenAddress *)
  Definition get_ata_with_program (wallet mint token_program : list N) : res (list N) :=
    w <- sol_decode wallet ;; t <- sol_decode token_program ;; m <- sol_decode mint ;;
    find_pda [w; t; m] spl_def_program_id.
  Definition get_ata (wallet mint : list N) : res (list N) :=
    get_ata_with_program wallet mint spl_def_token_program_id.
End SplToken.

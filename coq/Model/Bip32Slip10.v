(* BIP-32 / SLIP-0010 derivation as bip_utils implements it:
     bip_utils/bip/bip32/base/bip32_base.py                       (Bip32Base: objects, ChildKey, DerivePath, ...)
     bip_utils/bip/bip32/slip10/bip32_slip10_mst_key_generator.py (master key)
     bip_utils/bip/bip32/slip10/bip32_slip10_key_derivator.py     (CkdPriv / CkdPub, ECDSA curves and ed25519)
     bip_utils/bip/bip32/bip32_keys.py, bip32_key_data.py         (key wrappers, fingerprint, key data)
   Definitions only (proofs: Lemmas/Bip32Slip10.v).  All constants come from Gen/DerivConsts.v.

   MAIN MODEL = what the property demands: [ckd_priv_ecdsa] / [ckd_pub_ecdsa] contain the SLIP-0010
   re-hash loop for an out-of-range left half or a zero child.  The code as it stands has
   no such loop (defect F1); its behaviour is kept as [ckd_priv_ecdsa_current] / [ckd_pub_ecdsa_current].

   Oracles (Section variables): hmac512, hash160, the group operations of the ECDSA curve, and
   for ed25519 the map private seed -> public key bytes (RFC 8032 with SHA-512 or Blake2b-512).
   Length checks of Bip32ChainCode / Bip32FingerPrint on HMAC / HASH160 outputs are not modelled:
   they cannot fire for outputs of the fixed lengths (64 / 20) that every theorem assumes. *)
From Coq Require Import NArith Arith List Bool.
From BU Require Import Base.Exn Base.Radix Base.Bytes Model.Group Gen.DerivConsts.
Import ListNotations.
Open Scope N_scope.

(* Bip32KeyData *)
Record key_data := mk_key_data {
  kd_depth : N;              (* Bip32Depth (unbounded int; only serialisation limits it) *)
  kd_index : N;              (* Bip32KeyIndex *)
  kd_chain : list N;         (* Bip32ChainCode *)
  kd_fprint : list N         (* parent fingerprint *)
}.

(* Bip32KeyIndex.IsHardened: (idx & (1 << 31)) != 0 *)
Definition hardened (i : N) : bool := N.testbit i bip32_hardened_bit.
(* Bip32KeyIndex.ToBytes() *)
Definition ser32 (i : N) : res (list N) := int_to_be_fixed bip32_index_len i.
(* HmacSha512.QuickDigestHalves *)
Definition left_half (I : list N) : list N := firstn hmac512_half_len I.
Definition right_half (I : list N) : list N := skipn hmac512_half_len I.

(* SLIP-0010: "let I = HMAC-SHA512(Key = c_par, Data = 0x01 || IR || ser32(i)) and restart": the prefix is
   [slip10_retry_prefix] of Gen/DerivConsts.v (the library's constant once fixes/F1.diff is in, the standard's
   value until then; Lemmas/DerivConstsOk.v proves it is [1] either way). *)

Definition is_ok {A} (r : res A) : bool := match r with inl _ => true | inr _ => false end.

(* try: ... except ValueError as ex: raise Bip32KeyError (Bip32PrivateKey/PublicKey.__KeyFromBytes/Point) *)
Definition value_error_to_key_error {A} (r : res A) : res A :=
  match r with
  | inr ValueError => Err (LibError Bip32KeyError)
  | inr UnicodeError => Err (LibError Bip32KeyError)
  | _ => r
  end.

(* What a Bip32 class is made of: its curve's key classes, IBip32MstKeyGenerator and IBip32KeyDerivator *)
Record deriv_ops := mk_deriv_ops {
  d_pub : Type;                                   (* IPublicKey objects *)
  d_priv_of_bytes : list N -> res (list N);       (* PrivateKeyClass().FromBytes(b).Raw(); ValueError if invalid *)
  d_pub_of_priv : list N -> d_pub;                (* IPrivateKey.PublicKey() *)
  d_pub_check : d_pub -> res d_pub;               (* PublicKeyClass().FromPoint(P); ValueError if invalid *)
  d_pub_ser : d_pub -> list N;                    (* RawCompressed() *)
  d_hmac_key : list N;                            (* key of the master-key HMAC *)
  d_ckd_priv : nat -> list N -> d_pub -> list N -> N -> res (list N * list N);
  d_ckd_pub : nat -> d_pub -> list N -> N -> res (d_pub * list N)
}.

(* --------------------------------------------------------------------------------------------- *)
Section Bip32Base.
  Variable hmac512 : list N -> list N -> list N.
  Variable hash160 : list N -> list N.
  Variable D : deriv_ops.

  (* a Bip32Base object: m_priv_key (None once public-only), m_pub_key, key data *)
  Record obj := mk_obj {
    o_priv : option (list N);
    o_pub : d_pub D;
    o_data : key_data
  }.

  (* _Bip32Slip10MstKeyGenerator.GenerateFromSeed: "while not success" loop, explicit fuel *)
  Fixpoint master_loop (fuel : nat) (data : list N) : res (list N * list N) :=
    match fuel with
    | O => Err OutOfFuel
    | S f =>
      let I := hmac512 (d_hmac_key D) data in
      if is_ok (d_priv_of_bytes D (left_half I)) then Ok (left_half I, right_half I)
      else master_loop f I
    end.

  Definition master_key (fuel : nat) (seed : list N) : res (list N * list N) :=
    guard (slip10_seed_min_len <=? length seed)%nat else ValueError ;;
    master_loop fuel seed.

  (* Bip32Base.__init__ with a private key given as bytes *)
  Definition new_priv (kb : list N) (kd : key_data) : res obj :=
    k <- value_error_to_key_error (d_priv_of_bytes D kb) ;;
    Ok (mk_obj (Some k) (d_pub_of_priv D k) kd).

  (* Bip32Base.__init__ for a public-only object given a point / key object *)
  Definition new_pub (P : d_pub D) (kd : key_data) : res obj :=
    P' <- value_error_to_key_error (d_pub_check D P) ;;
    Ok (mk_obj None P' kd).

  (* Bip32KeyData(chain_code=c): depth 0, index 0, master fingerprint *)
  Definition master_data (c : list N) : key_data := mk_key_data 0 0 c bip32_fprint_master.

  (* Bip32Base.FromSeed *)
  Definition from_seed (fuel : nat) (seed : list N) : res obj :=
    kc <- master_key fuel seed ;;
    new_priv (fst kc) (master_data (snd kc)).

  (* Bip32PublicKey.KeyIdentifier / FingerPrint *)
  Definition key_identifier (o : obj) : list N := hash160 (d_pub_ser D (o_pub o)).
  Definition fingerprint (o : obj) : list N := firstn bip32_fprint_len (key_identifier o).

  Definition child_data (o : obj) (i : N) (c : list N) : key_data :=
    mk_key_data (kd_depth (o_data o) + 1) i c (fingerprint o).

  (* Bip32Base.ChildKey(index : int) *)
  Definition child_key (fuel : nat) (o : obj) (i : N) : res obj :=
    guard (i <=? bip32_index_max) else ValueError ;;          (* Bip32KeyIndex(index) *)
    match o_priv o with
    | Some k =>                                               (* __CkdPriv *)
      kc <- d_ckd_priv D fuel k (o_pub o) (kd_chain (o_data o)) i ;;
      new_priv (fst kc) (child_data o i (snd kc))
    | None =>                                                 (* __ValidateAndCkdPub *)
      guard (negb (hardened i)) else (LibError Bip32KeyError) ;;
      Pc <- d_ckd_pub D fuel (o_pub o) (kd_chain (o_data o)) i ;;
      new_pub (fst Pc) (child_data o i (snd Pc))
    end.

  (* the loop of Bip32Base.DerivePath over the elements of a Bip32Path *)
  Fixpoint derive_elems (fuel : nat) (o : obj) (p : list N) : res obj :=
    match p with
    | [] => Ok o
    | i :: t => o' <- child_key fuel o i ;; derive_elems fuel o' t
    end.

  (* Bip32Base.DerivePath(Bip32Path(elems, is_absolute)) *)
  Definition derive_path (fuel : nat) (o : obj) (is_abs : bool) (p : list N) : res obj :=
    guard (negb ((0 <? kd_depth (o_data o)) && is_abs)) else ValueError ;;
    derive_elems fuel o p.

  (* Bip32Base.FromSeedAndPath *)
  Definition from_seed_and_path (fuel : nat) (seed : list N) (is_abs : bool) (p : list N) : res obj :=
    o <- from_seed fuel seed ;; derive_path fuel o is_abs p.

  (* ConvertToPublic / IsPublicOnly / PrivateKey *)
  Definition convert_to_public (o : obj) : obj := mk_obj None (o_pub o) (o_data o).
  Definition is_public_only (o : obj) : bool := match o_priv o with None => true | Some _ => false end.
  Definition private_key (o : obj) : res (list N) :=
    match o_priv o with Some k => Ok k | None => Err (LibError Bip32KeyError) end.
  Definition public_key_bytes (o : obj) : list N := d_pub_ser D (o_pub o).
End Bip32Base.

Arguments o_priv {D}.
Arguments o_pub {D}.
Arguments o_data {D}.
Arguments mk_obj {D}.

(* --------------------------------------------------------------------------------------------- *)
(* Bip32Slip10EcdsaDerivator over an abstract group (secp256k1 / nist256p1) *)
Section Ecdsa.
  Variable G : group_ops.
  Variable hmac512 : list N -> list N -> list N.
  Variable hmac_key : list N.
  Notation n := (order G).

  (* Secp256k1PrivateKey / Nist256p1PrivateKey .FromBytes: 32 bytes, 0 < k < n, else ValueError *)
  Definition ecdsa_priv_valid (b : list N) : bool :=
    (length b =? ecdsa_priv_len)%nat && (0 <? be_to_int b) && (be_to_int b <? n).
  Definition ecdsa_priv_of_bytes (b : list N) : res (list N) :=
    if ecdsa_priv_valid b then Ok b else Err ValueError.

  Definition ecdsa_pub_of_priv (k : list N) : pt G := point_of (be_to_int k).

  (* PublicKeyClass().FromPoint: the point at infinity is no public key *)
  Definition ecdsa_pub_check (P : pt G) : res (pt G) :=
    if is_zero P then Err ValueError else Ok P.

  (* HMAC data of step 1 *)
  Definition ckd_data (k : list N) (K : pt G) (i : N) (ib : list N) : list N :=
    if hardened i then slip10_priv_prefix ++ k ++ ib else ser_c K ++ ib.

  (* ---- property-conformant derivation (SLIP-0010 retry loop, explicit fuel) ---- *)
  Fixpoint ckd_priv_loop (fuel : nat) (kpar : N) (cpar ib I : list N) : res (list N * list N) :=
    match fuel with
    | O => Err OutOfFuel
    | S f =>
      let il := be_to_int (left_half I) in
      let ki := (il + kpar) mod n in
      if (n <=? il) || (ki =? 0)
      then ckd_priv_loop f kpar cpar ib (hmac512 cpar (slip10_retry_prefix ++ right_half I ++ ib))
      else kb <- int_to_be_fixed ecdsa_priv_len ki ;; Ok (kb, right_half I)
    end.

  Definition ckd_priv_ecdsa (fuel : nat) (k : list N) (K : pt G) (c : list N) (i : N)
    : res (list N * list N) :=
    ib <- ser32 i ;;
    ckd_priv_loop fuel (be_to_int k) c ib (hmac512 c (ckd_data k K i ib)).

  Fixpoint ckd_pub_loop (fuel : nat) (Kpar : pt G) (cpar ib I : list N) : res (pt G * list N) :=
    match fuel with
    | O => Err OutOfFuel
    | S f =>
      let il := be_to_int (left_half I) in
      let Ki := add Kpar (smul il base) in                   (* pub_key.Point() + G * iL *)
      if (n <=? il) || is_zero Ki
      then ckd_pub_loop f Kpar cpar ib (hmac512 cpar (slip10_retry_prefix ++ right_half I ++ ib))
      else Ok (Ki, right_half I)
    end.

  Definition ckd_pub_ecdsa (fuel : nat) (K : pt G) (c : list N) (i : N) : res (pt G * list N) :=
    ib <- ser32 i ;;
    ckd_pub_loop fuel K c ib (hmac512 c (ser_c K ++ ib)).

  (* ---- the code as it stands (no retry; defect F1) ---- *)
  (* CkdPriv: (iL + k) mod n whatever iL is; a zero child is caught by the key constructor later *)
  Definition ckd_priv_ecdsa_current (fuel : nat) (k : list N) (K : pt G) (c : list N) (i : N)
    : res (list N * list N) :=
    ib <- ser32 i ;;
    let I := hmac512 c (ckd_data k K i ib) in
    kb <- int_to_be_fixed ecdsa_priv_len ((be_to_int (left_half I) + be_to_int k) mod n) ;;
    Ok (kb, right_half I).

  (* CkdPub: P + iL*G with whatever the back-end makes of iL >= n / iL = 0 / a sum at infinity.
     Observed on the pinned tree (forced HMAC outputs): coincurve (secp256k1) raises a bare ValueError for
     iL = 0, iL >= n and for a sum at infinity; python-ecdsa (P-256) reduces iL silently and ends in a
     TypeError when the sum is the point at infinity.  CkdPriv reduces (iL + k) mod n silently for iL >= n and a
     zero child makes the key constructor raise Bip32KeyError.  This definition is the algebraic reading
     (total scalar multiplication); harness/deriv_ref.py: child_noretry has the back-end detail. *)
  Definition ckd_pub_ecdsa_current (fuel : nat) (K : pt G) (c : list N) (i : N) : res (pt G * list N) :=
    ib <- ser32 i ;;
    let I := hmac512 c (ser_c K ++ ib) in
    Ok (add K (smul (be_to_int (left_half I)) base), right_half I).

  Definition ecdsa_ops : deriv_ops :=
    mk_deriv_ops (pt G) ecdsa_priv_of_bytes ecdsa_pub_of_priv ecdsa_pub_check ser_c hmac_key
                 ckd_priv_ecdsa ckd_pub_ecdsa.
  Definition ecdsa_ops_current : deriv_ops :=
    mk_deriv_ops (pt G) ecdsa_priv_of_bytes ecdsa_pub_of_priv ecdsa_pub_check ser_c hmac_key
                 ckd_priv_ecdsa_current ckd_pub_ecdsa_current.
End Ecdsa.

(* --------------------------------------------------------------------------------------------- *)
(* Bip32Slip10Ed25519Derivator (ed25519 and ed25519-blake2b) *)
Section Ed25519.
  Variable hmac512 : list N -> list N -> list N.
  Variable ed_pub : list N -> list N.       (* 32-byte seed -> 32-byte public key (RFC 8032, curve's hash) *)

  (* Ed25519PrivateKey.FromBytes: nacl SigningKey accepts exactly 32 bytes, any value *)
  Definition ed_priv_of_bytes (b : list N) : res (list N) :=
    if (length b =? ed25519_priv_len)%nat then Ok b else Err ValueError.

  (* RawCompressed(): 0x00 || key *)
  Definition ed_pub_ser (P : list N) : list N := ed25519_pub_prefix ++ P.

  (* CkdPriv: hardened only *)
  Definition ckd_priv_ed (fuel : nat) (k : list N) (K : list N) (c : list N) (i : N)
    : res (list N * list N) :=
    guard (hardened i) else (LibError Bip32KeyError) ;;
    ib <- ser32 i ;;
    let I := hmac512 c (slip10_priv_prefix ++ k ++ ib) in
    Ok (left_half I, right_half I).

  (* CkdPub: refused *)
  Definition ckd_pub_ed (fuel : nat) (K : list N) (c : list N) (i : N) : res (list N * list N) :=
    Err (LibError Bip32KeyError).

  Definition ed_ops : deriv_ops :=
    mk_deriv_ops (list N) ed_priv_of_bytes ed_pub (fun P => Ok P) ed_pub_ser slip10_hmac_key_ed25519
                 ckd_priv_ed ckd_pub_ed.
End Ed25519.

(* bip_utils/monero/mnemonic/*.py : MoneroMnemonicEncoder (no checksum / with checksum),
   MoneroMnemonicDecoder (also behind MoneroMnemonicValidator and MoneroSeedGenerator, whose seed IS the
   decoded entropy).

   A mnemonic is the word list held by the Mnemonic object (MoneroMnemonic is the plain Mnemonic class: no
   case folding, no normalisation); splitting a string at white space is Mnemonic.FromString and is not
   modelled here.  A language is its position in MoneroLanguages (enum order, Gen/MnemLangs.v); the decoder's
   [None] is automatic detection.

   The decoder is parameterised by the chunk decoder: [ChunkMnemonic.words_to_chunk] gives the
   property-conformant decoder, [words_to_chunk_current] the code as it stands (F8). *)
From Coq Require Import NArith List.
From BU Require Import Base.Exn Base.Bytes Model.MnemWords Model.MnemText Model.ChunkMnemonic.
Import ListNotations.
Open Scope N_scope.

Section Monero.
  Variable langs : list (list (list N) * nat).  (* (word list, LANGUAGE_UNIQUE_PREFIX_LEN) per language *)
  Variable word_nums : list N.                   (* MoneroMnemonicConst.MNEMONIC_WORD_NUM *)
  Variable word_nums_chk : list N.               (* MoneroMnemonicConst.MNEMONIC_WORD_NUM_CHKSUM *)
  Variable ent_bit_lens : list N.                (* MoneroEntropyGeneratorConst.ENTROPY_BIT_LEN *)
  Variable w2c : list (list N) -> endian -> list N -> list N -> list N -> res (list N).

  (* MoneroWordsListGetter.GetByLanguage: TypeError for anything that is no MoneroLanguages member *)
  Definition get_lang (lang : nat) : res (list (list N) * nat) := of_option (nth_error langs lang) TypeError.

  (* MoneroEntropyGenerator.IsValidEntropyByteLen *)
  Definition valid_entropy_len (b : list N) : bool := memb (N.of_nat (length b) * 8) ent_bit_lens.

  (* MoneroMnemonicUtils.ComputeChecksum: CRC-32 of the UTF-8 encoding of the joined unique prefixes,
     modulo the number of words, selects the checksum word *)
  Definition compute_checksum (plen : nat) (ws : list (list N)) : res (list N) :=
    enc <- utf8 (concat (map (firstn plen) ws)) ;;
    of_option (nth_error ws (N.to_nat (crc32 enc mod N.of_nat (length ws)))) IndexError.

  (* MoneroMnemonicEncoderBase._EncodeToList *)
  Definition encode_to_list (lang : nat) (b : list N) : res (list (list N)) :=
    L <- get_lang lang ;;
    guard valid_entropy_len b else ValueError ;;
    ws <- mapM (bytes_chunk_to_words (fst L) Little) (groups 4 (Nat.div (length b) 4) b) ;;
    Ok (concat ws).

  (* MoneroMnemonicNoChecksumEncoder.Encode / MoneroMnemonicWithChecksumEncoder.Encode *)
  Definition encode (lang : nat) (with_chk : bool) (b : list N) : res (list (list N)) :=
    ws <- encode_to_list lang b ;;
    if with_chk then
      L <- get_lang lang ;;
      c <- compute_checksum (snd L) ws ;;
      Ok (ws ++ [c])
    else Ok ws.

  (* MoneroMnemonicDecoder.__ValidateChecksum *)
  Definition validate_checksum (plen : nat) (ws : list (list N)) : res unit :=
    if memb (N.of_nat (length ws)) word_nums_chk then
      c <- compute_checksum plen (removelast ws) ;;
      guard list_eqb (last ws []) c else LibError MnemonicChecksumError ;;
      Ok tt
    else Ok tt.

  Definition decode_triple (wl : list (list N)) (g : list (list N)) : res (list N) :=
    match g with
    | [a; b; c] => w2c wl Little a b c
    | _ => Err ValueError                (* unreachable: every slice words[3i:3i+3] has three words *)
    end.

  (* MoneroMnemonicDecoder(lang).Decode *)
  Definition decode (lang : option nat) (ws : list (list N)) : res (list N) :=
    fixed <- match lang with
             | Some i => rmap (@Some _) (get_lang i)
             | None => Ok None
             end ;;
    guard memb (N.of_nat (length ws)) word_nums else ValueError ;;
    L <- match fixed with
         | Some L => Ok L
         | None => find_language (@fst _ _) langs ws
         end ;;
    _ <- validate_checksum (snd L) ws ;;
    cs <- mapM (decode_triple (fst L)) (groups 3 (Nat.div (length ws) 3) ws) ;;
    Ok (concat cs).
End Monero.

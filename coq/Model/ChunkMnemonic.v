(* bip_utils/utils/mnemonic/mnemonic_utils.py : MnemonicUtils.BytesChunkToWords / WordsToBytesChunk --
   the 4-byte <-> 3-word codec with chained offsets shared by Monero (little endian) and Electrum v1 (big
   endian).

   Two decoders are given:
     [words_to_chunk]          the property-conformant one: a triple whose packed value does not fit 4 bytes
                               is rejected with ValueError (behaviour after fixes/F8.diff);
     [words_to_chunk_current]  the code as it stands: GetBytesNumber(v) > 3 -> ToBytes(v) with the computed
                               length, i.e. FIVE bytes when v >= 2^32 (finding F8). *)
From Coq Require Import NArith List.
From BU Require Import Base.Exn Base.Radix Base.Bytes Model.MnemWords Gen.MnemConsts.
Import ListNotations.
Open Scope N_scope.

Inductive endian := Little | Big.

(* BytesUtils.ToInteger(b, endianness) *)
Definition bytes_to_int (e : endian) (b : list N) : N :=
  match e with Little => le_to_int b | Big => be_to_int b end.
(* IntegerUtils.ToBytes(v, bytes_num=w, endianness): int.to_bytes -> OverflowError when it does not fit *)
Definition int_to_bytes_fixed (e : endian) (w : nat) (v : N) : res (list N) :=
  match e with Little => int_to_le_fixed w v | Big => int_to_be_fixed w v end.
(* IntegerUtils.ToBytes(v, endianness) with bytes_num = GetBytesNumber(v) *)
Definition int_to_bytes_auto (e : endian) (v : N) : list N :=
  match e with Big => int_to_be_auto v | Little => rev (int_to_be_auto v) end.

(* the chunk width [chunk_byte_len] is the `bytes_num=4` of the source (Gen/MnemConsts.v); the `3` of
   `GetBytesNumber(int_chunk) > 3` in the code as it stands is kept as the literal it is *)
Definition chunk_limit : N := 256 ^ N.of_nat chunk_byte_len.

Section Chunk.
  Variable n : N.                            (* words_list.Length() *)

  (* word1_idx, word2_idx, word3_idx of BytesChunkToWords *)
  Definition chunk_to_idx (x : N) : N * N * N :=
    let w1 := x mod n in
    let w2 := (x / n + w1) mod n in
    let w3 := (x / n / n + w2) mod n in
    (w1, w2, w3).

  (* Python's (a - b) % n for 0 <= a, b < n (both are positions in a list of n words) *)
  Definition sub_mod (a b : N) : N := (a + n - b) mod n.

  (* int_chunk of WordsToBytesChunk *)
  Definition packed (w1 w2 w3 : N) : N :=
    w1 + n * sub_mod (w2 mod n) w1 + n * n * sub_mod (w3 mod n) (w2 mod n).
End Chunk.

(* MnemonicUtils.BytesChunkToWords *)
Definition bytes_chunk_to_words (wl : list (list N)) (e : endian) (b : list N) : res (list (list N)) :=
  let '(i1, i2, i3) := chunk_to_idx (wl_len wl) (bytes_to_int e b) in
  a <- word_at wl i1 ;; b <- word_at wl i2 ;; c <- word_at wl i3 ;; Ok [a; b; c].

(* the three GetWordIdx calls of WordsToBytesChunk, then int_chunk *)
Definition words_packed (wl : list (list N)) (w1 w2 w3 : list N) : res N :=
  i1 <- word_idx wl w1 ;; i2 <- word_idx wl w2 ;; i3 <- word_idx wl w3 ;;
  Ok (packed (wl_len wl) i1 i2 i3).

(* MnemonicUtils.WordsToBytesChunk, property-conformant: exactly 4 bytes or ValueError *)
Definition words_to_chunk (wl : list (list N)) (e : endian) (w1 w2 w3 : list N) : res (list N) :=
  v <- words_packed wl w1 w2 w3 ;;
  if v <? chunk_limit then int_to_bytes_fixed e chunk_byte_len v else Err ValueError.

(* MnemonicUtils.WordsToBytesChunk as it stands *)
Definition words_to_chunk_current (wl : list (list N)) (e : endian) (w1 w2 w3 : list N) : res (list N) :=
  v <- words_packed wl w1 w2 w3 ;;
  if Nat.ltb 3 (get_bytes_number v) then Ok (int_to_bytes_auto e v)
  else int_to_bytes_fixed e chunk_byte_len v.

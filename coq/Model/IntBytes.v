(* bip_utils/utils/misc/integer.py (IntegerUtils) and bytes.py (BytesUtils): integer <-> bytes,
   binary strings, hex.  Definitions only.  Text is a list of code points; the library first
   UTF-8-encodes text (AlgoUtils.Encode) and a non-ASCII code point yields only bytes >= 0x80, which no
   parser below accepts, so the parsers can work on code points (outcome classes are identical). *)
From Coq Require Import NArith ZArith List Bool.
From BU Require Import Base.Exn Base.Radix Base.Bytes.
Import ListNotations.
Open Scope N_scope.

(* ---- IntegerUtils.GetBytesNumber: ((n.bit_length() if n > 0 else 1) + 7) // 8 ---- *)
Definition bytes_number (v : Z) : N :=
  ((if (0 <? v)%Z then N.size (Z.to_N v) else 1) + 7) / 8.

(* ---- IntegerUtils.ToBytes(data_int, bytes_num=None, endianness, signed=False) ----
   [bytes_num or GetBytesNumber(..)]: None and 0 both select the automatic width.
   int.to_bytes raises OverflowError for a negative value (unsigned) or one that does not fit. *)
Definition to_bytes (v : Z) (bytes_num : N) (big : bool) : res (list N) :=
  let w := if bytes_num =? 0 then bytes_number v else bytes_num in
  if (v <? 0)%Z then Err OverflowError
  else (if big then int_to_be_fixed else int_to_le_fixed) (N.to_nat w) (Z.to_N v).

(* ---- BytesUtils.ToInteger(data_bytes, endianness, signed=False) ---- *)
Definition to_integer (b : list N) (big : bool) : N :=
  if big then be_to_int b else le_to_int b.

(* ---- str.zfill(w) for a string that does not start with a sign ---- *)
Definition zfill (w : nat) (s : list N) : list N := repeat 48 (w - length s) ++ s.

(* bin(n)[2:] / hex(n)[2:] for n >= 0 *)
Definition bin_digits (n : N) : list N :=
  if n =? 0 then [48] else map (fun d => 48 + d) (to_be 2 n).
Definition hexdig (d : N) : N := if d <? 10 then 48 + d else 87 + d.
Definition hex_digits (n : N) : list N :=
  if n =? 0 then [48] else map hexdig (to_be 16 n).

(* ---- IntegerUtils.ToBinaryStr(data_int, zero_pad_bit_len) for data_int >= 0 ---- *)
Definition int_to_binstr (n : N) (pad : nat) : list N := zfill pad (bin_digits n).

(* ---- int(text, 2) as CPython parses it (PyLong_FromString): optional surrounding ASCII white
   space, optional sign, optional 0b/0B prefix (one underscore may follow it), binary digits with
   single underscores between them.  Everything else: ValueError. ---- *)
Definition is_space (c : N) : bool := (c =? 32) || ((9 <=? c) && (c <=? 13)).
Fixpoint lstrip_ws (s : list N) : list N :=
  match s with c :: t => if is_space c then lstrip_ws t else s | [] => [] end.

(* digit scan: accumulated value, whether a digit was seen, whether the previous char was '_' *)
Fixpoint scan2 (s : list N) (acc : N) (any prev_us : bool) : option (N * bool * list N) :=
  match s with
  | c :: t =>
      if (c =? 48) || (c =? 49) then scan2 t (2 * acc + (c - 48)) true false
      else if c =? 95 then (if prev_us then None else scan2 t acc any true)
      else if prev_us then None else Some (acc, any, s)
  | [] => if prev_us then None else Some (acc, any, [])
  end.

Definition split_sign (s : list N) : bool * list N :=
  match s with
  | 43 :: t => (false, t)
  | 45 :: t => (true, t)
  | _ => (false, s)
  end.

Definition strip_prefix2 (s : list N) : list N :=
  match s with
  | 48 :: c :: t => if (c =? 98) || (c =? 66)
                    then match t with 95 :: t' => t' | _ => t end
                    else s
  | _ => s
  end.

Definition starts_with_us (s : list N) : bool :=
  match s with c :: _ => c =? 95 | [] => false end.

Definition parse_int2 (s : list N) : res Z :=
  let '(neg, s2) := split_sign (lstrip_ws s) in
  let s3 := strip_prefix2 s2 in
  if starts_with_us s3 then Err ValueError
  else
    match scan2 s3 0 false false with
    | Some (v, true, rest) =>
        match lstrip_ws rest with
        | [] => Ok (if neg then (- Z.of_N v)%Z else Z.of_N v)
        | _ => Err ValueError
        end
    | _ => Err ValueError
    end.

(* ---- IntegerUtils.FromBinaryStr ---- *)
Definition int_from_binstr (s : list N) : res Z := parse_int2 s.

(* ---- BytesUtils.ToBinaryStr ---- *)
Definition bytes_to_binstr (b : list N) (pad : nat) : list N := int_to_binstr (be_to_int b) pad.

(* ---- binascii.hexlify / unhexlify ---- *)
Definition hexlify (b : list N) : list N :=
  flat_map (fun x => [hexdig (x / 16); hexdig (x mod 16)]) b.

Definition hexval (c : N) : res N :=
  if (48 <=? c) && (c <=? 57) then Ok (c - 48)
  else if (97 <=? c) && (c <=? 102) then Ok (c - 87)
  else if (65 <=? c) && (c <=? 70) then Ok (c - 55)
  else Err ValueError.

Fixpoint unhex_pairs (s : list N) : res (list N) :=
  match s with
  | [] => Ok []
  | [_] => Err ValueError                      (* odd length *)
  | a :: b :: t => x <- hexval a ;; y <- hexval b ;; r <- unhex_pairs t ;; Ok (16 * x + y :: r)
  end.

Definition unhexlify (s : list N) : res (list N) := unhex_pairs s.

(* ---- BytesUtils.ToHexString / FromHexString ---- *)
Definition to_hex_string (b : list N) : list N := hexlify b.
Definition from_hex_string (s : list N) : res (list N) := unhexlify s.

(* ---- BytesUtils.FromBinaryStr(data, zero_pad_byte_len):
        unhexlify(hex(int(data, 2))[2:].zfill(zero_pad_byte_len))
   For a negative value hex(..)[2:] starts with 'x', which unhexlify rejects. ---- *)
Definition bytes_from_binstr (s : list N) (pad : nat) : res (list N) :=
  v <- parse_int2 s ;;
  if (v <? 0)%Z then Err ValueError
  else unhexlify (zfill pad (hex_digits (Z.to_N v))).

(* str.encode("utf-8") and binascii.crc32, modelled concretely (pure arithmetic, no oracle). *)
From Coq Require Import NArith List Bool.
From BU Require Import Base.Exn.
Import ListNotations.
Open Scope N_scope.

(* one code point -> UTF-8 bytes; lone surrogates raise UnicodeEncodeError (a ValueError subclass) *)
Definition utf8_cp (c : N) : res (list N) :=
  if c <? 0x80 then Ok [c]
  else if c <? 0x800 then Ok [0xC0 + c / 64; 0x80 + c mod 64]
  else if c <? 0x10000 then
    if (0xD800 <=? c) && (c <? 0xE000) then Err UnicodeError
    else Ok [0xE0 + c / 4096; 0x80 + (c / 64) mod 64; 0x80 + c mod 64]
  else if c <? 0x110000 then
    Ok [0xF0 + c / 262144; 0x80 + (c / 4096) mod 64; 0x80 + (c / 64) mod 64; 0x80 + c mod 64]
  else Err UnicodeError.

Definition utf8 (s : list N) : res (list N) := rmap (@concat N) (mapM utf8_cp s).

(* CRC-32 (IEEE 802.3, reflected, polynomial 0xEDB88320, init and final xor 0xFFFFFFFF), bit by bit *)
Definition crc32_poly : N := 0xEDB88320.
Fixpoint crc32_bits (k : nat) (c : N) : N :=
  match k with
  | O => c
  | S k' => crc32_bits k' (if N.odd c then N.lxor (N.shiftr c 1) crc32_poly else N.shiftr c 1)
  end.
Definition crc32_byte (c b : N) : N := crc32_bits 8 (N.lxor c b).
Definition crc32 (bs : list N) : N := N.lxor (fold_left crc32_byte bs 0xFFFFFFFF) 0xFFFFFFFF.

(* The concrete Base32 / SS58 codecs in the argument order Model/AddrText.v uses (definitions only; their laws are
   derived in Lemmas/AddrInst.v).  Kept in Model/ so that the extracted API does not depend on a lemma file. *)
From Coq Require Import NArith ZArith List.
From BU Require Import Base.Exn Model.Codecs.
Open Scope N_scope.

Definition b32_enc_nopad (al : option (list N)) (d : list N) : res (list N) := Codecs.b32_encode_no_padding d al.
Definition b32_dec (al : option (list N)) (s : list N) : res (list N) := Codecs.b32_decode s al.
Definition ss58_enc (blake : list N -> list N) (d : list N) (f : N) : res (list N) := Codecs.ss58_encode blake d (Z.of_N f).
Definition ss58_dec (blake : list N -> list N) (s : list N) : res (N * list N) := Codecs.ss58_decode blake s.

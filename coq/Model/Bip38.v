(* bip_utils/bip/bip38/bip38_addr.py, bip38_no_ec.py, bip38_ec.py.
   Oracles (Section variables): sha256, NFC, UTF-8 encoding of the passphrase, scrypt, AES-256-ECB on one
   16-byte block, the secp256k1 group (abstract carrier G), point (de)serialisation, and the P2PKH address
   string of a public key in a compression mode (an abstract function: address pipelines are C09's).
   The library's two random draws (owner salt, seedb) are explicit arguments. *)
From Coq Require Import NArith ZArith List Bool.
From BU Require Import Base.Exn Base.Radix Base.Bytes Gen.SerbipConsts Model.Base58 Model.WifCodec.
Import ListNotations.
Open Scope N_scope.

(* BytesUtils.Xor: zip semantics, the shorter operand decides the length *)
Fixpoint xor_bytes (a b : list N) : list N :=
  match a, b with
  | x :: a', y :: b' => N.lxor x y :: xor_bytes a' b'
  | _, _ => []
  end.

(* x[a:b] / x[a:] with the literal bounds taken from the function bodies (Gen: (a, 0) encodes x[a:]) *)
Definition sl (tbl : list (nat * nat)) (i : nat) (x : list N) : list N :=
  let p := nth i tbl (0%nat, 0%nat) in
  if (snd p =? 0)%nat then skipn (fst p) x else slice (fst p) (snd p) x.

Section Bip38.
  Variable alph : list N.
  Variable radix : N.
  Variable cklen : nat.
  Variable sha256 : list N -> list N.
  Variable nfc : list N -> list N.
  Variable utf8 : list N -> res (list N).
  Variable scrypt : list N -> list N -> N -> N -> N -> N -> list N.   (* password salt n r p dklen *)
  Variable aes_enc aes_dec : list N -> list N -> list N.               (* key, 16-byte block *)
  Variable G : Type.
  Variable base : G.
  Variable smul : N -> G -> G.
  Variable ser_c : G -> list N.                 (* Secp256k1PublicKey.RawCompressed *)
  Variable deser : list N -> option G.          (* Secp256k1PublicKey.FromBytes *)
  Variable p2pkh : G -> bool -> list N.         (* P2PKHAddr.EncodeKey(pub, Bitcoin main net, mode), text *)

  Definition b58c_enc := check_encode alph radix cklen sha256.
  Definition b58c_dec := check_decode alph radix cklen sha256.
  Definition dsha (b : list N) : list N := sha256 (sha256 b).

  (* point * scalar as the coincurve back-end does it: scalar 0 or >= n is a ValueError *)
  Definition point_mul (k : N) (P : G) : res G :=
    if (k =? 0) || (secp256k1_order <=? k) then Err ValueError else Ok (smul k P).

  (* Secp256k1PrivateKey.FromBytes(k).PublicKey() *)
  Definition pub_of_priv (k : list N) : res G :=
    if secp_priv_valid k then Ok (smul (be_to_int k) base) else Err ValueError.

  (* Bip38Addr.AddressHash *)
  Definition address_hash (P : G) (compressed : bool) : list N :=
    firstn bip38_addr_hash_len (dsha (p2pkh P compressed)).

  (* ------------------------------------------------------------ no EC multiplication *)

  (* _Bip38NoEcUtils.DeriveKeyHalves *)
  Definition noec_halves (passphrase addr_hash : list N) : res (list N * list N) :=
    pw <- utf8 (nfc passphrase) ;;
    let key := scrypt pw addr_hash bip38_noec_scrypt_n bip38_noec_scrypt_r bip38_noec_scrypt_p bip38_noec_scrypt_len in
    let h := N.to_nat (bip38_noec_scrypt_len / 2) in
    Ok (firstn h key, skipn h key).

  (* Bip38NoEcEncrypter.Encrypt *)
  Definition noec_encrypt (key passphrase : list N) (compressed : bool) : res (list N) :=
    P <- pub_of_priv key ;;
    let ah := address_hash P compressed in
    hv <- noec_halves passphrase ah ;;
    let '(dh1, dh2) := hv in
    let e1 := aes_enc dh2 (xor_bytes (sl bip38_noec_enc_slices 0 key) (sl bip38_noec_enc_slices 1 dh1)) in
    let e2 := aes_enc dh2 (xor_bytes (sl bip38_noec_enc_slices 2 key) (sl bip38_noec_enc_slices 3 dh1)) in
    let flag := if compressed then bip38_noec_flag_compr else bip38_noec_flag_uncompr in
    Ok (b58c_enc (bip38_noec_prefix ++ [flag] ++ ah ++ e1 ++ e2)).

  (* Bip38NoEcDecrypter.Decrypt *)
  Definition noec_decrypt (enc passphrase : list N) : res (list N * bool) :=
    b <- b58c_dec enc ;;
    if negb (length b =? bip38_noec_enc_len)%nat then Err ValueError else
    let prefix := sl bip38_noec_dec_slices 0 b in
    flag <- of_option (nth_error b (fst (nth 1 bip38_noec_dec_slices (0%nat, 0%nat)))) IndexError ;;
    let ah := sl bip38_noec_dec_slices 2 b in
    let e1 := sl bip38_noec_dec_slices 3 b in
    let e2 := sl bip38_noec_dec_slices 4 b in
    if negb (list_eqb prefix bip38_noec_prefix) then Err ValueError else
    if negb ((flag =? bip38_noec_flag_compr) || (flag =? bip38_noec_flag_uncompr)) then Err ValueError else
    hv <- noec_halves passphrase ah ;;
    let '(dh1, dh2) := hv in
    let key := xor_bytes (aes_dec dh2 e1 ++ aes_dec dh2 e2) dh1 in
    let compressed := flag =? bip38_noec_flag_compr in
    P <- pub_of_priv key ;;
    if negb (list_eqb ah (address_hash P compressed)) then Err ValueError else Ok (key, compressed).

  (* ------------------------------------------------------------ EC multiplication *)

  (* _Bip38EcUtils.OwnerEntropyWithLotSeq; owner_salt = os.urandom(4) *)
  Definition owner_entropy_lotseq (lot seq : Z) (owner_salt : list N) : res (list N) :=
    if ((lot <? bip38_ec_lot_min) || (bip38_ec_lot_max <? lot))%Z then Err ValueError else
    if ((seq <? bip38_ec_seq_min) || (bip38_ec_seq_max <? seq))%Z then Err ValueError else
    ls <- int_to_be_fixed bip38_ec_lotseq_len (Z.to_N (lot * (bip38_ec_seq_max + 1) + seq)) ;;
    Ok (owner_salt ++ ls).

  (* _Bip38EcUtils.OwnerSaltFromEntropy *)
  Definition owner_salt_of (owner_entropy : list N) (has_lot_seq : bool) : list N :=
    if has_lot_seq then firstn bip38_ec_salt_lotseq_len owner_entropy else owner_entropy.

  (* _Bip38EcUtils.PassFactor (note: the code passes r := ..._P and p := ..._R) *)
  Definition pass_factor (passphrase owner_entropy : list N) (has_lot_seq : bool) : res (list N) :=
    pw <- utf8 (nfc passphrase) ;;
    let prefactor := scrypt pw (owner_salt_of owner_entropy has_lot_seq)
                       bip38_ec_pre_n bip38_ec_pre_p bip38_ec_pre_r bip38_ec_pre_len in
    Ok (if has_lot_seq then dsha (prefactor ++ owner_entropy) else prefactor).

  (* _Bip38EcUtils.PassPoint: compressed encoding of G * passfactor *)
  Definition pass_point (passfactor : list N) : res (list N) :=
    P <- point_mul (be_to_int passfactor) base ;; Ok (ser_c P).

  (* _Bip38EcUtils.DeriveKeyHalves *)
  Definition ec_halves (passpoint addr_hash owner_entropy : list N) : list N * list N :=
    let key := scrypt passpoint (addr_hash ++ owner_entropy)
                 bip38_ec_halves_n bip38_ec_halves_r bip38_ec_halves_p bip38_ec_halves_len in
    let h := N.to_nat (bip38_ec_halves_len / 2) in
    (firstn h key, skipn h key).

  (* Bip38EcKeysGenerator.GenerateIntermediatePassphrase
     lot_seq = Some (lot, seq) iff both optional arguments were given; owner_salt: 4 resp. 8 random bytes *)
  Definition gen_intermediate (passphrase : list N) (lot_seq : option (Z * Z)) (owner_salt : list N) : res (list N) :=
    let has_lot_seq := match lot_seq with Some _ => true | None => false end in
    oe <- match lot_seq with
          | Some (lot, seq) => owner_entropy_lotseq lot seq owner_salt
          | None => Ok owner_salt
          end ;;
    pf <- pass_factor passphrase oe has_lot_seq ;;
    pp <- pass_point pf ;;
    let magic := if has_lot_seq then bip38_ec_magic_lotseq else bip38_ec_magic_nolotseq in
    Ok (b58c_enc (magic ++ oe ++ pp)).

  (* BitUtils.SetBit on the flag byte *)
  Definition ec_flagbyte (compressed has_lot_seq : bool) : N :=
    let f0 := if compressed then N.setbit 0 bip38_ec_flag_bit_compr else 0 in
    if has_lot_seq then N.setbit f0 bip38_ec_flag_bit_lotseq else f0.

  (* Bip38EcKeysGenerator.GeneratePrivateKey; seedb = os.urandom(24) *)
  Definition gen_private_key (int_passphrase : list N) (compressed : bool) (seedb : list N) : res (list N) :=
    b <- b58c_dec int_passphrase ;;
    if negb (length b =? bip38_ec_intpass_len)%nat then Err ValueError else
    let magic := sl bip38_ec_gen_slices 0 b in
    let oe := sl bip38_ec_gen_slices 1 b in
    pp <- of_option (deser (sl bip38_ec_gen_slices 2 b)) ValueError ;;
    if negb (list_eqb magic bip38_ec_magic_nolotseq || list_eqb magic bip38_ec_magic_lotseq) then Err ValueError else
    let factorb := dsha seedb in
    Q <- point_mul (be_to_int factorb) pp ;;
    let ah := address_hash Q compressed in
    let '(dh1, dh2) := ec_halves (ser_c pp) ah oe in
    let ep1 := aes_enc dh2 (xor_bytes (sl bip38_ec_encseedb_slices 0 seedb) (sl bip38_ec_encseedb_slices 1 dh1)) in
    let ep2 := aes_enc dh2 (xor_bytes (sl bip38_ec_encseedb_slices 2 ep1 ++ sl bip38_ec_encseedb_slices 3 seedb)
                                      (sl bip38_ec_encseedb_slices 4 dh1)) in
    let flag := ec_flagbyte compressed (list_eqb magic bip38_ec_magic_lotseq) in
    Ok (b58c_enc (bip38_ec_prefix ++ [flag] ++ ah ++ oe ++ sl bip38_ec_gen_slices 3 ep1 ++ ep2)).

  (* Bip38EcDecrypter.__GetFlagbyteOptions -> (compressed, has_lot_seq) *)
  Definition ec_flag_options (flag : N) : res (bool * bool) :=
    let has_lot_seq := N.testbit flag bip38_ec_flag_bit_lotseq in
    let compressed := N.testbit flag bip38_ec_flag_bit_compr in
    let rest := N.clearbit (N.clearbit flag bip38_ec_flag_bit_lotseq) bip38_ec_flag_bit_compr in
    if negb (rest =? 0) then Err ValueError else Ok (compressed, has_lot_seq).

  (* Bip38EcDecrypter.Decrypt *)
  Definition ec_decrypt (enc passphrase : list N) : res (list N * bool) :=
    b <- b58c_dec enc ;;
    if negb (length b =? bip38_ec_enc_len)%nat then Err ValueError else
    let prefix := sl bip38_ec_dec_slices 0 b in
    flag <- of_option (nth_error b (fst (nth 1 bip38_ec_dec_slices (0%nat, 0%nat)))) IndexError ;;
    let ah := sl bip38_ec_dec_slices 2 b in
    let oe := sl bip38_ec_dec_slices 3 b in
    let ep1_lower := sl bip38_ec_dec_slices 4 b in
    let ep2 := sl bip38_ec_dec_slices 5 b in
    if negb (list_eqb prefix bip38_ec_prefix) then Err ValueError else
    opts <- ec_flag_options flag ;;
    let '(compressed, has_lot_seq) := opts in
    pf <- pass_factor passphrase oe has_lot_seq ;;
    pp <- pass_point pf ;;
    let '(dh1, dh2) := ec_halves pp ah oe in
    let dp2 := xor_bytes (aes_dec dh2 ep2) (sl bip38_ec_factorb_slices 0 dh1) in
    let ep1_higher := sl bip38_ec_factorb_slices 1 dp2 in
    let seedb2 := sl bip38_ec_factorb_slices 2 dp2 in
    let seedb1 := xor_bytes (aes_dec dh2 (ep1_lower ++ ep1_higher)) (sl bip38_ec_factorb_slices 3 dh1) in
    let factorb := dsha (seedb1 ++ seedb2) in
    key <- int_to_be_fixed ecdsa_priv_len ((be_to_int pf * be_to_int factorb) mod secp256k1_order) ;;
    P <- pub_of_priv key ;;
    if negb (list_eqb ah (address_hash P compressed)) then Err ValueError else Ok (key, compressed).

  (* Bip38Encrypter.GeneratePrivateKeyEc *)
  Definition generate_private_key_ec (passphrase : list N) (compressed : bool) (lot_seq : option (Z * Z))
      (owner_salt seedb : list N) : res (list N) :=
    ip <- gen_intermediate passphrase lot_seq owner_salt ;; gen_private_key ip compressed seedb.
End Bip38.

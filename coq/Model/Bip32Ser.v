(* bip_utils/bip/bip32/bip32_key_ser.py (serializers, Bip32KeyDeserializer),
   bip32_keys.py (ToExtended, key construction from bytes) and the extended-key part of
   bip_utils/bip/bip32/base/bip32_base.py (FromExtendedKey, FromPrivateKey, FromPublicKey). *)
From Coq Require Import NArith ZArith List Bool.
From BU Require Import Base.Exn Base.Radix Base.Bytes Gen.SerbipConsts Model.Base58 Model.Bip32Data.
Import ListNotations.
Open Scope N_scope.

(* what a Bip32 object carries as far as serialisation is concerned:
   private object: the raw private key bytes; public-only object: the compressed public key bytes *)
Record bip32_obj := mk_obj { o_public : bool; o_key : list N; o_kd : key_data }.

Section Bip32Ser.
  (* Base58Check over the Bitcoin alphabet (the serializer uses the default alphabet) *)
  Variable alph : list N.
  Variable radix : N.
  Variable cklen : nat.
  Variable sha256 : list N -> list N.
  (* curve.PrivateKeyClass().FromBytes(b) succeeds (oracle; per Bip32 class) *)
  Variable priv_ok : list N -> bool.
  (* curve.PublicKeyClass().FromBytes(b).RawCompressed(), None when FromBytes raises ValueError *)
  Variable pub_parse : list N -> option (list N).
  (* priv_key.PublicKey().RawCompressed() *)
  Variable pub_of_priv : list N -> list N.

  Definition key_net_ver := (list N * list N)%type.     (* (public, private) *)
  Definition ver_pub (v : key_net_ver) := fst v.
  Definition ver_priv (v : key_net_ver) := snd v.

  (* _Bip32KeySerializer.Serialize *)
  Definition ser_payload (key_bytes : list N) (kd : key_data) (ver : list N) : res (list N) :=
    d <- depth_to_bytes (kd_depth kd) ;;
    i <- index_to_bytes (kd_index kd) ;;
    Ok (ver ++ d ++ kd_fp kd ++ i ++ kd_cc kd ++ key_bytes).
  Definition serialize (key_bytes : list N) (kd : key_data) (ver : list N) : res (list N) :=
    p <- ser_payload key_bytes kd ver ;; Ok (check_encode alph radix cklen sha256 p).

  (* Bip32PrivateKeySerializer.Serialize / Bip32PublicKeySerializer.Serialize *)
  Definition ser_priv (v : key_net_ver) (kd : key_data) (raw : list N) : res (list N) :=
    serialize (bip32_priv_pad :: raw) kd (ver_priv v).
  Definition ser_pub (v : key_net_ver) (kd : key_data) (compressed : list N) : res (list N) :=
    serialize compressed kd (ver_pub v).

  (* Bip32KeyDeserializer.__GetIfPublic *)
  Definition get_if_public (ser : list N) (v : key_net_ver) : res bool :=
    let got := firstn bip32_ver_len ser in
    if list_eqb got (ver_pub v) then Ok true
    else if list_eqb got (ver_priv v) then Ok false
    else Err (LibError Bip32KeyError).

  Definition depth_idx := bip32_ver_len.
  Definition fprint_idx := (depth_idx + bip32_depth_len)%nat.
  Definition key_index_idx := (fprint_idx + bip32_fprint_len)%nat.
  Definition chain_code_idx := (key_index_idx + bip32_index_len)%nat.
  Definition key_idx := (chain_code_idx + bip32_chaincode_len)%nat.

  (* Bip32KeyDeserializer.__GetPartsFromBytes *)
  Definition get_parts (ser : list N) (is_public : bool) : res (list N * key_data) :=
    depth <- of_option (nth_error ser depth_idx) IndexError ;;
    let fprint_bytes := slice fprint_idx key_index_idx ser in
    let key_index_bytes := slice key_index_idx chain_code_idx ser in
    let chain_code_bytes := slice chain_code_idx key_idx ser in
    let key_bytes := skipn key_idx ser in
    d <- mk_depth (Z.of_N depth) ;;
    i <- index_from_bytes key_index_bytes ;;
    cc <- mk_chain_code chain_code_bytes ;;
    fp <- mk_fprint fprint_bytes ;;
    let kd := mk_kd d i cc fp in
    if is_public then Ok (key_bytes, kd)
    else
      k0 <- of_option (nth_error key_bytes 0) IndexError ;;
      if negb (k0 =? bip32_priv_pad_expected) then Err (LibError Bip32KeyError) else Ok (skipn 1 key_bytes, kd).

  Fixpoint nat_mem (x : nat) (l : list nat) : bool :=
    match l with [] => false | y :: t => (x =? y)%nat || nat_mem x t end.

  (* Bip32KeyDeserializer.DeserializeKey -> (key bytes, key data, is_public) *)
  Definition deserialize (s : list N) (v : key_net_ver) : res (list N * key_data * bool) :=
    ser <- check_decode alph radix cklen sha256 s ;;
    is_public <- get_if_public ser v ;;
    if is_public && negb (length ser =? bip32_ser_pub_len)%nat then Err (LibError Bip32KeyError)
    else if negb is_public && negb (nat_mem (length ser) bip32_ser_priv_lens) then Err (LibError Bip32KeyError)
    else
      p <- get_parts ser is_public ;;
      Ok (fst p, snd p, is_public).

  (* Bip32PrivateKey.FromBytes / Bip32PublicKey.FromBytes wrapped by Bip32Base.__init__ *)
  Definition construct (is_public : bool) (key_bytes : list N) (kd : key_data) : res bip32_obj :=
    if is_public then
      match pub_parse key_bytes with
      | Some c => Ok (mk_obj true c kd)
      | None => Err (LibError Bip32KeyError)
      end
    else if priv_ok key_bytes then Ok (mk_obj false key_bytes kd)
    else Err (LibError Bip32KeyError).

  (* Bip32Base.FromPrivateKey / FromPublicKey with key bytes *)
  Definition from_private_key (raw : list N) (kd : key_data) : res bip32_obj := construct false raw kd.
  Definition from_public_key (pk : list N) (kd : key_data) : res bip32_obj := construct true pk kd.

  (* Bip32Base.FromExtendedKey *)
  Definition from_extended (s : list N) (v : key_net_ver) : res bip32_obj :=
    r <- deserialize s v ;;
    let '(key_bytes, kd, is_public) := r in
    if (kd_depth kd =? 0) && negb (fprint_is_master (kd_fp kd)) then Err (LibError Bip32KeyError)
    else if (kd_depth kd =? 0) && negb (kd_index kd =? 0) then Err (LibError Bip32KeyError)
    else construct is_public key_bytes kd.

  (* obj.PrivateKey().ToExtended() : Bip32KeyError on a public-only object *)
  Definition to_extended_priv (o : bip32_obj) (v : key_net_ver) : res (list N) :=
    if o_public o then Err (LibError Bip32KeyError) else ser_priv v (o_kd o) (o_key o).
  (* obj.PublicKey().ToExtended() *)
  Definition to_extended_pub (o : bip32_obj) (v : key_net_ver) : res (list N) :=
    ser_pub v (o_kd o) (if o_public o then o_key o else pub_of_priv (o_key o)).
  (* the serialisation that FromExtendedKey inverts: the private form of a private object,
     the public form of a public-only one *)
  Definition to_extended (o : bip32_obj) (v : key_net_ver) : res (list N) :=
    if o_public o then ser_pub v (o_kd o) (o_key o) else ser_priv v (o_kd o) (o_key o).
End Bip32Ser.

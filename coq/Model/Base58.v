(* bip_utils/base58/base58.py : Base58Encoder / Base58Decoder (both alphabets). *)
From Coq Require Import NArith List.
From BU Require Import Base.Exn Base.Radix Base.Bytes.
Import ListNotations.
Open Scope N_scope.

Section Base58.
  Variable alph : list N.                 (* Base58Const.ALPHABETS[alph_idx], from Gen/Consts.v *)
  Variable radix : N.                     (* Base58Const.RADIX *)
  Variable cklen : nat.                   (* Base58Const.CHECKSUM_BYTE_LEN *)
  Variable sha256 : list N -> list N.     (* oracle *)

  Definition a0 : N := nth 0 alph 0.
  Definition sym (d : N) : N := nth (N.to_nat d) alph 0.

  (* Base58Encoder.Encode *)
  Definition encode (b : list N) : list N :=
    repeat a0 (lead_count 0 b) ++ map sym (to_be radix (be_to_int b)).

  (* alphabet.index(c): ValueError when absent *)
  Definition sym_index (c : N) : res N :=
    match index_of c alph with Some i => Ok (N.of_nat i) | None => Err ValueError end.

  (* Base58Decoder.Decode *)
  Definition decode (s : list N) : res (list N) :=
    ds <- mapM sym_index s ;;
    Ok (repeat 0 (lead_count a0 s) ++ int_to_be_min (from_be radix ds)).

  Definition checksum (b : list N) : list N := firstn cklen (sha256 (sha256 b)).

  (* Base58Encoder.CheckEncode *)
  Definition check_encode (b : list N) : list N := encode (b ++ checksum b).

  (* Base58Decoder.CheckDecode *)
  Definition check_decode (s : list N) : res (list N) :=
    dec <- decode s ;;
    let data := drop_last cklen dec in
    let ck := take_last cklen dec in
    if list_eqb ck (checksum data) then Ok data else Err (LibError Base58ChecksumError).
End Base58.

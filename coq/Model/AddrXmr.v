(* bip_utils/addr/xmr_addr.py : _XmrAddrUtils.EncodeKey / DecodeAddr behind XmrAddrEncoder,
   XmrIntegratedAddrEncoder, XmrAddrDecoder, XmrIntegratedAddrDecoder. *)
From Coq Require Import NArith Arith List Bool.
From BU Require Import Base.Exn Base.Radix Base.Bytes Gen.ConstsCardmon.
From BU Require Model.XmrB58 Model.EdLib.
Import ListNotations.
Open Scope N_scope.

Section AddrXmr.
  Variable keccak : list N -> list N.
  Variable G : Type.
  Variable pdec : list N -> option G.

  Definition b58x_encode := XmrB58.encode xb58_alph xb58_radix xb58_block_dec_max xb58_block_enc_max xb58_block_enc_lens.
  Definition b58x_decode := XmrB58.decode xb58_alph xb58_radix xb58_block_dec_max xb58_block_enc_max xb58_block_enc_lens.

  Definition checksum (payload : list N) : list N := firstn xmr_addr_cklen (keccak payload).

  (* the address bytes before Base58: net ‖ spend ‖ view [‖ payment id] ‖ checksum *)
  Definition addr_bytes (net ps pv payid : list N) : list N :=
    let payload := net ++ ps ++ pv ++ payid in payload ++ checksum payload.

  (* _XmrAddrUtils.EncodeKey with raw key bytes; payid = None for the standard encoder.
     Key objects (already validated) are the [Ok] case of [pub_from_bytes]. *)
  Definition encode_key (pub_s pub_v net : list N) (payid : option (list N)) : res (list N) :=
    guard (match payid with Some p => (length p =? xmr_payid_len)%nat | None => true end) else ValueError ;;
    let pid := match payid with Some p => p | None => [] end in
    ps <- EdLib.pub_from_bytes G pdec pub_s ;;
    pv <- EdLib.pub_from_bytes G pdec pub_v ;;
    Ok (b58x_encode (addr_bytes net ps pv pid)).

  (* _XmrAddrUtils.DecodeAddr *)
  Definition decode_addr (addr net : list N) (payid : option (list N)) : res (list N) :=
    dec <- b58x_decode addr ;;
    let payload := drop_last xmr_addr_cklen dec in
    let ck := take_last xmr_addr_cklen dec in
    guard (list_eqb ck (checksum payload)) else ValueError ;;
    guard (list_eqb net (firstn (length net) payload)) else ValueError ;;
    let body := skipn (length net) payload in
    let klen := ed_pub_len in
    (* without an expected payment id the plain length; with one, its length, the with-id length of the payload
       and the id itself are checked *)
    _ <- match payid with
         | None => guard (length body =? 2 * klen)%nat else ValueError ;; Ok tt
         | Some p =>
           guard (length p =? xmr_payid_len)%nat else ValueError ;;
           guard (length body =? 2 * klen + xmr_payid_len)%nat else ValueError ;;
           guard (list_eqb p (take_last xmr_payid_len body)) else ValueError ;;
           Ok tt
         end ;;
    let ps := firstn klen body in
    let pv := slice klen (2 * klen) body in
    guard (EdLib.pub_is_valid G pdec ps) else ValueError ;;
    guard (EdLib.pub_is_valid G pdec pv) else ValueError ;;
    Ok (ps ++ pv).
End AddrXmr.

(* bip_utils/bip/bip32/bip32_path.py (Bip32Path, Bip32PathParser),
   bip_utils/bip/bip32/bip32_key_data.py (Bip32KeyIndex),
   bip_utils/bip/bip32/base/bip32_base.py (the path-walking part of Bip32Base.DerivePath).
   Definitions only; proofs in Lemmas/Bip32Path.v. *)
From Coq Require Import NArith ZArith List Bool.
From BU Require Import Base.Exn Base.Radix Base.Bytes Gen.PathConsts Model.PyText.
Import ListNotations.
Open Scope N_scope.

(* ---- Bip32KeyIndex ---- *)

Definition hardened_mask : N := N.shiftl 1 bip32_key_index_hardened_bit.

(* BitUtils.SetBit / ResetBit / IsBitSet on Python ints (Z: the parser applies them to int()'s result) *)
Definition harden_index_z (i : Z) : Z := Z.lor i (Z.of_N hardened_mask).
Definition unharden_index_z (i : Z) : Z := Z.land i (Z.lnot (Z.of_N hardened_mask)).
Definition is_hardened_index_z (i : Z) : bool := negb (Z.land i (Z.of_N hardened_mask) =? 0)%Z.

(* the same on valid (non-negative) indexes *)
Definition harden_index (i : N) : N := N.lor i hardened_mask.
Definition unharden_index (i : N) : N := N.ldiff i hardened_mask.
Definition is_hardened_index (i : N) : bool := negb (N.land i hardened_mask =? 0).

(* Bip32KeyIndex.__init__: ValueError outside [0, KEY_INDEX_MAX_VAL] *)
Definition key_index (i : Z) : res N :=
  if (i <? 0)%Z || (Z.of_N bip32_key_index_max_val <? i)%Z then Err ValueError else Ok (Z.to_N i).

(* Bip32KeyIndex.ToBytes(endianness): IntegerUtils.ToBytes(idx, 4, endianness) *)
Definition key_index_to_bytes (big : bool) (i : N) : res (list N) :=
  if big then int_to_be_fixed bip32_key_index_byte_len i else int_to_le_fixed bip32_key_index_byte_len i.
(* Bip32KeyIndex.FromBytes: BytesUtils.ToInteger (big endian, any length) then the range check *)
Definition key_index_from_bytes (b : list N) : res N := key_index (Z.of_N (be_to_int b)).

(* ---- Bip32Path ---- *)

Record path := mk_path { p_elems : list N; p_abs : bool }.

(* Bip32Path.__init__ on a list of ints: a ValueError of Bip32KeyIndex becomes Bip32PathError *)
Definition make_path (elems : list Z) (is_abs : bool) : res path :=
  match mapM key_index elems with
  | inl l => Ok (mk_path l is_abs)
  | inr _ => Err (LibError Bip32PathError)
  end.

(* Bip32Path.ToStr *)
Definition elem_to_str (i : N) : list N :=
  if is_hardened_index i then str_of_N (unharden_index i) ++ bip32_tostr_hard_suffix
  else str_of_N i ++ bip32_tostr_soft_suffix.
Definition to_str (p : path) : list N :=
  removelast ((if p_abs p then bip32_master_char ++ bip32_tostr_master_suffix else [])
              ++ flat_map elem_to_str (p_elems p)).

(* ---- Bip32PathParser ---- *)

Definition is_empty (l : list N) : bool := match l with [] => true | _ => false end.

(* list(filter(None, path.split("/"))) after removing one trailing "/" *)
Definition ch_slash : N := hd 0 bip32_path_sep.      (* a one-character literal (checked by gen_paths.py) *)
Definition path_fields (s : list N) : list (list N) :=
  let s' := if ends_with bip32_path_sep s then removelast s else s in
  filter (fun e => negb (is_empty e)) (split_on ch_slash s').

(* __ParseElem.  [int_err] is the exception a ValueError of int() is turned into: Bip32PathError in the code
   (since fix 751715b); before that fix the ValueError escaped (defect F5), kept below as
   [parse_before_fix] for the historical witness only. *)
Definition parse_elem_gen (int_err : exn) (e : list N) : res Z :=
  let e1 := py_strip e in
  let hard := existsb (fun suf => ends_with suf e1) bip32_hardened_chars in
  let e2 := if hard then removelast e1 else e1 in
  if negb (py_isnumeric e2) then Err (LibError Bip32PathError)
  else match py_int e2 with
       | inl v => Ok (if hard then harden_index_z v else v)
       | inr _ => Err int_err
       end.

Definition parse_gen (int_err : exn) (s : list N) : res path :=
  let fs := path_fields s in
  let '(is_abs, fs') := match fs with
                        | f :: r => if list_eqb f bip32_master_char then (true, r) else (false, fs)
                        | [] => (false, fs)
                        end in
  idx <- mapM (parse_elem_gen int_err) fs' ;;
  make_path idx is_abs.

(* Bip32PathParser.Parse: every rejection is Bip32PathError *)
Definition parse_elem := parse_elem_gen (LibError Bip32PathError).
Definition parse := parse_gen (LibError Bip32PathError).
(* HISTORICAL -- the parser before fix 751715b (defect F5): int()'s ValueError escaped *)
Definition parse_before_fix := parse_gen ValueError.

(* ---- Bip32Base.DerivePath over an abstract child-key function ---- *)
Section Derive.
  Variable key : Type.
  Variable depth : key -> N.               (* Bip32Base.Depth() *)
  Variable ckd : key -> N -> res key.      (* Bip32Base.ChildKey on a valid Bip32KeyIndex *)

  Fixpoint derive_elems (k : key) (p : list N) : res key :=
    match p with
    | [] => Ok k
    | i :: r => k' <- ckd k i ;; derive_elems k' r
    end.

  (* DerivePath(Bip32Path) *)
  Definition derive_path (k : key) (p : path) : res key :=
    if (0 <? depth k) && p_abs p then Err ValueError else derive_elems k (p_elems p).

  (* DerivePath(str) *)
  Definition derive_path_str (k : key) (s : list N) : res key :=
    p <- parse s ;; derive_path k p.

  (* ChildKey(int): index validation, then the derivation *)
  Definition child_key (k : key) (i : Z) : res key := idx <- key_index i ;; ckd k idx.

  (* A heap of immutable key objects: DerivePath reads one object and allocates its result;
     nothing is written.  [parent_unchanged] is stated over this. *)
  Definition heap_derive (h : list key) (i : nat) (p : path) : list key * res nat :=
    match nth_error h i with
    | None => (h, Err IndexError)
    | Some k => match derive_path k p with
                | inl k' => (h ++ [k'], Ok (length h))
                | inr e => (h, Err e)
                end
    end.
End Derive.

(* bip_utils/utils/misc/cbor_indefinite_len_array.py : CborIndefiniteLenArrayEncoder / Decoder.
   Element coding is delegated by the library to cbor2; it is modelled from RFC 8949:
     - cbor2.dumps(int): minimal head of major type 0 (0 .. 2^64-1) or 1 (-2^64 .. -1), bignum tags 2/3
       with a byte string beyond;
     - cbor2.loads(slice): the decoder only ever passes a 1-byte slice, or a slice starting with
       0x18..0x1b of the length given by UINT_IDS_TO_BYTE_LEN (possibly cut short by the end of input).
       A 1-byte item is accepted by cbor2 exactly when it is complete in itself: small (negative)
       integers, the empty byte/text string, empty array/map and the simple values; every
       CBORDecodeError becomes ValueError in the library.
   Definitions only; the library's constants come from Gen/CodecConsts.v as section variables. *)
From Coq Require Import NArith ZArith List Bool.
From BU Require Import Base.Exn Base.Radix Base.Bytes.
Import ListNotations.
Open Scope N_scope.

(* what an element decodes to: an integer, or some other (non-integer) CBOR item identified by its byte *)
Inductive item := CInt (z : Z) | COther (first_byte : N).

(* ---- cbor2 side (RFC 8949) ---- *)
Definition be_fixed_or_nil (w : nat) (n : N) : list N :=
  match int_to_be_fixed w n with inl b => b | inr _ => [] end.

(* head of an item: major type and argument, minimal length *)
Definition cbor_head (major n : N) : list N :=
  if n <? 24 then [32 * major + n]
  else if n <? 2 ^ 8 then (32 * major + 24) :: be_fixed_or_nil 1 n
  else if n <? 2 ^ 16 then (32 * major + 25) :: be_fixed_or_nil 2 n
  else if n <? 2 ^ 32 then (32 * major + 26) :: be_fixed_or_nil 4 n
  else (32 * major + 27) :: be_fixed_or_nil 8 n.

(* cbor2.dumps(z) for an int *)
Definition cbor_dumps_int (z : Z) : list N :=
  if (z <? 0)%Z then
    let n := Z.to_N (- 1 - z) in
    if n <? 2 ^ 64 then cbor_head 1 n
    else let b := int_to_be_min n in 195 :: cbor_head 2 (N.of_nat (length b)) ++ b
  else
    let n := Z.to_N z in
    if n <? 2 ^ 64 then cbor_head 0 n
    else let b := int_to_be_min n in 194 :: cbor_head 2 (N.of_nat (length b)) ++ b.

(* cbor2.loads(b) for the slices the decoder produces *)
Definition cbor_loads (b : list N) : res item :=
  match b with
  | [] => Err ValueError
  | fb :: r =>
      let major := fb / 32 in
      let info := fb mod 32 in
      if info <? 24 then
        if major =? 0 then Ok (CInt (Z.of_N info))
        else if major =? 1 then Ok (CInt (- 1 - Z.of_N info))
        else if major =? 7 then Ok (COther fb)
        else if (major =? 6) then Err ValueError                 (* a tag needs the tagged item *)
        else if info =? 0 then Ok (COther fb)                    (* b"", "", [], {} *)
        else Err ValueError                                      (* content missing *)
      else if info <? 28 then
        let need := N.to_nat (2 ^ (info - 24)) in
        if (length r <? need)%nat then Err ValueError            (* premature end of stream *)
        else
          let arg := be_to_int (firstn need r) in
          if major =? 0 then Ok (CInt (Z.of_N arg))
          else if major =? 1 then Ok (CInt (- 1 - Z.of_N arg))
          else Err ValueError     (* strings/arrays/maps/tags/floats would need more input than the slice has
                                     (never reached: the decoder passes only 1-byte slices for major <> 0) *)
      else Err ValueError         (* reserved additional information, or an indefinite item cut short *)
  end.

(* ---- library side ---- *)
Section Cbor.
  Variables arr_start arr_end : N.                 (* CborIds.INDEF_LEN_ARRAY_START / END *)
  Variable ids_to_len : list (N * nat).            (* UINT_IDS_TO_BYTE_LEN *)

  (* dict.get(curr_val, 1) *)
  Fixpoint lookup_len (k : N) (t : list (N * nat)) : nat :=
    match t with
    | [] => 1%nat
    | (k', v) :: t' => if k =? k' then v else lookup_len k t'
    end.

  (* CborIndefiniteLenArrayEncoder.Encode *)
  Definition encode (l : list Z) : list N :=
    [arr_start] ++ concat (map cbor_dumps_int l) ++ [arr_end].

  (* the while loop, on the suffix enc_bytes[i:] instead of the index i; fuel = len(enc_bytes) *)
  Fixpoint dec_loop (fuel : nat) (rest : list N) (acc : list item) : res (list item) :=
    match fuel with
    | O => Err OutOfFuel
    | S f =>
        match rest with
        | [] => Err ValueError                                   (* index overflow *)
        | curr :: _ =>
            if curr =? arr_end then Ok (rev acc)
            else
              let curr_len := lookup_len curr ids_to_len in
              it <- cbor_loads (firstn curr_len rest) ;;        (* enc_bytes[i:i + curr_len] *)
              dec_loop f (skipn curr_len rest) (it :: acc)
        end
    end.

  (* CborIndefiniteLenArrayDecoder.Decode.
     The shortest well-formed input is the empty array 0x9f 0xff, so the length guard is "< 2": this is the
     behaviour the round-trip property demands.  The code currently tests "< 3" and thereby rejects the
     encoder's own output for the empty list (finding C11-CBOR-EMPTY, shown by the correspondence run). *)
  Definition decode (enc : list N) : res (list item) :=
    if (length enc <? 2)%nat then Err ValueError
    else if negb (nth 0 enc 0 =? arr_start) then Err ValueError
    else if negb (last enc 0 =? arr_end) then Err ValueError
    else dec_loop (length enc) (skipn 1 enc) [].
End Cbor.

(* bip_utils/electrum/mnemonic_v1/*.py : ElectrumV1MnemonicEncoder.Encode, ElectrumV1MnemonicDecoder.Decode
   (also behind ElectrumV1MnemonicValidator), for the default language (English; Electrum v1 has no other).
   The 4-byte <-> 3-word chunk codec of Model/ChunkMnemonic.v, big endian, over the scheme's own
   1626-word list; no checksum.

   A mnemonic is the word list held by the ElectrumV1Mnemonic object (a Bip39Mnemonic: each word lower-cased
   and NFKD-normalised by the constructor -- not modelled here).

   The decoder is parameterised by the chunk decoder: [words_to_chunk] gives the property-conformant decoder,
   [words_to_chunk_current] the code as it stands (F8). *)
From Coq Require Import NArith List.
From BU Require Import Base.Exn Base.Bytes Model.MnemWords Model.ChunkMnemonic.
Import ListNotations.
Open Scope N_scope.

Section ElectrumV1.
  Variable wl : list (list N).                    (* the Electrum v1 English list *)
  Variable word_nums : list N.                    (* ElectrumV1MnemonicConst.MNEMONIC_WORD_NUM *)
  Variable ent_bit_lens : list N.                 (* ElectrumV1EntropyGeneratorConst.ENTROPY_BIT_LEN *)
  Variable w2c : list (list N) -> endian -> list N -> list N -> list N -> res (list N).

  (* ElectrumV1MnemonicEncoder.Encode *)
  Definition encode (b : list N) : res (list (list N)) :=
    guard memb (N.of_nat (length b) * 8) ent_bit_lens else ValueError ;;
    ws <- mapM (bytes_chunk_to_words wl Big) (groups 4 (Nat.div (length b) 4) b) ;;
    Ok (concat ws).

  Definition decode_triple (g : list (list N)) : res (list N) :=
    match g with
    | [a; b; c] => w2c wl Big a b c
    | _ => Err ValueError                (* unreachable: every slice words[3i:3i+3] has three words *)
    end.

  (* ElectrumV1MnemonicDecoder.Decode *)
  Definition decode (ws : list (list N)) : res (list N) :=
    guard memb (N.of_nat (length ws)) word_nums else ValueError ;;
    cs <- mapM decode_triple (groups 3 (Nat.div (length ws) 3) ws) ;;
    Ok (concat cs).
End ElectrumV1.

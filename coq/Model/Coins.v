(* C08 -- vocabulary of the coin tables and the decidable side conditions of one table entry.

   The *data* (every member of the seven coin enumerations resolved to its configuration, the
   CoinsConf registry, the SLIP-44 table, the encoder/decoder keyword tables) is regenerated from
   /repo on every run into Gen/Coins.v by harness/gen_coins.py; the few numeric constants of the
   library used by the checks below (hardened bit, purposes, SS58 limits, witness versions ...)
   are regenerated into Gen/CoinsConsts.v.  This file holds only
     * the record types and the enumerated tags (class names of the library: a class the
       generator does not know makes it fail closed), and
     * executable, boolean checks ([coin_ok], the rules of [table_coherent]).
   No proofs here (Lemmas/CoinsOk.v) and no constants of the library.  The only literals are
   ASCII code points of the path grammar ('/', '0'..'9'), the BIP-173 limits on human-readable
   parts (33..126, at most 83 characters, no upper case) and the ASCII codes of dictionary key
   names, which are specification/vocabulary, not configuration. *)
From Coq Require Import NArith List Bool.
From BU Require Import Base.Exn Base.Radix Base.Bytes Gen.CoinsConsts.
Import ListNotations.
Open Scope N_scope.

(* ------------------------------------------------------------------ tags *)

Inductive family := FBip44 | FBip49 | FBip84 | FBip86 | FCip1852 | FSubstrate | FMonero.

(* the configuration class of a BIP coin: plain, or one of the two classes with option toggles *)
Inductive conf_cls := K_BipCoinConf | K_BipBitcoinCashConf | K_BipLitecoinConf.

Inductive bip32_cls :=
| B32_Slip10Secp256k1 | B32_Slip10Nist256p1 | B32_Slip10Ed25519 | B32_Slip10Ed25519Blake2b
| B32_KholawEd25519 | B32_CardanoIcarus.

(* EllipticCurveTypes *)
Inductive curve :=
| Cv_ED25519 | Cv_ED25519_BLAKE2B | Cv_ED25519_KHOLAW | Cv_ED25519_MONERO
| Cv_NIST256P1 | Cv_SECP256K1 | Cv_SR25519.

(* the public-key class an address encoder validates its key against (AddrKeyValidator) *)
Inductive key_kind :=
| KK_Ed25519 | KK_Ed25519Blake2b | KK_Ed25519Monero | KK_Nist256p1 | KK_Secp256k1 | KK_Sr25519.

(* address encoder classes that occur in a coin configuration *)
Inductive addr_cls :=
| A_AdaByronIcarus | A_AdaShelley | A_Algo | A_Aptos | A_Atom | A_AvaxPChain | A_AvaxXChain
| A_BchP2PKH | A_BchP2SH | A_Egld | A_Eos | A_ErgoP2PKH | A_Eth | A_FilSecp256k1 | A_Icx | A_Inj
| A_Nano | A_Near | A_NeoLegacy | A_NeoN3 | A_Nim | A_Okex | A_One | A_P2PKH | A_P2SH | A_P2TR
| A_P2WPKH | A_Sol | A_SubstrateEd25519 | A_SubstrateSr25519 | A_Sui | A_Trx | A_Xlm | A_Xmr
| A_Xrp | A_Xtz | A_Zil.

(* configured address parameters, one constructor per keyword set *)
Inductive addr_params :=
| APNone                                        (* {}                                     *)
| APNetVer (net_ver : list N)                   (* {"net_ver": bytes}     P2PKH / P2SH    *)
| APHrp (hrp : list N)                          (* {"hrp": str}   Atom / P2WPKH / P2TR    *)
| APBch (hrp : list N) (net_ver : list N)       (* {"hrp", "net_ver"}     CashAddr        *)
| APNeo (ver : list N)                          (* {"ver": bytes}                         *)
| APSS58 (ss58_format : N)                      (* {"ss58_format": int}                   *)
| APXlm (addr_type : N)                         (* {"addr_type": XlmAddrTypes}            *)
| APXtz (prefix : list N)                       (* {"prefix": XtzAddrPrefixes}            *)
| APErgo (net_type : N)                         (* {"net_type": ErgoNetworkTypes}         *)
| APShelley (net_tag : N)                       (* {"net_tag": AdaShelleyAddrNetworkTags} *)
| APChainCode.                                  (* {"chain_code": <resolved from the key>} *)

(* one address variant of a coin: encoder class, the keyword names the configuration passes
   (statically / resolved from the public key at call time) and their values *)
Record addr_conf := {
  a_cls : addr_cls;
  a_keys : list (list N);
  a_call_keys : list (list N);
  a_params : addr_params }.

Record bip_conf := {
  b_conf_cls : conf_cls;
  b_slip44_sym : list N;          (* the Slip44 attribute the source names for the coin index *)
  b_coin_idx : N;
  b_testnet : bool;
  b_def_path : list N;            (* relative to m/purpose'/coin' *)
  b_key_pub : list N;
  b_key_priv : list N;
  b_alt_key : option (list N * list N);   (* Litecoin alternate versions (pub, priv)       *)
  b_wif : option (list N);
  b_bip32 : bip32_cls;
  b_curve : curve;
  b_addr : addr_conf;
  b_alt_addr : option addr_conf }.        (* Bitcoin Cash/eCash legacy, Litecoin deprecated *)

Inductive coin_body :=
| CBip (b : bip_conf)
| CSubstrate (ss58_format : N)
| CMonero (net_ver int_net_ver subaddr_net_ver : list N).

Record coin := {
  c_family : family;
  c_member : list N;              (* enum member name *)
  c_value : N;                    (* enum member value *)
  c_conf_attr : list N;           (* attribute of the configuration container class *)
  c_cc : list N;                  (* the CoinsConf entry that supplies the coin names *)
  c_cc_refs : list (list N);      (* every CoinsConf entry the definition refers to (sorted, distinct) *)
  c_name : list N;
  c_abbr : list N;
  c_body : coin_body }.

(* the generic registry bip_utils/coin_conf/coins_conf.py *)
Inductive pval := PB (b : list N) | PS (s : list N) | PI (n : N).
Record cconf := {
  cc_attr : list N;
  cc_name : list N;
  cc_abbr : list N;
  cc_params : list (list N * pval) }.

(* keyword names an encoder / its decoder reads: required (kwargs["k"]) and optional (kwargs.get) *)
Record addr_cls_info := {
  ai_cls : addr_cls;
  ai_key : key_kind;
  ai_enc_req : list (list N);
  ai_enc_opt : list (list N);
  ai_dec_req : list (list N);
  ai_dec_opt : list (list N) }.

(* ------------------------------------------------------------------ decidable equalities *)

Definition family_code (f : family) : N :=
  match f with FBip44 => 0 | FBip49 => 1 | FBip84 => 2 | FBip86 => 3 | FCip1852 => 4
             | FSubstrate => 5 | FMonero => 6 end.
Definition conf_cls_code (k : conf_cls) : N :=
  match k with K_BipCoinConf => 0 | K_BipBitcoinCashConf => 1 | K_BipLitecoinConf => 2 end.
Definition bip32_code (b : bip32_cls) : N :=
  match b with B32_Slip10Secp256k1 => 0 | B32_Slip10Nist256p1 => 1 | B32_Slip10Ed25519 => 2
             | B32_Slip10Ed25519Blake2b => 3 | B32_KholawEd25519 => 4 | B32_CardanoIcarus => 5 end.
Definition curve_code (c : curve) : N :=
  match c with Cv_ED25519 => 0 | Cv_ED25519_BLAKE2B => 1 | Cv_ED25519_KHOLAW => 2
             | Cv_ED25519_MONERO => 3 | Cv_NIST256P1 => 4 | Cv_SECP256K1 => 5 | Cv_SR25519 => 6 end.
Definition key_kind_code (k : key_kind) : N :=
  match k with KK_Ed25519 => 0 | KK_Ed25519Blake2b => 1 | KK_Ed25519Monero => 2
             | KK_Nist256p1 => 3 | KK_Secp256k1 => 4 | KK_Sr25519 => 5 end.
Definition addr_cls_code (a : addr_cls) : N :=
  match a with
  | A_AdaByronIcarus => 0 | A_AdaShelley => 1 | A_Algo => 2 | A_Aptos => 3 | A_Atom => 4
  | A_AvaxPChain => 5 | A_AvaxXChain => 6 | A_BchP2PKH => 7 | A_BchP2SH => 8 | A_Egld => 9
  | A_Eos => 10 | A_ErgoP2PKH => 11 | A_Eth => 12 | A_FilSecp256k1 => 13 | A_Icx => 14
  | A_Inj => 15 | A_Nano => 16 | A_Near => 17 | A_NeoLegacy => 18 | A_NeoN3 => 19 | A_Nim => 20
  | A_Okex => 21 | A_One => 22 | A_P2PKH => 23 | A_P2SH => 24 | A_P2TR => 25 | A_P2WPKH => 26
  | A_Sol => 27 | A_SubstrateEd25519 => 28 | A_SubstrateSr25519 => 29 | A_Sui => 30 | A_Trx => 31
  | A_Xlm => 32 | A_Xmr => 33 | A_Xrp => 34 | A_Xtz => 35 | A_Zil => 36
  end.

Definition family_eqb a b := family_code a =? family_code b.
Definition bip32_eqb a b := bip32_code a =? bip32_code b.
Definition curve_eqb a b := curve_code a =? curve_code b.
Definition key_kind_eqb a b := key_kind_code a =? key_kind_code b.
Definition addr_cls_eqb a b := addr_cls_code a =? addr_cls_code b.

Fixpoint str_mem (x : list N) (l : list (list N)) : bool :=
  match l with [] => false | y :: t => list_eqb x y || str_mem x t end.
Definition str_subset (a b : list (list N)) : bool := forallb (fun x => str_mem x b) a.
Definition str_diff (a b : list (list N)) : list (list N) := filter (fun x => negb (str_mem x b)) a.
Definition str_set_eqb (a b : list (list N)) : bool := str_subset a b && str_subset b a.
Fixpoint str_nodupb (l : list (list N)) : bool :=
  match l with [] => true | x :: t => negb (str_mem x t) && str_nodupb t end.

Fixpoint assoc {A} (k : list N) (l : list (list N * A)) : option A :=
  match l with [] => None | (k', v) :: t => if list_eqb k k' then Some v else assoc k t end.

Definition opt_list_eqb (a b : option (list N)) : bool :=
  match a, b with Some x, Some y => list_eqb x y | None, None => true | _, _ => false end.

(* ------------------------------------------------------------------ derivation paths
   A strict ASCII sub-grammar of Bip32PathParser.Parse: elements separated by '/', empty
   elements dropped (as the library's filter(None, ...) does), an optional leading master
   element, each element a non-empty run of ASCII digits with an optional hardening suffix from
   the library's HARDENED_CHARS and a value below 2^31.  (The library additionally strips white
   space and accepts every Unicode decimal digit; that is C06's business.  Every string accepted
   here is accepted by the library with the same indices -- tied by correspondence.) *)

Definition hardened_bit : N := 2 ^ hardened_bit_num.
Definition harden (i : N) : N := i + hardened_bit.
Definition is_hardened (i : N) : bool := hardened_bit <=? i.
Definition path_err {A} : res A := Err (LibError Bip32PathError).

Fixpoint split_on (sep : N) (s cur : list N) : list (list N) :=
  match s with
  | [] => [rev cur]
  | c :: t => if c =? sep then rev cur :: split_on sep t [] else split_on sep t (c :: cur)
  end.
Definition nonempty (l : list N) : bool := match l with [] => false | _ => true end.

Definition digit_val (c : N) : option N :=
  if (48 <=? c) && (c <=? 57) then Some (c - 48) else None.
Fixpoint dec_val (acc : N) (s : list N) : option N :=
  match s with
  | [] => Some acc
  | c :: t => match digit_val c with Some d => dec_val (acc * 10 + d) t | None => None end
  end.

Definition split_suffix (e : list N) : list N * bool :=
  match rev e with
  | c :: r => if memb c path_hardened_chars then (rev r, true) else (e, false)
  | [] => (e, false)
  end.

Definition parse_elem (e : list N) : res N :=
  let (body, hard) := split_suffix e in
  match body with
  | [] => path_err
  | _ => match dec_val 0 body with
         | Some v => if v <? hardened_bit then Ok (if hard then harden v else v) else path_err
         | None => path_err
         end
  end.

(* (is_absolute, indices) *)
Definition parse_path (s : list N) : res (bool * list N) :=
  let elems := filter nonempty (split_on 47 s []) in
  match elems with
  | e :: t => if list_eqb e path_master_char
              then (p <- mapM parse_elem t ;; Ok (true, p))
              else (p <- mapM parse_elem elems ;; Ok (false, p))
  | [] => Ok (false, [])
  end.

(* the printer (Bip32Path.ToStr): decimal indices, "'" after a hardened one, '/' between the
   elements, the master element first when the path is absolute *)
Definition show_dec (v : N) : list N :=
  if v =? 0 then [48] else map (fun d => d + 48) (to_be 10 v).
Definition show_elem (i : N) : list N :=
  if is_hardened i then show_dec (i - hardened_bit) ++ [39] else show_dec i.
Fixpoint join (sep : N) (l : list (list N)) : list N :=
  match l with
  | [] => []
  | [x] => x
  | x :: t => x ++ sep :: join sep t
  end.
Definition show_path (is_abs : bool) (p : list N) : list N :=
  join 47 ((if is_abs then [path_master_char] else []) ++ map show_elem p).

Definition purpose_of (f : family) : option N :=
  match f with
  | FBip44 => Some purpose_bip44 | FBip49 => Some purpose_bip49 | FBip84 => Some purpose_bip84
  | FBip86 => Some purpose_bip86 | FCip1852 => Some purpose_cip1852
  | FSubstrate | FMonero => None
  end.

(* the index list DeriveDefaultPath walks from the master key: Purpose(), Coin(), then
   DerivePath(DefaultPath()) from depth 2 -- an absolute default path is a ValueError there *)
Definition full_default_path (f : family) (b : bip_conf) : res (list N) :=
  match purpose_of f with
  | None => Err TypeError
  | Some p =>
      r <- parse_path (b_def_path b) ;;
      let (is_abs, elems) := r in
      if is_abs then Err ValueError
      else if b_coin_idx b <? hardened_bit then Ok (p :: harden (b_coin_idx b) :: elems)
      else Err (LibError Bip32KeyError)
  end.

(* ------------------------------------------------------------------ class semantics *)

Definition curve_of_bip32 (b : bip32_cls) : curve :=
  match b with
  | B32_Slip10Secp256k1 => Cv_SECP256K1 | B32_Slip10Nist256p1 => Cv_NIST256P1
  | B32_Slip10Ed25519 => Cv_ED25519 | B32_Slip10Ed25519Blake2b => Cv_ED25519_BLAKE2B
  | B32_KholawEd25519 => Cv_ED25519_KHOLAW | B32_CardanoIcarus => Cv_ED25519_KHOLAW
  end.

(* SLIP-0010 ed25519 has hardened derivation only *)
Definition hardened_only (b : bip32_cls) : bool :=
  match b with B32_Slip10Ed25519 | B32_Slip10Ed25519Blake2b => true | _ => false end.

(* ------------------------------------------------------------------ side conditions *)

Definition is_upper (c : N) : bool := (65 <=? c) && (c <=? 90).
(* BIP-173: 1..83 characters in 33..126; the encoders do not lower-case, so an upper-case HRP
   would produce a mixed-case (invalid) string *)
Definition hrp_ok (h : list N) : bool :=
  nonempty h && (N.of_nat (length h) <=? 83) &&
  forallb (fun c => (33 <=? c) && (c <=? 126) && negb (is_upper c)) h.

Definition bytes_len_ok (n : nat) (b : list N) : bool := bytes_okb b && Nat.eqb (length b) n.

Definition ss58_ok (f : N) : bool := (f <=? ss58_format_max) && negb (memb f ss58_reserved).

Definition key_ver_ok (pub priv : list N) : bool :=
  bytes_len_ok key_net_ver_len pub && bytes_len_ok key_net_ver_len priv && negb (list_eqb pub priv).

Definition addr_params_ok (p : addr_params) : bool :=
  match p with
  | APNone => true
  | APNetVer v => bytes_okb v && nonempty v && (N.of_nat (length v) <=? 2)
  | APHrp h => hrp_ok h
  | APBch h v => hrp_ok h && bytes_len_ok 1 v
  | APNeo v => bytes_len_ok 1 v
  | APSS58 f => ss58_ok f
  | APXlm t => t <? 256
  | APXtz p => bytes_len_ok 3 p
  | APErgo t => t <? 256
  | APShelley t => t <? 16
  | APChainCode => true
  end.

(* the keyword names a parameter constructor stands for ([a_keys ++ a_call_keys] must be these);
   the k_<name> constants are the ASCII codes of the names, generated into Gen/CoinsConsts.v *)

Definition params_keys (p : addr_params) : list (list N) * list (list N) :=
  match p with
  | APNone => ([], [])
  | APNetVer _ => ([k_net_ver], [])
  | APHrp _ => ([k_hrp], [])
  | APBch _ _ => ([k_hrp; k_net_ver], [])
  | APNeo _ => ([k_ver], [])
  | APSS58 _ => ([k_ss58_format], [])
  | APXlm _ => ([k_addr_type], [])
  | APXtz _ => ([k_prefix], [])
  | APErgo _ => ([k_net_type], [])
  | APShelley _ => ([k_net_tag], [])
  | APChainCode => ([], [k_chain_code])
  end.

(* keywords that are not configuration but supplied by the wallet class that owns the encoder
   (Monero: public view key and net version; CardanoShelley: public staking key) *)
Definition caller_keys (a : addr_cls) : list (list N) :=
  match a with
  | A_Xmr => [k_pub_vkey; k_net_ver]
  | A_AdaShelley => [k_pub_skey]
  | _ => []
  end.

Fixpoint find_info (a : addr_cls) (t : list addr_cls_info) : option addr_cls_info :=
  match t with
  | [] => None
  | i :: r => if addr_cls_eqb a (ai_cls i) then Some i else find_info a r
  end.

Fixpoint key_accepts (t : list (key_kind * list curve)) (k : key_kind) (c : curve) : bool :=
  match t with
  | [] => false
  | (k', cs) :: r => if key_kind_eqb k k' then existsb (curve_eqb c) cs else key_accepts r k c
  end.

(* the generated tables the checks consult (Gen/Coins.v) *)
Record env := {
  e_infos : list addr_cls_info;                 (* keyword names per encoder/decoder       *)
  e_accepts : list (key_kind * list curve);     (* which curves a key validator accepts    *)
  e_refused : list addr_cls }.                  (* encoders Bip44PublicKey.ToAddress refuses *)

Definition refused (ev : env) (a : addr_cls) : bool := existsb (addr_cls_eqb a) (e_refused ev).

(* encoder / decoder / configuration agree on the keyword names:
   - what the configuration passes is exactly what the parameter constructor stands for;
   - every keyword the encoder requires is passed (or supplied by the owning wallet class);
   - nothing is passed that the encoder does not read;
   - every keyword the decoder requires is a static configuration keyword (or wallet-supplied),
     so the decoder can be called with the coin's own parameters;
   - every static keyword is one the decoder reads (a parameter that shapes the address but is
     invisible to the decoder could not be checked on decoding);
   - the encoder's key class accepts the public keys of the coin's curve, unless ToAddress
     refuses the encoder and the owning wallet class (Monero, CardanoShelley) converts the key;
     wallet-supplied keywords are allowed exactly for those refused encoders. *)
Definition addr_conf_ok (ev : env) (cv : curve) (a : addr_conf) : bool :=
  match find_info (a_cls a) (e_infos ev) with
  | None => false
  | Some i =>
      let given := a_keys a ++ a_call_keys a in
      let wallet := if refused ev (a_cls a) then caller_keys (a_cls a) else [] in
      addr_params_ok (a_params a) &&
      str_nodupb given &&
      str_set_eqb (a_keys a) (fst (params_keys (a_params a))) &&
      str_set_eqb (a_call_keys a) (snd (params_keys (a_params a))) &&
      str_subset (ai_enc_req i) (given ++ wallet) &&
      str_subset given (ai_enc_req i ++ ai_enc_opt i) &&
      str_subset (ai_dec_req i) (a_keys a ++ wallet) &&
      str_subset (a_keys a) (ai_dec_req i ++ ai_dec_opt i) &&
      (refused ev (a_cls a) || key_accepts (e_accepts ev) (ai_key i) cv)
  end.

Definition wif_ok (w : option (list N)) : bool :=
  match w with None => true | Some b => bytes_len_ok 1 b end.

Definition path_ok (f : family) (b : bip_conf) : bool :=
  match full_default_path f b with
  | inl p => (if hardened_only (b_bip32 b) then forallb is_hardened p else true) &&
             forallb (fun i => i <=? key_index_max) p
  | inr _ => false
  end.

Definition alt_shape_ok (b : bip_conf) : bool :=
  match b_conf_cls b with
  | K_BipCoinConf => match b_alt_key b, b_alt_addr b with None, None => true | _, _ => false end
  | K_BipBitcoinCashConf =>
      match b_alt_key b, b_alt_addr b with None, Some _ => true | _, _ => false end
  | K_BipLitecoinConf =>
      match b_alt_key b, b_alt_addr b with Some _, Some _ => true | _, _ => false end
  end.

Definition bip_conf_ok (ev : env) (f : family) (b : bip_conf) : bool :=
  key_ver_ok (b_key_pub b) (b_key_priv b) &&
  match b_alt_key b with None => true | Some (p, q) => key_ver_ok p q end &&
  wif_ok (b_wif b) &&
  curve_eqb (b_curve b) (curve_of_bip32 (b_bip32 b)) &&
  path_ok f b &&
  alt_shape_ok b &&
  addr_conf_ok ev (b_curve b) (b_addr b) &&
  match b_alt_addr b with None => true | Some a => addr_conf_ok ev (b_curve b) a end.

Definition is_bip_family (f : family) : bool :=
  match f with FSubstrate | FMonero => false | _ => true end.

Definition xmr_vers_ok (a b c : list N) : bool :=
  bytes_len_ok 1 a && bytes_len_ok 1 b && bytes_len_ok 1 c &&
  negb (list_eqb a b) && negb (list_eqb a c) && negb (list_eqb b c).

Definition coin_ok (ev : env) (c : coin) : bool :=
  nonempty (c_member c) && nonempty (c_name c) &&
  match c_body c with
  | CBip b => is_bip_family (c_family c) && bip_conf_ok ev (c_family c) b
  | CSubstrate f => family_eqb (c_family c) FSubstrate && ss58_ok f
  | CMonero a b s => family_eqb (c_family c) FMonero && xmr_vers_ok a b s
  end.

(* ------------------------------------------------------------------ lookups *)

Fixpoint find_coin (f : family) (m : list N) (t : list coin) : option coin :=
  match t with
  | [] => None
  | c :: r => if family_eqb f (c_family c) && list_eqb m (c_member c) then Some c else find_coin f m r
  end.

Fixpoint find_cc (a : list N) (t : list cconf) : option cconf :=
  match t with
  | [] => None
  | c :: r => if list_eqb a (cc_attr c) then Some c else find_cc a r
  end.

(* the configuration a member denotes, i.e. the record without the member's own name/value *)
Definition conf_of (c : coin) : coin :=
  {| c_family := c_family c; c_member := []; c_value := 0; c_conf_attr := c_conf_attr c;
     c_cc := c_cc c; c_cc_refs := c_cc_refs c; c_name := c_name c; c_abbr := c_abbr c;
     c_body := c_body c |}.

(* ------------------------------------------------------------------ coherence rules
   Cross-field rules of the table as a whole.  Each rule is a boolean on one entry; the
   offender lists (Lemmas/CoinsExpected.v) name the entries a rule is known not to hold of. *)

(* CoinsConf entry: every "*_wit_ver" equals the witness version of the encoder that would use
   it, every "*hrp" is a well-formed lower-case HRP, every "wif_net_ver" is one byte, every
   "*net_ver" / "addr_ver" is 1..2 bytes, every SS58 format is usable. *)

Fixpoint ends_with (suffix s : list N) : bool :=
  list_eqb suffix s || match s with [] => false | _ :: t => ends_with suffix t end.

Definition cc_param_ok (kv : list N * pval) : bool :=
  let (k, v) := kv in
  if list_eqb k k_p2wpkh_wit_ver then match v with PI n => n =? p2wpkh_witness_ver | _ => false end
  else if list_eqb k k_p2tr_wit_ver then match v with PI n => n =? p2tr_witness_ver | _ => false end
  else if list_eqb k k_wif_net_ver then match v with PB b => bytes_len_ok 1 b | _ => false end
  else if list_eqb k k_addr_ss58_format then match v with PI n => ss58_ok n | _ => false end
  else if ends_with k_hrp k then match v with PS h => hrp_ok h | _ => false end
  else if ends_with k_ver k then
    match v with PB b => bytes_okb b && nonempty b && (N.of_nat (length b) <=? 2) | _ => false end
  else match v with PB b => bytes_okb b | PS _ => true | PI _ => true end.

Definition cconf_coherent (c : cconf) : bool :=
  nonempty (cc_name c) && forallb cc_param_ok (cc_params c) &&
  str_nodupb (map fst (cc_params c)).

(* coin entry (given the registry, the SLIP-44 table and the list of testnet members that keep
   their main net's coin index):
   - it refers to exactly one CoinsConf entry, which exists and carries the same names;
   - BIP coins: the coin index is the SLIP-44 constant the source names; test nets use
     Slip44.TESTNET unless listed; main nets never do; WIF byte and static address parameters
     are values of that CoinsConf entry;
   - Substrate / Monero coins: the parameters are the values of that CoinsConf entry. *)
Definition pval_bytes_mem (b : list N) (ps : list (list N * pval)) : bool :=
  existsb (fun kv => match snd kv with PB x => list_eqb x b | _ => false end) ps.
Definition pval_str_mem (s : list N) (ps : list (list N * pval)) : bool :=
  existsb (fun kv => match snd kv with PS x => list_eqb x s | _ => false end) ps.
Definition pval_int_at (k : list N) (n : N) (ps : list (list N * pval)) : bool :=
  match assoc k ps with Some (PI x) => x =? n | _ => false end.
Definition pval_bytes_at (k : list N) (b : list N) (ps : list (list N * pval)) : bool :=
  match assoc k ps with Some (PB x) => list_eqb x b | _ => false end.

Definition addr_from_cc (ps : list (list N * pval)) (a : addr_conf) : bool :=
  match a_params a with
  | APNetVer v | APNeo v => pval_bytes_mem v ps
  | APHrp h => pval_str_mem h ps
  | APBch h v => pval_str_mem h ps && pval_bytes_mem v ps
  | APSS58 f => pval_int_at k_addr_ss58_format f ps
  | APNone | APXlm _ | APXtz _ | APErgo _ | APShelley _ | APChainCode => true
  end.


Definition coin_coherent (reg : list cconf) (slip44 : list (list N * N))
                         (testnet_keeps_index : list (family * list N)) (c : coin) : bool :=
  match c_cc_refs c, find_cc (c_cc c) reg with
  | [r], Some e =>
      list_eqb r (c_cc c) && list_eqb (cc_name e) (c_name c) && list_eqb (cc_abbr e) (c_abbr c) &&
      match c_body c with
      | CBip b =>
          match assoc (b_slip44_sym b) slip44 with Some i => i =? b_coin_idx b | None => false end &&
          (if b_testnet b
           then (b_coin_idx b =? slip44_testnet) ||
                existsb (fun fm => family_eqb (fst fm) (c_family c) && list_eqb (snd fm) (c_member c))
                        testnet_keeps_index
           else negb (b_coin_idx b =? slip44_testnet)) &&
          match b_wif b with None => true | Some w => pval_bytes_at k_wif_net_ver w (cc_params e) end &&
          addr_from_cc (cc_params e) (b_addr b) &&
          match b_alt_addr b with None => true | Some a => addr_from_cc (cc_params e) a end
      | CSubstrate f => pval_int_at k_addr_ss58_format f (cc_params e)
      | CMonero a i s =>
          pval_bytes_at k_addr_net_ver a (cc_params e) &&
          pval_bytes_at k_addr_int_net_ver i (cc_params e) &&
          pval_bytes_at k_subaddr_net_ver s (cc_params e)
      end
  | _, _ => false
  end.

(* shape of the default path: m / purpose' / coin' / 0' [/ 0 or 0' ...], 3 to 5 levels, every
   level after the coin is index 0, the account level is hardened, and the non-hardened tail is
   exactly change/address (two levels) *)
Definition unharden (i : N) : N := if is_hardened i then i - hardened_bit else i.
Definition default_path_shape_ok (c : coin) : bool :=
  match c_body c with
  | CBip b =>
      match purpose_of (c_family c), full_default_path (c_family c) b with
      | Some pu, inl (p0 :: p1 :: acct :: rest) =>
          (p0 =? pu) && is_hardened pu && (p1 =? harden (b_coin_idx b)) && (acct =? harden 0) &&
          (N.of_nat (length rest) <=? 2) && forallb (fun i => unharden i =? 0) rest &&
          (forallb is_hardened rest ||
           (forallb (fun i => negb (is_hardened i)) rest && Nat.eqb (length rest) 2))
      | _, _ => false
      end
  | _ => true
  end.

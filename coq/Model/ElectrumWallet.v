(* bip_utils/electrum/electrum_v1.py and electrum_v2.py.
   V1: own derivation over the secp256k1 group (abstract carrier G; sha256, point serialisation and the
   uncompressed P2PKH address string are oracles).  V2: BIP-32 children of a master object; child-key
   derivation [ckd] (modelled elsewhere) and the Bip32 object are Section variables. *)
From Coq Require Import NArith ZArith Arith List Bool.
From BU Require Import Base.Exn Base.Radix Base.Bytes Gen.SerbipConsts Model.Bip32Data Model.WifCodec Model.Bip38.
Import ListNotations.
Open Scope N_scope.

(* str(n) for a non-negative int: decimal digits, most significant first, "0" for zero *)
Definition dec_str (n : N) : list N :=
  if n =? 0 then [48] else map (fun d => 48 + d) (to_be 10 n).

Section ElectrumV1.
  Variable sha256 : list N -> list N.
  Variable G : Type.
  Variable base : G.
  Variable smul : N -> G -> G.
  Variable add : G -> G -> G.
  Variable is_inf : G -> bool.             (* the sum is the point at infinity: no public key *)
  Variable ser_u : G -> list N.            (* RawUncompressed: 04 || X || Y *)
  Variable deser : list N -> option G.     (* Secp256k1PublicKey.FromBytes *)
  Variable p2pkh_u : G -> list N.          (* P2PKHAddr.EncodeKey(pub, Bitcoin main net, UNCOMPRESSED) *)

  Inductive v1_wallet := V1Priv (key : list N) | V1Pub (P : G).

  (* ElectrumV1.FromPrivateKey(bytes) / FromSeed / FromPublicKey(bytes) *)
  Definition v1_from_private_key (k : list N) : res v1_wallet :=
    if secp_priv_valid k then Ok (V1Priv k) else Err ValueError.
  Definition v1_from_public_key (b : list N) : res v1_wallet :=
    match deser b with Some P => Ok (V1Pub P) | None => Err ValueError end.

  Definition v1_master_pub (w : v1_wallet) : G :=
    match w with V1Priv k => smul (be_to_int k) base | V1Pub P => P end.

  (* __ValidateIndexes: Bip32KeyIndex(change_idx); Bip32KeyIndex(addr_idx) *)
  Definition v1_indexes (change index : Z) : res (N * N) :=
    c <- mk_index change ;; i <- mk_index index ;; Ok (c, i).

  (* __GetSequence: sha256d(utf8(f"{addr_idx}:{change_idx}:") || master_pub_uncompressed[1:]) *)
  Definition v1_sequence (mpub : G) (change index : N) : list N :=
    let a := if electrum_v1_seq_addr_first then index else change in
    let b := if electrum_v1_seq_addr_first then change else index in
    sha256 (sha256 (dec_str a ++ electrum_v1_seq_sep ++ dec_str b ++ electrum_v1_seq_sep ++ skipn 1 (ser_u mpub))).

  (* GetPrivateKey *)
  Definition v1_get_private_key (w : v1_wallet) (change index : Z) : res (list N) :=
    match w with
    | V1Pub _ => Err ValueError
    | V1Priv k =>
      ci <- v1_indexes change index ;;
      let seq := v1_sequence (v1_master_pub w) (fst ci) (snd ci) in
      kb <- int_to_be_fixed ecdsa_priv_len ((be_to_int k + be_to_int seq) mod secp256k1_order) ;;
      if secp_priv_valid kb then Ok kb else Err ValueError
    end.

  (* GetPublicKey *)
  Definition v1_get_public_key (w : v1_wallet) (change index : Z) : res G :=
    match w with
    | V1Priv _ => k <- v1_get_private_key w change index ;; Ok (smul (be_to_int k) base)
    | V1Pub P =>
      ci <- v1_indexes change index ;;
      let seq := v1_sequence P (fst ci) (snd ci) in
      Q <- point_mul G smul (be_to_int seq) base ;;
      let R := add P Q in
      if is_inf R then Err ValueError else Ok R
    end.

  (* GetAddress: uncompressed P2PKH *)
  Definition v1_get_address (w : v1_wallet) (change index : Z) : res (list N) :=
    P <- v1_get_public_key w change index ;; Ok (p2pkh_u P).
End ElectrumV1.

(* an index argument as documented for Electrum V2: an int or a Bip32KeyIndex object *)
Inductive idx_arg := IdxInt (z : Z) | IdxObj (n : N).
Definition idx_z (a : idx_arg) : Z := match a with IdxInt z => z | IdxObj n => Z.of_N n end.

Section ElectrumV2.
  Variable obj : Type.                         (* a Bip32Slip10Secp256k1 object *)
  Variable ckd : obj -> N -> res obj.          (* Bip32Base.ChildKey *)
  Variable obj_depth : obj -> N.
  Variable priv_of : obj -> res (list N).      (* PrivateKey().Raw(): Bip32KeyError when public-only *)
  Variable pub_of : obj -> list N.             (* PublicKey().RawCompressed() *)
  Variable addr_p2pkh : list N -> list N.      (* P2PKHAddr.EncodeKey(pub, Bitcoin main net) *)
  Variable addr_p2wpkh : list N -> list N.     (* P2WPKHAddr.EncodeKey(pub, hrp bc) *)

  (* the decimal path element f"{idx}" parsed back by Bip32PathParser: outside [0, 2^32-1] is a Bip32PathError.
     The property demands that an index object is honoured like the int it carries. *)
  Definition v2_index (a : idx_arg) : res N :=
    let z := idx_z a in
    if ((z <? 0) || (Z.of_N bip32_index_max <? z))%Z then Err (LibError Bip32PathError) else Ok (Z.to_N z).

  Fixpoint derive (o : obj) (path : list N) : res obj :=
    match path with
    | [] => Ok o
    | i :: t => c <- ckd o i ;; derive c t
    end.

  (* ElectrumV2Base.__init__ *)
  Definition v2_new (master : obj) : res obj :=
    if 0 <? obj_depth master then Err ValueError else Ok master.

  Definition v2_path (change_first : bool) (change index : N) : list N :=
    if change_first then [change; index] else [index; change].

  (* ElectrumV2Standard.__DeriveKey: m/change/index from the master object *)
  Definition v2_std_derive (master : obj) (change index : idx_arg) : res obj :=
    c <- v2_index change ;; i <- v2_index index ;; derive master (v2_path electrum_v2_std_change_first c i).

  (* ElectrumV2Segwit.__init__: the account object m/0' ; __DeriveKey: change/index below it *)
  Definition v2_segwit_new (master : obj) : res obj :=
    m <- v2_new master ;; ckd m electrum_v2_segwit_acc_index.
  Definition v2_segwit_derive (acc : obj) (change index : idx_arg) : res obj :=
    c <- v2_index change ;; i <- v2_index index ;; derive acc (v2_path electrum_v2_segwit_change_first c i).

  Definition v2_private_key (o : res obj) : res (list N) := x <- o ;; priv_of x.
  Definition v2_public_key (o : res obj) : res (list N) := x <- o ;; Ok (pub_of x).
  Definition v2_std_address (o : res obj) : res (list N) := x <- o ;; Ok (addr_p2pkh (pub_of x)).
  Definition v2_segwit_address (o : res obj) : res (list N) := x <- o ;; Ok (addr_p2wpkh (pub_of x)).
End ElectrumV2.

(* bip_utils/substrate/scale/*.py : SCALE compact-unsigned-int, fixed-width uint and bytes/str
   encoders, plus Python's str.encode("utf-8") (RFC 3629) which the bytes encoder applies to text.
   A minimal local copy for the Substrate path model (C19); definitions only. *)
From Coq Require Import NArith ZArith List Bool.
From BU Require Import Base.Exn Base.Radix Base.Bytes Gen.PathConsts Model.PyText.
Import ListNotations.
Open Scope N_scope.

(* ---- str.encode("utf-8"): RFC 3629; lone surrogates raise UnicodeEncodeError ---- *)
Definition utf8_cp (c : N) : res (list N) :=
  if c <? 128 then Ok [c]
  else if c <? 2048 then Ok [192 + c / 64; 128 + c mod 64]
  else if c <? 65536 then
    if (55296 <=? c) && (c <=? 57343) then Err UnicodeError
    else Ok [224 + c / 4096; 128 + (c / 64) mod 64; 128 + c mod 64]
  else if c <? 1114112 then Ok [240 + c / 262144; 128 + (c / 4096) mod 64; 128 + (c / 64) mod 64; 128 + c mod 64]
  else Err UnicodeError.        (* not a code point: no Python str contains it *)

Fixpoint utf8_encode (s : list N) : res (list N) :=
  match s with
  | [] => Ok []
  | c :: t => b <- utf8_cp c ;; r <- utf8_encode t ;; Ok (b ++ r)
  end.

(* reference decoder (RFC 3629 section 3/4: shortest form only, no surrogates, at most U+10FFFF) *)
Definition is_cont (b : N) : bool := (128 <=? b) && (b <? 192).
Fixpoint utf8_decode (l : list N) : option (list N) :=
  match l with
  | [] => Some []
  | b0 :: r0 =>
    if b0 <? 128 then option_map (cons b0) (utf8_decode r0)
    else if b0 <? 192 then None
    else match r0 with
      | [] => None
      | b1 :: r1 =>
        if negb (is_cont b1) then None
        else if b0 <? 224 then
          let c := (b0 - 192) * 64 + (b1 - 128) in
          if c <? 128 then None else option_map (cons c) (utf8_decode r1)
        else match r1 with
          | [] => None
          | b2 :: r2 =>
            if negb (is_cont b2) then None
            else if b0 <? 240 then
              let c := (b0 - 224) * 4096 + (b1 - 128) * 64 + (b2 - 128) in
              if (c <? 2048) || ((55296 <=? c) && (c <=? 57343)) then None
              else option_map (cons c) (utf8_decode r2)
            else match r2 with
              | [] => None
              | b3 :: r3 =>
                if negb (is_cont b3) || negb (b0 <? 248) then None
                else
                  let c := (b0 - 240) * 262144 + (b1 - 128) * 4096 + (b2 - 128) * 64 + (b3 - 128) in
                  if (c <? 65536) || (1114111 <? c) then None
                  else option_map (cons c) (utf8_decode r3)
              end
          end
      end
  end.

(* ---- IntegerUtils.ToBytes(v, endianness="little") with automatic length ---- *)
Definition int_to_le_auto (v : N) : list N :=
  match int_to_le_fixed (get_bytes_number v) v with inl b => b | inr _ => [] end.

(* ---- SubstrateScaleCUintEncoder.Encode ---- *)
Definition cuint_fixed (mode : N * N * nat) (v : N) : res (list N) :=
  let '(s, f, n) := mode in int_to_le_fixed n (N.lor (N.shiftl v s) f).

Definition cuint_encode (v : N) : res (list N) :=
  match scale_cuint_modes with
  | [m1; m2; m3] =>
    if v <=? scale_single_byte_max then cuint_fixed m1 v
    else if v <=? scale_two_byte_max then cuint_fixed m2 v
    else if v <=? scale_four_byte_max then cuint_fixed m3 v
    else if v <=? scale_big_int_max then
      let vb := int_to_le_auto v in
      lb <- int_to_le_fixed 1 (N.lor (N.shiftl (N.of_nat (length vb) - 4) scale_cuint_big_shift) scale_cuint_big_flag) ;;
      Ok (lb ++ vb)
    else Err ValueError
  | _ => Err (Foreign 2)        (* the generator guarantees three fixed-width modes *)
  end.

(* ---- SubstrateScaleUintEncoder._EncodeWithBytesLength on a str argument ---- *)
Definition uint_encode_str (nbytes : nat) (s : list N) : res (list N) :=
  v <- py_int s ;;
  if (v <? 0)%Z || (Z.of_N (2 ^ (8 * N.of_nat nbytes)) - 1 <? v)%Z then Err ValueError
  else int_to_le_fixed nbytes (Z.to_N v).

(* ---- SubstrateScaleBytesEncoder.Encode on a str argument ---- *)
Definition bytes_encode_str (s : list N) : res (list N) :=
  enc <- utf8_encode s ;;
  pre <- cuint_encode (N.of_nat (length enc)) ;;
  Ok (pre ++ enc).

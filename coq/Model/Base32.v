(* bip_utils/utils/misc/base32.py : Base32Encoder / Base32Decoder / _Base32Utils.
   The library delegates to CPython's base64.b32encode / b32decode; those two are modelled from
   RFC 4648 section 6 and from b32decode's acceptance rules (CPython 3.12 Lib/base64.py):
     - the data symbols of the encoding are the 8 -> 5 bit regrouping of the bytes, zero padded
       (the very computation of Bech32's ConvertBits(.., 8, 5, True), reused here), followed by '='
       up to a multiple of 8 characters;
     - b32decode requires a length that is a multiple of 8, strips ALL trailing '=', requires the number
       stripped to be one of 0,1,3,4,6, requires every remaining character to be in the alphabet and keeps
       the complete bytes of the 5 -> 8 regrouping (left-over bits are NOT checked to be zero).
   Definitions only.  The RFC alphabet and '=' of the stdlib are stdlib constants; the library's own
   Base32Const.ALPHABET / PADDING_CHAR come from Gen/CodecConsts.v as section variables. *)
From Coq Require Import NArith Arith List Bool.
From BU Require Import Base.Exn Base.Bytes.
From BU Require Model.ConvertBits Model.Base58.
Import ListNotations.
Open Scope N_scope.

(* ---- CPython stdlib side ---- *)
Definition rfc_alphabet : list N :=
  [65; 66; 67; 68; 69; 70; 71; 72; 73; 74; 75; 76; 77; 78; 79; 80; 81; 82; 83; 84; 85; 86; 87; 88; 89; 90;
   50; 51; 52; 53; 54; 55].
Definition rfc_pad : N := 61.

(* alphabet[d] and the reverse table lookup (KeyError -> binascii.Error -> ValueError): the same two
   functions as in Model/Base58.v *)
Definition sym32 (alph : list N) (d : N) : N := Base58.sym alph d.
Definition rev_index (alph : list N) (c : N) : res N := Base58.sym_index alph c.

(* bytes.lstrip(chars) / bytes.rstrip(chars) *)
Fixpoint lstrip_set (set : list N) (l : list N) : list N :=
  match l with c :: t => if memb c set then lstrip_set set t else l | [] => [] end.
Definition rstrip_set (set : list N) (s : list N) : list N := rev (lstrip_set set (rev s)).

Definition b32encode (b : list N) : res (list N) :=
  ds <- ConvertBits.none_is_value_error (ConvertBits.convert_bits 8 5 b true) ;;
  Ok (map (sym32 rfc_alphabet) ds ++ repeat rfc_pad ((8 - length ds mod 8) mod 8)).

Definition b32decode (s : list N) : res (list N) :=
  if negb (length s mod 8 =? 0)%nat then Err ValueError          (* Incorrect padding *)
  else
    let body := rstrip_set [rfc_pad] s in
    let padchars := (length s - length body)%nat in
    ds <- mapM (rev_index rfc_alphabet) body ;;                    (* Non-base32 digit found *)
    if negb (existsb (Nat.eqb padchars) [0; 1; 3; 4; 6]%nat) then Err ValueError   (* Incorrect padding *)
    else ConvertBits.none_is_value_error (ConvertBits.convert_floor 5 8 ds).

(* ---- library side ---- *)
Section Base32.
  Variable alphabet : list N.    (* Base32Const.ALPHABET *)
  Variable pad_str : list N.     (* Base32Const.PADDING_CHAR (a str) *)

  (* data.translate(str.maketrans(from, to)): a dict built from zip(from, to) -- the last occurrence of a
     character in [from] wins; maketrans raises ValueError when the lengths differ *)
  Definition trans_char (from to : list N) (c : N) : N :=
    fold_left (fun acc ft => if N.eqb c (fst ft) then snd ft else acc) (combine from to) c.
  Definition translate (from to : list N) (s : list N) : res (list N) :=
    if (length from =? length to)%nat then Ok (map (trans_char from to) s) else Err ValueError.

  (* _Base32Utils.AddPadding *)
  Definition add_padding (s : list N) : list N :=
    let w := (length s mod 8)%nat in
    if (w =? 0)%nat then s else s ++ concat (repeat pad_str (8 - w)).

  (* Base32Encoder.Encode(data: bytes, custom_alphabet) *)
  Definition encode (b : list N) (custom : option (list N)) : res (list N) :=
    e <- b32encode b ;;
    match custom with
    | None => Ok e
    | Some c => translate alphabet c e
    end.

  (* Base32Encoder.EncodeNoPadding: Encode(..).rstrip(PADDING_CHAR) *)
  Definition encode_no_padding (b : list N) (custom : option (list N)) : res (list N) :=
    e <- encode b custom ;; Ok (rstrip_set pad_str e).

  (* Base32Decoder.Decode(data: str, custom_alphabet); binascii.Error is mapped to ValueError *)
  Definition decode (s : list N) (custom : option (list N)) : res (list N) :=
    let s1 := add_padding s in
    s2 <- match custom with
          | None => Ok s1
          | Some c =>
              (* any(ch not in custom_alphabet and ch != PADDING_CHAR for ch in data_dec) -> ValueError *)
              if existsb (fun ch => negb (memb ch c) && negb (list_eqb [ch] pad_str)) s1 then Err ValueError
              else translate c alphabet s1
          end ;;
    b32decode s2.
End Base32.

(* Mnemonic-to-seed generators:
     bip_utils/bip/bip39/bip39_seed_generator.py                  Bip39SeedGenerator
     bip_utils/substrate/mnemonic/substrate_bip39_seed_generator.py SubstrateBip39SeedGenerator
     bip_utils/electrum/mnemonic_v2/electrum_v2_seed_generator.py   ElectrumV2SeedGenerator
     bip_utils/electrum/mnemonic_v1/electrum_v1_seed_generator.py   ElectrumV1SeedGenerator
   with utils/crypto/pbkdf2.py (Pbkdf2HmacSha512.DeriveKey: str arguments are UTF-8 encoded,
   dklen None = SHA-512 digest size) and utils/misc/string.py (NFKD).
   A generator is modelled as constructor followed by Generate.  Definitions only. *)
From Coq Require Import NArith Arith List Bool.
From BU Require Import Base.Exn Base.Bytes Model.BinStr Model.Bip39 Gen.Bip39Consts.
Import ListNotations.
Open Scope N_scope.

(* str.encode("utf-8"): pure arithmetic, modelled concretely; lone surrogates raise
   UnicodeEncodeError (a ValueError subclass) *)
Definition utf8_char (c : N) : res (list N) :=
  if c <? 128 then Ok [c]
  else if c <? 2048 then Ok [192 + c / 64; 128 + c mod 64]
  else if (55296 <=? c) && (c <=? 57343) then Err UnicodeError
  else if c <? 65536 then Ok [224 + c / 4096; 128 + (c / 64) mod 64; 128 + c mod 64]
  else if c <? 1114112 then Ok [240 + c / 262144; 128 + (c / 4096) mod 64; 128 + (c / 64) mod 64; 128 + c mod 64]
  else Err ValueError.                       (* not a code point: no Python str contains it *)
Definition utf8 (s : list N) : res (list N) := rmap (@concat N) (mapM utf8_char s).

(* binascii.hexlify *)
Definition hexlify (b : list N) : list N :=
  flat_map (fun x => [digit_char (x / 16); digit_char (x mod 16)]) b.

Section Seeds.
  Variable sha256 : list N -> list N.
  Variable nfkd : list N -> list N.
  Variable lower : list N -> list N.
  Variable pbkdf2_sha512 : list N -> list N -> N -> N -> list N.   (* password salt rounds dklen *)
  Variable langs : list (list (list N)).

  Notation normalize := (Bip39.normalize nfkd lower).
  Notation normalize_list := (Bip39.normalize_list nfkd lower).
  Notation decode := (Bip39.decode sha256 langs).

  (* Pbkdf2HmacSha512.DeriveKey(password : str, salt : str, rounds) -- password encoded first *)
  Definition derive_key_str (pw salt : list N) (rounds : N) : res (list N) :=
    p <- utf8 pw ;; s <- utf8 salt ;; Ok (pbkdf2_sha512 p s rounds sha512_digest_size).
  (* ... with a bytes password *)
  Definition derive_key_bytes (pw : list N) (salt : list N) (rounds : N) : res (list N) :=
    s <- utf8 salt ;; Ok (pbkdf2_sha512 pw s rounds sha512_digest_size).

  (* Bip39SeedGenerator(mnemonic_object, lang).Generate(passphrase) *)
  Definition bip39_seed (lang : option (list (list N))) (ws : list (list N)) (pass : list N) : res (list N) :=
    _ <- decode lang ws ;;                                   (* Bip39MnemonicValidator(lang).Validate *)
    derive_key_str (join_sp ws) (nfkd (bip39_seed_salt_mod ++ pass)) bip39_seed_pbkdf2_rounds.
  (* Bip39SeedGenerator(mnemonic : str, lang) *)
  Definition bip39_seed_str lang (s pass : list N) : res (list N) := bip39_seed lang (normalize s) pass.
  (* Bip39SeedGenerator(Bip39Mnemonic.FromList(words), lang) *)
  Definition bip39_seed_list lang (ws : list (list N)) (pass : list N) : res (list N) :=
    bip39_seed lang (normalize_list ws) pass.

  (* SubstrateBip39SeedGenerator: the entropy is the PBKDF2 password; the full 64-byte output is
     returned (substrate-bip39 seed_from_entropy) *)
  Definition substrate_seed (lang : option (list (list N))) (ws : list (list N)) (pass : list N) : res (list N) :=
    ent <- decode lang ws ;;
    derive_key_bytes ent (nfkd (bip39_seed_salt_mod ++ pass)) bip39_seed_pbkdf2_rounds.
  Definition substrate_seed_str lang (s pass : list N) : res (list N) := substrate_seed lang (normalize s) pass.

  (* ElectrumV2SeedGenerator: the Electrum-v2 validity test is another model's business; here it
     is a parameter returning the exception class of ElectrumV2MnemonicValidator.Validate *)
  Variable ev2_validate : list (list N) -> res unit.
  Definition electrum_v2_seed (ws : list (list N)) (pass : list N) : res (list N) :=
    _ <- ev2_validate ws ;;
    derive_key_str (join_sp ws) (nfkd (ev2_seed_salt_mod ++ pass)) ev2_seed_pbkdf2_rounds.
  Definition electrum_v2_seed_str (s pass : list N) : res (list N) := electrum_v2_seed (normalize s) pass.

  (* ElectrumV1SeedGenerator: entropy from the Electrum-v1 decoder (a parameter), then the
     iterated hash  h := sha256(h + hex)  starting from h = hex, HASH_ITR_NUM times *)
  Variable ev1_decode : list (list N) -> res (list N).
  Definition ev1_stretch (hex : list N) (n : N) : list N :=
    N.iter n (fun h => sha256 (h ++ hex)) hex.
  Definition electrum_v1_seed (ws : list (list N)) : res (list N) :=
    ent <- ev1_decode ws ;; Ok (ev1_stretch (hexlify ent) ev1_hash_itr_num).
  Definition electrum_v1_seed_str (s : list N) : res (list N) := electrum_v1_seed (normalize s).

  (* the same with the whole loop answered by one oracle call (what the extracted model runs:
     100000 call-backs per case would be too slow); Lemmas/Seeds.v relates the two under the
     hypothesis that the oracle is the loop *)
  Variable sha256_iter : list N -> N -> list N.
  Definition electrum_v1_seed_o (ws : list (list N)) : res (list N) :=
    ent <- ev1_decode ws ;; Ok (sha256_iter (hexlify ent) ev1_hash_itr_num).
  Definition electrum_v1_seed_o_str (s : list N) : res (list N) := electrum_v1_seed_o (normalize s).
End Seeds.

(* SLIP-0010 ("Universal private key derivation from master private key") and the parts of BIP-32 it
   builds on, transcribed from the text of the standards.  This file is the SPECIFICATION the
   model (Model/Bip32Slip10.v) is proved against; it shares no definition with the model: its
   integer/byte conversions are written from BIP-32's "Conventions" paragraph, and its constants
   are the standards' literals (they are NOT taken from the library -- Lemmas/DerivConstsOk.v proves
   the library's regenerated constants equal to them).

   Because the standard's procedures say "restart at step 2" without a bound, they are transcribed
   as inductive relations (one constructor per outcome of the step) rather than functions with fuel.

   Text (SLIP-0010, master key generation):
     1. Generate a seed byte sequence S of 128 to 512 bits in length.
     2. Calculate I = HMAC-SHA512(Key = Curve, Data = S)
     3. Split I into two 32-byte sequences, IL and IR.
     4. Use parse256(IL) as master secret key, and IR as master chain code.
     5. If curve is not ed25519 and IL is 0 or >= n (invalid key): Set S := I and continue at step 2.
     Curve = "Bitcoin seed" for secp256k1, "Nist256p1 seed" for NIST P-256, "ed25519 seed" for ed25519.

   Text (SLIP-0010, private parent key -> private child key), CKDpriv((k_par, c_par), i) -> (k_i, c_i):
     1. Check whether i >= 2^31 (whether the child is a hardened key).
        - If so (hardened child): let I = HMAC-SHA512(Key = c_par, Data = 0x00 || ser256(k_par) || ser32(i)).
        - If not (normal child): If curve is ed25519: return failure.
          let I = HMAC-SHA512(Key = c_par, Data = serP(point(k_par)) || ser32(i)).
     2. Split I into two 32-byte sequences, IL and IR.
     3. The returned chain code c_i is IR.
     4. If curve is ed25519: The returned child key k_i is parse256(IL).
     5. If parse256(IL) >= n or parse256(IL) + k_par (mod n) = 0 (resulting key is invalid):
        let I = HMAC-SHA512(Key = c_par, Data = 0x01 || IR || ser32(i)) and restart at step 2.
     6. Otherwise: The returned child key k_i is parse256(IL) + k_par (mod n).

   Text (SLIP-0010, public parent key -> public child key), CKDpub((K_par, c_par), i) -> (K_i, c_i):
     1. Check whether i >= 2^31. If so (hardened child): return failure.
        If not (normal child): If curve is ed25519: return failure.
        let I = HMAC-SHA512(Key = c_par, Data = serP(K_par) || ser32(i)).
     2. Split I into two 32-byte sequences, IL and IR.
     3. The returned chain code c_i is IR.
     4. The returned child key K_i is point(parse256(IL)) + K_par.
     5. If parse256(IL) >= n or K_i is the point at infinity (the resulting key is invalid):
        let I = HMAC-SHA512(Key = c_par, Data = 0x01 || IR || ser32(i)) and restart at step 2.

   Text (BIP-32, secp256k1 only): "In case parse256(IL) >= n or k_i = 0, the resulting key is invalid,
   and one should proceed with the next value for i."  -- [bip32_ckd_priv] below returns None there.

   Text (BIP-32, Conventions): ser32(i): serialize a 32-bit unsigned integer i as a 4-byte sequence,
   most significant byte first.  ser256(p): serializes the integer p as a 32-byte sequence, most
   significant byte first.  serP(P): serializes the coordinate pair P = (x,y) as a byte sequence
   using SEC1's compressed form.  parse256(p): interprets a 32-byte sequence as a 256-bit number,
   most significant byte first.
   Text (BIP-32, Key identifiers): extended keys are identified by the Hash160 of the serialized
   public key K; the first 32 bits of the identifier are called the key fingerprint.
   Text (BIP-32, Serialization format): depth 0x00 for master nodes, 0x01 for level-1 derived keys, ...;
   the fingerprint of the parent's key (0x00000000 if master key); child number ser32(i) for i in
   x_i = x_par/i (0x00000000 if master key).
   SLIP-0010 (test vectors) serialises an ed25519 public key as 0x00 || A for this purpose. *)
From Coq Require Import NArith List Bool.
Import ListNotations.
Open Scope N_scope.

(* ---- BIP-32 conventions ---- *)
Fixpoint le_digits (w : nat) (v : N) : list N :=
  match w with O => [] | S w' => v mod 256 :: le_digits w' (v / 256) end.
Definition ser_be (w : nat) (v : N) : list N := rev (le_digits w v).
Definition spec_ser32 (i : N) : list N := ser_be 4 i.
Definition spec_ser256 (p : N) : list N := ser_be 32 p.
Definition parse256 (b : list N) : N := fold_left (fun acc x => acc * 256 + x) b 0.
Definition IL (I : list N) : list N := firstn 32 I.
Definition IR (I : list N) : list N := skipn 32 I.
Definition spec_hardened (i : N) : bool := 2 ^ 31 <=? i.

(* ---- the standards' constants ---- *)
Definition curve_bitcoin_seed : list N :=            (* "Bitcoin seed" *)
  [66; 105; 116; 99; 111; 105; 110; 32; 115; 101; 101; 100].
Definition curve_nist256p1_seed : list N :=          (* "Nist256p1 seed" *)
  [78; 105; 115; 116; 50; 53; 54; 112; 49; 32; 115; 101; 101; 100].
Definition curve_ed25519_seed : list N :=            (* "ed25519 seed" *)
  [101; 100; 50; 53; 53; 49; 57; 32; 115; 101; 101; 100].
(* SEC 2: order n of the base point of secp256k1 and of secp256r1 (NIST P-256) *)
Definition sec2_secp256k1_n : N := 0xFFFFFFFFFFFFFFFFFFFFFFFFFFFFFFFEBAAEDCE6AF48A03BBFD25E8CD0364141.
Definition sec2_secp256r1_n : N := 0xFFFFFFFF00000000FFFFFFFFFFFFFFFFBCE6FAADA7179E84F3B9CAC2FC632551.
Definition master_fingerprint : list N := [0; 0; 0; 0].
Definition spec_seed_min_bits : N := 128.

Section Spec.
  Variable HMAC : list N -> list N -> list N.      (* HMAC-SHA512(Key, Data) *)
  Variable Hash160 : list N -> list N.
  Variable curve_name : list N.                    (* "Curve" *)
  Variable is_ed25519 : bool.
  Variable n : N.                                  (* order of the curve (unused for ed25519) *)
  Variable P : Type.                               (* public keys / points *)
  Variable point : N -> P.                         (* point(p) *)
  Variable serP : P -> list N.
  Variable padd : P -> P -> P.
  Variable infinity : P.

  (* ---- master key generation ---- *)
  Inductive master_from : list N -> N * list N -> Prop :=
  | master_done S :
      is_ed25519 = true \/ (parse256 (IL (HMAC curve_name S)) <> 0 /\ parse256 (IL (HMAC curve_name S)) < n) ->
      master_from S (parse256 (IL (HMAC curve_name S)), IR (HMAC curve_name S))
  | master_retry S r :
      is_ed25519 = false ->
      parse256 (IL (HMAC curve_name S)) = 0 \/ n <= parse256 (IL (HMAC curve_name S)) ->
      master_from (HMAC curve_name S) r ->
      master_from S r.

  (* ---- CKDpriv ---- *)
  (* step 1: None = "return failure" *)
  Definition ckd_priv_first (kpar : N) (cpar : list N) (i : N) : option (list N) :=
    if spec_hardened i then Some (HMAC cpar ([0] ++ spec_ser256 kpar ++ spec_ser32 i))
    else if is_ed25519 then None
    else Some (HMAC cpar (serP (point kpar) ++ spec_ser32 i)).

  (* steps 2-6 started from a given I *)
  Inductive ckd_priv_from (kpar : N) (cpar : list N) (i : N) : list N -> N * list N -> Prop :=
  | ckd_priv_ed I :                                                     (* step 4 *)
      is_ed25519 = true ->
      ckd_priv_from kpar cpar i I (parse256 (IL I), IR I)
  | ckd_priv_valid I :                                                  (* step 6 *)
      is_ed25519 = false ->
      parse256 (IL I) < n -> (parse256 (IL I) + kpar) mod n <> 0 ->
      ckd_priv_from kpar cpar i I ((parse256 (IL I) + kpar) mod n, IR I)
  | ckd_priv_restart I r :                                              (* step 5 *)
      is_ed25519 = false ->
      n <= parse256 (IL I) \/ (parse256 (IL I) + kpar) mod n = 0 ->
      ckd_priv_from kpar cpar i (HMAC cpar ([1] ++ IR I ++ spec_ser32 i)) r ->
      ckd_priv_from kpar cpar i I r.

  Definition CKDpriv (kpar : N) (cpar : list N) (i : N) (r : N * list N) : Prop :=
    exists I, ckd_priv_first kpar cpar i = Some I /\ ckd_priv_from kpar cpar i I r.
  Definition CKDpriv_fails (kpar : N) (cpar : list N) (i : N) : Prop :=
    ckd_priv_first kpar cpar i = None.

  (* ---- CKDpub ---- *)
  Definition ckd_pub_first (Kpar : P) (cpar : list N) (i : N) : option (list N) :=
    if spec_hardened i then None
    else if is_ed25519 then None
    else Some (HMAC cpar (serP Kpar ++ spec_ser32 i)).

  Inductive ckd_pub_from (Kpar : P) (cpar : list N) (i : N) : list N -> P * list N -> Prop :=
  | ckd_pub_valid I :
      parse256 (IL I) < n -> padd (point (parse256 (IL I))) Kpar <> infinity ->
      ckd_pub_from Kpar cpar i I (padd (point (parse256 (IL I))) Kpar, IR I)
  | ckd_pub_restart I r :
      n <= parse256 (IL I) \/ padd (point (parse256 (IL I))) Kpar = infinity ->
      ckd_pub_from Kpar cpar i (HMAC cpar ([1] ++ IR I ++ spec_ser32 i)) r ->
      ckd_pub_from Kpar cpar i I r.

  Definition CKDpub (Kpar : P) (cpar : list N) (i : N) (r : P * list N) : Prop :=
    exists I, ckd_pub_first Kpar cpar i = Some I /\ ckd_pub_from Kpar cpar i I r.
  Definition CKDpub_fails (Kpar : P) (cpar : list N) (i : N) : Prop :=
    ckd_pub_first Kpar cpar i = None.

  (* ---- BIP-32's own rule for an invalid child (secp256k1): no key for this i ---- *)
  Definition bip32_ckd_priv (kpar : N) (cpar : list N) (i : N) : option (N * list N) :=
    let I := if spec_hardened i then HMAC cpar ([0] ++ spec_ser256 kpar ++ spec_ser32 i)
             else HMAC cpar (serP (point kpar) ++ spec_ser32 i) in
    let ki := (parse256 (IL I) + kpar) mod n in
    if (n <=? parse256 (IL I)) || (ki =? 0) then None else Some (ki, IR I).

  (* ---- the key tree: extended private keys with the metadata of the serialisation format ---- *)
  Record xprv := mk_xprv {
    x_key : N; x_chain : list N; x_depth : N; x_child : N; x_parent_fp : list N
  }.
  Definition spec_fingerprint (K : P) : list N := firstn 4 (Hash160 (serP K)).

  Definition master_node (S : list N) (x : xprv) : Prop :=
    spec_seed_min_bits <= 8 * N.of_nat (length S) /\
    master_from S (x_key x, x_chain x) /\
    x_depth x = 0 /\ x_child x = 0 /\ x_parent_fp x = master_fingerprint.

  Definition child_node (x : xprv) (i : N) (y : xprv) : Prop :=
    i < 2 ^ 32 /\
    CKDpriv (x_key x) (x_chain x) i (x_key y, x_chain y) /\
    x_depth y = x_depth x + 1 /\ x_child y = i /\
    x_parent_fp y = spec_fingerprint (point (x_key x)).

  (* m/a/b/c = CKDpriv(CKDpriv(CKDpriv(m,a),b),c) *)
  Inductive path_node : xprv -> list N -> xprv -> Prop :=
  | path_nil x : path_node x [] x
  | path_cons x i y p z : child_node x i y -> path_node y p z -> path_node x (i :: p) z.

  (* extended public keys: N((k, c)) = (point(k), c) with the same metadata *)
  Record xpub := mk_xpub {
    xp_key : P; xp_chain : list N; xp_depth : N; xp_child : N; xp_parent_fp : list N
  }.
  Definition neuter (x : xprv) : xpub :=
    mk_xpub (point (x_key x)) (x_chain x) (x_depth x) (x_child x) (x_parent_fp x).
  Definition child_node_pub (x : xpub) (i : N) (y : xpub) : Prop :=
    i < 2 ^ 32 /\
    CKDpub (xp_key x) (xp_chain x) i (xp_key y, xp_chain y) /\
    xp_depth y = xp_depth x + 1 /\ xp_child y = i /\
    xp_parent_fp y = spec_fingerprint (xp_key x).
End Spec.

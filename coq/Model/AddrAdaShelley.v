(* bip_utils/addr/ada_shelley_addr.py (payment and staking/reward addresses) and
   bip_utils/cardano/shelley/cardano_shelley.py + cip1852 (which keys go into them).

   The Bech32 text layer (bip_utils/bech32, verified under C10/C11 by its own models) is abstract here:
   [b32_enc hrp payload] and [b32_dec hrp text]; theorems assume decode-after-encode.  A Bech32 checksum
   error is converted to ValueError by these decoders, so one refusal class suffices. *)
From Coq Require Import NArith ZArith Arith List Bool.
From BU Require Import Base.Exn Base.Radix Base.Bytes Gen.ConstsCardmon.
From BU Require Import Model.EdLib Model.Bip32Kholaw.
Import ListNotations.
Open Scope N_scope.

Definition ada_net := (N * list N * list N)%type.      (* network tag, address HRP, staking address HRP *)
Definition net_tag (n : ada_net) : N := fst (fst n).
Definition net_hrp (n : ada_net) : list N := snd (fst n).
Definition net_stake_hrp (n : ada_net) : list N := snd n.

Section Shelley.
  Variable blake2b_224 : list N -> list N.
  Variable G : Type.
  Variable pdec : list N -> option G.
  Variable b32_enc : list N -> list N -> list N.
  Variable b32_dec : list N -> list N -> option (list N).

  (* _AdaShelleyAddrUtils.EncodePrefix: IntegerUtils.ToBytes((hdr_type << 4) + net_tag) *)
  Definition prefix_byte (hdr tag : N) : list N := int_to_be_auto (N.shiftl hdr ada_hdr_shift + tag).

  Definition key_hash (pub : list N) : list N := blake2b_224 pub.

  (* the bytes under the Bech32 layer *)
  Definition payment_payload (net : ada_net) (pk sk : list N) : list N :=
    prefix_byte ada_hdr_payment (net_tag net) ++ key_hash pk ++ key_hash sk.
  Definition staking_payload (net : ada_net) (sk : list N) : list N :=
    prefix_byte ada_hdr_reward (net_tag net) ++ key_hash sk.

  (* AdaShelleyAddrEncoder.EncodeKey(pub_key, pub_skey=..., net_tag=...) *)
  Definition encode_payment (net : ada_net) (pub pub_sk : list N) : res (list N) :=
    pk <- EdLib.pub_from_bytes G pdec pub ;;
    sk <- EdLib.pub_from_bytes G pdec pub_sk ;;
    Ok (b32_enc (net_hrp net) (payment_payload net pk sk)).
  (* AdaShelleyStakingAddrEncoder.EncodeKey *)
  Definition encode_staking (net : ada_net) (pub_sk : list N) : res (list N) :=
    sk <- EdLib.pub_from_bytes G pdec pub_sk ;;
    Ok (b32_enc (net_stake_hrp net) (staking_payload net sk)).

  Definition strip_prefix (prefix dec : list N) : res (list N) :=
    guard (list_eqb prefix (firstn (length prefix) dec)) else ValueError ;;
    Ok (skipn (length prefix) dec).

  (* AdaShelleyAddrDecoder.DecodeAddr -> the two key hashes *)
  Definition decode_payment (net : ada_net) (addr : list N) : res (list N) :=
    dec <- of_option (b32_dec (net_hrp net) addr) ValueError ;;
    guard (length dec =? ada_keyhash_len * 2 + 1)%nat else ValueError ;;
    strip_prefix (prefix_byte ada_hdr_payment (net_tag net)) dec.
  (* AdaShelleyStakingAddrDecoder.DecodeAddr *)
  Definition decode_staking (net : ada_net) (addr : list N) : res (list N) :=
    dec <- of_option (b32_dec (net_stake_hrp net) addr) ValueError ;;
    guard (length dec =? ada_keyhash_len + 1)%nat else ValueError ;;
    strip_prefix (prefix_byte ada_hdr_reward (net_tag net)) dec.

  (* ---- which keys: CIP-1852 account, CardanoShelley staking key ---- *)
  Section Wallet.
    Variable derive : node -> list Z -> res node.     (* Bip32 derivation with the Khovratovich-Law derivator *)

    (* Bip32KeyIndex.HardenIndex *)
    Definition harden (i : Z) : Z := Z.lor i (2 ^ Z.of_N b32_hardened_bit).

    (* Cip1852.FromSeed(..).Purpose().Coin().Account(acc) *)
    Definition cip1852_account (master : node) (acc : Z) : res node :=
      derive master [cip1852_purpose; harden cip1852_coin; harden acc].
    (* CardanoShelley.__DeriveStakingKeys: the account's Bip32 object, DerivePath("2/0") *)
    Definition staking_node (account : node) : res node := derive account shelley_staking_path.
    (* .Change(c).AddressIndex(i) *)
    Definition address_node (account : node) (change idx : Z) : res node := derive account [change; idx].

    (* CardanoShelley.FromCip1852Object(account).Change(c).AddressIndex(i).PublicKeys().ToAddress() *)
    Definition shelley_address (net : ada_net) (account : node) (change idx : Z) : res (list N) :=
      s <- staking_node account ;;
      a <- address_node account change idx ;;
      encode_payment net (n_pub a) (n_pub s).
    (* ... .PublicKeys().ToStakingAddress() *)
    Definition shelley_staking_address (net : ada_net) (account : node) : res (list N) :=
      s <- staking_node account ;;
      encode_staking net (n_pub s).
  End Wallet.
End Shelley.

(* Level automaton of bip_utils/bip/bip44_base/bip44_base.py (Bip44Base) and its five concrete
   hierarchies Bip44/Bip49/Bip84/Bip86/Cip1852.

   An object of the library wraps a Bip32 object; everything the level discipline depends on is
     depth      Bip32Object().Depth()         (a Python int; arbitrary when keys are re-imported)
     pub_only   Bip32Object().IsPublicOnly()
     index      Bip32Object().Index()
   plus the coin configuration.  [origin]/[path] record the lineage: the depth at which the object
   (or the ancestor it was derived from) was imported and the child indices derived since; [key]
   is the key material, abstract (type K with the two child-derivation functions as parameters).

   Every constant (level guards, constructor bounds, hardening rules, purposes, coin rows, Change
   enum values, key-index limits, default key_data) comes from Gen/Bip44Params.v, which
   harness/gen_objects.py regenerates from the source on every run.  No proofs here. *)
From Coq Require Import NArith ZArith List Bool.
From BU Require Import Base.Exn Gen.Bip44Params.
Import ListNotations.
Open Scope N_scope.

(* ---- coin configuration (BipCoinConf as far as the level methods read it) ---- *)
Record coin := mkCoin {
  c_purpose : N;          (* <Hierarchy>Const.PURPOSE, handed to _PurposeGeneric as is *)
  c_index : N;            (* BipCoinConf.CoinIndex() *)
  c_pubderiv : bool;      (* Bip32Class().IsPublicDerivationSupported() *)
  c_defpath : list N;     (* DefaultPath(), parsed *)
  c_defabs : bool         (* DefaultPath() starts with the master element *)
}.

Definition coin_of_row (r : N * list N * N * bool * list N * bool) : option coin :=
  let '(h, _, ci, pd, dp, ab) := r in
  match find (fun p => N.eqb (fst p) h) purposes with
  | Some (_, pu) => Some (mkCoin pu ci pd dp ab)
  | None => None
  end.

Definition all_coins : list coin :=
  flat_map (fun r => match coin_of_row r with Some c => [c] | None => [] end) coin_rows.

(* ---- key indices (Bip32KeyIndex) ---- *)
Definition hbitN : N := N.shiftl 1 key_index_hardened_bit.
Definition hbitZ : Z := Z.of_N hbitN.
(* Bip32KeyIndex.HardenIndex = BitUtils.SetBit on a Python int (two's complement for negatives) *)
Definition hardenZ (i : Z) : Z := Z.lor i hbitZ.
Definition hardenN (i : N) : N := N.lor i hbitN.
Definition is_hardened (i : N) : bool := N.testbit i key_index_hardened_bit.
(* Bip32KeyIndex(idx): ValueError unless 0 <= idx <= KEY_INDEX_MAX_VAL *)
Definition mk_index (i : Z) : res N :=
  if (i <? 0)%Z || (Z.of_N key_index_max <? i)%Z then Err ValueError else Ok (Z.to_N i).
(* rule 0: index used as given; 1: hardened iff the curve lacks public derivation; 2: hardened *)
Definition apply_rule (rule : N) (pubderiv : bool) (i : Z) : Z :=
  if rule =? 2 then hardenZ i
  else if rule =? 1 then (if pubderiv then i else hardenZ i)
  else i.

Inductive op :=
| Purpose | Coin | Account (i : Z) | Change (c : N) | AddressIndex (i : Z) | DeriveDefaultPath
  (* cls.FromExtendedKey(<serialised key>, coin): the object's public (as_pub) or private key
     serialised with its own metadata (None) or with key data (depth, index) *)
| ReimportExt (as_pub : bool) (meta : option (N * N))
  (* cls.FromPublicKey / cls.FromPrivateKey(<raw key>, coin[, Bip32KeyData(depth, index, chain code)]);
     None = the constructor's default key_data argument *)
| ReimportRaw (as_pub : bool) (meta : option (N * N))
  (* o.Bip32Object().ConvertToPublic(): not an operation of the Bip44 API -- the accessor hands
     out the wrapped mutable object (finding F20); kept apart by [api_op] *)
| Bip32ObjConvertToPublic.

Definition api_op (o : op) : bool :=
  match o with Bip32ObjConvertToPublic => false | _ => true end.

(* operations that keep the lineage (origin, path prefix, key) of the object *)
Definition lineage_op (o : op) : bool :=
  match o with
  | ReimportExt _ (Some _) | ReimportRaw _ _ => false
  | _ => true
  end.

Section Automaton.
  Variable K : Type.
  (* IBip32KeyDerivator.CkdPriv / CkdPub on the key material; may refuse (Bip32KeyError) *)
  Variable ckd_priv ckd_pub : K -> N -> res K.

  Record state := mkState {
    depth : N; pub_only : bool; index : N; origin : N; path : list N; key : K }.

  (* Bip44Base.__init__ *)
  Definition init_check (s : state) : res state :=
    if pub_only s then
      if (depth s <? init_pub_min) || (init_pub_max <? depth s) then Err (LibError Bip44DepthError) else Ok s
    else
      if init_priv_max <? depth s then Err (LibError Bip44DepthError) else Ok s.

  (* Bip44Base.Level(): Bip44Levels(depth) *)
  Definition level (s : state) : res N :=
    if existsb (N.eqb (depth s)) bip44_levels then Ok (depth s) else Err ValueError.

  (* refusals of Bip32Base.ChildKey that depend on nothing but flags:
     public-only: hardened index, or a derivator without public derivation;
     private: a not-hardened index with a derivator that only knows hardened derivation *)
  Definition child_refused (pubderiv po : bool) (i : N) : bool :=
    if po then is_hardened i || negb pubderiv else negb (is_hardened i) && negb pubderiv.

  (* Bip32Base.ChildKey(int) *)
  Definition child_key (c : coin) (s : state) (iz : Z) : res state :=
    i <- mk_index iz ;;
    guard negb (child_refused (c_pubderiv c) (pub_only s) i) else LibError Bip32KeyError ;;
    k <- (if pub_only s then ckd_pub else ckd_priv) (key s) i ;;
    Ok (mkState (depth s + 1) (pub_only s) i (origin s) (path s ++ [i]) k).

  (* Bip44Base._XGeneric: guard, hardening rule, ChildKey, constructor *)
  Definition level_op (c : coin) (s : state) (lvl rule : N) (iz : Z) : res state :=
    guard (depth s =? lvl) else LibError Bip44DepthError ;;
    s' <- child_key c s (apply_rule rule (c_pubderiv c) iz) ;;
    init_check s'.

  (* Bip32Base.DerivePath on a parsed relative path *)
  Fixpoint derive_path (c : coin) (s : state) (p : list N) : res state :=
    match p with
    | [] => Ok s
    | i :: t => s' <- child_key c s (Z.of_N i) ;; derive_path c s' t
    end.

  Definition purpose_op (c : coin) (s : state) := level_op c s guard_purpose harden_rule_purpose (Z.of_N (c_purpose c)).
  Definition coin_op (c : coin) (s : state) := level_op c s guard_coin harden_rule_coin (Z.of_N (c_index c)).

  (* Bip44Base.DeriveDefaultPath *)
  Definition default_path (c : coin) (s : state) : res state :=
    s1 <- purpose_op c s ;;
    s2 <- coin_op c s1 ;;
    guard negb (c_defabs c && (0 <? depth s2)) else ValueError ;;
    s3 <- derive_path c s2 (c_defpath c) ;;
    init_check s3.

  (* the four key-import constructors applied to the key of the current object *)
  Definition reimport (ext : bool) (s : state) (as_pub : bool) (meta : option (N * N)) : res state :=
    let '(d, i, org, pth) :=
      match meta with
      | Some (d, i) => (d, i, d, [])
      | None =>
          if ext then (depth s, index s, origin s, path s)
          else if as_pub then (from_public_default_depth, from_public_default_index, from_public_default_depth, [])
          else (from_private_default_depth, from_private_default_index, from_private_default_depth, [])
      end in
    (* Bip32KeyData(index=i) *)
    guard (i <=? key_index_max) else ValueError ;;
    (* the private half is needed: Bip32Base.PrivateKey() *)
    guard (as_pub || negb (pub_only s)) else LibError Bip32KeyError ;;
    (* serialisation of the depth in DEPTH_BYTE_LEN bytes *)
    guard (negb ext || (d <? 256 ^ depth_byte_len)) else OverflowError ;;
    (* Bip32Base.FromExtendedKey: a master key has index 0 (its parent fingerprint is the master
       one for every depth-0 object this automaton builds) *)
    guard (negb ext || negb ((d =? 0) && negb (i =? 0))) else LibError Bip32KeyError ;;
    init_check (mkState d as_pub i org pth (key s)).

  Definition step (c : coin) (s : state) (o : op) : res state :=
    match o with
    | Purpose => purpose_op c s
    | Coin => coin_op c s
    | Account i => level_op c s guard_account harden_rule_account i
    | Change ch =>
        (* isinstance(change_type, Bip44Changes), before the level guard *)
        guard (existsb (N.eqb ch) change_values) else TypeError ;;
        level_op c s guard_change harden_rule_change (Z.of_N ch)
    | AddressIndex i => level_op c s guard_addr harden_rule_addr i
    | DeriveDefaultPath => default_path c s
    | ReimportExt p m => reimport true s p m
    | ReimportRaw p m => reimport false s p m
    | Bip32ObjConvertToPublic => Ok (mkState (depth s) true (index s) (origin s) (path s) (key s))
    end.

  (* a call that raises leaves the object it was called on as it was *)
  Definition exec (c : coin) (s : state) (o : op) : state :=
    match step c s o with inl s' => s' | inr _ => s end.
  Definition run (c : coin) (s : state) (ops : list op) : state := fold_left (exec c) ops s.

  (* all-or-nothing composition: o1(...).o2(...).o3(...) *)
  Fixpoint chain (c : coin) (s : state) (ops : list op) : res state :=
    match ops with
    | [] => Ok s
    | o :: t => s' <- step c s o ;; chain c s' t
    end.

  (* cls.FromSeed: master object *)
  Definition from_seed (k0 : K) : res state := init_check (mkState 0 false 0 0 [] k0).

  (* plain Bip32 private derivation of the key material along a list of indices *)
  Fixpoint plain_derive (k : K) (p : list N) : res K :=
    match p with
    | [] => Ok k
    | i :: t => k' <- ckd_priv k i ;; plain_derive k' t
    end.

  (* observation after every step of a history: (exception code or 0, depth, public-only, index) *)
  Fixpoint observe (c : coin) (s : state) (ops : list op) : list (N * N * bool * N) :=
    match ops with
    | [] => []
    | o :: t =>
        let r := step c s o in
        let s' := exec c s o in
        ((match r with inl _ => 0 | inr e => exn_code e end), depth s', pub_only s', index s') :: observe c s' t
    end.
End Automaton.

Arguments depth {K}. Arguments pub_only {K}. Arguments index {K}. Arguments origin {K}.
Arguments path {K}. Arguments key {K}.

(* ---- the specification the property names ---- *)
(* m / purpose' / coin' / account' / change / address_index for arguments a, ch, i *)
Definition hard_if (c : coin) (x : N) : N := if c_pubderiv c then x else hardenN x.
Definition canonical (c : coin) (a ch i : N) : list N :=
  [c_purpose c; hardenN (c_index c); hardenN a; hard_if c ch; hard_if c i].

(* what a path element at absolute position [pos] must be *)
Definition slot_ok (c : coin) (pos : N) (x : N) : Prop :=
  (pos = 0 /\ x = c_purpose c) \/ (pos = 1 /\ x = hardenN (c_index c)) \/
  (pos = 2 /\ exists a, x = hardenN a) \/
  (pos = 3 /\ exists ch, In ch change_values /\ x = hard_if c ch) \/
  (pos = 4 /\ exists i, x = hard_if c i).

Definition slot_okb (c : coin) (pos : N) (x : N) : bool :=
  if pos =? 0 then x =? c_purpose c
  else if pos =? 1 then x =? hardenN (c_index c)
  else if pos =? 2 then is_hardened x
  else if pos =? 3 then existsb (fun ch => x =? hard_if c ch) change_values
  else if pos =? 4 then c_pubderiv c || is_hardened x
  else false.

Fixpoint slots_okb (c : coin) (pos : N) (p : list N) : bool :=
  match p with [] => true | x :: t => slot_okb c pos x && slots_okb c (pos + 1) t end.

(* a coin row is usable by the automaton: relative default path that continues m/purpose'/coin'
   with admissible elements, indices in range, hardened purpose *)
Definition coin_wf (c : coin) : bool :=
  negb (c_defabs c) && slots_okb c 2 (c_defpath c) && (N.of_nat (length (c_defpath c)) <=? 3) &&
  (c_purpose c <=? key_index_max) && is_hardened (c_purpose c) && (c_index c <? hbitN) &&
  forallb (fun x => x <=? key_index_max) (c_defpath c).

(* manual operations equivalent to the default path: Account / Change / AddressIndex *)
Definition manual_op (c : coin) (pos : N) (x : N) : option op :=
  if pos =? 2 then Some (Account (Z.of_N x))
  else if pos =? 3 then
    match find (fun ch => x =? hard_if c ch) change_values with Some ch => Some (Change ch) | None => None end
  else if pos =? 4 then Some (AddressIndex (Z.of_N x))
  else None.
Fixpoint manual_ops (c : coin) (pos : N) (p : list N) : option (list op) :=
  match p with
  | [] => Some []
  | x :: t => match manual_op c pos x, manual_ops c (pos + 1) t with
              | Some o, Some l => Some (o :: l) | _, _ => None end
  end.

(* the level an operation expects and the index it hands to ChildKey *)
Definition op_index (c : coin) (o : op) : option (N * Z) :=
  match o with
  | Purpose => Some (guard_purpose, apply_rule harden_rule_purpose (c_pubderiv c) (Z.of_N (c_purpose c)))
  | Coin => Some (guard_coin, apply_rule harden_rule_coin (c_pubderiv c) (Z.of_N (c_index c)))
  | Account i => Some (guard_account, apply_rule harden_rule_account (c_pubderiv c) i)
  | Change ch => Some (guard_change, apply_rule harden_rule_change (c_pubderiv c) (Z.of_N ch))
  | AddressIndex i => Some (guard_addr, apply_rule harden_rule_addr (c_pubderiv c) i)
  | _ => None
  end.
(* Change takes a Bip44Changes member *)
Definition well_typed (o : op) : bool :=
  match o with Change ch => existsb (N.eqb ch) change_values | _ => true end.

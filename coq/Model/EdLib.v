(* bip_utils/ecc/ed25519/lib/ed25519_lib.py + the PyNaCl/libsodium calls it makes, as used by the
   Monero (C16) and Cardano (C18) models.  The curve itself is abstract: a type [G] of points with
   addition, scalar multiplication and base point (section variables = oracles); only the glue the
   library adds (integer <-> bytes, length checks, the error cases of libsodium's *_noclamp calls) is
   concrete.

   ed25519_lib.point_scalar_mul / point_scalar_mul_base turn libsodium's refusal (nacl RuntimeError)
   into ValueError ([scalarmult_error]); point_add does not.

   libsodium facts modelled (libsodium 1.0.18, crypto_scalarmult/ed25519/ref10/scalarmult_ed25519_ref10.c):
     crypto_scalarmult_ed25519_base_noclamp(n): t = n with bit 255 cleared; q = t*B;
        returns -1 (PyNaCl: nacl.exceptions.RuntimeError) if q is the identity or n is all-zero.
     crypto_scalarmult_ed25519_noclamp(n, p): -1 if p is non-canonical / of small order / not
        decodable / outside the main subgroup ([p_refused]); same scalar treatment and result test.
     crypto_core_ed25519_add(p, q): -1 if p or q does not decode to a curve point. *)
From Coq Require Import NArith Arith List Bool.
From BU Require Import Base.Exn Base.Radix Base.Bytes Gen.ConstsCardmon.
Import ListNotations.
Open Scope N_scope.

Definition nacl_runtime_error : exn := Foreign 2.   (* nacl.exceptions.RuntimeError *)
Definition scalarmult_error : exn := ValueError.    (* "except nacl RuntimeError: raise ValueError" *)

(* total little-endian fixed width encoding; equals int.to_bytes when the value fits *)
Definition le_pad (w : nat) (v : N) : list N :=
  let d := to_le 256 v in d ++ repeat 0 (w - length d).

Section EdLib.
  Variable G : Type.
  Variable gadd : G -> G -> G.
  Variable gmul : N -> G -> G.
  Variable gbase : G.
  Variable g_is_zero : G -> bool.
  Variable penc : G -> list N.               (* canonical 32-byte encoding (what libsodium outputs) *)
  Variable pdec : list N -> option G.        (* lenient decoding: None iff off-curve *)
  Variable p_refused : list N -> bool.       (* scalarmult input tests on an encoded point *)

  (* ed25519_lib.int_decode / int_encode *)
  Definition int_decode (b : list N) : N := le_to_int b.
  Definition int_encode (v : N) : res (list N) := int_to_le_fixed ed_coord_len v.

  Definition sodium_scalar (n : N) : N := n mod 2 ^ 255.     (* t[31] &= 127 *)

  (* ed25519_lib.point_scalar_mul_base with an int / a 32-byte scalar *)
  Definition mul_base_n (n : N) : res (list N) :=
    let R := gmul (sodium_scalar n) gbase in
    if (n =? 0) || g_is_zero R then Err scalarmult_error else Ok (penc R).
  Definition mul_base_int (n : N) : res (list N) := _ <- int_encode n ;; mul_base_n n.
  Definition mul_base_bytes (s : list N) : res (list N) :=
    if (length s =? ed_coord_len)%nat then mul_base_n (int_decode s) else Err TypeError.

  (* ed25519_lib.point_scalar_mul(int, encoded point) *)
  Definition mul_int (n : N) (p : list N) : res (list N) :=
    _ <- int_encode n ;;
    if p_refused p then Err scalarmult_error else
    match pdec p with
    | None => Err scalarmult_error
    | Some P =>
      let R := gmul (sodium_scalar n) P in
      if (n =? 0) || g_is_zero R then Err scalarmult_error else Ok (penc R)
    end.

  (* ed25519_lib.point_add on two encoded points *)
  Definition add_bytes (p q : list N) : res (list N) :=
    match pdec p, pdec q with
    | Some P, Some Q => Ok (penc (gadd P Q))
    | _, _ => Err nacl_runtime_error
    end.

  (* ed25519_lib.scalar_reduce on bytes of length <= 64: value mod l as 32 little-endian bytes *)
  Definition sc_reduce (b : list N) : list N := le_pad ed_coord_len (le_to_int b mod ed_order).

  (* ed25519_lib.scalar_is_valid *)
  Definition scalar_is_valid (b : list N) : bool := int_decode b <? ed_order.

  (* Ed25519PublicKey.FromBytes (inherited by the Monero and Kholaw key classes): optional 0x00
     prefix, then the on-curve test; every refusal is ValueError.  64-byte "decoded" input passes
     the library's own test but is then refused by nacl's VerifyKey, again as ValueError. *)
  Definition strip_pub_prefix (b : list N) : list N :=
    if ((length b =? ed_pub_len + length ed_pub_prefix)%nat && (hd 0 b =? be_to_int ed_pub_prefix))%bool
    then tl b else b.
  Definition pub_from_bytes (b : list N) : res (list N) :=
    let k := strip_pub_prefix b in
    if (length k =? ed_coord_len)%nat then
      match pdec k with Some _ => Ok k | None => Err ValueError end
    else Err ValueError.
  Definition pub_is_valid (b : list N) : bool :=
    match pub_from_bytes b with inl _ => true | inr _ => false end.

  (* Ed25519MoneroPrivateKey.FromBytes: scalar < l, then nacl SigningKey needs exactly 32 bytes *)
  Definition monero_priv_from_bytes (b : list N) : res (list N) :=
    if scalar_is_valid b then
      if (length b =? ed_priv_len)%nat then Ok b else Err ValueError
    else Err ValueError.
End EdLib.

(* LINK (definitions only): crcmod.predefined.Crc("xmodem") as bip_utils' XModemCrc.QuickDigest uses it -- CRC-16/XMODEM:
   polynomial x^16 + x^12 + x^5 + 1 (0x1021), initial value 0, not reflected, no final xor; .digest() is the
   16-bit value big-endian on 2 bytes.  Pure arithmetic, bit by bit (like crc32 in Model/MnemText.v); the Stellar
   address pipeline of Model/AddrText.v took it as a Section variable. *)
From Coq Require Import NArith List.
Import ListNotations.
Open Scope N_scope.

Definition crc16_poly : N := 0x1021.
Definition crc16_mask : N := 0xFFFF.

Fixpoint crc16_bits (k : nat) (c : N) : N :=
  match k with
  | O => c
  | S k' =>
    let c2 := N.land (N.shiftl c 1) crc16_mask in
    crc16_bits k' (if N.testbit c 15 then N.lxor c2 crc16_poly else c2)
  end.
Definition crc16_byte (c b : N) : N := crc16_bits 8 (N.lxor c (N.shiftl b 8)).
Definition crc16 (bs : list N) : N := fold_left crc16_byte bs 0.
(* XModemCrc.QuickDigest *)
Definition crc16_xmodem (bs : list N) : list N := [crc16 bs / 256; crc16 bs mod 256].

(* bip_utils/cardano/bip32/cardano_byron_legacy_{mst_key_generator,key_derivator,bip32}.py
   (old Daedalus wallets): master key from the CBOR-wrapped 32-byte seed, children by the historical
   byte-wise variant of the Khovratovich-Law arithmetic.

   Public (soft) derivation is modelled as the scheme demands: A + zl8*G with zl8 the full 256-bit
   integer.  The library passes zl8 through libsodium's *_noclamp call, which clears bit 255 of the
   scalar, so for zl8 >= 2^255 it adds (zl8 - 2^255)*G instead and public derivation no longer matches
   private derivation (finding C18-BYRON-PUBDERIV; the correspondence run shows the divergence). *)
From Coq Require Import NArith ZArith Arith List Bool.
From BU Require Import Base.Exn Base.Radix Base.Bytes Gen.ConstsCardmon.
From BU Require Import Model.EdLib Model.CborEnc Model.Bip32Kholaw.
Import ListNotations.
Open Scope N_scope.

(* decimal rendering of a positive integer (bytes %d formatting) *)
Definition decimal (n : N) : list N :=
  match n with 0 => [48] | _ => map (fun d => 48 + d) (to_be 10 n) end.
(* fmt % n for a format with one %d *)
Fixpoint format_d (fmt : list N) (n : N) : list N :=
  match fmt with
  | 37 :: 100 :: t => decimal n ++ t
  | x :: t => x :: format_d t n
  | [] => []
  end.

(* BytesUtils.MultiplyScalarNoCarry / AddNoCarry *)
Definition mul_no_carry (b : list N) (k : N) : list N := map (fun x => (x * k) mod 256) b.
Fixpoint add_no_carry (a b : list N) : list N :=
  match a, b with
  | x :: a', y :: b' => ((x + y) mod 256) :: add_no_carry a' b'
  | _, _ => []
  end.

Section Byron.
  Variable hmac_sha512 : list N -> list N -> list N.
  Variable sha512 : list N -> list N.
  Variable G : Type.
  Variable gadd : G -> G -> G.
  Variable gmul : N -> G -> G.
  Variable gbase : G.
  Variable g_is_zero : G -> bool.
  Variable penc : G -> list N.
  Variable pdec : list N -> option G.

  (* CardanoByronLegacyMstKeyGenerator.__HashRepeatedly: HMAC keyed by the CBOR-wrapped seed over
     "Root Seed Chain <n>", SHA-512 of the left half, tweak, retry while the test bit is set *)
  Fixpoint by_hash_repeatedly (fuel : nat) (data : list N) (itr : N) : res (list N * list N) :=
    match fuel with
    | O => Err OutOfFuel
    | S f =>
      let (il, ir) := halves (hmac_sha512 data (format_d by_hmac_msg_format itr)) in
      key <- tweak by_tweak_ops (sha512 il) ;;
      again <- bits_set by_repeat_idx by_repeat_mask key ;;
      if again then by_hash_repeatedly f data (itr + 1) else Ok (key, ir)
    end.

  Definition by_master (fuel : nat) (seed : list N) : res (list N * list N) :=
    guard (length seed =? by_seed_len)%nat else ValueError ;;
    by_hash_repeatedly fuel (cbor_bytes seed) 1.

  (* CardanoByronLegacyKeyDerivator *)
  Definition by_zl8 (zl : list N) : N := le_to_int (mul_no_carry zl by_zl_mult).
  Definition by_new_left (zl kl : list N) : res (list N) :=
    int_to_le_fixed by_kl_len ((by_zl8 zl + le_to_int kl) mod ed_curve_order).
  Definition by_new_right (zr kr : list N) : res (list N) := Ok (add_no_carry zr kr).
  (* zl8*G, exact (see the header) *)
  Definition by_pub_scalar_mul (zl : list N) : res (list N) :=
    let n := by_zl8 zl in
    _ <- int_encode n ;;
    let R := gmul n gbase in
    if (n =? 0) || g_is_zero R then Err scalarmult_error else Ok (penc R).
  Definition by_derivator : derivator :=
    mk_derivator (ser_index by_index_little) by_new_left by_new_right by_pub_scalar_mul.

  Definition by_from_seed (fuel : nat) (seed : list N) : res node :=
    m <- by_master fuel seed ;;
    node_from_priv G gmul gbase g_is_zero penc (fst m) (snd m) 0.
End Byron.

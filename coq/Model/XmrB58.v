(* bip_utils/base58/base58_xmr.py : Base58XmrEncoder / Base58XmrDecoder (Monero block Base58).
   Local, independent copy for the Monero address model (C16); built on Model/Base58.v's
   [encode]/[decode] for the blocks, exactly like the Python is built on Base58Encoder/Decoder. *)
From Coq Require Import NArith List Arith.
From BU Require Import Base.Exn Base.Radix Base.Bytes.
From BU Require Model.Base58.
Import ListNotations.
Open Scope N_scope.

Section XmrB58.
  Variable alph : list N.            (* Base58XmrConst.ALPHABET *)
  Variable radix : N.                (* Base58Const.RADIX *)
  Variable dec_max : nat.            (* BLOCK_DEC_MAX_BYTE_LEN = 8 *)
  Variable enc_max : nat.            (* BLOCK_ENC_MAX_BYTE_LEN = 11 *)
  Variable enc_lens : list nat.      (* BLOCK_ENC_BYTE_LENS *)

  Definition b58enc := Base58.encode alph radix.
  Definition b58dec := Base58.decode alph radix.
  Definition pad_sym : N := nth 0 alph 0.      (* ALPHABET[0] *)

  (* str.rjust(w, c): never truncates *)
  Definition rjust (w : nat) (c : N) (s : list N) : list N := repeat c (w - length s) ++ s.

  (* __UnPad: a block whose value needs more than unpad_len bytes is refused; otherwise
     dec_bytes[len(dec_bytes) - unpad_len : len(dec_bytes)] with Python's treatment of a
     negative start index (counted from the end, clamped at 0) *)
  Definition unpad (d : list N) (u : nat) : res (list N) :=
    let L := length d in
    guard (length (lstrip 0 d) <=? u)%nat else ValueError ;;
    Ok (if (u <=? L)%nat then skipn (L - u) d else skipn (L - (u - L)) d).

  (* BLOCK_ENC_BYTE_LENS[k] *)
  Definition enc_len (k : nat) : nat := nth k enc_lens 0%nat.

  (* Encode: full blocks, then the (possibly absent) partial block.  [fuel] bounds the number of
     blocks; [encode] supplies enough. *)
  Fixpoint enc_blocks (fuel : nat) (b : list N) : list N :=
    match fuel with
    | O => []
    | S f =>
      if (length b <? dec_max)%nat then
        match b with
        | [] => []
        | _ => rjust (enc_len (length b)) pad_sym (b58enc b)
        end
      else rjust enc_max pad_sym (b58enc (firstn dec_max b)) ++ enc_blocks f (skipn dec_max b)
    end.
  Definition encode (b : list N) : list N := enc_blocks (S (length b)) b.

  (* list.index for the nat table *)
  Fixpoint index_nat (x : nat) (l : list nat) : option nat :=
    match l with
    | [] => None
    | y :: t => if (x =? y)%nat then Some O else option_map S (index_nat x t)
    end.

  Fixpoint dec_blocks (fuel : nat) (last_dec_len : nat) (s : list N) : res (list N) :=
    match fuel with
    | O => Err OutOfFuel
    | S f =>
      if (length s <? enc_max)%nat then
        match s with
        | [] => Ok []
        | _ => d <- b58dec s ;; unpad d last_dec_len
        end
      else
        d <- b58dec (firstn enc_max s) ;;
        blk <- unpad d dec_max ;;
        rest <- dec_blocks f last_dec_len (skipn enc_max s) ;;
        Ok (blk ++ rest)
    end.

  Definition decode (s : list N) : res (list N) :=
    let last_enc_len := (length s mod enc_max)%nat in
    last_dec_len <- of_option (index_nat last_enc_len enc_lens) ValueError ;;
    dec_blocks (S (length s)) last_dec_len s.
End XmrB58.

(* LINK (definitions only): the pipelines that took an address encoder / decoder or a text encoder as a
   Section variable, on the concrete models of those functions.

   - BIP-38 (Model/Bip38.v): [p2pkh : G -> bool -> list N] := P2PKHAddr.EncodeKey of the serialised point
     (Model/AddrB58.v [p2pkh_encode] = Base58Check of Model/Base58.v) under the net version the source looks up
     (Gen/LinkConsts.v), and [utf8] := the RFC 3629 encoder of Model/SubstrateScale.v.
   - Electrum v1 / v2 (Model/ElectrumWallet.v): [p2pkh_u], [addr_p2pkh], [addr_p2wpkh].
   - SPL token (Model/SplToken.v): [sol_decode] := SolAddrDecoder of Model/AddrB58.v, Base58 := Bitcoin alphabet.
   - Brainwallet (Model/Brainwallet.v): [utf8].
   Hash functions, scrypt/PBKDF2, AES, NFC and the EC group with its point serialisations stay Section
   variables. *)
From Coq Require Import NArith ZArith List Bool.
From BU Require Import Base.Exn Base.Radix Base.Bytes Gen.Consts Gen.AddrConsts Gen.AddrTextConsts Gen.SerbipConsts Gen.LinkConsts.
From BU Require Import Model.Base58 Model.AddrUtils Model.AddrB58 Model.AddrText Model.Bech32 Model.SubstrateScale
  Model.Bip38 Model.ElectrumWallet Model.SplToken Model.Brainwallet.
Import ListNotations.
Open Scope N_scope.

Section P2pkh.
  Variables sha256 ripemd160 : list N -> list N.
  Variable G : Type.
  Variables ser_c ser_u : G -> list N.            (* RawCompressed / RawUncompressed of a secp256k1 point *)

  (* P2PKHAddr.EncodeKey(pub, net_ver=..., pub_key_mode=...): Base58Check(net_ver || hash160(serialised key)) *)
  Definition p2pkh_of_point (net_ver : list N) (P : G) (compressed : bool) : list N :=
    p2pkh_encode sha256 ripemd160 b58_alph_btc net_ver (if compressed then ser_c P else ser_u P).

  (* Bip38Addr.AddressHash's address *)
  Definition bip38_p2pkh : G -> bool -> list N := p2pkh_of_point bip38_addr_net_ver.
  (* ElectrumV1.GetAddress's address *)
  Definition electrum_v1_p2pkh (P : G) : list N := p2pkh_of_point electrum_v1_addr_net_ver P electrum_v1_addr_compressed.
End P2pkh.

(* ------------------------------------------------------------------ BIP-38, nothing abstract but the primitives *)
Section Bip38C.
  Variables sha256 ripemd160 : list N -> list N.
  Variable nfc : list N -> list N.
  Variable scrypt : list N -> list N -> N -> N -> N -> N -> list N.
  Variable aes_enc aes_dec : list N -> list N -> list N.
  Variable G : Type.
  Variable base : G.
  Variable smul : N -> G -> G.
  Variables ser_c ser_u : G -> list N.
  Variable deser : list N -> option G.

  Let p2pkh := bip38_p2pkh sha256 ripemd160 G ser_c ser_u.

  Definition bip38c_address_hash := address_hash sha256 G p2pkh.
  Definition bip38c_noec_encrypt :=
    noec_encrypt b58_alph_btc b58_radix b58_cklen sha256 nfc utf8_encode scrypt aes_enc G base smul p2pkh.
  Definition bip38c_noec_decrypt :=
    noec_decrypt b58_alph_btc b58_radix b58_cklen sha256 nfc utf8_encode scrypt aes_dec G base smul p2pkh.
  Definition bip38c_ec_generate :=
    generate_private_key_ec b58_alph_btc b58_radix b58_cklen sha256 nfc utf8_encode scrypt aes_enc G base smul ser_c deser p2pkh.
  Definition bip38c_ec_decrypt :=
    ec_decrypt b58_alph_btc b58_radix b58_cklen sha256 nfc utf8_encode scrypt aes_dec G base smul ser_c p2pkh.
End Bip38C.

(* ------------------------------------------------------------------ Electrum *)
Section ElectrumC.
  Variables sha256 ripemd160 : list N -> list N.
  Variable G : Type.
  Variable base : G.
  Variable smul : N -> G -> G.
  Variable add : G -> G -> G.
  Variable is_inf : G -> bool.
  Variables ser_c ser_u : G -> list N.
  Variable deser : list N -> option G.

  (* ElectrumV1.GetAddress *)
  Definition v1c_get_address :=
    v1_get_address sha256 G base smul add is_inf ser_u (electrum_v1_p2pkh sha256 ripemd160 G ser_c ser_u).

  Variable obj : Type.
  Variable pub_of : obj -> list N.             (* PublicKey().RawCompressed() *)

  (* ElectrumV2Standard.GetAddress: P2PKH of the compressed key (the encoder's default mode) *)
  Definition v2c_std_address (o : res obj) : res (list N) :=
    x <- o ;; Ok (p2pkh_encode sha256 ripemd160 b58_alph_btc electrum_v2_std_addr_net_ver (pub_of x)).
  (* ElectrumV2Segwit.GetAddress: the SegWit encoder is partial, so its result is bound, not wrapped *)
  Definition v2c_segwit_address (o : res obj) : res (list N) :=
    x <- o ;; p2wpkh_encode sha256 ripemd160 segwit_encode electrum_v2_segwit_addr_hrp (pub_of x).
  (* what the two GetAddress results decode to with the library's own decoders *)
  Definition v2c_std_decode (addr : list N) : res (list N) :=
    p2pkh_decode sha256 b58_alph_btc electrum_v2_std_addr_net_ver addr.
  Definition v2c_segwit_decode (addr : list N) : res (list N) :=
    p2wpkh_decode segwit_decode electrum_v2_segwit_addr_hrp addr.
End ElectrumC.

(* ------------------------------------------------------------------ SPL token *)
Section SplC.
  Variable sha256 : list N -> list N.
  Variable on_curve : list N -> bool.          (* Ed25519PublicKey.IsValidBytes: the PDA test and SolAddrDecoder's key test *)

  Definition splc_sol_decode : list N -> res (list N) := sol_decode on_curve.
  Definition splc_find_pda := find_pda b58_alph_btc b58_radix sha256 on_curve splc_sol_decode.
  Definition splc_get_ata_with_program := get_ata_with_program b58_alph_btc b58_radix sha256 on_curve splc_sol_decode.
  Definition splc_get_ata := get_ata b58_alph_btc b58_radix sha256 on_curve splc_sol_decode.
End SplC.

(* ------------------------------------------------------------------ Brainwallet *)
Definition bwc_compute sha256 pbkdf2 scrypt := bw_compute sha256 pbkdf2 scrypt utf8_encode.
Definition bwc_generate sha256 pbkdf2 scrypt priv_ok := bw_generate sha256 pbkdf2 scrypt utf8_encode priv_ok.

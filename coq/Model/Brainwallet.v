(* bip_utils/brainwallet/*.py : the private key is the selected hash / KDF of the passphrase. *)
From Coq Require Import NArith List Bool.
From BU Require Import Base.Exn Base.Bytes Gen.SerbipConsts.
Import ListNotations.
Open Scope N_scope.

(* BrainwalletAlgos member + the keyword parameters given (None = not given -> the default) *)
Inductive bw_algo :=
| BwSha256
| BwDoubleSha256
| BwPbkdf2 (salt : list N) (itr_num : option N)
| BwScrypt (salt : list N) (n r p : option N).

Definition opt_or {A} (o : option A) (d : A) : A := match o with Some x => x | None => d end.

Section Brainwallet.
  Variable sha256 : list N -> list N.
  Variable pbkdf2_sha512 : list N -> list N -> N -> N -> list N.        (* password salt iterations dklen *)
  Variable scrypt : list N -> list N -> N -> N -> N -> N -> list N.     (* password salt n r p dklen *)
  Variable utf8 : list N -> res (list N).
  Variable priv_ok : list N -> bool.      (* the coin's Bip44.FromPrivateKey accepts the bytes *)

  (* BrainwalletAlgo*.ComputePrivateKey *)
  Definition bw_compute (a : bw_algo) (passphrase : list N) : res (list N) :=
    pw <- utf8 passphrase ;;
    Ok (match a with
        | BwSha256 => sha256 pw
        | BwDoubleSha256 => sha256 (sha256 pw)
        | BwPbkdf2 salt itr => pbkdf2_sha512 pw salt (opt_or itr bw_pbkdf2_def_itr) bw_pbkdf2_key_len
        | BwScrypt salt n r p =>
            scrypt pw salt (opt_or n bw_scrypt_def_n) (opt_or r bw_scrypt_def_r) (opt_or p bw_scrypt_def_p)
                   bw_scrypt_key_len
        end).

  (* Brainwallet.Generate(...).PrivateKey().Raw() *)
  Definition bw_generate (a : bw_algo) (passphrase : list N) : res (list N) :=
    k <- bw_compute a passphrase ;;
    if priv_ok k then Ok k else Err (LibError Bip32KeyError).
End Brainwallet.

(* bip_utils/addr/addr_dec_utils.py helpers, hex strings, ASCII case mapping. *)
From Coq Require Import NArith Arith List Bool.
From BU Require Import Base.Exn Base.Bytes.
Import ListNotations.
Open Scope N_scope.

(* AddrDecUtils.ValidateAndRemovePrefix *)
Definition validate_and_remove_prefix (addr prefix : list N) : res (list N) :=
  if list_eqb (firstn (length prefix) addr) prefix
  then Ok (skipn (length prefix) addr) else Err ValueError.

(* AddrDecUtils.ValidateLength *)
Definition validate_length (a : list N) (n : nat) : res unit :=
  if (length a =? n)%nat then Ok tt else Err ValueError.

(* AddrDecUtils.SplitPartsByChecksum, checksum at the end.  Only ever called with a positive
   constant length (for k = 0 Python's addr[-0:] would be the whole string). *)
Definition split_by_checksum (a : list N) (k : nat) : list N * list N :=
  (drop_last k a, take_last k a).

(* AddrDecUtils.ValidateChecksum *)
Definition validate_checksum (payload ck : list N) (f : list N -> list N) : res unit :=
  if list_eqb ck (f payload) then Ok tt else Err ValueError.

(* Base58ChecksumError is re-raised as ValueError by the address decoders *)
Definition checksum_to_value_error {A} (r : res A) : res A :=
  match r with
  | inr (LibError Base58ChecksumError) => Err ValueError
  | inr (LibError Bech32ChecksumError) => Err ValueError
  | inr (LibError SS58ChecksumError) => Err ValueError
  | _ => r
  end.

(* ---- hex: BytesUtils.ToHexString (binascii.hexlify, lower case) / FromHexString (unhexlify) *)
Definition hex_digit (d : N) : N := if d <? 10 then 48 + d else 87 + d.
Definition to_hex (b : list N) : list N :=
  flat_map (fun x => [hex_digit (x / 16); hex_digit (x mod 16)]) b.

Definition hex_val (c : N) : option N :=
  if (48 <=? c) && (c <=? 57) then Some (c - 48)
  else if (97 <=? c) && (c <=? 102) then Some (c - 87)
  else if (65 <=? c) && (c <=? 70) then Some (c - 55)
  else None.

(* unhexlify: odd length or a non-hex symbol -> binascii.Error (a ValueError).  A str argument is
   UTF-8 encoded first; any non-ASCII code point yields non-hex bytes, a lone surrogate a
   UnicodeEncodeError -- all ValueError. *)
Fixpoint from_hex (s : list N) : res (list N) :=
  match s with
  | [] => Ok []
  | [_] => Err ValueError
  | a :: b :: t =>
    match hex_val a, hex_val b with
    | Some x, Some y => rmap (cons (16 * x + y)) (from_hex t)
    | _, _ => Err ValueError
    end
  end.

Definition is_hex_char (c : N) : bool := match hex_val c with Some _ => true | None => false end.

(* ---- ASCII case mapping (str.lower / str.upper restricted to ASCII input) *)
Definition ascii_lower (c : N) : N := if (65 <=? c) && (c <=? 90) then c + 32 else c.
Definition ascii_upper (c : N) : N := if (97 <=? c) && (c <=? 122) then c - 32 else c.

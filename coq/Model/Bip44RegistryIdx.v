(* C07: look-up of a coin's SLIP-44 index in the committed registry snapshot (Lemmas/Registry.v holds the
   table: definitions only).  Kept apart from the lemma that compares it with the regenerated rows
   (Lemmas/Bip44Registry.v), so that the extracted model still has the registry when that lemma fails. *)
From Coq Require Import NArith List Bool.
From BU Require Import Base.Bytes Model.Coins Lemmas.Registry.
Import ListNotations.
Open Scope N_scope.

Definition registry_coin_idx (hid : N) (member : list N) : option N :=
  match find (fun c => (family_code (c_family c) =? hid) && list_eqb (c_member c) member) golden with
  | Some c => match c_body c with CBip b => Some (b_coin_idx b) | _ => None end
  | None => None
  end.

Definition row_matches_registry (r : N * list N * N * bool * list N * bool) : bool :=
  let '(hid, member, idx, _, _, _) := r in
  match registry_coin_idx hid member with Some i => i =? idx | None => false end.

(* bip_utils/ecc/ed25519/lib/ed25519_lib.py -- the in-repo pure-Python ed25519 helper library,
   modelled concretely over Z (Python ints; _D is a negative, unreduced integer in the source).

   What the library computes itself (int_encode/int_decode, point_decode_no_check, point_decode,
   point_encode, point_is_on_curve, point_is_generator, scalar_is_valid, _x_recover) is transcribed
   exactly.  What it delegates to libsodium through nacl.bindings (point_add, point_scalar_mul,
   point_scalar_mul_base, scalar_reduce) is modelled by its published meaning: the twisted Edwards
   addition formula, double-and-add, reduction modulo the group order -- together with libsodium's
   acceptance rules as observed (see the comments at each function).  No group law is claimed anywhere.

   Constants are Section variables; they are instantiated with coq/Gen/Ecc.v (regenerated from the
   source on every run) in Extract/Api_ecc.v and Props/C12.v. *)
From Coq Require Import NArith ZArith List Bool.
From BU Require Import Base.Exn Base.Radix Base.Bytes.
Import ListNotations.
Open Scope Z_scope.

Definition zpt := (Z * Z)%type.

(* pow(b, e, m) for e >= 0, m > 0: square-and-multiply, by binary recursion on the exponent *)
Fixpoint powmod_pos (b : Z) (e : positive) (m : Z) : Z :=
  match e with
  | xH => b mod m
  | xO e' => let r := powmod_pos b e' m in (r * r) mod m
  | xI e' => let r := powmod_pos b e' m in ((r * r) mod m * b) mod m
  end.
Definition powmod (b e m : Z) : Z :=
  match e with
  | Z0 => 1 mod m
  | Zpos p => powmod_pos b p m
  | Zneg _ => 0            (* never called with a negative exponent *)
  end.

(* nacl.exceptions.RuntimeError ("Unexpected library error": libsodium returned -1): not a ValueError *)
Definition SodiumError : exn := Foreign 2.

Definition zpt_eqb (P Q : zpt) : bool := (fst P =? fst Q) && (snd P =? snd Q).

Section Ed25519Lib.
  Variables (q l d sqrtm1 : Z).              (* _Q _L _D _I *)
  Variable g : zpt.                           (* _G *)
  Variables (g_dec g_enc : list N).           (* _G_DEC_BYTES _G_ENC_BYTES *)
  Variable clen : nat.                        (* _COORD_BYTE_LEN *)
  Variables (clamp sign_bit : Z).             (* (1 << 255) - 1, 1 << 255 in point_decode_no_check *)
  Variable sign_byte : N.                     (* 0x80 in point_encode *)

  (* _inv *)
  Definition inv (x : Z) : Z := powmod x (q - 2) q.

  (* _x_recover *)
  Definition x_recover (y : Z) : Z :=
    let xx := (y * y - 1) * inv (d * y * y + 1) in
    let x := powmod xx ((q + 3) / 8) q in
    let x := if ((x * x - xx) mod q =? 0) then x else (x * sqrtm1) mod q in
    if (x mod 2 =? 0) then x else q - x.

  (* int_decode / int_encode *)
  Definition int_decode (b : list N) : Z := Z.of_N (le_to_int b).
  Definition int_encode (v : Z) : res (list N) :=
    if v <? 0 then Err OverflowError else int_to_le_fixed clen (Z.to_N v).

  Definition point_is_decoded_bytes (b : list N) : bool := Nat.eqb (length b) (clen * 2).
  Definition point_is_encoded_bytes (b : list N) : bool := Nat.eqb (length b) clen.
  Definition point_is_valid_bytes (b : list N) : bool :=
    point_is_decoded_bytes b || point_is_encoded_bytes b.

  (* point_is_on_curve, coordinate form *)
  Definition on_curve (P : zpt) : bool :=
    let '(x, y) := P in
    ((- x * x + y * y - 1 - d * x * x * y * y) mod q =? 0).

  (* point_coord_to_bytes *)
  Definition point_coord_to_bytes (P : zpt) : res (list N) :=
    xb <- int_encode (fst P) ;; yb <- int_encode (snd P) ;; Ok (xb ++ yb).

  (* y_bytes[len(y_bytes) - 1] |= mask *)
  Definition or_last (m : N) (b : list N) : res (list N) :=
    match rev b with
    | [] => Err IndexError
    | h :: t => Ok (rev t ++ [N.lor h m])
    end.

  (* point_encode *)
  Definition point_encode (P : zpt) : res (list N) :=
    pb <- point_coord_to_bytes P ;;
    let yb := skipn clen pb in
    x0 <- of_option (nth_error pb 0) IndexError ;;
    if N.odd x0 then or_last sign_byte yb else Ok yb.

  (* point_is_generator: bytes and coordinate forms *)
  Definition point_is_generator_bytes (b : list N) : res bool :=
    if point_is_encoded_bytes b then Ok (list_eqb b g_enc)
    else if point_is_decoded_bytes b then Ok (list_eqb b g_dec)
    else Err ValueError.
  Definition point_is_generator_coord (P : zpt) : bool := zpt_eqb P g.

  (* scalar_is_valid: bytes and int forms *)
  Definition scalar_is_valid_bytes (b : list N) : bool := int_decode b <? l.
  Definition scalar_is_valid_int (s : Z) : bool := s <? l.

  (* ---- everything that goes through _x_recover is parametrised by it, so that the decoding theorems can
          take its number-theoretic correctness as a hypothesis and the adapter-level correspondence can
          run with a reference square root; the library itself is the instance [xrec := x_recover]. *)
  Section WithXrec.
    Variable xrec : Z -> Z.

    (* point_decode_no_check *)
    Definition point_decode_no_check (b : list N) : res zpt :=
      if negb (point_is_encoded_bytes b) then Err ValueError else
      let point_int := int_decode b in
      let y := Z.land point_int clamp in
      let x := xrec y in
      let x := if Bool.eqb (Z.odd x) (negb (Z.land point_int sign_bit =? 0)) then x else q - x in
      Ok (x, y).

    (* point_bytes_to_coord *)
    Definition point_bytes_to_coord (b : list N) : res zpt :=
      if point_is_decoded_bytes b then Ok (int_decode (firstn clen b), int_decode (skipn clen b))
      else if point_is_encoded_bytes b then point_decode_no_check b
      else Err ValueError.

    (* point_decode *)
    Definition point_decode (b : list N) : res zpt :=
      P <- point_decode_no_check b ;;
      if on_curve P then Ok P else Err ValueError.

    (* point_is_on_curve, bytes form *)
    Definition point_is_on_curve_bytes (b : list N) : res bool :=
      P <- point_bytes_to_coord b ;; Ok (on_curve P).

    (* ---- delegated to libsodium: modelled by meaning ---- *)

    (* twisted Edwards addition (a = -1):
       x3 = (x1 y2 + x2 y1) / (1 + d x1 x2 y1 y2),  y3 = (y1 y2 + x1 x2) / (1 - d x1 x2 y1 y2) *)
    Definition ed_add (P Q : zpt) : zpt :=
      let '(x1, y1) := P in let '(x2, y2) := Q in
      let t := (d * x1 * x2 * y1 * y2) mod q in
      (((x1 * y2 + x2 * y1) * inv (1 + t)) mod q, ((y1 * y2 + x1 * x2) * inv (1 - t)) mod q).

    Definition ed_zero : zpt := (0, 1).

    (* double-and-add, most significant bit first *)
    Fixpoint ed_smul_pos (e : positive) (P : zpt) : zpt :=
      match e with
      | xH => (fst P mod q, snd P mod q)
      | xO e' => let R := ed_smul_pos e' P in ed_add R R
      | xI e' => let R := ed_smul_pos e' P in ed_add (ed_add R R) P
      end.
    Definition ed_smul (s : Z) (P : zpt) : zpt :=
      match s with Zpos e => ed_smul_pos e P | _ => ed_zero end.

    (* libsodium ge25519_frombytes + ge25519_is_on_curve: lenient decoding (a y >= p is taken modulo p, the
       sign bit of x = 0 is ignored), failure is nacl's RuntimeError *)
    Definition sodium_point (b : list N) : res zpt :=
      P <- point_decode_no_check b ;;
      if on_curve P then Ok P else Err SodiumError.

    (* point_add on encoded points (crypto_core_ed25519_add); a coordinate argument is point_encode'd first.
       nacl checks both lengths first (nacl.exceptions.TypeError, a TypeError). *)
    Definition point_add (b1 b2 : list N) : res (list N) :=
      if negb (point_is_encoded_bytes b1 && point_is_encoded_bytes b2) then Err TypeError else
      P1 <- sodium_point b1 ;; P2 <- sodium_point b2 ;;
      point_encode (ed_add P1 P2).

    (* l * P = identity; computing it by the affine formulas above would cost minutes per call in the
       extracted model, so it is an oracle (harness: ecref) *)
    Variable in_prime_subgroup : zpt -> bool.

    (* crypto_scalarmult_ed25519_noclamp(n, p), as libsodium 1.0.18+ behaves (observed, and in its source):
       p must be canonical (y < q), on the curve, in the prime-order subgroup and not the identity;
       bit 255 of the scalar is CLEARED (t[31] &= 127); a zero scalar or an identity result is an error.
       The library maps every such nacl RuntimeError to ValueError (try/except in point_scalar_mul[_base]). *)
    Definition point_scalar_mul_bytes (sb pb : list N) : res (list N) :=
      if negb (point_is_encoded_bytes sb && point_is_encoded_bytes pb) then Err TypeError else
      P <- point_decode_no_check pb ;;
      if negb ((snd P <? q) && on_curve P && in_prime_subgroup P
               && negb (zpt_eqb (fst P mod q, snd P mod q) ed_zero)) then Err ValueError else
      let s := int_decode sb in
      let R := ed_smul (Z.land s clamp) P in
      if zpt_eqb R ed_zero || (s =? 0) then Err ValueError else point_encode R.
    (* point_scalar_mul with an int scalar *)
    Definition point_scalar_mul_int (s : Z) (pb : list N) : res (list N) :=
      sb <- int_encode s ;; point_scalar_mul_bytes sb pb.

    (* crypto_scalarmult_ed25519_base_noclamp *)
    Definition point_scalar_mul_base_bytes (sb : list N) : res (list N) :=
      if negb (point_is_encoded_bytes sb) then Err TypeError else
      let s := int_decode sb in
      let R := ed_smul (Z.land s clamp) g in
      if zpt_eqb R ed_zero || (s =? 0) then Err ValueError else point_encode R.
    Definition point_scalar_mul_base_int (s : Z) : res (list N) :=
      sb <- int_encode s ;; point_scalar_mul_base_bytes sb.
  End WithXrec.

  (* scalar_reduce: crypto_core_ed25519_scalar_reduce(scalar.ljust(64, b"\0")) *)
  Definition scalar_reduce_bytes (b : list N) : res (list N) :=
    let b' := b ++ repeat 0%N (clen * 2 - length b) in
    if negb (Nat.eqb (length b') (clen * 2)) then Err TypeError else
    int_to_le_fixed clen (Z.to_N (int_decode b' mod l)).
  Definition scalar_reduce_int (s : Z) : res (list N) :=
    sb <- int_encode s ;; scalar_reduce_bytes sb.
End Ed25519Lib.

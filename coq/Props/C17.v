(* C17 -- Monero/Algorand/Electrum mnemonics are canonical codecs with sound checksums.
   Statements only; every proof is [exact <lemma>] (plus trivial intros / case splits) with
   Print Assumptions beneath.

   Conventions.  A word is its list of code points, a mnemonic the word list held by the library's
   Mnemonic object, a language its position in the scheme's language enum (Gen/MnemLangs.v).
   For each scheme the decoder the PROPERTY demands is the main model; the code as it stands is the
   [_current] variant.  Where they differ the difference is a recorded finding (F8, F9, F10), shown here
   by a [_refuted] witness and characterised exactly. *)
From Coq Require Import NArith List.
From BU Require Import Base.Exn Base.Radix Base.Bytes Model.MnemWords Model.MnemText Model.ChunkMnemonic
  Model.MoneroMnemonic Model.AlgorandMnemonic Model.ElectrumV1Mnemonic Model.ElectrumV2Mnemonic.
From BU Require Import Gen.MnemConsts Gen.MnemLangs Gen.WlMnem_Ev1 Gen.WlMnem_Xmr_english Gen.WlMnem_B39_english.
From BU Require Lemmas.MnemC17 Lemmas.MnemWitness Lemmas.MnemText Lemmas.MoneroMnemonic.
Import ListNotations.
Open Scope N_scope.

(* ================================================================ 4 bytes <-> 3 words ========= *)

(* the ten Monero lists and the Electrum v1 list *)
Definition chunk_lists : list (list (list N)) := map (@fst _ _) xmr_langs ++ [wl_ev1].

(* integers: every x < 2^32 is recovered from its three indices (uses 1626^3 > 2^32) *)
Theorem chunk_dec_enc : forall x w1 w2 w3, x < 2 ^ 32 ->
  chunk_to_idx xmr_words_num x = (w1, w2, w3) -> packed xmr_words_num w1 w2 w3 = x.
Proof. exact Lemmas.MnemC17.c17_packed_chunk. Qed.
Print Assumptions chunk_dec_enc.

(* bytes and words, both endiannesses, every list: BytesChunkToWords never fails and both decoders
   (the conformant one and the code as it stands) return the chunk *)
Theorem chunk_dec_enc_bytes : forall wl e x, In wl chunk_lists -> bytes_ok x -> length x = 4%nat ->
  exists a b c, bytes_chunk_to_words wl e x = Ok [a; b; c] /\
                words_to_chunk wl e a b c = Ok x /\ words_to_chunk_current wl e a b c = Ok x.
Proof. intros wl e x H. exact (Lemmas.MnemC17.c17_chunk_dec_enc wl H e x). Qed.
Print Assumptions chunk_dec_enc_bytes.

(* every index triple is recovered from its packed value (all triples, also those above 2^32) *)
Theorem chunk_enc_dec : forall w1 w2 w3,
  w1 < xmr_words_num -> w2 < xmr_words_num -> w3 < xmr_words_num ->
  chunk_to_idx xmr_words_num (packed xmr_words_num w1 w2 w3) = (w1, w2, w3).
Proof. exact Lemmas.MnemC17.c17_chunk_packed. Qed.
Print Assumptions chunk_enc_dec.

(* accepted_is_canonical for the conformant chunk decoder: 4 bytes that re-encode to the same words *)
Theorem chunk_accepted_is_canonical : forall wl e a b c x, In wl chunk_lists ->
  words_to_chunk wl e a b c = Ok x ->
  bytes_ok x /\ length x = 4%nat /\ bytes_chunk_to_words wl e x = Ok [a; b; c].
Proof. intros wl e a b c x H. exact (Lemmas.MnemC17.c17_chunk_canonical wl H e a b c x). Qed.
Print Assumptions chunk_accepted_is_canonical.

(* F8.  Full-strength statement, FALSE of the code as it stands:
     forall wl e a b c x, words_to_chunk_current wl e a b c = Ok x -> length x = 4.
   Witness: word indices (0, 0, 1625) of the Monero English list decode to the 5 bytes 04 50 14 00 01. *)
Theorem chunk_canonical_refuted :
  exists wl e a b c x, In wl chunk_lists /\ In a wl /\ In b wl /\ In c wl /\
    words_to_chunk_current wl e a b c = Ok x /\ length x = 5%nat /\
    words_to_chunk wl e a b c = Err ValueError.
Proof. exact Lemmas.MnemC17.c17_chunk_canonical_refuted. Qed.
Print Assumptions chunk_canonical_refuted.

(* ... and what does hold of the code as it stands: it accepts exactly the triples of list words, the
   bytes returned always carry the packed value, and they are 4 bytes exactly when it is below 2^32 *)
Theorem chunk_current_partial : forall wl e a b c, In wl chunk_lists ->
  (In a wl /\ In b wl /\ In c wl <-> exists x, words_to_chunk_current wl e a b c = Ok x) /\
  (forall x, words_to_chunk_current wl e a b c = Ok x ->
     exists v, words_packed wl a b c = Ok v /\ bytes_to_int e x = v /\
               (length x = 4%nat <-> v < 2 ^ 32) /\ (4 <= length x)%nat).
Proof. intros wl e a b c H. exact (Lemmas.MnemC17.c17_chunk_current wl H e a b c). Qed.
Print Assumptions chunk_current_partial.

(* the overflow class exactly (n = 1626): with d1 = (w2 - w1) mod n, d2 = (w3 - w2) mod n,
   packed >= 2^32  <->  d2 = 1625, or d2 = 1624 and (d1 >= 808 or d1 = 807 and w1 >= 490) *)
Theorem chunk_overflow_iff : forall w1 w2 w3,
  w1 < xmr_words_num -> w2 < xmr_words_num -> w3 < xmr_words_num ->
  let d1 := sub_mod xmr_words_num w2 w1 in
  let d2 := sub_mod xmr_words_num w3 w2 in
  (2 ^ 32 <= packed xmr_words_num w1 w2 w3 <->
   d2 = 1625 \/ (d2 = 1624 /\ (808 <= d1 \/ (d1 = 807 /\ 490 <= w1)))).
Proof. exact Lemmas.MnemWitness.packed_overflow_iff. Qed.
Print Assumptions chunk_overflow_iff.

(* ================================================================ Monero ===================== *)

Definition xmr_encode := MoneroMnemonic.encode xmr_langs xmr_entropy_bit_lens.
Definition xmr_decode := MoneroMnemonic.decode xmr_langs xmr_word_nums xmr_word_nums_chk words_to_chunk.
Definition xmr_decode_current :=
  MoneroMnemonic.decode xmr_langs xmr_word_nums xmr_word_nums_chk words_to_chunk_current.
Definition xmr_decoder (conformant : bool) := if conformant then xmr_decode else xmr_decode_current.

(* decode(encode(e)) = e: every language (10), both entropy sizes (16/32 bytes -> 12/24 words, with checksum
   13/25), decoder constructed for the same language; holds for the conformant decoder and for the code as
   it stands.  CRC-32 and UTF-8 are the concrete models of Model/MnemText.v: no hypothesis. *)
Theorem monero_dec_enc : forall conformant lang L with_chk b,
  nth_error xmr_langs lang = Some L -> bytes_ok b -> (length b = 16 \/ length b = 32)%nat ->
  exists ws, xmr_encode lang with_chk b = Ok ws /\
    length ws = (3 * Nat.div (length b) 4 + (if with_chk then 1 else 0))%nat /\
    Forall (fun w => In w (fst L)) ws /\
    xmr_decoder conformant (Some lang) ws = Ok b.
Proof.
  intros conformant lang L with_chk b HL Hb Hlen.
  apply Lemmas.MnemConstsOk.xmr_ent_spec in Hlen.
  destruct conformant.
  - exact (Lemmas.MnemC17.xmr_dec_enc words_to_chunk lang L with_chk b (or_introl eq_refl) HL Hb Hlen).
  - exact (Lemmas.MnemC17.xmr_dec_enc words_to_chunk_current lang L with_chk b (or_intror eq_refl) HL Hb Hlen).
Qed.
Print Assumptions monero_dec_enc.

Example monero_dec_enc_premises :
  exists L, nth_error xmr_langs 6 = Some L /\ bytes_ok (map N.of_nat (seq 1 32)) /\
            length (map N.of_nat (seq 1 32)) = 32%nat.
Proof. eexists. split; [reflexivity|]. split; [|reflexivity]. apply bytes_okb_spec. reflexivity. Qed.
Print Assumptions monero_dec_enc_premises.

(* automatic language detection (decoder constructed without language, the default): the round trip holds
   when no EARLIER language contains all the words of the phrase ... *)
Theorem monero_dec_enc_auto_partial : forall conformant lang L with_chk b ws,
  nth_error xmr_langs lang = Some L -> bytes_ok b -> (length b = 16 \/ length b = 32)%nat ->
  xmr_encode lang with_chk b = Ok ws ->
  (forall j L', (j < lang)%nat -> nth_error xmr_langs j = Some L' -> ~ Forall (fun w => In w (fst L')) ws) ->
  xmr_decoder conformant None ws = Ok b.
Proof.
  intros conformant lang L with_chk b ws HL Hb Hlen E Hfirst.
  apply Lemmas.MnemConstsOk.xmr_ent_spec in Hlen.
  destruct conformant.
  - exact (Lemmas.MnemC17.xmr_dec_enc_auto words_to_chunk lang L with_chk b ws (or_introl eq_refl) HL Hb Hlen E Hfirst).
  - exact (Lemmas.MnemC17.xmr_dec_enc_auto words_to_chunk_current lang L with_chk b ws (or_intror eq_refl) HL Hb Hlen E Hfirst).
Qed.
Print Assumptions monero_dec_enc_auto_partial.

(* ... and fails otherwise.  Full-strength statement, FALSE:
     forall lang b ws, xmr_encode lang chk b = Ok ws -> xmr_decode None ws = Ok b.
   Witness: French (3) entropy 1f000000 x 4 -> "affaire" x 12, also Dutch (1) words: decoded to 13000000 x 4. *)
Theorem monero_dec_enc_auto_refuted :
  exists lang b ws b', bytes_ok b /\ length b = 16%nat /\
    xmr_encode lang false b = Ok ws /\ xmr_decode (Some lang) ws = Ok b /\
    xmr_decode None ws = Ok b' /\ xmr_decode_current None ws = Ok b' /\ b' <> b.
Proof.
  pose proof Lemmas.MnemWitness.monero_auto_witness as W. cbv zeta in W.
  destruct W as (ws & b' & W). exists 3%nat, (concat (repeat [31; 0; 0; 0] 4)), ws, b'.
  split; [apply bytes_okb_spec; reflexivity|]. split; [reflexivity|]. exact W.
Qed.
Print Assumptions monero_dec_enc_auto_refuted.

(* a phrase is accepted (decoder for language [lang]) iff its word count is legal, its words belong to the
   list, its checksum word verifies (13/25 words) -- and, for the conformant decoder, every triple packs
   below 2^32.  [conformant = false] is the code as it stands: literally the property's acceptance clause. *)
Theorem monero_accepts_iff : forall conformant lang L ws, nth_error xmr_langs lang = Some L ->
  ((exists b, xmr_decoder conformant (Some lang) ws = Ok b) <->
   (In (N.of_nat (length ws)) xmr_word_nums /\
    Forall (fun w => In w (fst L)) ws /\
    (In (N.of_nat (length ws)) xmr_word_nums_chk ->
       compute_checksum (snd L) (removelast ws) = Ok (last ws [])) /\
    (conformant = true ->
       Forall (fun g => match g with
                        | [a; b; c] => exists v, words_packed (fst L) a b c = Ok v /\ v < 2 ^ 32
                        | _ => False end)
              (groups 3 (Nat.div (length ws) 3) ws)))).
Proof. exact Lemmas.MnemC17.xmr_accepts_iff_explicit. Qed.
Print Assumptions monero_accepts_iff.

(* failures stay in the documented family *)
Theorem monero_decode_errors : forall conformant lang L ws e, nth_error xmr_langs lang = Some L ->
  xmr_decoder conformant (Some lang) ws = Err e ->
  e = ValueError \/ e = UnicodeError \/ e = LibError MnemonicChecksumError.
Proof.
  intros conformant lang L ws e HL H.
  apply (Lemmas.MnemC17.xmr_decode_err_family conformant lang L ws e HL). destruct conformant; exact H.
Qed.
Print Assumptions monero_decode_errors.

(* every phrase the conformant decoder accepts is canonical: its entropy has a defined size and
   re-encodes to the phrase *)
Theorem monero_accepted_is_canonical : forall lang L ws b, nth_error xmr_langs lang = Some L ->
  xmr_decode (Some lang) ws = Ok b ->
  (length b = 16 \/ length b = 32)%nat /\ bytes_ok b /\
  xmr_encode lang (memb (N.of_nat (length ws)) xmr_word_nums_chk) b = Ok ws.
Proof. exact Lemmas.MnemC17.xmr_accepted_is_canonical. Qed.
Print Assumptions monero_accepted_is_canonical.

(* F8 at phrase level.  Full-strength statement, FALSE of the code as it stands:
     xmr_decode_current (Some lang) ws = Ok b -> length b = 16 \/ length b = 32.
   Witness: 12 English words (indices 0 0 1625 0 0 0 0 0 0 0 0 0) decode to 17 bytes. *)
Theorem monero_canonical_refuted :
  exists ws b, length ws = 12%nat /\ Forall (fun w => In w wl_xmr_english) ws /\
    xmr_decode_current (Some 2%nat) ws = Ok b /\ length b = 17%nat /\
    xmr_decode (Some 2%nat) ws = Err ValueError.
Proof. exact Lemmas.MnemWitness.monero_17_bytes_witness. Qed.
Print Assumptions monero_canonical_refuted.

(* ================================================================ Algorand =================== *)
(* SHA-512/256 is an oracle: any function [sha] with 32-byte outputs.  The decoder's default language
   (English, the only Algorand language) is modelled. *)

Definition algo_encode sha := AlgorandMnemonic.encode algo_wl algo_cklen algo_entropy_bit_lens algo_word_bits sha.
(* [algo_decode sha true]: property-conformant (the 33rd regrouped byte must be zero);
   [algo_decode sha false]: the code as it stands (F9) *)
Definition algo_decode sha := AlgorandMnemonic.decode algo_wl algo_word_nums algo_cklen algo_word_bits sha.
Definition algo_checksum_idx sha := AlgorandMnemonic.checksum_idx algo_cklen algo_word_bits sha.
Definition sha_law (sha : list N -> list N) : Prop :=
  (forall x, length (sha x) = 32%nat) /\ (forall x, bytes_ok (sha x)).

Theorem algorand_dec_enc : forall sha conformant b, sha_law sha -> bytes_ok b -> length b = 32%nat ->
  exists ws, algo_encode sha b = Ok ws /\ length ws = 25%nat /\ Forall (fun w => In w algo_wl) ws /\
             algo_decode sha conformant ws = Ok b.
Proof. intros sha conformant b [H1 H2]. exact (Lemmas.MnemC17.algo_dec_enc sha H1 H2 conformant b). Qed.
Print Assumptions algorand_dec_enc.

Example algorand_premises : sha_law (fun _ => repeat 7 32) /\ bytes_ok (repeat 255 32) /\ length (repeat 255 32) = 32%nat.
Proof.
  split; [split; intros; [reflexivity|apply bytes_okb_spec; reflexivity]|].
  split; [apply bytes_okb_spec; reflexivity|reflexivity].
Qed.
Print Assumptions algorand_premises.

(* a phrase is accepted iff it has 25 list words and its 25th word is the checksum word of the entropy carried by
   the first 24 (their 11-bit little-endian value, low 256 bits) -- and, for the conformant decoder, the bits above
   bit 255 are zero, i.e. the 24th word's index is below 8 *)
Theorem algorand_accepts_iff : forall sha conformant ws, sha_law sha ->
  ((exists b, algo_decode sha conformant ws = Ok b) <->
   (length ws = 25%nat /\ Forall (fun w => In w algo_wl) ws /\
    exists idx, mapM (word_idx algo_wl) ws = Ok idx /\
      (conformant = true -> nth 23 idx 0 < 8) /\
      exists b, int_to_le_fixed 32 (from_le 2048 (removelast idx) mod 2 ^ 256) = Ok b /\
                algo_checksum_idx sha b = Ok (last idx 0))).
Proof. intros sha conformant ws [H1 H2]. exact (Lemmas.MnemC17.algo_accepts_iff sha H1 H2 conformant ws). Qed.
Print Assumptions algorand_accepts_iff.

Theorem algorand_decode_errors : forall sha conformant ws e, sha_law sha ->
  algo_decode sha conformant ws = Err e -> e = ValueError \/ e = LibError MnemonicChecksumError.
Proof. intros sha conformant ws e [H1 H2]. exact (Lemmas.MnemC17.algo_decode_err_family sha H1 H2 conformant ws e). Qed.
Print Assumptions algorand_decode_errors.

Theorem algorand_accepted_is_canonical : forall sha ws b, sha_law sha ->
  algo_decode sha true ws = Ok b -> bytes_ok b /\ length b = 32%nat /\ algo_encode sha b = Ok ws.
Proof. intros sha ws b [H1 H2]. exact (Lemmas.MnemC17.algo_accepted_is_canonical sha H1 H2 ws b). Qed.
Print Assumptions algorand_accepted_is_canonical.

(* F9.  Full-strength statement, FALSE of the code as it stands:
     algo_decode sha false ws = Ok b -> algo_encode sha b = Ok ws.
   For EVERY entropy and every k in 1..255, replacing the 24th word (index i < 8) of the encoding by the word
   of index i + 8k gives a different phrase that the code decodes to the same entropy. *)
Theorem algorand_f9_family : forall sha b k, sha_law sha -> bytes_ok b -> length b = 32%nat -> 0 < k < 256 ->
  exists pre w23 wc i23 w23',
    algo_encode sha b = Ok (pre ++ [w23; wc]) /\ length pre = 23%nat /\
    word_idx algo_wl w23 = Ok i23 /\ i23 < 8 /\ word_at algo_wl (i23 + 8 * k) = Ok w23' /\ w23' <> w23 /\
    algo_decode sha false (pre ++ [w23'; wc]) = Ok b /\
    algo_decode sha true (pre ++ [w23'; wc]) = Err ValueError.
Proof. intros sha b k [H1 H2]. exact (Lemmas.MnemC17.algo_f9_family sha H1 H2 b k). Qed.
Print Assumptions algorand_f9_family.

Theorem algorand_canonical_refuted : forall sha, sha_law sha ->
  exists ws b, algo_decode sha false ws = Ok b /\ algo_encode sha b <> Ok ws /\
               algo_decode sha true ws = Err ValueError.
Proof. intros sha [H1 H2]. exact (Lemmas.MnemC17.algo_canonical_refuted sha H1 H2). Qed.
Print Assumptions algorand_canonical_refuted.

(* ================================================================ Electrum v1 ================ *)
(* the chunk codec, big endian, over the scheme's own 1626-word list: 16 bytes <-> 12 words, no checksum *)

Definition ev1_encode := ElectrumV1Mnemonic.encode wl_ev1 ev1_entropy_bit_lens.
Definition ev1_decode := ElectrumV1Mnemonic.decode wl_ev1 ev1_word_nums words_to_chunk.
Definition ev1_decode_current := ElectrumV1Mnemonic.decode wl_ev1 ev1_word_nums words_to_chunk_current.
Definition ev1_decoder (conformant : bool) := if conformant then ev1_decode else ev1_decode_current.

Theorem electrum_v1_dec_enc : forall conformant b, bytes_ok b -> length b = 16%nat ->
  exists ws, ev1_encode b = Ok ws /\ length ws = 12%nat /\ Forall (fun w => In w wl_ev1) ws /\
             ev1_decoder conformant ws = Ok b.
Proof.
  intros [|] b.
  - exact (Lemmas.MnemC17.ev1_dec_enc words_to_chunk b (or_introl eq_refl)).
  - exact (Lemmas.MnemC17.ev1_dec_enc words_to_chunk_current b (or_intror eq_refl)).
Qed.
Print Assumptions electrum_v1_dec_enc.

Example electrum_v1_premises : bytes_ok (repeat 255 16) /\ length (repeat 255 16) = 16%nat.
Proof. split; [apply bytes_okb_spec; reflexivity|reflexivity]. Qed.
Print Assumptions electrum_v1_premises.

(* accepted iff 12 list words -- and, for the conformant decoder, every triple packs below 2^32 *)
Theorem electrum_v1_accepts_iff : forall conformant ws,
  (exists b, ev1_decoder conformant ws = Ok b) <->
  (length ws = 12%nat /\ Forall (fun w => In w wl_ev1) ws /\
   (conformant = true ->
      Forall (fun g => match g with
                       | [a; b; c] => exists v, words_packed wl_ev1 a b c = Ok v /\ v < 2 ^ 32
                       | _ => False end)
             (groups 3 4 ws))).
Proof. intros [|] ws; [exact (Lemmas.MnemC17.ev1_accepts_iff true ws)|exact (Lemmas.MnemC17.ev1_accepts_iff false ws)]. Qed.
Print Assumptions electrum_v1_accepts_iff.

Theorem electrum_v1_decode_errors : forall conformant ws e, ev1_decoder conformant ws = Err e -> e = ValueError.
Proof.
  intros [|] ws e; [exact (Lemmas.MnemC17.ev1_decode_err_family true ws e)|exact (Lemmas.MnemC17.ev1_decode_err_family false ws e)].
Qed.
Print Assumptions electrum_v1_decode_errors.

Theorem electrum_v1_accepted_is_canonical : forall ws b, ev1_decode ws = Ok b ->
  length b = 16%nat /\ bytes_ok b /\ ev1_encode b = Ok ws.
Proof. exact Lemmas.MnemC17.ev1_accepted_is_canonical. Qed.
Print Assumptions electrum_v1_accepted_is_canonical.

(* F8 for Electrum v1.  Full-strength statement, FALSE of the code as it stands:
     ev1_decode_current ws = Ok b -> length b = 16.
   Witness: 12 list words (indices 0 0 1625 0 ... 0) decode to 17 bytes. *)
Theorem electrum_v1_canonical_refuted :
  exists ws b, length ws = 12%nat /\ Forall (fun w => In w wl_ev1) ws /\
    ev1_decode_current ws = Ok b /\ length b = 17%nat /\ ev1_decode ws = Err ValueError.
Proof. exact Lemmas.MnemWitness.ev1_17_bytes_witness. Qed.
Print Assumptions electrum_v1_canonical_refuted.

(* ================================================================ Electrum v2 ================ *)
(* base-2048 digits of the entropy integer (first word least significant) over a BIP-39 list; validity is the
   "Seed version" HMAC-SHA512 hex prefix of the phrase, excluding phrases that are valid BIP-39 or Electrum v1
   mnemonics.  [hmac], [b39v] (is a valid BIP-39 mnemonic) and [ev1v] (is a valid Electrum v1 mnemonic) are
   arbitrary: no law about them is needed.  Types and encoder languages are positions in ElectrumV2MnemonicTypes
   / ElectrumV2Languages; the decoder's [None] is "all types" / automatic detection over the nine BIP-39 lists. *)

Definition ev2_gate_current := ElectrumV2Mnemonic.gate_current ev2_word_bit_len ev2_entropy_bit_lens.
Definition ev2_gate_conformant := ElectrumV2Mnemonic.gate_conformant ev2_word_bit_len ev2_entropy_bit_lens.

Section ElectrumV2Defs.
  Variable hmac : list N -> list N -> list N.
  Variables b39v ev1v : list (list N) -> bool.
  Definition ev2_is_valid :=
    ElectrumV2Mnemonic.is_valid_mnemonic ev2_type_prefixes ev2_hmac_key hmac b39v ev1v.
  Definition ev2_encode gate :=
    ElectrumV2Mnemonic.encode ev2_langs ev2_type_prefixes ev2_hmac_key hmac b39v ev1v gate.
  Definition ev2_decode :=
    ElectrumV2Mnemonic.decode b39_langs ev2_langs ev2_word_nums ev2_type_prefixes ev2_hmac_key hmac b39v ev1v.
  Definition ev2_attempts gate :=
    ElectrumV2Mnemonic.attempts ev2_langs ev2_type_prefixes ev2_hmac_key ev2_max_attempts hmac b39v ev1v gate.
  Definition ev2_from_entropy gate :=
    ElectrumV2Mnemonic.from_entropy ev2_langs ev2_type_prefixes ev2_hmac_key ev2_max_attempts hmac b39v ev1v gate.
End ElectrumV2Defs.

(* the entropy-size gate: AreEntropyBitsEnough with floor(log2) read exactly (code as it stands) and with
   bit_length (what the property needs) *)
Theorem ev2_gate_iff : forall e,
  (ev2_gate_current e = true <-> (2 ^ 121 <= e < 2 ^ 133) \/ (2 ^ 253 <= e < 2 ^ 265)) /\
  (ev2_gate_conformant e = true <-> (2 ^ 121 <= e < 2 ^ 132) \/ (2 ^ 253 <= e < 2 ^ 264)).
Proof. intros e. split; [exact (Lemmas.MnemC17.ev2_gate_current_iff e)|exact (Lemmas.MnemC17.ev2_gate_conformant_iff e)]. Qed.
Print Assumptions ev2_gate_iff.

(* decode(encode(e)) = the entropy integer's bytes: under the conformant gate, whatever Encode returns has 12 or
   24 words and decodes -- with the same type or all types, with the same language or automatic detection -- to
   ToBytes(int(e)) ... *)
Theorem electrum_v2_dec_enc : forall hmac b39v ev1v ty lang b ws dty dlang,
  ev2_encode hmac b39v ev1v ev2_gate_conformant ty lang b = Ok ws ->
  dty = Some ty \/ dty = None -> dlang = Some lang \/ dlang = None ->
  (length ws = 12 \/ length ws = 24)%nat /\
  ev2_decode hmac b39v ev1v dty dlang ws = Ok (int_to_be_auto (be_to_int b)).
Proof. exact Lemmas.MnemC17.ev2_dec_enc. Qed.
Print Assumptions electrum_v2_dec_enc.

(* ... which is e itself when e has no leading zero byte *)
Theorem electrum_v2_entropy_bytes : forall b x t, bytes_ok b -> b = x :: t -> x <> 0 ->
  int_to_be_auto (be_to_int b) = b.
Proof. exact Lemmas.MnemC17.int_to_be_auto_stripped. Qed.
Print Assumptions electrum_v2_entropy_bytes.

(* F10.  Full-strength statement, FALSE of the code as it stands (gate_current):
     ev2_encode .. ev2_gate_current ty lang b = Ok ws -> ev2_decode .. (Some ty) (Some lang) ws = Ok ...
   Witness: the 133-bit entropy 2^132 (bytes 10 00 x 16) passes the gate and has 13 base-2048 digits. *)
Theorem ev2_gate_refuted :
  ev2_gate_current (2 ^ 132) = true /\ ev2_gate_conformant (2 ^ 132) = false /\
  length (to_le 2048 (2 ^ 132)) = 13%nat /\ be_to_int (16 :: repeat 0 16) = 2 ^ 132.
Proof. exact Lemmas.MnemC17.ev2_gate_witness. Qed.
Print Assumptions ev2_gate_refuted.

(* the defect class exactly: the two gates differ on the bit lengths 133 and 265 only, and there every phrase the
   encoder returns has 13 or 25 words, which every decoder refuses *)
Theorem ev2_gate_difference : forall e,
  (ev2_gate_current e = true /\ ev2_gate_conformant e = false) <->
  (2 ^ 132 <= e < 2 ^ 133) \/ (2 ^ 264 <= e < 2 ^ 265).
Proof. exact Lemmas.MnemC17.ev2_gate_diff. Qed.
Print Assumptions ev2_gate_difference.

Theorem electrum_v2_f10_words : forall hmac b39v ev1v ty lang b ws,
  ev2_gate_conformant (be_to_int b) = false ->
  ev2_encode hmac b39v ev1v ev2_gate_current ty lang b = Ok ws ->
  (length ws = 13 \/ length ws = 25)%nat /\
  forall dty dlang, ev2_decode hmac b39v ev1v dty dlang ws = Err ValueError \/
                    ev2_decode hmac b39v ev1v dty dlang ws = Err TypeError.
Proof. exact Lemmas.MnemC17.ev2_gate_band_words. Qed.
Print Assumptions electrum_v2_f10_words.

(* a phrase is accepted iff its word count is legal, the version-hash prefix verifies (and it is neither a valid
   BIP-39 nor a valid Electrum v1 mnemonic), and its words belong to the language's list (the first finder
   language containing them all under automatic detection) *)
Theorem electrum_v2_accepts_iff : forall hmac b39v ev1v ty lang ws,
  (exists b, ev2_decode hmac b39v ev1v ty lang ws = Ok b) <->
  (match ty with Some t => exists p, nth_error ev2_type_prefixes t = Some p | None => True end /\
   (length ws = 12 \/ length ws = 24)%nat /\ ev2_is_valid hmac b39v ev1v ws ty = Ok true /\
   exists wl, match lang with
              | Some l => nth_error ev2_langs l = Some wl
              | None => find_language (fun wl => wl) b39_langs ws = Ok wl
              end /\ Forall (fun w => In w wl) ws).
Proof. exact Lemmas.MnemC17.ev2_accepts_iff. Qed.
Print Assumptions electrum_v2_accepts_iff.

(* accepted_is_canonical.  Full-strength statement, FALSE (of the code and of any decoder that accepts every
   hash-valid phrase):  ev2_decode .. (Some ty) (Some lang) ws = Ok b -> ev2_encode .. ty lang b = Ok ws.
   A phrase whose LAST word is the first word of the list (index 0: the most significant digit is zero) is
   accepted, but no encoder run returns it ... *)
Theorem electrum_v2_canonical_refuted : forall hmac b39v ev1v dty lang ws b wl,
  nth_error ev2_langs lang = Some wl ->
  ev2_decode hmac b39v ev1v dty (Some lang) ws = Ok b ->
  word_idx wl (last ws []) = Ok 0 ->
  forall gate ty, ev2_encode hmac b39v ev1v gate ty lang b <> Ok ws.
Proof. exact Lemmas.MnemC17.ev2_top_zero_not_canonical. Qed.
Print Assumptions electrum_v2_canonical_refuted.

Example electrum_v2_canonical_refuted_premises :
  let hmac := fun (_ _ : list N) => [1] in
  let none := fun (_ : list (list N)) => false in
  let zoo := nth 2047 wl_b39_english [] in
  let abandon := nth 0 wl_b39_english [] in
  exists b, ev2_decode hmac none none (Some 0%nat) (Some 1%nat) (repeat zoo 11 ++ [abandon]) = Ok b /\
            word_idx wl_b39_english (last (repeat zoo 11 ++ [abandon]) []) = Ok 0 /\
            nth_error ev2_langs 1 = Some wl_b39_english.
Proof. exact Lemmas.MnemC17.ev2_top_zero_example. Qed.
Print Assumptions electrum_v2_canonical_refuted_premises.

(* ... and every other accepted phrase is canonical, for both gates *)
Theorem electrum_v2_accepted_partial : forall hmac b39v ev1v ty lang ws b wl,
  nth_error ev2_langs lang = Some wl ->
  ev2_decode hmac b39v ev1v (Some ty) (Some lang) ws = Ok b ->
  word_idx wl (last ws []) <> Ok 0 ->
  forall gate, gate = ev2_gate_conformant \/ gate = ev2_gate_current ->
  ev2_encode hmac b39v ev1v gate ty lang b = Ok ws.
Proof. exact Lemmas.MnemC17.ev2_accepted_partial. Qed.
Print Assumptions electrum_v2_accepted_partial.

(* FromEntropy's retry loop (explicit fuel; OutOfFuel is a model artefact): a returned phrase is the encoding of
   the FIRST entropy e + i, i < MAX_ATTEMPTS, that Encode accepts *)
Theorem electrum_v2_from_entropy : forall hmac b39v ev1v gate ty lang e fuel i ws,
  ev2_attempts hmac b39v ev1v gate fuel ty lang e i = Ok ws ->
  exists k, i + k < ev2_max_attempts /\
    ev2_encode hmac b39v ev1v gate ty lang (int_to_be_auto (e + (i + k))) = Ok ws /\
    forall j, j < k ->
      ev2_encode hmac b39v ev1v gate ty lang (int_to_be_auto (e + (i + j))) = Err ValueError \/
      ev2_encode hmac b39v ev1v gate ty lang (int_to_be_auto (e + (i + j))) = Err UnicodeError.
Proof. intros hmac b39v ev1v gate ty lang e. exact (Lemmas.MnemC17.ev2_attempts_spec hmac b39v ev1v gate ty lang e). Qed.
Print Assumptions electrum_v2_from_entropy.

(* ... so that what FromEntropy returns under the conformant gate has 12 or 24 words and decodes to the
   starting entropy plus k, k < MAX_ATTEMPTS *)
Theorem electrum_v2_generated_decodes : forall hmac b39v ev1v fuel ty lang b ws,
  ev2_from_entropy hmac b39v ev1v ev2_gate_conformant fuel ty lang b = Ok ws ->
  exists k, k < ev2_max_attempts /\ (length ws = 12 \/ length ws = 24)%nat /\
    forall dty dlang, dty = Some ty \/ dty = None -> dlang = Some lang \/ dlang = None ->
      ev2_decode hmac b39v ev1v dty dlang ws = Ok (int_to_be_auto (be_to_int b + k)).
Proof. exact Lemmas.MnemC17.ev2_generated_decodes. Qed.
Print Assumptions electrum_v2_generated_decodes.

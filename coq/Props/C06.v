(* C06 -- Path handling is compositional and notation-independent.
   Statements only; every proof is [exact <lemma>] with Print Assumptions beneath.

   Model: Model/Bip32Path.v (+ Model/PyText.v for str.strip / str.isnumeric / int() over the tables of
   Gen/Unicode.v, measured on the running interpreter).  Grammar: Lemmas/Bip32PathSpec.v
     numeral        one or more Unicode decimal digits, at most sys.get_int_max_str_digits() of them
     elem_spells e i   e = spaces ++ numeral ++ [marker] ++ spaces, i = value or value | 2^31, i < 2^32
     path_spells s abs idx   s = slashes ++ tokens joined by runs of slashes, first token "m" iff abs.
   [parse] is Bip32PathParser.Parse: every rejection is Bip32PathError.  (Defect F5 -- int()'s ValueError
   escaping for elements that pass str.isnumeric() but are no decimal numbers -- was repaired in /repo by
   commit 751715b; the last section keeps the witness against the code BEFORE that fix, clearly labelled.)
   The child-key function of DerivePath is abstract (a Section variable in the model, universally
   quantified here). *)
From Coq Require Import NArith ZArith List.
From BU Require Import Base.Exn Base.Bytes Gen.Unicode Model.PyText Model.Bip32Path.
From BU Require Import Lemmas.PyText Lemmas.UnicodeOk Lemmas.Bip32PathSpec.
From BU Require Lemmas.Bip32Path.
Import ListNotations.
Open Scope N_scope.

(* ---- printing a path and re-parsing it is the identity ---- *)
Theorem parse_to_str : forall p, Forall (fun i => i < 2 ^ 32) (p_elems p) -> parse (to_str p) = Ok p.
Proof. exact Lemmas.Bip32Path.parse_to_str. Qed.
Print Assumptions parse_to_str.

Example parse_to_str_ex :
  let p := mk_path [44 + 2 ^ 31; 0; 2 ^ 32 - 1] true in
  Forall (fun i => i < 2 ^ 32) (p_elems p) /\ to_str p = [109; 47; 52; 52; 39; 47; 48; 47; 50; 49; 52; 55; 52; 56; 51; 54; 52; 55; 39].
Proof. split; [repeat constructor|vm_compute; reflexivity]. Qed.
Print Assumptions parse_to_str_ex.

(* whatever the parser accepts prints to a string that parses to the same path *)
Theorem parse_print_parse : forall s p, parse s = Ok p -> parse (to_str p) = Ok p.
Proof. exact Lemmas.Bip32Path.parse_print_parse. Qed.
Print Assumptions parse_print_parse.

(* ---- the parser accepts exactly the grammar, and computes the denoted index list ---- *)
Theorem parse_accepts_iff : forall s p, parse s = Ok p <-> path_spells s (p_abs p) (p_elems p).
Proof. exact Lemmas.Bip32Path.parse_accepts_iff. Qed.
Print Assumptions parse_accepts_iff.

Theorem parse_elem_accepts_iff : forall e i,
  (exists z, parse_elem e = Ok z /\ key_index z = Ok i) <-> elem_spells e i.
Proof. exact Lemmas.Bip32Path.parse_elem_accepts_iff. Qed.
Print Assumptions parse_elem_accepts_iff.

(* ... and everything else is rejected with the path error *)
Theorem parse_rejects_with_path_error : forall s e, parse s = Err e -> e = LibError Bip32PathError.
Proof. exact Lemmas.Bip32Path.parse_rejects_with_path_error. Qed.
Print Assumptions parse_rejects_with_path_error.

(* ---- all spellings of one path give the same index list: the three markers, redundant slashes,
        surrounding spaces, digits of any script, leading zeros, raw i >= 2^31 versus (i - 2^31)' ---- *)
Theorem spelling_independent : forall s1 s2 ab idx,
  path_spells s1 ab idx -> path_spells s2 ab idx -> parse s1 = Ok (mk_path idx ab) /\ parse s2 = parse s1.
Proof.
  intros s1 s2 ab idx H1 H2. unfold parse.
  rewrite (Lemmas.Bip32Path.parse_sound _ s1 ab idx H1), (Lemmas.Bip32Path.parse_sound _ s2 ab idx H2). auto.
Qed.
Print Assumptions spelling_independent.

(* " 4٤h //0" and "/44'/0/" spell the relative path [44', 0] *)
Example spelling_independent_ex :
  path_spells [32; 52; 1636; 104; 32; 47; 47; 48] false [44 + 2 ^ 31; 0] /\
  path_spells [47; 52; 52; 39; 47; 48; 47] false [44 + 2 ^ 31; 0].
Proof.
  split.
  - exists 0%nat, 0%nat, [([32; 52; 1636; 104; 32], 1%nat); ([48], 0%nat)]. split; [reflexivity|].
    constructor; [|constructor; [|constructor]].
    + apply (Lemmas.Bip32Path.elem_check_sound [32] [52; 1636] [104] [32]). vm_compute. reflexivity.
    + apply (Lemmas.Bip32Path.elem_check_sound [] [48] [] []). vm_compute. reflexivity.
  - exists 1%nat, 0%nat, [([52; 52; 39], 0%nat); ([48], 1%nat)]. split; [reflexivity|].
    constructor; [|constructor; [|constructor]].
    + apply (Lemmas.Bip32Path.elem_check_sound [] [52; 52] [39] []). vm_compute. reflexivity.
    + apply (Lemmas.Bip32Path.elem_check_sound [] [48] [] []). vm_compute. reflexivity.
Qed.
Print Assumptions spelling_independent_ex.

Theorem raw_index_vs_hardened_marker : forall j m, j < 2 ^ 31 -> In m [39; 104; 112] ->
  parse_elem (str_of_N (j + 2 ^ 31)) = parse_elem (str_of_N j ++ [m]).
Proof. exact Lemmas.Bip32Path.raw_vs_hardened. Qed.
Print Assumptions raw_index_vs_hardened_marker.

(* ---- why the parser needs more than str.isnumeric(): the set  isnumeric \ isdecimal  (decided over all
        0x110000 code points through the range tables) is exactly what int() refuses, and it is not empty ---- *)
Theorem isnumeric_not_int_nonempty :
  exists c, c < uc_code_space /\ cp_isnumeric c = true /\ py_int [c] = Err ValueError.
Proof. exact Lemmas.UnicodeOk.isnumeric_not_int_nonempty. Qed.
Print Assumptions isnumeric_not_int_nonempty.

Theorem isnumeric_int_gap_exact : forall c, cp_isnumeric c = true ->
  ((exists v, py_int [c] = Ok v) <-> cp_isdecimal c = true).
Proof. exact Lemmas.UnicodeOk.numeric_cp_int_iff. Qed.
Print Assumptions isnumeric_int_gap_exact.

(* such elements, and numerals beyond int()'s digit limit, are rejected with the path error: "m/²" *)
Example parse_numeric_not_decimal_ex : parse [109; 47; 178] = Err (LibError Bip32PathError).
Proof. vm_compute. reflexivity. Qed.
Print Assumptions parse_numeric_not_decimal_ex.

(* ---- Bip32KeyIndex ---- *)
Theorem key_index_range : forall z i, key_index z = Ok i <-> (0 <= z < 2 ^ 32)%Z /\ i = Z.to_N z.
Proof. exact Lemmas.Bip32Path.key_index_spec. Qed.
Print Assumptions key_index_range.

Theorem key_index_bytes_roundtrip : forall i, i < 2 ^ 32 ->
  exists b, key_index_to_bytes true i = Ok b /\ length b = 4%nat /\ bytes_ok b /\ key_index_from_bytes b = Ok i.
Proof. exact Lemmas.Bip32Path.key_index_bytes_roundtrip. Qed.
Print Assumptions key_index_bytes_roundtrip.

Theorem harden_laws : forall j, j < 2 ^ 31 ->
  harden_index j = j + 2 ^ 31 /\ is_hardened_index (harden_index j) = true /\
  unharden_index (harden_index j) = j /\ is_hardened_index j = false.
Proof. exact Lemmas.Bip32Path.harden_laws. Qed.
Print Assumptions harden_laws.

(* ---- DerivePath, for every key type, depth function and child function ---- *)

(* deriving p ++ q = deriving p, then q (as a relative path) *)
Theorem derive_app : forall (key : Type) (depth : key -> N) (ckd : key -> N -> res key) k ab p q,
  derive_path key depth ckd k (mk_path (p ++ q) ab) =
  (k' <- derive_path key depth ckd k (mk_path p ab) ;; derive_path key depth ckd k' (mk_path q false)).
Proof. exact Lemmas.Bip32Path.derive_app. Qed.
Print Assumptions derive_app.

(* ... = the chain of single-child derivations *)
Theorem derive_is_child_chain : forall (key : Type) (depth : key -> N) (ckd : key -> N -> res key) k p,
  depth k = 0 \/ p_abs p = false ->
  derive_path key depth ckd k p = fold_left (fun r i => k' <- r ;; ckd k' i) (p_elems p) (Ok k).
Proof.
  intros key depth ckd k p H.
  rewrite (Lemmas.Bip32Path.relative_or_master_walks key depth ckd k p H).
  exact (Lemmas.Bip32Path.derive_elems_fold key ckd (p_elems p) k).
Qed.
Print Assumptions derive_is_child_chain.

Theorem absolute_on_child_refused : forall (key : Type) (depth : key -> N) (ckd : key -> N -> res key) k p,
  0 < depth k -> derive_path key depth ckd k (mk_path p true) = Err ValueError.
Proof. exact Lemmas.Bip32Path.absolute_on_child_refused. Qed.
Print Assumptions absolute_on_child_refused.

(* hence on every key produced by a non-empty derivation, if each child step adds one to the depth *)
Theorem absolute_on_derived_refused : forall (key : Type) (depth : key -> N) (ckd : key -> N -> res key),
  (forall k i k', ckd k i = Ok k' -> depth k' = depth k + 1) ->
  forall k p k' q, p_elems p <> [] ->
    derive_path key depth ckd k p = Ok k' -> derive_path key depth ckd k' (mk_path q true) = Err ValueError.
Proof. exact Lemmas.Bip32Path.absolute_on_derived_refused. Qed.
Print Assumptions absolute_on_derived_refused.

(* premises satisfiable: keys = (depth, walked indexes) *)
Example absolute_on_derived_ex :
  let key := (N * list N)%type in
  let depth := fun k : key => fst k in
  let ckd := fun (k : key) i => Ok (fst k + 1, snd k ++ [i]) in
  (forall k i k', ckd k i = Ok k' -> depth k' = depth k + 1) /\
  derive_path key depth ckd (0, []) (mk_path [2 ^ 31; 5] true) = Ok (2, [2 ^ 31; 5]).
Proof. split; [intros k i k' H; inversion H; reflexivity|vm_compute; reflexivity]. Qed.
Print Assumptions absolute_on_derived_ex.

(* all spellings of one path derive the same key; from a master key the leading m is optional too *)
Theorem derive_spelling_independent : forall (key : Type) (depth : key -> N) (ckd : key -> N -> res key)
  k s1 s2 ab1 ab2 idx, (ab1 = ab2 \/ depth k = 0) ->
  path_spells s1 ab1 idx -> path_spells s2 ab2 idx ->
  derive_path_str key depth ckd k s1 = derive_path_str key depth ckd k s2.
Proof.
  intros key depth ckd k s1 s2 ab1 ab2 idx [<-|Hd] H1 H2.
  - exact (Lemmas.Bip32Path.derive_spelling_independent key depth ckd k s1 s2 ab1 idx H1 H2).
  - exact (Lemmas.Bip32Path.derive_master_m_optional key depth ckd k s1 s2 ab1 ab2 idx Hd H1 H2).
Qed.
Print Assumptions derive_spelling_independent.

(* the parent (every existing object) is unchanged: DerivePath only allocates.  In the functional
   model this is immediate; on the implementation it is the before/after comparison of the parent
   object in harness/props/C06.py (direct check "derive_compose"). *)
Theorem parent_unchanged : forall (key : Type) (depth : key -> N) (ckd : key -> N -> res key) h i p h' r j,
  heap_derive key depth ckd h i p = (h', r) -> (j < length h)%nat -> nth_error h' j = nth_error h j.
Proof. exact Lemmas.Bip32Path.heap_derive_unchanged. Qed.
Print Assumptions parent_unchanged.

(* ---- HISTORICAL (the code BEFORE fix 751715b, defect F5; nothing below describes the present code) ----
   [parse_before_fix] let int()'s ValueError escape.  The full-strength statement
     forall s e, parse_before_fix s = Err e -> e = LibError Bip32PathError
   was false, witness "m/²"; and the two parsers differ in nothing but that exception class, which is
   why the repair is confined to one try/except. *)
Theorem parse_before_fix_rejects_with_path_error_refuted :
  exists s, parse_before_fix s = Err ValueError /\ parse s = Err (LibError Bip32PathError).
Proof. exact Lemmas.Bip32Path.parse_before_fix_refuted. Qed.
Print Assumptions parse_before_fix_rejects_with_path_error_refuted.

Theorem parse_before_fix_differs_only_in_f5 : forall s,
  parse_before_fix s = parse s \/ (parse_before_fix s = Err ValueError /\ parse s = Err (LibError Bip32PathError)).
Proof. exact Lemmas.Bip32Path.parse_before_fix_vs_parse. Qed.
Print Assumptions parse_before_fix_differs_only_in_f5.

(* C06 -- stub while the model is being validated *)
From Coq Require Import NArith List.
From BU Require Import Base.Exn Model.PyText Model.Bip32Path.
Import ListNotations.
Open Scope N_scope.
Theorem parse_rejects_with_path_error_refuted : exists s, parse_current s = Err ValueError.
Proof. exists [109; 47; 178]. vm_compute. reflexivity. Qed.
Print Assumptions parse_rejects_with_path_error_refuted.

(* C04 -- Watch-only derivation sees exactly the public side of private derivation.
   Statements only; proofs in Lemmas/{Bip32Commute,Bip32Base,ElectrumCommute}.v.

   The curve is an abstract group [G : group_ops]; [group_laws G] (commutative group, Z-module action,
   n*G = 0, zero test) and [order_exact G] (n is the exact order of the generator) are HYPOTHESES of
   the theorems that need them -- mathematical facts about secp256k1 / P-256 that are assumed, not
   proved (no EC library is installed).  [Z2_laws]/[Z2_order_exact] show the bundle is consistent.

   This file covers the BIP-32 / SLIP-0010 schemes (secp256k1, P-256, the ed25519 refusals), the
   Bip32Base object layer, Electrum v1 and Electrum v2-standard.
   HOOKS for the other schemes of the property (other contributors' files):
     - Khovratovich-Law (Model/Bip32Kholaw.v):   ckd_commutes_kholaw
     - Cardano Byron legacy (ByronLegacyDeriv.v):  ckd_commutes_byron_legacy
     - Monero view-only wallets (Model/Monero.v):  monero_watch_only_same_addresses
     - Substrate soft junctions (Model/Substrate.v): substrate_soft_commutes
     - the Bip44-level cache defect F6 (public_only_never_private refuted at the wrapper): C15/C07. *)
From Coq Require Import NArith List.
From BU Require Import Base.Exn Base.Bytes Model.Group Gen.DerivConsts Model.SpecSlip10 Model.Bip32Slip10 Model.Electrum.
From BU Require Import Lemmas.GroupLaws Lemmas.Bip32Slip10 Lemmas.Bip32Base Lemmas.Bip32Commute Lemmas.ElectrumCommute
                       Lemmas.Bip32Current.
Import ListNotations.
Open Scope N_scope.

(* ---- derivator level: CkdPub(N(k), c, i) = N(CkdPriv(k, c, i)) for non-hardened i, as an equation
   between results: same key, same chain code, same failure (fuel) -- no guard on the HMAC output
   is needed for the property-conformant model, the re-hash loops run in lock step ---- *)
Theorem ckd_commutes_ecdsa : forall G hmac512 fuel kb c i,
  0 < order G -> order G <= 2 ^ 256 -> group_laws G -> order_exact G ->
  hardened i = false ->
  ckd_pub_ecdsa G hmac512 fuel (point_of (be_to_int kb)) c i =
  (kc <- ckd_priv_ecdsa G hmac512 fuel kb (point_of (be_to_int kb)) c i ;;
   Ok (point_of (be_to_int (fst kc)), snd kc)).
Proof. intros. eapply ckd_commutes; eassumption. Qed.
Print Assumptions ckd_commutes_ecdsa.

(* ---- object level: ChildKey on the public-only object is the public half of ChildKey on the
   private object: public key, chain code, depth, index and parent fingerprint, hence everything
   computed from them (extended key, address) ---- *)
Theorem child_key_commutes : forall G hmac512 hash160 key fuel o kb i,
  0 < order G -> order G <= 2 ^ 256 -> hmac_ok hmac512 -> group_laws G -> order_exact G ->
  ecdsa_wf G hmac512 key o kb -> hardened i = false ->
  child_key hash160 (ecdsa_ops G hmac512 key) fuel (convert_to_public (ecdsa_ops G hmac512 key) o) i =
  rmap (convert_to_public (ecdsa_ops G hmac512 key)) (child_key hash160 (ecdsa_ops G hmac512 key) fuel o i).
Proof. intros. eapply Lemmas.Bip32Commute.child_key_commutes; eassumption. Qed.
Print Assumptions child_key_commutes.

Theorem derive_path_commutes : forall G hmac512 hash160 key fuel p o kb,
  0 < order G -> order G <= 2 ^ 256 -> hmac_ok hmac512 -> group_laws G -> order_exact G ->
  ecdsa_wf G hmac512 key o kb -> Forall (fun i => hardened i = false) p ->
  derive_elems hash160 (ecdsa_ops G hmac512 key) fuel (convert_to_public (ecdsa_ops G hmac512 key) o) p =
  rmap (convert_to_public (ecdsa_ops G hmac512 key)) (derive_elems hash160 (ecdsa_ops G hmac512 key) fuel o p).
Proof. intros. eapply derive_commutes; eassumption. Qed.
Print Assumptions derive_path_commutes.

(* ---- the same identity between the standard's relations: N(CKDpriv(x, i)) = CKDpub(N(x), i) ---- *)
Theorem spec_ckd_commutes : forall G hmac512 k c i r,
  group_laws G -> order_exact G -> spec_hardened i = false ->
  CKDpriv hmac512 false (order G) (pt G) point_of ser_c k c i r ->
  CKDpub hmac512 false (order G) (pt G) point_of ser_c add zero (point_of k) c i (point_of (fst r), snd r).
Proof. intros. eapply spec_commutes; eassumption. Qed.
Print Assumptions spec_ckd_commutes.

(* ---- the code as it stands (no re-hash, F1): commutation under the guard 0 < IL < n and a non-zero
   child; outside the guard the coincurve adapter raises where the algebra is total (F15) and the
   derivation itself departs from the standard (F1) ---- *)
Theorem ckd_commutes_ecdsa_current : forall G hmac512 fuel kb c i kb' c',
  0 < order G -> order G <= 2 ^ 256 -> group_laws G -> hardened i = false ->
  0 < be_to_int (IL (first_I G hmac512 kb c i)) < order G ->
  ckd_priv_ecdsa_current G hmac512 fuel kb (point_of (be_to_int kb)) c i = Ok (kb', c') ->
  be_to_int kb' <> 0 ->
  ckd_pub_ecdsa_current G hmac512 fuel (point_of (be_to_int kb)) c i = Ok (point_of (be_to_int kb'), c').
Proof. intros. eapply ckd_commutes_current; eassumption. Qed.
Print Assumptions ckd_commutes_ecdsa_current.

(* ---- refusals ---- *)
Theorem hardened_from_public_refused : forall hash160 D fuel (o : obj D) i,
  o_priv o = None -> i <= bip32_index_max -> hardened i = true ->
  child_key hash160 D fuel o i = Err (LibError Bip32KeyError).
Proof. exact Lemmas.Bip32Base.hardened_from_public_refused. Qed.
Print Assumptions hardened_from_public_refused.

Theorem slip10_ed25519_public_refused : forall hmac512 hash160 ed_pub fuel (o : obj (ed_ops hmac512 ed_pub)) i,
  o_priv o = None -> i <= bip32_index_max ->
  child_key hash160 (ed_ops hmac512 ed_pub) fuel o i = Err (LibError Bip32KeyError) /\
  (forall K c, CKDpub_fails hmac512 true (list N) (fun A => [0] ++ A) K c i).
Proof. exact ed25519_public_refused. Qed.
Print Assumptions slip10_ed25519_public_refused.

(* ---- a public-only object never yields a private key: after ConvertToPublic, whatever path is
   derived, PrivateKey() raises Bip32KeyError and the object stays public-only (Bip32Base level, any
   curve; the Bip44 wrapper's cache, F6, is outside this model) ---- *)
Theorem public_only_never_private : forall hash160 D fuel (o : obj D) p o',
  derive_elems hash160 D fuel (convert_to_public D o) p = Ok o' ->
  private_key D o' = Err (LibError Bip32KeyError) /\ is_public_only D o' = true.
Proof. exact Lemmas.Bip32Base.public_only_never_private. Qed.
Print Assumptions public_only_never_private.

(* ---- Electrum v1: (master + sha256d(addr:change:pub)) mod n privately = master point + s*G publicly,
   including agreement on the refusal when the sum vanishes ---- *)
Theorem electrum_v1_commutes : forall G sha256 o kb change addr,
  0 < order G -> order G <= 2 ^ 256 -> group_laws G -> order_exact G ->
  ev1_wf G o kb ->
  ev1_get_public_key G sha256 (ev1_to_public G o) change addr = ev1_get_public_key G sha256 o change addr.
Proof. intros. eapply Lemmas.ElectrumCommute.electrum_v1_commutes; eassumption. Qed.
Print Assumptions electrum_v1_commutes.

Theorem electrum_v1_public_only_refuses : forall G sha256 (o : ev1 G) change addr,
  ev1_get_private_key G sha256 (ev1_to_public G o) change addr = Err ValueError.
Proof. exact Lemmas.ElectrumCommute.electrum_v1_public_only_refuses. Qed.
Print Assumptions electrum_v1_public_only_refuses.

(* ---- Electrum v2 (standard wallets): GetPublicKey(change, addr) is Bip32 derivation of m/change/addr
   from the master object, so watch-only = public half of private, by [derive_path_commutes] ---- *)
Theorem electrum_v2_standard_commutes : forall G hmac512 hash160 key fuel o kb change addr,
  0 < order G -> order G <= 2 ^ 256 -> hmac_ok hmac512 -> group_laws G -> order_exact G ->
  ecdsa_wf G hmac512 key o kb -> hardened change = false -> hardened addr = false ->
  derive_elems hash160 (ecdsa_ops G hmac512 key) fuel (convert_to_public (ecdsa_ops G hmac512 key) o) [change; addr] =
  rmap (convert_to_public (ecdsa_ops G hmac512 key))
       (derive_elems hash160 (ecdsa_ops G hmac512 key) fuel o [change; addr]).
Proof.
  intros. eapply derive_commutes; try eassumption. repeat constructor; assumption.
Qed.
Print Assumptions electrum_v2_standard_commutes.

(* ---- the hypothesis bundle is consistent, and the theorems' premises are satisfiable on a
   non-trivial run: Z/2Z, k = 1, an HMAC oracle forcing one re-hash on both sides ---- *)
Example group_hypotheses_consistent : group_laws Z2_group /\ order_exact Z2_group.
Proof. exact (conj Z2_laws Z2_order_exact). Qed.
Print Assumptions group_hypotheses_consistent.

Definition hmac_y (key data : list N) : list N :=
  match data with 1 :: _ => repeat 0 64 | _ => I_bad end.

Example commutes_premises :
  let D := ecdsa_ops Z2_group hmac_y [] in
  let h160 := fun _ : list N => repeat 0 20 in
  let o := mk_obj (D := D) (Some kb_w) true (mk_key_data 0 0 c_w [0; 0; 0; 0]) in
  ecdsa_wf Z2_group hmac_y [] o kb_w /\ hardened 5 = false /\
  child_key h160 D 2 o 5 = Ok (mk_obj (D := D) (Some kb_w) true (mk_key_data 1 5 (repeat 0 32) [0; 0; 0; 0])) /\
  child_key h160 D 2 (convert_to_public D o) 5 =
    Ok (mk_obj (D := D) None true (mk_key_data 1 5 (repeat 0 32) [0; 0; 0; 0])).
Proof.
  cbv zeta. split.
  - repeat split; try reflexivity; try (vm_compute; reflexivity). exact (proj1 kb_w_facts).
  - split; [reflexivity|]. split; vm_compute; reflexivity.
Qed.
Print Assumptions commutes_premises.

(* C18 -- Cardano keys, derivation and addresses follow Byron/Icarus/Shelley rules.
   Statements only; proofs apply one lemma each (after destructuring the law bundles), with Print Assumptions
   beneath.  Vocabulary ([cbackend], the law bundles, the entry points over a back-end, the concrete back-end
   of the Examples): Lemmas/CardanoBackend.v.

   Oracles: HMAC-SHA512/256, PBKDF2-HMAC-SHA512, SHA-512, the ed25519 group with its point encoding ([cbackend]);
   for addresses Blake2b-224, SHA3-256, ChaCha20-Poly1305, CRC-32, the Bech32 text layer (abstract: decode after
   encode), and cbor2.loads on untrusted input (assumed to invert the RFC 8949 encodings of the three shapes of a
   Byron address; a decoder with that property is in Lemmas/CborEnc.v) ([abackend]).  The bit tweaks, tags,
   lengths, multipliers, moduli, header types, HRPs, nonce and CBOR ids are regenerated from the source
   (Gen/ConstsCardmon.v).  CBOR encoding itself is concrete (Model/CborEnc.v).

   Guard: libsodium's *_noclamp scalar multiplication ignores bit 255 of the scalar, and
   Bip32KholawEd25519KeyDerivator._NewPrivateKeyLeftPart raises OverflowError when kL + 8*ZL >= 2^256.
   Both are invisible for kL < 2^255, which holds for every master key (theorems below) and is inherited by
   children as long as kL + 8*ZL[:28] < 2^255 (8*ZL[:28] < 2^227, so for any key derived from a seed at depth
   < 2^27).  The commutation theorem carries that guard; the complement (hand-made private keys with
   kL >= 2^255 - 2^227) is modelled exactly -- OverflowError / a public key of kL mod 2^255 -- and is tied by
   correspondence only. *)
From Coq Require Import NArith ZArith List.
From BU Require Import Base.Exn Base.Bytes Gen.ConstsCardmon.
From BU Require Import Model.EdLib Model.CborEnc Model.Bip32Kholaw Model.ByronLegacyDeriv Model.AddrAdaShelley Model.AddrAdaByron.
From BU Require Import Lemmas.CardanoBackend.
From BU Require Lemmas.Bip32Kholaw Lemmas.ByronLegacyDeriv Lemmas.AddrAdaShelley Lemmas.AddrAdaByron Lemmas.CborEnc.
Import ListNotations.
Open Scope N_scope.

(* ------------------------------------------------------------------ master keys *)

(* Khovratovich-Law (Ledger) master key: 64 bytes, kL a multiple of 8 with bit 255 clear, bit 254 set and
   bit 253 (the bit the repeated hashing waits for) clear; chain code = HMAC-SHA256(key, 0x01 || seed) *)
Theorem master_bits_kholaw : forall o, hash_laws o -> forall fuel seed k cc, kh_master o fuel seed = Ok (k, cc) ->
  (16 <= length seed)%nat /\ length k = 64%nat /\ length cc = 32%nat /\ bytes_ok k /\
  kl_of k mod 8 = 0 /\ 2 ^ 254 <= kl_of k < 2 ^ 254 + 2 ^ 253 /\
  cc = hmac256 o kh_hmac_key (kh_cc_prefix ++ seed).
Proof.
  intros o (H1 & H2 & H3 & _) fuel seed k cc.
  exact (Lemmas.Bip32Kholaw.kh_master_bits (hmac512 o) (hmac256 o) (G o) (gadd o) (gmul o) (gbase o) (g_is_zero o) H1 H2 H3 fuel seed k cc).
Qed.
Print Assumptions master_bits_kholaw.

(* Icarus master key: PBKDF2-HMAC-SHA512(password "", salt = entropy, 4096 rounds, 96 bytes); same bits;
   kR and the chain code are the untouched bytes 32..63 and 64..95 *)
Theorem master_bits_icarus : forall o, hash_laws o -> forall seed k cc, ic_master o seed = Ok (k, cc) ->
  (16 <= length seed)%nat /\ length k = 64%nat /\ length cc = 32%nat /\ bytes_ok k /\
  kl_of k mod 8 = 0 /\ 2 ^ 254 <= kl_of k < 2 ^ 254 + 2 ^ 253 /\
  (let raw := pbkdf2 o ic_pbkdf2_password seed ic_pbkdf2_rounds 96 in
   skipn 32 k = firstn 32 (skipn 32 raw) /\ cc = skipn 64 raw).
Proof.
  intros o (_ & _ & _ & H4 & H5 & _) seed k cc.
  exact (Lemmas.Bip32Kholaw.ic_master_bits (pbkdf2 o) H4 H5 seed k cc).
Qed.
Print Assumptions master_bits_icarus.

(* Byron-legacy master key: only 32-byte seeds; same bits *)
Theorem master_bits_byron : forall o, hash_laws o -> forall fuel seed k cc, by_master o fuel seed = Ok (k, cc) ->
  length seed = 32%nat /\ length k = 64%nat /\ length cc = 32%nat /\ bytes_ok k /\
  kl_of k mod 8 = 0 /\ 2 ^ 254 <= kl_of k < 2 ^ 254 + 2 ^ 253.
Proof.
  intros o (H1 & H2 & _ & _ & _ & H6 & H7) fuel seed k cc.
  exact (Lemmas.ByronLegacyDeriv.by_master_bits (hmac512 o) (sha512 o) H1 H6 H7 fuel seed k cc).
Qed.
Print Assumptions master_bits_byron.

(* the object built on a master key is well-formed: its public key is kL*G *)
Theorem master_node_wf : forall o k cc d n, node_from_priv o k cc d = Ok n -> kl_of k < 2 ^ 255 ->
  n_priv n = Some k /\ n_cc n = cc /\ node_wf o n.
Proof.
  intros o k cc d n H Hk.
  destruct (Lemmas.Bip32Kholaw.node_from_priv_ok (G o) (gmul o) (gbase o) (g_is_zero o) (penc o) k cc d n H)
    as (_ & P & C & _).
  exact (conj P (conj C (Lemmas.Bip32Kholaw.node_from_priv_wf (G o) (gmul o) (gbase o) (g_is_zero o) (penc o) k cc d n H Hk))).
Qed.
Print Assumptions master_node_wf.

(* ------------------------------------------------------------------ children (BIP32-Ed25519) *)

(* Z and the child chain code: HMAC-SHA512 under the parent chain code of
   tag || (kL||kR if hardened, A if soft) || index, tags 00/01 hardened and 02/03 soft, little-endian index *)
Definition kh_z o (n : node) (k : list N) (i : N) : list N :=
  if is_hardened i then hmac512 o (n_cc n) (kh_tag_hard_z ++ k ++ le_pad 4 i)
  else hmac512 o (n_cc n) (kh_tag_soft_z ++ n_pub n ++ le_pad 4 i).
Definition kh_cc o (n : node) (k : list N) (i : N) : list N :=
  skipn 32 (if is_hardened i then hmac512 o (n_cc n) (kh_tag_hard_cc ++ k ++ le_pad 4 i)
            else hmac512 o (n_cc n) (kh_tag_soft_cc ++ n_pub n ++ le_pad 4 i)).
Definition zl28 (z : list N) : N := le_to_int (firstn 28 (firstn 32 z)).

Theorem child_formulas : forall o n k i c, i < 2 ^ 32 -> length k = 64%nat -> bytes_ok k ->
  ckd_priv o (kh_derivator o) n k i = Ok c ->
  let z := kh_z o n k i in
  exists k', n_priv c = Some k' /\ length k' = 64%nat /\
    kl_of k' = kl_of k + 8 * zl28 z /\
    kr_of k' = (kr_of k + le_to_int (skipn 32 z)) mod 2 ^ 256 /\
    kl_of k' mod ed_order <> 0 /\ kl_of k' < 2 ^ 256 /\
    n_cc c = kh_cc o n k i /\ n_depth c = n_depth n + 1 /\
    n_pub c = pub_of o (kl_of k' mod 2 ^ 255).
Proof.
  intros o. exact (Lemmas.Bip32Kholaw.ckd_priv_formulas (hmac512 o) (G o) (gmul o) (gbase o) (g_is_zero o) (penc o)).
Qed.
Print Assumptions child_formulas.

Theorem child_low_bits : forall o n k i c, i < 2 ^ 32 -> length k = 64%nat -> bytes_ok k -> kl_of k mod 8 = 0 ->
  ckd_priv o (kh_derivator o) n k i = Ok c -> exists k', n_priv c = Some k' /\ kl_of k' mod 8 = 0.
Proof.
  intros o. exact (Lemmas.Bip32Kholaw.child_low_bits (hmac512 o) (G o) (gmul o) (gbase o) (g_is_zero o) (penc o)).
Qed.
Print Assumptions child_low_bits.

(* public derivation: A + (8*ZL[:28])*G under the same 02/03 HMACs *)
Theorem child_formulas_public : forall o, hash_laws o -> encoding_laws o -> forall n i c A,
  i < 2 ^ 31 -> n_pub n = penc o A -> ckd_pub o (kh_derivator o) n i = Ok c ->
  let z := hmac512 o (n_cc n) (kh_tag_soft_z ++ n_pub n ++ le_pad 4 i) in
  n_priv c = None /\ n_pub c = penc o (gadd o A (gmul o (8 * zl28 z) (gbase o))) /\
  n_cc c = skipn 32 (hmac512 o (n_cc n) (kh_tag_soft_cc ++ n_pub n ++ le_pad 4 i)) /\
  g_is_zero o (gadd o A (gmul o (8 * zl28 z) (gbase o))) = false.
Proof.
  intros o (_ & H2 & _) (E1 & E2).
  exact (Lemmas.Bip32Kholaw.ckd_pub_formulas (hmac512 o) (G o) (gadd o) (gmul o) (gbase o) (g_is_zero o) (penc o)
           (pdec o) H2 E1 E2).
Qed.
Print Assumptions child_formulas_public.

(* the soft child of the public half is the public half of the soft child (same public key, same chain code),
   and the child is well-formed again *)
Theorem ckd_commutes_kholaw : forall o, hash_laws o -> encoding_laws o -> module_laws o ->
  forall n k i c1 c2, i < 2 ^ 31 -> n_priv n = Some k -> node_wf o n -> bytes_ok k ->
  ckd_priv o (kh_derivator o) n k i = Ok c1 ->
  ckd_pub o (kh_derivator o) (to_public n) i = Ok c2 ->
  (forall k', n_priv c1 = Some k' -> kl_of k' < 2 ^ 255) ->
  n_pub c1 = n_pub c2 /\ n_cc c1 = n_cc c2 /\ n_depth c1 = n_depth c2 /\ node_wf o c1.
Proof.
  intros o (_ & H2 & _) (E1 & E2) (M1 & _).
  exact (Lemmas.Bip32Kholaw.ckd_commutes (hmac512 o) (G o) (gadd o) (gmul o) (gbase o) (g_is_zero o) (penc o)
           (pdec o) H2 E1 E2 M1).
Qed.
Print Assumptions ckd_commutes_kholaw.

(* a child whose scalar is a multiple of l, or whose point is the identity, is refused with Bip32KeyError *)
Theorem child_invalid_refused : forall o, hash_laws o -> encoding_laws o ->
  (forall n k i, i < 2 ^ 32 -> (kl_of k + 8 * zl28 (kh_z o n k i)) mod ed_order = 0 ->
     ckd_priv o (kh_derivator o) n k i = Err (LibError Bip32KeyError)) /\
  (forall n i A, i < 2 ^ 31 -> n_pub n = penc o A ->
     let z := hmac512 o (n_cc n) (kh_tag_soft_z ++ n_pub n ++ le_pad 4 i) in
     8 * zl28 z <> 0 -> g_is_zero o (gmul o (8 * zl28 z) (gbase o)) = false ->
     g_is_zero o (gadd o A (gmul o (8 * zl28 z) (gbase o))) = true ->
     ckd_pub o (kh_derivator o) n i = Err (LibError Bip32KeyError)).
Proof.
  intros o (_ & H2 & _) (E1 & E2). split.
  - exact (Lemmas.Bip32Kholaw.ckd_priv_refuses_zero (hmac512 o) (G o) (gmul o) (gbase o) (g_is_zero o) (penc o)).
  - exact (Lemmas.Bip32Kholaw.ckd_pub_refuses_identity (hmac512 o) (G o) (gadd o) (gmul o) (gbase o) (g_is_zero o)
             (penc o) (pdec o) H2 E2).
Qed.
Print Assumptions child_invalid_refused.

(* a child whose left half 8*zL + kL does not fit 32 bytes is refused with Bip32KeyError as well (since fix 71d2424 of
   /repo, finding C14-KHOLAW-OVERFLOW; before it the rendering raised OverflowError).  Only a hand-made parent key with
   kL >= 2^256 - 2^227 gets here: child_formulas above carries kL' < 2^256 for every child that is returned. *)
Theorem child_out_of_range_refused : forall o n k i, i < 2 ^ 32 ->
  2 ^ 256 <= kl_of k + 8 * zl28 (kh_z o n k i) ->
  ckd_priv o (kh_derivator o) n k i = Err (LibError Bip32KeyError).
Proof.
  intros o. exact (Lemmas.Bip32Kholaw.ckd_priv_refuses_overflow (hmac512 o) (G o) (gmul o) (gbase o) (g_is_zero o) (penc o)).
Qed.
Print Assumptions child_out_of_range_refused.
Example child_out_of_range_refused_ex : 2 ^ 256 <= kl_of (repeat 255 64) + 8 * zl28 (repeat 255 64).
Proof. vm_compute. discriminate. Qed.
Print Assumptions child_out_of_range_refused_ex.

(* a public-only object refuses hardened indices; any object refuses indices outside [0, 2^32) *)
Theorem hardened_from_public_refused : forall o d n i,
  (n_priv n = None -> (2 ^ 31 <= i < 2 ^ 32)%Z -> child_key o d n i = Err (LibError Bip32KeyError)) /\
  (~ (0 <= i < 2 ^ 32)%Z -> child_key o d n i = Err ValueError).
Proof.
  intros o d n i. split.
  - exact (Lemmas.Bip32Kholaw.hardened_from_public_refused (hmac512 o) (G o) (gadd o) (gmul o) (gbase o)
             (g_is_zero o) (penc o) (pdec o) d n i).
  - exact (Lemmas.Bip32Kholaw.child_key_bad_index (hmac512 o) (G o) (gadd o) (gmul o) (gbase o)
             (g_is_zero o) (penc o) (pdec o) d n i).
Qed.
Print Assumptions hardened_from_public_refused.

(* ------------------------------------------------------------------ Byron legacy children *)

Definition by_z o (n : node) (k : list N) (i : N) : list N :=
  if is_hardened i then hmac512 o (n_cc n) (kh_tag_hard_z ++ k ++ rev (le_pad 4 i))
  else hmac512 o (n_cc n) (kh_tag_soft_z ++ n_pub n ++ rev (le_pad 4 i)).
Definition by_cc o (n : node) (k : list N) (i : N) : list N :=
  skipn 32 (if is_hardened i then hmac512 o (n_cc n) (kh_tag_hard_cc ++ k ++ rev (le_pad 4 i))
            else hmac512 o (n_cc n) (kh_tag_soft_cc ++ n_pub n ++ rev (le_pad 4 i))).

(* the historical variant: every byte of ZL times 8 without carry, sum reduced mod l; kR byte-wise without
   carry; big-endian index *)
Theorem child_formulas_byron : forall o, hash_laws o -> forall n k i c,
  i < 2 ^ 32 -> length k = 64%nat -> bytes_ok k ->
  ckd_priv o (by_derivator o) n k i = Ok c ->
  let z := by_z o n k i in
  exists k', n_priv c = Some k' /\ length k' = 64%nat /\
    kl_of k' = (le_to_int (mul_no_carry (firstn 32 z) 8) + kl_of k) mod ed_order /\
    skipn 32 k' = add_no_carry (skipn 32 z) (skipn 32 k) /\
    n_cc c = by_cc o n k i /\ n_depth c = n_depth n + 1 /\
    n_pub c = pub_of o (kl_of k').
Proof.
  intros o (H1 & _).
  exact (Lemmas.ByronLegacyDeriv.by_ckd_priv_formulas (hmac512 o) (G o) (gmul o) (gbase o) (g_is_zero o) (penc o) H1).
Qed.
Print Assumptions child_formulas_byron.

(* commutation for the scheme as specified (public derivation adds (8*ZL)*G for the full byte-wise 8*ZL), using
   l*G = 0.  bip_utils' public derivation deviates from this when 8*ZL >= 2^255: known finding
   C18-BYRON-PUBDERIV, exhibited by the correspondence run. *)
Theorem ckd_commutes_byron_legacy : forall o, hash_laws o -> encoding_laws o -> module_laws o ->
  forall n k i c1 c2, i < 2 ^ 31 -> n_priv n = Some k -> node_wf o n -> bytes_ok k ->
  ckd_priv o (by_derivator o) n k i = Ok c1 ->
  ckd_pub o (by_derivator o) (to_public n) i = Ok c2 ->
  n_pub c1 = n_pub c2 /\ n_cc c1 = n_cc c2 /\ node_wf o c1.
Proof.
  intros o (H1 & _) (E1 & E2) (M1 & M2 & M3 & M4 & M5).
  exact (Lemmas.ByronLegacyDeriv.by_ckd_commutes (hmac512 o) (G o) (gadd o) (gmul o) (gbase o) (g_is_zero o) (penc o)
           (pdec o) H1 E1 E2 (gzero o) M1 M2 M3 M4 M5).
Qed.
Print Assumptions ckd_commutes_byron_legacy.

(* ------------------------------------------------------------------ Shelley addresses *)

(* header || Blake2b-224(payment key) || Blake2b-224(stake key), header = (type << 4) + network tag with
   type 0 (payment) / 14 (reward), under the network's prefix; for the two configured networks *)
Theorem shelley_layout : forall o a net pub pub_sk s, In net ada_nets -> sh_encode o a net pub pub_sk = Ok s ->
  exists pk sk, pub_from_bytes (G o) (pdec o) pub = Ok pk /\ pub_from_bytes (G o) (pdec o) pub_sk = Ok sk /\
    s = b32_enc a (net_hrp net) ([0 * 16 + net_tag net] ++ blake224 a pk ++ blake224 a sk).
Proof.
  intros o a. exact (Lemmas.AddrAdaShelley.encode_payment_layout (blake224 a) (G o) (pdec o) (b32_enc a)).
Qed.
Print Assumptions shelley_layout.

Theorem shelley_dec_enc : forall o a, shelley_laws a -> forall net pub pub_sk s, In net ada_nets ->
  sh_encode o a net pub pub_sk = Ok s ->
  exists pk sk, pub_from_bytes (G o) (pdec o) pub = Ok pk /\ pub_from_bytes (G o) (pdec o) pub_sk = Ok sk /\
    sh_decode a net s = Ok (blake224 a pk ++ blake224 a sk).
Proof.
  intros o a (L1 & L2).
  exact (Lemmas.AddrAdaShelley.decode_encode_payment (blake224 a) (G o) (pdec o) (b32_enc a) (b32_dec a) L1 L2).
Qed.
Print Assumptions shelley_dec_enc.

Theorem reward_dec_enc : forall o a, shelley_laws a -> forall net pub_sk s, In net ada_nets ->
  st_encode o a net pub_sk = Ok s ->
  exists sk, pub_from_bytes (G o) (pdec o) pub_sk = Ok sk /\
    s = b32_enc a (net_stake_hrp net) ([14 * 16 + net_tag net] ++ blake224 a sk) /\
    st_decode a net s = Ok (blake224 a sk).
Proof.
  intros o a (L1 & L2) net pub_sk s Hn H.
  destruct (Lemmas.AddrAdaShelley.encode_staking_layout (blake224 a) (G o) (pdec o) (b32_enc a) net pub_sk s Hn H)
    as (sk & E & S).
  destruct (Lemmas.AddrAdaShelley.decode_encode_staking (blake224 a) (G o) (pdec o) (b32_enc a) (b32_dec a) L1 L2
              net pub_sk s Hn H) as (sk' & E' & D).
  rewrite E in E'. injection E' as <-.
  exact (ex_intro _ sk (conj E (conj S D))).
Qed.
Print Assumptions reward_dec_enc.

(* the Shelley wallet: the stake key is the account's child 2/0, the payment key its child change/index, and
   the address of these two keys decodes back to their hashes; likewise the staking (reward) address *)
Theorem staking_key_is_2_0 : forall o a, shelley_laws a -> forall net account change idx, In net ada_nets ->
  (forall s, shelley_address o a net account change idx = Ok s ->
     exists st k pk sk, derive o (kh_derivator o) account [2%Z; 0%Z] = Ok st /\
       derive o (kh_derivator o) account [change; idx] = Ok k /\
       pub_from_bytes (G o) (pdec o) (n_pub k) = Ok pk /\ pub_from_bytes (G o) (pdec o) (n_pub st) = Ok sk /\
       s = b32_enc a (net_hrp net) ([0 * 16 + net_tag net] ++ blake224 a pk ++ blake224 a sk) /\
       sh_decode a net s = Ok (blake224 a pk ++ blake224 a sk)) /\
  (forall s, shelley_staking_address o a net account = Ok s ->
     exists st sk, derive o (kh_derivator o) account [2%Z; 0%Z] = Ok st /\
       pub_from_bytes (G o) (pdec o) (n_pub st) = Ok sk /\
       s = b32_enc a (net_stake_hrp net) ([14 * 16 + net_tag net] ++ blake224 a sk) /\
       st_decode a net s = Ok (blake224 a sk)).
Proof.
  intros o a (L1 & L2) net account change idx Hn. split.
  - intros s. exact (Lemmas.AddrAdaShelley.shelley_address_layout (blake224 a) (G o) (pdec o) (b32_enc a) (b32_dec a)
                       L1 L2 (derive o (kh_derivator o)) net account change idx s Hn).
  - intros s. exact (Lemmas.AddrAdaShelley.shelley_staking_address_layout (blake224 a) (G o) (pdec o) (b32_enc a)
                       (b32_dec a) L1 L2 (derive o (kh_derivator o)) net account s Hn).
Qed.
Print Assumptions staking_key_is_2_0.

(* ------------------------------------------------------------------ Byron addresses *)

(* a Byron address (Icarus: enc = None; legacy: enc = Some encrypted path) decodes -- Base58, CBOR tag 24,
   CRC-32 of the payload verified, type public-key -- to its root hash followed by the encrypted path *)
Theorem byron_addr_dec_enc : forall a, byron_laws a -> forall pub cc enc,
  (match enc with Some e => bytes_ok e /\ (length e < 4000)%nat | None => True end) ->
  byron_decode a (byron_encode_key a pub cc enc) =
    Ok (byron_root_hash a ada_byron_type_pubkey (pub ++ cc) enc ++ match enc with Some e => e | None => [] end).
Proof.
  intros a (B1 & B2 & B3 & B4 & B5 & B6 & B7 & B8).
  exact (Lemmas.AddrAdaByron.decode_encode_key (sha3 a) (blake224 a) (crc32 a) (parse_outer a) (parse_payload a)
           (parse_bytes a) B1 B2 B6 B7 B8).
Qed.
Print Assumptions byron_addr_dec_enc.

(* the path codec: CBOR indefinite-length array under ChaCha20-Poly1305 with the fixed nonce *)
Theorem byron_path_codec : forall a, byron_laws a -> forall key path, Forall (fun i => i < 2 ^ 32) path ->
  byron_decrypt_path a key (byron_encrypt_path a key path) = Ok path.
Proof.
  intros a (B1 & B2 & B3 & B4 & B5 & _).
  exact (Lemmas.AddrAdaByron.decrypt_encrypt_path (chacha_enc a) (chacha_dec a) B5).
Qed.
Print Assumptions byron_path_codec.

(* recovering the path from a legacy wallet's own address returns the hardened indices used *)
Theorem byron_path_recover : forall o a, byron_laws a -> forall master first second addr,
  byron_get_address o a master first second = Ok addr ->
  (0 <= first < 2 ^ 32)%Z /\ (0 <= second < 2 ^ 32)%Z /\
  byron_path_from_address o a master addr = Ok [Z.to_N (Z.lor first (2 ^ 31)); Z.to_N (Z.lor second (2 ^ 31))].
Proof.
  intros o a (B1 & B2 & B3 & B4 & B5 & B6 & B7 & B8).
  exact (Lemmas.AddrAdaByron.path_recover (sha3 a) (blake224 a) (pbkdf2 o) (chacha_enc a) (chacha_dec a) (crc32 a)
           (G o) (pdec o) (parse_outer a) (parse_payload a) (parse_bytes a) B1 B2 B3 B4 B5 B6 B7 B8
           (derive o (by_derivator o))).
Qed.
Print Assumptions byron_path_recover.

(* ------------------------------------------------------------------ the premises are satisfiable *)

Example toy_laws : hash_laws toy /\ encoding_laws toy /\ module_laws toy.
Proof. exact toy_laws_proof. Qed.
Print Assumptions toy_laws.

(* over Z/l: a Kholaw master key, a soft child by both routes, a hardened child, the refusal of a hardened
   index from the public side, an Icarus master key, and a Byron-legacy master key with a soft child by both
   routes *)
Example toy_derivation :
  exists m k, kh_from_seed toy 10 toy_seed = Ok m /\ n_priv m = Some k /\ node_wf toy m /\ bytes_ok k /\
    length k = 64%nat /\ kl_of k mod 8 = 0 /\
    (exists c1 c2 k1, ckd_priv toy (kh_derivator toy) m k 5 = Ok c1 /\
        ckd_pub toy (kh_derivator toy) (to_public m) 5 = Ok c2 /\
        n_priv c1 = Some k1 /\ kl_of k1 < 2 ^ 255 /\ n_pub c1 = n_pub c2 /\ n_pub c1 <> n_pub m) /\
    (exists c3, ckd_priv toy (kh_derivator toy) m k (2 ^ 31 + 7) = Ok c3 /\ n_pub c3 <> n_pub m) /\
    child_key toy (kh_derivator toy) (to_public m) (2 ^ 31 + 7) = Err (LibError Bip32KeyError) /\
    (exists mi, ic_from_seed toy toy_seed = Ok mi /\ node_wf toy mi) /\
    (exists mb kb, by_from_seed toy 10 toy_seed = Ok mb /\ n_priv mb = Some kb /\ node_wf toy mb /\ bytes_ok kb /\
        exists b1 b2, ckd_priv toy (by_derivator toy) mb kb 5 = Ok b1 /\
                      ckd_pub toy (by_derivator toy) (to_public mb) 5 = Ok b2 /\ n_pub b1 = n_pub b2).
Proof. exact toy_derivation_proof. Qed.
Print Assumptions toy_derivation.

Example atoy_laws : shelley_laws atoy /\ byron_laws atoy.
Proof. exact atoy_laws_proof. Qed.
Print Assumptions atoy_laws.

(* an Icarus wallet's account with its Shelley and staking addresses, and a Byron-legacy wallet recovering the
   path of one of its addresses (CBOR parsed by the decoder of Lemmas/CborEnc.v) *)
Example toy_addresses :
  In toy_net ada_nets /\
  exists m acct, ic_from_seed toy toy_seed = Ok m /\ cip1852_account toy m 0 = Ok acct /\
    (exists s, shelley_address toy atoy toy_net acct 0 5 = Ok s) /\
    (exists s, shelley_staking_address toy atoy toy_net acct = Ok s) /\
    exists mb addr, by_from_seed toy 10 toy_seed = Ok mb /\
      byron_get_address toy atoy mb 3 (2 ^ 31 + 4) = Ok addr /\
      byron_path_from_address toy atoy mb addr = Ok [2 ^ 31 + 3; 2 ^ 31 + 4].
Proof. exact toy_addresses_proof. Qed.
Print Assumptions toy_addresses.

(* ===== linked to the concrete codec models ===== *)
(* Shelley addresses on THE Bech32 codec of Model/Bech32.v (the C10 model): the [b32_enc]/[b32_dec] fields of
   [abackend] and the second clause of [shelley_laws] ("forall hrp b, b32_dec hrp (b32_enc hrp b) = Some b") are
   gone.  That clause is false of the real codec for ill-formed HRPs and for non-byte payloads; what the link
   needs instead is (1) the four configured HRPs are well-formed -- proved by computation on the regenerated
   table, [shelley_hrps_wf] -- and (2) Blake2b-224 returns BYTES, an oracle law [shelley_laws] did not list
   (it is in [byron_laws]).  Remaining oracles: Blake2b-224 (28 bytes), the ed25519 point decoding, and for
   the wallet methods the Khovratovich-Law derivation.  [encode_payment_c] etc.: Model/LinkAdaShelley.v. *)
From BU Require Import Model.Bech32 Model.LinkAdaShelley.
From BU Require Lemmas.Bech32 Lemmas.LinkBech32 Lemmas.LinkAdaShelley.

Definition blake224_laws (a : abackend) : Prop :=
  (forall x, length (blake224 a x) = 28%nat) /\ (forall x, bytes_ok (blake224 a x)).

Theorem shelley_hrps_wf : forall net, In net ada_nets ->
  Lemmas.Bech32.hrp_enc_ok (net_hrp net) /\ Lemmas.Bech32.hrp_enc_ok (net_stake_hrp net).
Proof. exact LinkAdaShelley.ada_hrps_ok. Qed.
Print Assumptions shelley_hrps_wf.

Theorem shelley_layout_concrete : forall o a, blake224_laws a -> forall net pub pub_sk s, In net ada_nets ->
  encode_payment_c (blake224 a) (G o) (pdec o) net pub pub_sk = Ok s ->
  exists pk sk, pub_from_bytes (G o) (pdec o) pub = Ok pk /\ pub_from_bytes (G o) (pdec o) pub_sk = Ok sk /\
    bech32_encode (net_hrp net) ([0 * 16 + net_tag net] ++ blake224 a pk ++ blake224 a sk) = Ok s.
Proof. intros o a _. exact (LinkAdaShelley.encode_payment_c_layout (blake224 a) (G o) (pdec o)). Qed.
Print Assumptions shelley_layout_concrete.

(* the encoder returns whenever both keys are accepted *)
Theorem shelley_encode_total_concrete : forall o a, blake224_laws a -> forall net pub pub_sk pk sk, In net ada_nets ->
  pub_from_bytes (G o) (pdec o) pub = Ok pk -> pub_from_bytes (G o) (pdec o) pub_sk = Ok sk ->
  exists s, encode_payment_c (blake224 a) (G o) (pdec o) net pub pub_sk = Ok s.
Proof. intros o a (L1 & L2). exact (LinkAdaShelley.encode_payment_c_total (blake224 a) (G o) (pdec o) L2). Qed.
Print Assumptions shelley_encode_total_concrete.

Theorem shelley_dec_enc_concrete : forall o a, blake224_laws a -> forall net pub pub_sk s, In net ada_nets ->
  encode_payment_c (blake224 a) (G o) (pdec o) net pub pub_sk = Ok s ->
  exists pk sk, pub_from_bytes (G o) (pdec o) pub = Ok pk /\ pub_from_bytes (G o) (pdec o) pub_sk = Ok sk /\
    decode_payment_c net s = Ok (blake224 a pk ++ blake224 a sk).
Proof. intros o a (L1 & L2). exact (LinkAdaShelley.decode_encode_payment_c (blake224 a) (G o) (pdec o) L1 L2). Qed.
Print Assumptions shelley_dec_enc_concrete.

Theorem reward_dec_enc_concrete : forall o a, blake224_laws a -> forall net pub_sk s, In net ada_nets ->
  encode_staking_c (blake224 a) (G o) (pdec o) net pub_sk = Ok s ->
  exists sk, pub_from_bytes (G o) (pdec o) pub_sk = Ok sk /\ decode_staking_c net s = Ok (blake224 a sk).
Proof. intros o a (L1 & L2). exact (LinkAdaShelley.decode_encode_staking_c (blake224 a) (G o) (pdec o) L1 L2). Qed.
Print Assumptions reward_dec_enc_concrete.

Theorem staking_key_is_2_0_concrete : forall o a, blake224_laws a -> forall net account change idx, In net ada_nets ->
  (forall s, shelley_address_c (blake224 a) (G o) (pdec o) (derive o (kh_derivator o)) net account change idx = Ok s ->
     exists st k pk sk, derive o (kh_derivator o) account [2%Z; 0%Z] = Ok st /\
       derive o (kh_derivator o) account [change; idx] = Ok k /\
       pub_from_bytes (G o) (pdec o) (n_pub k) = Ok pk /\ pub_from_bytes (G o) (pdec o) (n_pub st) = Ok sk /\
       bech32_encode (net_hrp net) ([0 * 16 + net_tag net] ++ blake224 a pk ++ blake224 a sk) = Ok s /\
       decode_payment_c net s = Ok (blake224 a pk ++ blake224 a sk)) /\
  (forall s, shelley_staking_address_c (blake224 a) (G o) (pdec o) (derive o (kh_derivator o)) net account = Ok s ->
     exists st sk, derive o (kh_derivator o) account [2%Z; 0%Z] = Ok st /\
       pub_from_bytes (G o) (pdec o) (n_pub st) = Ok sk /\
       bech32_encode (net_stake_hrp net) ([14 * 16 + net_tag net] ++ blake224 a sk) = Ok s /\
       decode_staking_c net s = Ok (blake224 a sk)).
Proof.
  intros o a (L1 & L2) net account change idx Hn. split.
  - intros s. exact (LinkAdaShelley.shelley_address_c_layout (blake224 a) (G o) (pdec o) L1 L2
                       (derive o (kh_derivator o)) net account change idx s Hn).
  - intros s. exact (LinkAdaShelley.shelley_staking_address_c_layout (blake224 a) (G o) (pdec o) L1 L2
                       (derive o (kh_derivator o)) net account s Hn).
Qed.
Print Assumptions staking_key_is_2_0_concrete.

(* the decoders by themselves involve no oracle: refusals are ValueError only, and an accepted payment address is,
   up to letter case, THE encoding of header || the returned hashes (canonicity inherited from C10) *)
Theorem shelley_decoder_errors_concrete : forall net s e,
  (decode_payment_c net s = Err e -> e = ValueError) /\ (decode_staking_c net s = Err e -> e = ValueError).
Proof. intros net s e. exact (conj (LinkAdaShelley.decode_payment_c_err net s e) (LinkAdaShelley.decode_staking_c_err net s e)). Qed.
Print Assumptions shelley_decoder_errors_concrete.

Theorem shelley_accepted_is_canonical_concrete : forall net s r, In net ada_nets -> decode_payment_c net s = Ok r ->
  length r = 56%nat /\ bech32_encode (net_hrp net) ([0 * 16 + net_tag net] ++ r) = Ok (Bech32Str.py_lower s).
Proof. exact LinkAdaShelley.decode_payment_c_inv. Qed.
Print Assumptions shelley_accepted_is_canonical_concrete.

(* the abstract law of [shelley_laws] is false of the codec (upper-case HRP; see also C05 [slip32_law_false_of_codec]) *)
Theorem shelley_law_false_of_codec :
  let s := [88; 49; 113; 113; 108; 104; 48; 122; 53; 51] in
  bech32_encode [88] [0] = Ok s /\ b32_dec_c [88] s = None.
Proof. exact (conj (proj1 LinkBech32.bech32_rt_fails_uppercase_hrp) LinkAdaShelley.b32_dec_c_uppercase). Qed.
Print Assumptions shelley_law_false_of_codec.

(* ---- LINKED: Byron addresses with the CRC-32 and cbor2 oracles replaced by concrete functions
   (Lemmas/LinkAdaByron.v): [crc32] := Model/MnemText.crc32 (binascii.crc32 as arithmetic); the three parse oracles :=
   the CBOR readers of Lemmas/CborEnc.v (RFC 8949 heads, exactly one item of the address shape, nothing after it, as the
   repaired library demands).  The parse laws assumed of cbor2 in [byron_addr_dec_enc] are theorems about these readers;
   what remains abstract are the hashes. ---- *)
From BU Require Model.MnemText Lemmas.LinkAdaByron Lemmas.AddrAcceptAda.
Notation byron_decode_c := LinkAdaByron.byron_decode_c.
Notation byron_encode_key_c := LinkAdaByron.byron_encode_key_c.

Theorem crc32_fits_32_bits : forall bs, bytes_ok bs -> MnemText.crc32 bs < 2 ^ 32.
Proof. exact LinkAdaByron.crc32_lt. Qed.
Print Assumptions crc32_fits_32_bits.

Theorem byron_addr_dec_enc_concrete : forall (sha3_256 blake2b_224 : list N -> list N),
  (forall x, length (blake2b_224 x) = 28%nat) -> (forall x, bytes_ok (blake2b_224 x)) ->
  forall pub cc enc, Lemmas.AddrAdaByron.enc_ok enc ->
  byron_decode_c (byron_encode_key_c sha3_256 blake2b_224 pub cc enc) =
    Ok (AddrAdaByron.root_hash sha3_256 blake2b_224 ada_byron_type_pubkey (pub ++ cc) enc ++ AddrAcceptAda.enc_tail enc).
Proof. exact LinkAdaByron.byron_decode_encode_c. Qed.
Print Assumptions byron_addr_dec_enc_concrete.

(* on the real CRC-32: the encoder's address s1; s2 = the same CBOR with the CRC in an 8-byte head, accepted with the
   same result (RFC 8949 allows it; cbor2 too); s3 = s1's bytes followed by 00, refused *)
Theorem byron_concrete_heads_and_trailing : exists s1 s2 s3 out,
  s2 <> s1 /\ byron_decode_c s1 = Ok out /\ byron_decode_c s2 = Ok out /\ byron_decode_c s3 = Err ValueError /\
  AddrAdaByron.b58dec s3 = rmap (fun b => b ++ [0]) (AddrAdaByron.b58dec s1).
Proof. exact LinkAdaByron.byron_c_trailing_rejected_nonminimal_accepted. Qed.
Print Assumptions byron_concrete_heads_and_trailing.

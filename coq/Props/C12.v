(* C12 -- Elliptic-curve key layer agrees with curve arithmetic on every back-end.
   Statements only; every proof is [exact <lemma>] with Print Assumptions beneath.

   Read this first: the arithmetic of the curves lives in libsecp256k1, python-ecdsa, libsodium and
   ed25519-blake2b.  Nothing below proves a group law.  What is proved is (a) the byte- and bit-level
   behaviour of the in-repo pure-Python ed25519_lib and (b) the adapter logic (length, prefix, range,
   exception normalisation) over an abstract group with the third-party acceptance tests as hypotheses.
   That public keys, sums and products agree with curve arithmetic is DIFFERENTIAL TESTING against
   harness/ecref.py (harness/props/C12.py), not a theorem. *)
From Coq Require Import NArith ZArith List.
From BU Require Import Base.Exn Base.Bytes Gen.Ecc Model.Ed25519Lib.
From BU Require Lemmas.Ed25519Lib Lemmas.EccConstsOk.
Import ListNotations.
Open Scope Z_scope.

Module L := Lemmas.Ed25519Lib.
Module K := Lemmas.EccConstsOk.

(* ===================== Part 1: the in-repo ed25519_lib, over the constants regenerated from its source *)

(* the library's functions at the generated constants *)
Definition lib_x_recover := x_recover ed_q ed_d ed_sqrtm1.
Definition lib_int_encode := int_encode ed_coord_len.
Definition lib_point_encode := point_encode ed_coord_len ed_sign_byte.
Definition lib_point_decode_no_check := point_decode_no_check ed_q ed_coord_len ed_clamp ed_sign_bit lib_x_recover.
Definition lib_point_decode := point_decode ed_q ed_d ed_coord_len ed_clamp ed_sign_bit lib_x_recover.
Definition lib_scalar_reduce := scalar_reduce_bytes ed_l ed_coord_len.

(* Python's pow(b, e, m) as the library uses it (_inv, _x_recover): square-and-multiply is exponentiation *)
Theorem powmod_spec : forall b e m, 0 <= e -> m <> 0 -> powmod b e m = (b ^ e) mod m.
Proof. exact L.powmod_spec. Qed.
Print Assumptions powmod_spec.

(* int_encode / int_decode: the 32-byte little-endian round trip, both ways, with the exact error domain *)
Theorem int_encode_decode :
  (forall v b, lib_int_encode v = Ok b -> bytes_ok b /\ length b = 32%nat /\ int_decode b = v) /\
  (forall v, 0 <= v < 2 ^ 256 -> exists b, lib_int_encode v = Ok b) /\
  (forall v, v < 0 \/ 2 ^ 256 <= v -> lib_int_encode v = Err OverflowError) /\
  (forall b, bytes_ok b -> length b = 32%nat -> lib_int_encode (int_decode b) = Ok b).
Proof. exact (L.int_encode_decode ed_coord_len K.ed_coord_len_32). Qed.
Print Assumptions int_encode_decode.

Example int_encode_decode_ex : lib_int_encode (2 ^ 255 - 19) = Ok (237%N :: repeat 255%N 30 ++ [127%N]).
Proof. vm_compute. reflexivity. Qed.
Print Assumptions int_encode_decode_ex.

(* point_encode (point_decode_no_check s) = s for EVERY 32-byte string s -- curve point or not, canonical or
   not -- with the library's own square-and-multiply x-recovery.  No number theory is needed: only that
   x_recover lands in [0, q] and that q is odd.  Consequence: point_decode_no_check is injective. *)
Theorem point_encode_decode_bits : forall s, bytes_ok s -> length s = 32%nat ->
  exists P, lib_point_decode_no_check s = Ok P /\ lib_point_encode P = Ok s.
Proof.
  exact (L.point_encode_decode_bits_concrete ed_q ed_d ed_sqrtm1 ed_coord_len ed_clamp ed_sign_bit ed_sign_byte
           K.ed_coord_len_32 K.ed_sign_byte_128 K.ed_q_range K.ed_q_odd K.ed_clamp_ones K.ed_sign_bit_pow).
Qed.
Print Assumptions point_encode_decode_bits.

(* the same with an arbitrary x-recovery function that stays in [0, q] *)
Theorem point_encode_decode_bits_any : forall (xrec : Z -> Z) s, (forall y, 0 <= xrec y <= ed_q) ->
  bytes_ok s -> length s = 32%nat ->
  exists P, point_decode_no_check ed_q ed_coord_len ed_clamp ed_sign_bit xrec s = Ok P /\ lib_point_encode P = Ok s.
Proof.
  exact (L.point_encode_decode_bits ed_q ed_coord_len ed_clamp ed_sign_bit ed_sign_byte
           K.ed_coord_len_32 K.ed_sign_byte_128 K.ed_q_range K.ed_q_odd K.ed_clamp_ones K.ed_sign_bit_pow).
Qed.
Print Assumptions point_encode_decode_bits_any.

(* wrong length: ValueError *)
Theorem point_decode_wrong_length : forall s, length s <> 32%nat -> lib_point_decode_no_check s = Err ValueError.
Proof. exact (L.point_decode_no_check_len ed_q ed_coord_len ed_clamp ed_sign_bit lib_x_recover). Qed.
Print Assumptions point_decode_wrong_length.

(* decode after encode.  NAMED HYPOTHESIS (square roots in GF(q), not proved here): on the pair (x, y) the
   x-recovery returns one of the two roots x, q - x.  Then the sign bit restores x exactly. *)
Theorem decode_encode_point : forall (xrec : Z -> Z) x y,
  0 <= x < ed_q -> 0 <= y < ed_q ->
  (xrec y = x \/ xrec y = ed_q - x) ->
  exists s, lib_point_encode (x, y) = Ok s /\ bytes_ok s /\ length s = 32%nat /\
            point_decode_no_check ed_q ed_coord_len ed_clamp ed_sign_bit xrec s = Ok (x, y).
Proof.
  exact (L.decode_encode_point ed_q ed_coord_len ed_clamp ed_sign_bit ed_sign_byte
           K.ed_coord_len_32 K.ed_sign_byte_128 K.ed_q_range K.ed_q_odd K.ed_clamp_ones K.ed_sign_bit_pow).
Qed.
Print Assumptions decode_encode_point.

(* the hypothesis is satisfiable: an x-recovery that knows the generator's ordinate (the library's own
   square-and-multiply on this input is exercised by the correspondence run, tag concrete-kG: evaluating it in
   the kernel is possible with vm_compute but makes coqchk impractical) *)
Example decode_encode_point_ex :
  let xrec := fun y => if y =? ed_gy then ed_gx else 0 in
  lib_point_encode (ed_gx, ed_gy) = Ok ed_g_enc_bytes /\
  point_decode ed_q ed_d ed_coord_len ed_clamp ed_sign_bit xrec ed_g_enc_bytes = Ok (ed_gx, ed_gy).
Proof. cbv zeta. split; [exact K.ed_g_enc_ok|vm_compute; reflexivity]. Qed.
Print Assumptions decode_encode_point_ex.

(* point_decode = point_decode_no_check + curve equation; every failure is a ValueError *)
Theorem point_decode_spec : forall s P,
  lib_point_decode s = Ok P <-> lib_point_decode_no_check s = Ok P /\ on_curve ed_q ed_d P = true.
Proof. exact (L.point_decode_spec ed_q ed_d ed_coord_len ed_clamp ed_sign_bit lib_x_recover). Qed.
Print Assumptions point_decode_spec.
Theorem point_decode_value_error : forall s e, lib_point_decode s = Err e -> e = ValueError.
Proof. exact (L.point_decode_err ed_q ed_d ed_coord_len ed_clamp ed_sign_bit lib_x_recover). Qed.
Print Assumptions point_decode_value_error.

(* scalar_reduce is reduction modulo the group order l (any input of at most 64 bytes) *)
Theorem scalar_reduce_spec : forall b, bytes_ok b -> (length b <= 64)%nat ->
  exists r, lib_scalar_reduce b = Ok r /\ bytes_ok r /\ length r = 32%nat /\ int_decode r = int_decode b mod ed_l.
Proof. exact (fun b => L.scalar_reduce_spec ed_l ed_coord_len K.ed_coord_len_32 b K.ed_l_range). Qed.
Print Assumptions scalar_reduce_spec.

(* point_add's model is, definitionally, the twisted Edwards addition formula (a = -1) with _inv as division ... *)
Theorem point_add_formula : forall x1 y1 x2 y2,
  ed_add ed_q ed_d (x1, y1) (x2, y2) =
    let t := (ed_d * x1 * x2 * y1 * y2) mod ed_q in
    (((x1 * y2 + x2 * y1) * inv ed_q (1 + t)) mod ed_q, ((y1 * y2 + x1 * x2) * inv ed_q (1 - t)) mod ed_q).
Proof. exact (L.ed_add_formula ed_q ed_d). Qed.
Print Assumptions point_add_formula.
(* ... and satisfies the defining equations whenever _inv inverts the two denominators (Fermat's little
   theorem for q: a hypothesis here).  Associativity etc. are NOT claimed. *)
Theorem point_add_defining_eqs : forall x1 y1 x2 y2,
  let t := ed_d * x1 * x2 * y1 * y2 in
  (inv ed_q (1 + t mod ed_q) * (1 + t)) mod ed_q = 1 mod ed_q ->
  (inv ed_q (1 - t mod ed_q) * (1 - t)) mod ed_q = 1 mod ed_q ->
  let '(x3, y3) := ed_add ed_q ed_d (x1, y1) (x2, y2) in
  (x3 * (1 + t)) mod ed_q = (x1 * y2 + x2 * y1) mod ed_q /\
  (y3 * (1 - t)) mod ed_q = (y1 * y2 + x1 * x2) mod ed_q.
Proof. exact (L.ed_add_defining_eqs ed_q ed_d K.ed_q_range). Qed.
Print Assumptions point_add_defining_eqs.

(* ===================== Part 2: the adapter logic of the key layer, over an ABSTRACT group.
   Every theorem below quantifies over the group operations [add smul], the SEC1 square root [lift_x] and the
   third-party acceptance tests; what it needs of them is an explicit premise.  Byte lengths, prefixes, field
   primes and group orders are the constants regenerated from the source (Gen/Ecc.v). *)
From BU Require Import Model.EccAdapter.
From BU Require Lemmas.EccAdapter.
Module A := Lemmas.EccAdapter.
Open Scope N_scope.

Inductive wcurve := Secp256k1 | Nist256p1.
Definition cp c := match c with Secp256k1 => secp_p | Nist256p1 => nist_p end.
Definition ca c := match c with Secp256k1 => secp_a | Nist256p1 => nist_a end.
Definition cb c := match c with Secp256k1 => secp_b | Nist256p1 => nist_b end.
Definition cn c := match c with Secp256k1 => secp_n | Nist256p1 => nist_n end.
Definition cG c : wpt := match c with Secp256k1 => Some (secp_gx, secp_gy) | Nist256p1 => Some (nist_gx, nist_gy) end.

(* the adapter entry points at the generated constants (back-end [be]: Coincurve and Ecdsa for secp256k1;
   nist256p1 exists only on the python-ecdsa back-end, i.e. be = Ecdsa) *)
Definition w_priv_from_bytes := Weier.priv_from_bytes ecdsa_priv_len.
Definition w_pub_from_bytes c := Weier.pub_from_bytes (cp c) (ca c) (cb c) ecdsa_coord_len ecdsa_pub_c_len ecdsa_pub_u_len ecdsa_unc_prefix.
Definition w_point_from_bytes c := Weier.point_from_bytes (cp c) (ca c) (cb c) ecdsa_coord_len ecdsa_pub_c_len ecdsa_pub_u_len ecdsa_unc_prefix.
Definition w_point_from_coords c := Weier.point_from_coords (cp c) (ca c) (cb c).
Definition w_on_curve c := Weier.on_curve (cp c) (ca c) (cb c).
Definition w_ser_c := Weier.ser_c ecdsa_coord_len.
Definition w_ser_u := Weier.ser_u ecdsa_coord_len ecdsa_unc_prefix.
Definition w_ser_raw := Weier.ser_raw ecdsa_coord_len.

Definition cp_le c : cp c <= 2 ^ 256 :=
  match c with Secp256k1 => K.secp_p_le | Nist256p1 => K.nist_p_le end.

(* PrivateKey.FromBytes (Secp256k1PrivateKeyCoincurve, Secp256k1PrivateKeyEcdsa, Nist256p1PrivateKey) accepts
   exactly the 32-byte strings with 0 < k < n; every failure is a ValueError; the key object is the bytes.
   PREMISE: the third-party constructor accepts a 32-byte string iff 0 < k < n. *)
Theorem priv_from_bytes_accepts_iff : forall c (lib_accepts_priv : list N -> bool) be k,
  (forall k, length k = 32%nat -> lib_accepts_priv k = Weier.accepts_priv_spec (cn c) k) ->
  ((exists key, w_priv_from_bytes lib_accepts_priv be k = Ok key) <-> length k = 32%nat /\ 0 < be_to_int k < cn c) /\
  (forall key, w_priv_from_bytes lib_accepts_priv be k = Ok key -> key = k) /\
  (forall e, w_priv_from_bytes lib_accepts_priv be k = Err e -> e = ValueError).
Proof. intros c acc be k H. exact (A.priv_from_bytes_accepts_iff (cn c) ecdsa_priv_len acc H be k). Qed.
Print Assumptions priv_from_bytes_accepts_iff.

(* the premise is satisfiable (by its own specification) and the statement is not vacuous: k = 1 and k = n *)
Example priv_from_bytes_accepts_ex :
  let acc := Weier.accepts_priv_spec secp_n in
  w_priv_from_bytes acc Coincurve (repeat 0 31 ++ [1]) = Ok (repeat 0 31 ++ [1]) /\
  (forall be, w_priv_from_bytes acc be (repeat 0 32) = Err ValueError) /\
  (forall be k, int_to_be_fixed 32 secp_n = Ok k -> w_priv_from_bytes acc be k = Err ValueError).
Proof.
  cbv zeta. split; [vm_compute; reflexivity|]. split; [intros []; vm_compute; reflexivity|].
  intros be k E. vm_compute in E. injection E as <-. destruct be; vm_compute; reflexivity.
Qed.
Print Assumptions priv_from_bytes_accepts_ex.

(* compressed, uncompressed and raw encodings of a curve point decode -- through PublicKey.FromBytes and
   Point.FromBytes, on both back-ends -- to that same point.
   PREMISE (number theory, assumed): SEC1 decompression finds the point with the given abscissa and parity. *)
Theorem compressed_uncompressed_same_point : forall c (lift_x : N -> bool -> option (N * N)) be x y,
  (forall x y, w_on_curve c x y = true -> lift_x x (N.odd y) = Some (x, y)) ->
  w_on_curve c x y = true ->
  exists cb ub rb,
    w_ser_c (x, y) = Ok cb /\ w_ser_u (x, y) = Ok ub /\ w_ser_raw (x, y) = Ok rb /\
    length cb = 33%nat /\ length ub = 65%nat /\ length rb = 64%nat /\
    w_pub_from_bytes c lift_x be cb = Ok (Some (x, y)) /\ w_pub_from_bytes c lift_x be ub = Ok (Some (x, y)) /\
    w_point_from_bytes c lift_x false be cb = Ok (Some (x, y)) /\ w_point_from_bytes c lift_x false be rb = Ok (Some (x, y)) /\
    w_pub_from_bytes c lift_x Ecdsa rb = Ok (Some (x, y)) /\ w_point_from_bytes c lift_x false Ecdsa ub = Ok (Some (x, y)).
Proof.
  intros c lift_x be x y H C.
  exact (A.compressed_uncompressed_same_point (cp c) (ca c) (cb c) None ecdsa_coord_len ecdsa_pub_c_len ecdsa_pub_u_len
           ecdsa_unc_prefix (fun _ _ => None) (fun _ _ => None) lift_x eq_refl eq_refl eq_refl eq_refl (cp_le c) H be x y C).
Qed.
Print Assumptions compressed_uncompressed_same_point.

(* the conclusion on a concrete point: the secp256k1 generator, with a lift_x that knows only this abscissa *)
Example compressed_uncompressed_same_point_ex :
  let lift := fun x (o : bool) => if x =? secp_gx then Some (secp_gx, secp_gy) else None in
  exists cb ub, w_ser_c (secp_gx, secp_gy) = Ok cb /\ w_ser_u (secp_gx, secp_gy) = Ok ub /\
    w_pub_from_bytes Secp256k1 lift Coincurve cb = Ok (cG Secp256k1) /\
    w_pub_from_bytes Secp256k1 lift Ecdsa ub = Ok (cG Secp256k1).
Proof.
  cbv zeta.
  exists (match w_ser_c (secp_gx, secp_gy) with inl x => x | inr _ => [] end).
  exists (match w_ser_u (secp_gx, secp_gy) with inl x => x | inr _ => [] end).
  vm_compute. repeat split.
Qed.
Print Assumptions compressed_uncompressed_same_point_ex.

(* the public key of k is k*G: PrivateKey.FromBytes(k).PublicKey() is the point smul k G, and its compressed
   serialisation decodes back to it.  PREMISES: acceptance test; k*G is a finite curve point; lift_x complete. *)
Theorem pub_is_k_G : forall c (smul : N -> wpt -> wpt) (lift_x : N -> bool -> option (N * N))
                            (lib_accepts_priv : list N -> bool) be k key x y,
  (forall k, length k = 32%nat -> lib_accepts_priv k = Weier.accepts_priv_spec (cn c) k) ->
  (forall x y, w_on_curve c x y = true -> lift_x x (N.odd y) = Some (x, y)) ->
  w_priv_from_bytes lib_accepts_priv be k = Ok key ->
  smul (be_to_int k) (cG c) = Some (x, y) -> w_on_curve c x y = true ->
  Weier.priv_public (cG c) smul key = smul (be_to_int k) (cG c) /\
  exists cb, Weier.pub_raw_compressed ecdsa_coord_len (Weier.priv_public (cG c) smul key) = Ok cb /\
             w_pub_from_bytes c lift_x be cb = Ok (Some (x, y)).
Proof.
  intros c smul lift_x acc be k key x y Hacc Hlift E S C.
  exact (A.pub_is_k_G (cp c) (ca c) (cb c) (cn c) (cG c) ecdsa_coord_len ecdsa_priv_len ecdsa_pub_c_len ecdsa_pub_u_len
           ecdsa_unc_prefix (fun _ _ => None) smul lift_x acc Hacc eq_refl eq_refl eq_refl eq_refl (cp_le c) Hlift
           be k key x y E S C).
Qed.
Print Assumptions pub_is_k_G.

(* wrong lengths are ValueError, and ValueError is the only failure of the byte constructors *)
Theorem wrong_length_value_error : forall c (lift_x : N -> bool -> option (N * N)) (lib_accepts_priv : list N -> bool),
  (forall be k, length k <> 32%nat -> w_priv_from_bytes lib_accepts_priv be k = Err ValueError) /\
  (forall bs, length bs <> 33%nat -> length bs <> 65%nat -> w_pub_from_bytes c lift_x Coincurve bs = Err ValueError) /\
  (forall bs, length bs <> 33%nat -> length bs <> 64%nat -> length bs <> 65%nat ->
              w_pub_from_bytes c lift_x Ecdsa bs = Err ValueError) /\
  (forall bs, length bs <> 33%nat -> length bs <> 64%nat -> w_point_from_bytes c lift_x false Coincurve bs = Err ValueError) /\
  (forall bs, length bs <> 33%nat -> length bs <> 64%nat -> length bs <> 65%nat ->
              w_point_from_bytes c lift_x false Ecdsa bs = Err ValueError).
Proof.
  intros c lift_x acc.
  exact (A.wrong_length_value_error (cp c) (ca c) (cb c) ecdsa_coord_len ecdsa_priv_len ecdsa_pub_c_len ecdsa_pub_u_len
           ecdsa_unc_prefix lift_x acc eq_refl eq_refl eq_refl).
Qed.
Print Assumptions wrong_length_value_error.

Theorem from_bytes_only_value_error : forall c (lift_x : N -> bool -> option (N * N)) be bs e,
  (w_pub_from_bytes c lift_x be bs = Err e -> e = ValueError) /\
  (w_point_from_bytes c lift_x false be bs = Err e -> e = ValueError).
Proof.
  intros c lift_x. exact (A.from_bytes_value_error (cp c) (ca c) (cb c) ecdsa_coord_len ecdsa_pub_c_len ecdsa_pub_u_len
                            ecdsa_unc_prefix lift_x).
Qed.
Print Assumptions from_bytes_only_value_error.

(* bytes / coordinates that are not a curve point are rejected (the model the property demands):
   whatever is accepted satisfies the curve equation with reduced coordinates.  PREMISE: lift_x sound. *)
Theorem not_a_point_rejected : forall c (lift_x : N -> bool -> option (N * N)) be,
  (forall x o P, lift_x x o = Some P -> w_on_curve c (fst P) (snd P) = true) ->
  (forall bs P, w_pub_from_bytes c lift_x be bs = Ok P -> exists x y, P = Some (x, y) /\ w_on_curve c x y = true) /\
  (forall bs P, w_point_from_bytes c lift_x false be bs = Ok P -> exists x y, P = Some (x, y) /\ w_on_curve c x y = true) /\
  (forall x y, w_on_curve c x y = false -> w_point_from_coords c false be x y = Err ValueError) /\
  (forall x y, w_on_curve c x y = true -> w_point_from_coords c false be x y = Ok (Some (x, y))).
Proof.
  intros c lift_x be H. split; [|split; [|split]].
  - intros bs P. exact (proj1 (A.accepted_is_on_curve (cp c) (ca c) (cb c) None ecdsa_coord_len ecdsa_pub_c_len ecdsa_pub_u_len
                                 ecdsa_unc_prefix (fun _ _ => None) (fun _ _ => None) lift_x H be bs P)).
  - intros bs P. exact (proj2 (A.accepted_is_on_curve (cp c) (ca c) (cb c) None ecdsa_coord_len ecdsa_pub_c_len ecdsa_pub_u_len
                                 ecdsa_unc_prefix (fun _ _ => None) (fun _ _ => None) lift_x H be bs P)).
  - exact (A.offcurve_value_error (cp c) (ca c) (cb c) be).
  - exact (A.oncurve_accepted (cp c) (ca c) (cb c) be).
Qed.
Print Assumptions not_a_point_rejected.

(* FULL-STRENGTH statement "off-curve coordinates are a ValueError" is FALSE of today's python-ecdsa-backed
   classes (Nist256p1Point, Secp256k1PointEcdsa): F17.  Witness (1, 1) on both curves, faithful model. *)
Theorem offcurve_value_error_refuted : forall c,
  w_on_curve c 1 1 = false /\ w_point_from_coords c true Ecdsa 1 1 = Err AssertionError /\
  w_point_from_coords c true Ecdsa 1 1 <> Err ValueError.
Proof. intros c; destruct c; vm_compute; (split; [reflexivity|split; [reflexivity|discriminate]]). Qed.
Print Assumptions offcurve_value_error_refuted.
(* ... and today's Point.FromBytes of 64 off-curve bytes is ACCEPTED there (any lift_x) *)
Theorem offcurve_bytes_accepted_refuted : forall c (lift_x : N -> bool -> option (N * N)),
  let bs := repeat 0 31 ++ [1] ++ repeat 0 31 ++ [1] in
  w_point_from_bytes c lift_x true Ecdsa bs = Ok (Some (1, 1)) /\ w_point_from_bytes c lift_x false Ecdsa bs = Err ValueError.
Proof. intros c lift_x; destruct c; vm_compute; split; reflexivity. Qed.
Print Assumptions offcurve_bytes_accepted_refuted.

(* the coincurve and ecdsa adapter models agree: on ALL private-key byte strings; on Point * s for 0 < s < n;
   on sums that are not the identity; on all coordinates; on public-key bytes except the raw 64-byte form;
   on point bytes except the 65-byte forms *)
Theorem backends_equal_in_range : forall c (add : wpt -> wpt -> wpt) (smul : N -> wpt -> wpt)
                                         (lift_x : N -> bool -> option (N * N)) (lib_accepts_priv : list N -> bool),
  (forall k, w_priv_from_bytes lib_accepts_priv Coincurve k = w_priv_from_bytes lib_accepts_priv Ecdsa k) /\
  (forall P s, 0 < s < cn c -> Weier.point_mul (cn c) smul Coincurve P s = Weier.point_mul (cn c) smul Ecdsa P s) /\
  (forall P Q, add P Q <> None -> Weier.point_add add Coincurve P Q = Weier.point_add add Ecdsa P Q) /\
  (forall x y, w_point_from_coords c false Coincurve x y = w_point_from_coords c false Ecdsa x y) /\
  (forall bs, length bs <> 64%nat -> w_pub_from_bytes c lift_x Coincurve bs = w_pub_from_bytes c lift_x Ecdsa bs) /\
  (forall bs, length bs <> 65%nat -> w_point_from_bytes c lift_x false Coincurve bs = w_point_from_bytes c lift_x false Ecdsa bs).
Proof.
  intros c add smul lift_x acc.
  exact (A.backends_equal_in_range (cp c) (ca c) (cb c) (cn c) ecdsa_coord_len ecdsa_priv_len ecdsa_pub_c_len ecdsa_pub_u_len
           ecdsa_unc_prefix add smul lift_x acc eq_refl eq_refl eq_refl (cp_le c)).
Qed.
Print Assumptions backends_equal_in_range.
Definition backends_equal_partial := backends_equal_in_range.

(* FULL-STRENGTH statement "the two back-ends are observationally identical" is FALSE: F15.
   For EVERY point and EVERY group, Point * 0 and Point * n differ (coincurve: ValueError; ecdsa: a result). *)
Theorem backends_equal_refuted : forall c (smul : N -> wpt -> wpt) P,
  Weier.point_mul (cn c) smul Coincurve P 0 <> Weier.point_mul (cn c) smul Ecdsa P 0 /\
  Weier.point_mul (cn c) smul Coincurve P (cn c) <> Weier.point_mul (cn c) smul Ecdsa P (cn c).
Proof. intros c smul P. exact (A.backends_equal_refuted (cn c) smul P). Qed.
Print Assumptions backends_equal_refuted.
(* ... and they accept different encodings of the SAME valid point (finding C12-backend-encodings): the raw
   64-byte generator as a public key, the 65-byte generator as a point -- for any lift_x *)
Theorem backends_encodings_refuted : forall (lift_x : N -> bool -> option (N * N)),
  exists rb ub, w_ser_raw (secp_gx, secp_gy) = Ok rb /\ w_ser_u (secp_gx, secp_gy) = Ok ub /\
    w_pub_from_bytes Secp256k1 lift_x Coincurve rb = Err ValueError /\
    w_pub_from_bytes Secp256k1 lift_x Ecdsa rb = Ok (cG Secp256k1) /\
    w_point_from_bytes Secp256k1 lift_x false Coincurve ub = Err ValueError /\
    w_point_from_bytes Secp256k1 lift_x false Ecdsa ub = Ok (cG Secp256k1).
Proof.
  intros lift_x.
  exists (match w_ser_raw (secp_gx, secp_gy) with inl x => x | inr _ => [] end).
  exists (match w_ser_u (secp_gx, secp_gy) with inl x => x | inr _ => [] end).
  vm_compute. repeat split.
Qed.
Print Assumptions backends_encodings_refuted.

(* ---------------- ed25519 family ---------------- *)
Open Scope Z_scope.
Definition e_priv_from_bytes := Edw.priv_from_bytes ed_l ed_priv_len.
Definition e_pub_from_bytes := Edw.pub_from_bytes ed_q ed_d ed_coord_len ed_clamp ed_sign_bit ed_pub_prefix ed_pub_len.
Definition e_point_from_bytes := Edw.point_from_bytes ed_q ed_d ed_coord_len ed_clamp ed_sign_bit ed_sign_byte.

(* PrivateKey.FromBytes, the real rules: ed25519 any 32 bytes; kholaw any 64 bytes; monero 32 bytes with
   little-endian value < l (0 included: its PublicKey() is a ValueError).
   PREMISE: nacl.signing.SigningKey accepts exactly the 32-byte strings. *)
Theorem ed_priv_from_bytes_accepts_iff : forall (nacl_sk b2b_sk : list N -> bool) cur bs,
  (forall x, nacl_sk x = Edw.accepts_len32_spec x) ->
  let P k Q := ((exists key, e_priv_from_bytes nacl_sk b2b_sk cur k bs = Ok key) <-> Q) /\
               (forall key, e_priv_from_bytes nacl_sk b2b_sk cur k bs = Ok key -> key = bs) /\
               (forall e, e_priv_from_bytes nacl_sk b2b_sk cur k bs = Err e -> e = ValueError) in
  P Ed25519 (length bs = 32%nat) /\ P Ed25519Kholaw (length bs = 64%nat) /\
  P Ed25519Monero (length bs = 32%nat /\ int_decode bs < ed_l).
Proof.
  intros sk b2b cur bs H.
  exact (A.ed_priv_from_bytes_accepts_iff ed_l ed_coord_len ed_pub_len ed_priv_len sk b2b eq_refl eq_refl eq_refl H cur bs).
Qed.
Print Assumptions ed_priv_from_bytes_accepts_iff.
(* ed25519-blake2b: as the property demands when the library accepts exactly 32 bytes ... *)
Theorem ed_priv_blake2b_accepts_iff : forall (nacl_sk b2b_sk : list N -> bool) cur bs,
  (forall x, b2b_sk x = Edw.accepts_len32_spec x) ->
  ((exists key, e_priv_from_bytes nacl_sk b2b_sk cur Ed25519Blake2b bs = Ok key) <-> length bs = 32%nat) /\
  (forall e, e_priv_from_bytes nacl_sk b2b_sk cur Ed25519Blake2b bs = Err e -> e = ValueError).
Proof. intros sk b2b cur bs H. exact (A.ed_priv_blake2b_accepts_iff ed_l ed_priv_len sk b2b cur bs H). Qed.
Print Assumptions ed_priv_blake2b_accepts_iff.
(* ... which is FALSE of the library as it is: 64 bytes are accepted and bytes 32..63 come back as the public key *)
Theorem ed_priv_blake2b_refuted : forall (nacl_sk : list N -> bool) xrec esmul sha512 blake2b512 sub bs, length bs = 64%nat ->
  e_priv_from_bytes nacl_sk Edw.b2b_accepts_current_spec true Ed25519Blake2b bs = Ok bs /\
  Edw.priv_public ed_q ed_d (ed_gx, ed_gy) ed_g_enc_bytes ed_coord_len ed_clamp ed_sign_bit ed_sign_byte ed_priv_len
    xrec esmul sha512 blake2b512 sub true Ed25519Blake2b bs = Ok (skipn 32 bs).
Proof.
  intros sk xrec esmul sha512 blake2b512 sub bs L.
  exact (A.ed_priv_blake2b_refuted ed_q ed_l ed_d (ed_gx, ed_gy) ed_g_enc_bytes ed_coord_len ed_clamp ed_sign_bit ed_sign_byte
           ed_priv_len xrec esmul sha512 blake2b512 sk Edw.b2b_accepts_current_spec sub bs (fun _ => eq_refl) L).
Qed.
Print Assumptions ed_priv_blake2b_refuted.

(* public keys: 32 bytes or 33 bytes with the 0x00 prefix are the same key; acceptance means a curve point (and,
   in the model the property demands, a canonical encoding); the only failure is ValueError.
   PREMISE: nacl.signing.VerifyKey accepts exactly the 32-byte strings. *)
Theorem ed_pub_from_bytes_spec : forall (xrec : Z -> Z) (nacl_vk : list N -> bool) cur k bs,
  (forall x, nacl_vk x = Edw.accepts_len32_spec x) ->
  (length bs = 32%nat -> e_pub_from_bytes xrec nacl_vk cur k (ed_pub_prefix ++ bs) = e_pub_from_bytes xrec nacl_vk cur k bs) /\
  (forall key, e_pub_from_bytes xrec nacl_vk cur k bs = Ok key ->
     key = Edw.strip_prefix ed_pub_prefix ed_pub_len bs /\ length key = 32%nat /\
     Edw.on_curve_bytes ed_q ed_d ed_coord_len ed_clamp ed_sign_bit xrec key = Ok true /\
     (cur = false -> Edw.canonical_enc ed_q ed_coord_len ed_clamp ed_sign_bit xrec key = true)) /\
  (forall e, e_pub_from_bytes xrec nacl_vk cur k bs = Err e -> e = ValueError) /\
  (length (Edw.strip_prefix ed_pub_prefix ed_pub_len bs) <> 32%nat -> e_pub_from_bytes xrec nacl_vk cur k bs = Err ValueError).
Proof.
  intros xrec vk cur k bs H. split; [|split; [|split]].
  - exact (A.ed_pub_prefix_same_key ed_q ed_d ed_coord_len ed_clamp ed_sign_bit ed_pub_prefix ed_pub_len xrec vk eq_refl eq_refl cur k bs).
  - exact (proj1 (A.ed_pub_from_bytes_spec ed_q ed_d ed_coord_len ed_clamp ed_sign_bit ed_pub_prefix ed_pub_len xrec vk eq_refl H cur k bs)).
  - exact (proj2 (A.ed_pub_from_bytes_spec ed_q ed_d ed_coord_len ed_clamp ed_sign_bit ed_pub_prefix ed_pub_len xrec vk eq_refl H cur k bs)).
  - exact (A.ed_pub_wrong_length ed_q ed_d ed_coord_len ed_clamp ed_sign_bit ed_pub_prefix ed_pub_len xrec vk eq_refl H cur k bs).
Qed.
Print Assumptions ed_pub_from_bytes_spec.

Theorem ed_point_wrong_length : forall (xrec : Z -> Z) cur bs, length bs <> 32%nat -> length bs <> 64%nat ->
  e_point_from_bytes xrec cur bs = Err ValueError.
Proof.
  intros xrec.
  exact (A.ed_point_wrong_length ed_q ed_d ed_coord_len ed_clamp ed_sign_bit ed_sign_byte ed_pub_len ed_priv_len xrec eq_refl eq_refl eq_refl).
Qed.
Print Assumptions ed_point_wrong_length.

(* the scalar that today's unclamped multiplication really uses (finding C12-ed-scalar-bit255): bit 255 is dropped *)
Theorem ed_mul_scalar_current : forall s, 0 <= s < 2 ^ 256 ->
  Edw.mul_scalar ed_clamp false s = s /\
  Edw.mul_scalar ed_clamp true s = (if 2 ^ 255 <=? s then s - 2 ^ 255 else s).
Proof. exact (fun s => A.mul_scalar_current ed_coord_len ed_clamp ed_pub_len ed_priv_len eq_refl eq_refl eq_refl s K.ed_clamp_ones). Qed.
Print Assumptions ed_mul_scalar_current.

(* sr25519: lengths only *)
Theorem sr_accepts_iff : forall bs,
  ((exists k, Sr.sr_priv_from_bytes sr_priv_len bs = Ok k) <-> length bs = 64%nat) /\
  ((exists k, Sr.sr_pub_from_bytes sr_pub_len bs = Ok k) <-> length bs = 32%nat) /\
  (forall e, Sr.sr_priv_from_bytes sr_priv_len bs = Err e -> e = ValueError) /\
  (forall e, Sr.sr_pub_from_bytes sr_pub_len bs = Err e -> e = ValueError).
Proof. exact (A.sr_accepts_iff sr_pub_len sr_priv_len). Qed.
Print Assumptions sr_accepts_iff.

(* C12 -- Elliptic-curve key layer agrees with curve arithmetic on every back-end.
   Statements only; every proof is [exact <lemma>] with Print Assumptions beneath.

   Read this first: the arithmetic of the curves lives in libsecp256k1, python-ecdsa, libsodium and
   ed25519-blake2b.  Nothing below proves a group law.  What is proved is (a) the byte- and bit-level
   behaviour of the in-repo pure-Python ed25519_lib and (b) the adapter logic (length, prefix, range,
   exception normalisation) over an abstract group with the third-party acceptance tests as hypotheses.
   That public keys, sums and products agree with curve arithmetic is DIFFERENTIAL TESTING against
   harness/ecref.py (harness/props/C12.py), not a theorem. *)
From Coq Require Import NArith ZArith List.
From BU Require Import Base.Exn Base.Bytes Gen.Ecc Model.Ed25519Lib.
From BU Require Lemmas.Ed25519Lib Lemmas.EccConstsOk.
Import ListNotations.
Open Scope Z_scope.

Module L := Lemmas.Ed25519Lib.
Module K := Lemmas.EccConstsOk.

(* ===================== Part 1: the in-repo ed25519_lib, over the constants regenerated from its source *)

(* the library's functions at the generated constants *)
Definition lib_x_recover := x_recover ed_q ed_d ed_sqrtm1.
Definition lib_int_encode := int_encode ed_coord_len.
Definition lib_point_encode := point_encode ed_coord_len ed_sign_byte.
Definition lib_point_decode_no_check := point_decode_no_check ed_q ed_coord_len ed_clamp ed_sign_bit lib_x_recover.
Definition lib_point_decode := point_decode ed_q ed_d ed_coord_len ed_clamp ed_sign_bit lib_x_recover.
Definition lib_scalar_reduce := scalar_reduce_bytes ed_l ed_coord_len.

(* Python's pow(b, e, m) as the library uses it (_inv, _x_recover): square-and-multiply is exponentiation *)
Theorem powmod_spec : forall b e m, 0 <= e -> m <> 0 -> powmod b e m = (b ^ e) mod m.
Proof. exact L.powmod_spec. Qed.
Print Assumptions powmod_spec.

(* int_encode / int_decode: the 32-byte little-endian round trip, both ways, with the exact error domain *)
Theorem int_encode_decode :
  (forall v b, lib_int_encode v = Ok b -> bytes_ok b /\ length b = 32%nat /\ int_decode b = v) /\
  (forall v, 0 <= v < 2 ^ 256 -> exists b, lib_int_encode v = Ok b) /\
  (forall v, v < 0 \/ 2 ^ 256 <= v -> lib_int_encode v = Err OverflowError) /\
  (forall b, bytes_ok b -> length b = 32%nat -> lib_int_encode (int_decode b) = Ok b).
Proof. exact (L.int_encode_decode ed_coord_len K.ed_coord_len_32). Qed.
Print Assumptions int_encode_decode.

Example int_encode_decode_ex : lib_int_encode (2 ^ 255 - 19) = Ok (237%N :: repeat 255%N 30 ++ [127%N]).
Proof. vm_compute. reflexivity. Qed.
Print Assumptions int_encode_decode_ex.

(* point_encode (point_decode_no_check s) = s for EVERY 32-byte string s -- curve point or not, canonical or
   not -- with the library's own square-and-multiply x-recovery.  No number theory is needed: only that
   x_recover lands in [0, q] and that q is odd.  Consequence: point_decode_no_check is injective. *)
Theorem point_encode_decode_bits : forall s, bytes_ok s -> length s = 32%nat ->
  exists P, lib_point_decode_no_check s = Ok P /\ lib_point_encode P = Ok s.
Proof.
  exact (L.point_encode_decode_bits_concrete ed_q ed_d ed_sqrtm1 ed_coord_len ed_clamp ed_sign_bit ed_sign_byte
           K.ed_coord_len_32 K.ed_sign_byte_128 K.ed_q_range K.ed_q_odd K.ed_clamp_ones K.ed_sign_bit_pow).
Qed.
Print Assumptions point_encode_decode_bits.

(* the same with an arbitrary x-recovery function that stays in [0, q] *)
Theorem point_encode_decode_bits_any : forall (xrec : Z -> Z) s, (forall y, 0 <= xrec y <= ed_q) ->
  bytes_ok s -> length s = 32%nat ->
  exists P, point_decode_no_check ed_q ed_coord_len ed_clamp ed_sign_bit xrec s = Ok P /\ lib_point_encode P = Ok s.
Proof.
  exact (L.point_encode_decode_bits ed_q ed_coord_len ed_clamp ed_sign_bit ed_sign_byte
           K.ed_coord_len_32 K.ed_sign_byte_128 K.ed_q_range K.ed_q_odd K.ed_clamp_ones K.ed_sign_bit_pow).
Qed.
Print Assumptions point_encode_decode_bits_any.

(* wrong length: ValueError *)
Theorem point_decode_wrong_length : forall s, length s <> 32%nat -> lib_point_decode_no_check s = Err ValueError.
Proof. exact (L.point_decode_no_check_len ed_q ed_coord_len ed_clamp ed_sign_bit lib_x_recover). Qed.
Print Assumptions point_decode_wrong_length.

(* decode after encode.  NAMED HYPOTHESIS (square roots in GF(q), not proved here): on the pair (x, y) the
   x-recovery returns one of the two roots x, q - x.  Then the sign bit restores x exactly. *)
Theorem decode_encode_point : forall (xrec : Z -> Z) x y,
  0 <= x < ed_q -> 0 <= y < ed_q ->
  (xrec y = x \/ xrec y = ed_q - x) ->
  exists s, lib_point_encode (x, y) = Ok s /\ bytes_ok s /\ length s = 32%nat /\
            point_decode_no_check ed_q ed_coord_len ed_clamp ed_sign_bit xrec s = Ok (x, y).
Proof.
  exact (L.decode_encode_point ed_q ed_coord_len ed_clamp ed_sign_bit ed_sign_byte
           K.ed_coord_len_32 K.ed_sign_byte_128 K.ed_q_range K.ed_q_odd K.ed_clamp_ones K.ed_sign_bit_pow).
Qed.
Print Assumptions decode_encode_point.

(* the hypothesis is satisfiable, and for the library's own x-recovery: the kernel ran the square-and-multiply
   on the generator's encoding regenerated from the source *)
Example decode_encode_point_ex : lib_point_decode ed_g_enc_bytes = Ok (ed_gx, ed_gy) /\
                                 lib_point_encode (ed_gx, ed_gy) = Ok ed_g_enc_bytes.
Proof. exact (conj K.ed_g_decode K.ed_g_enc_ok). Qed.
Print Assumptions decode_encode_point_ex.

(* point_decode = point_decode_no_check + curve equation; every failure is a ValueError *)
Theorem point_decode_spec : forall s P,
  lib_point_decode s = Ok P <-> lib_point_decode_no_check s = Ok P /\ on_curve ed_q ed_d P = true.
Proof. exact (L.point_decode_spec ed_q ed_d ed_coord_len ed_clamp ed_sign_bit lib_x_recover). Qed.
Print Assumptions point_decode_spec.
Theorem point_decode_value_error : forall s e, lib_point_decode s = Err e -> e = ValueError.
Proof. exact (L.point_decode_err ed_q ed_d ed_coord_len ed_clamp ed_sign_bit lib_x_recover). Qed.
Print Assumptions point_decode_value_error.

(* scalar_reduce is reduction modulo the group order l (any input of at most 64 bytes) *)
Theorem scalar_reduce_spec : forall b, bytes_ok b -> (length b <= 64)%nat ->
  exists r, lib_scalar_reduce b = Ok r /\ bytes_ok r /\ length r = 32%nat /\ int_decode r = int_decode b mod ed_l.
Proof. exact (fun b => L.scalar_reduce_spec ed_l ed_coord_len K.ed_coord_len_32 b K.ed_l_range). Qed.
Print Assumptions scalar_reduce_spec.

(* point_add's model is, definitionally, the twisted Edwards addition formula (a = -1) with _inv as division ... *)
Theorem point_add_formula : forall x1 y1 x2 y2,
  ed_add ed_q ed_d (x1, y1) (x2, y2) =
    let t := (ed_d * x1 * x2 * y1 * y2) mod ed_q in
    (((x1 * y2 + x2 * y1) * inv ed_q (1 + t)) mod ed_q, ((y1 * y2 + x1 * x2) * inv ed_q (1 - t)) mod ed_q).
Proof. exact (L.ed_add_formula ed_q ed_d). Qed.
Print Assumptions point_add_formula.
(* ... and satisfies the defining equations whenever _inv inverts the two denominators (Fermat's little
   theorem for q: a hypothesis here).  Associativity etc. are NOT claimed. *)
Theorem point_add_defining_eqs : forall x1 y1 x2 y2,
  let t := ed_d * x1 * x2 * y1 * y2 in
  (inv ed_q (1 + t mod ed_q) * (1 + t)) mod ed_q = 1 mod ed_q ->
  (inv ed_q (1 - t mod ed_q) * (1 - t)) mod ed_q = 1 mod ed_q ->
  let '(x3, y3) := ed_add ed_q ed_d (x1, y1) (x2, y2) in
  (x3 * (1 + t)) mod ed_q = (x1 * y2 + x2 * y1) mod ed_q /\
  (y3 * (1 - t)) mod ed_q = (y1 * y2 + x1 * x2) mod ed_q.
Proof. exact (L.ed_add_defining_eqs ed_q ed_d K.ed_q_range). Qed.
Print Assumptions point_add_defining_eqs.

(* C12 -- Elliptic-curve key layer agrees with curve arithmetic on every back-end.
   Statements only; every proof is [exact <lemma>] with Print Assumptions beneath.

   Read this first: the arithmetic of the curves lives in libsecp256k1, python-ecdsa, libsodium and
   ed25519-blake2b.  Nothing below proves a group law.  What is proved is (a) the byte- and bit-level
   behaviour of the in-repo pure-Python ed25519_lib and (b) the adapter logic (length, prefix, range,
   exception normalisation) over an abstract group with the third-party acceptance tests as hypotheses.
   That public keys, sums and products agree with curve arithmetic is DIFFERENTIAL TESTING against
   harness/ecref.py (harness/props/C12.py), not a theorem. *)
From Coq Require Import NArith ZArith List.
From BU Require Import Base.Exn Base.Bytes Gen.Ecc Model.Ed25519Lib.
From BU Require Lemmas.Ed25519Lib.
Import ListNotations.
Open Scope Z_scope.

(* Python's pow(b, e, m) as the library uses it (_inv, _x_recover): square-and-multiply is exponentiation *)
Theorem powmod_spec : forall b e m, 0 <= e -> m <> 0 -> powmod b e m = (b ^ e) mod m.
Proof. exact Lemmas.Ed25519Lib.powmod_spec. Qed.
Print Assumptions powmod_spec.

(* C03 -- Key derivation conforms to BIP-32 / SLIP-0010 for every seed, curve and path.
   Statements only; proofs are in Lemmas/{Bip32Slip10,Bip32Base,Bip32Current,DerivConstsOk}.v.

   Reading guide.  [Model.Bip32Slip10] is the library's derivation (with the re-hash loops the
   property demands); [Model.SpecSlip10] is the text of SLIP-0010 / BIP-32 as inductive relations.
   HMAC-SHA512, HASH160 and the curve are parameters: [hmac_ok] (64 output bytes) is the only
   assumption on HMAC; the curve enters through its order n with 0 < n <= 2^256 (both library
   orders satisfy this: [library_orders_in_range]) and -- only for statements about public keys --
   through [group_laws].  "fuel" bounds the re-hash loops; theorems speak about runs that return.
   The code's present behaviour (no re-hash for children, defect F1) is [ckd_priv_ecdsa_current]:
   refuted against the standard by [ckd_priv_retry_refuted], conformant on the complement by
   [ckd_priv_conforms_partial]. *)
From Coq Require Import NArith List.
From BU Require Import Base.Exn Base.Bytes Model.Group Gen.DerivConsts Model.SpecSlip10 Model.Bip32Slip10.
From BU Require Import Lemmas.GroupLaws Lemmas.DerivConstsOk Lemmas.Bip32Slip10 Lemmas.Bip32Base Lemmas.Bip32Current.
Import ListNotations.
Open Scope N_scope.

(* ---- the library's constants are the standards' ---- *)
Theorem derivation_constants_are_the_standards :
  slip10_hmac_key_secp256k1 = curve_bitcoin_seed /\
  slip10_hmac_key_nist256p1 = curve_nist256p1_seed /\
  slip10_hmac_key_ed25519 = curve_ed25519_seed /\
  secp256k1_order = sec2_secp256k1_n /\ nist256p1_order = sec2_secp256r1_n /\
  bip32_hardened_bit = 31 /\ bip32_index_max = 2 ^ 32 - 1 /\ slip10_seed_min_len = 16%nat /\
  slip10_priv_prefix = [0] /\ slip10_retry_prefix = [1] /\ bip32_fprint_master = master_fingerprint /\ bip32_fprint_len = 4%nat /\
  hmac512_half_len = 32%nat /\ ecdsa_priv_len = 32%nat /\ ed25519_priv_len = 32%nat /\ ed25519_pub_prefix = [0].
Proof.
  exact (conj hmac_key_secp256k1_ok (conj hmac_key_nist256p1_ok (conj hmac_key_ed25519_ok
        (conj secp256k1_order_ok (conj nist256p1_order_ok (conj hardened_bit_31 (conj index_max_val
        (conj seed_min_16 (conj priv_prefix_0 (conj retry_prefix_1 (conj fprint_master_zero (conj fprint_len_4
        (conj half_len_32 (conj ecdsa_priv_len_32 (conj ed25519_priv_len_32 ed25519_pub_prefix_0))))))))))))))).
Qed.
Print Assumptions derivation_constants_are_the_standards.

Theorem library_orders_in_range : forall n, In n [secp256k1_order; nist256p1_order] -> 1 < n < 2 ^ 256.
Proof. exact ecdsa_order_range. Qed.
Print Assumptions library_orders_in_range.

(* ---- master key (ECDSA curves): the loop is the standard's "set S := I and continue" ---- *)
Theorem master_conforms : forall G hmac512 hash160 key fuel seed o,
  0 < order G -> order G <= 2 ^ 256 -> hmac_ok hmac512 ->
  from_seed hmac512 (ecdsa_ops G hmac512 key) fuel seed = Ok o ->
  exists kb, ecdsa_wf G hmac512 key o kb /\
             master_node hmac512 key false (order G) seed (xprv_of G hmac512 key o kb) /\
             private_key (ecdsa_ops G hmac512 key) o = Ok kb /\
             fingerprint hash160 (ecdsa_ops G hmac512 key) o =
               spec_fingerprint hash160 (pt G) ser_c (point_of (be_to_int kb)).
Proof.
  intros G hmac512 hash160 key fuel seed o H1 H2 H3 H4.
  destruct (from_seed_conforms G hmac512 key H1 H2 H3 fuel seed o H4) as (kb & W & M & _).
  exists kb. split; [exact W|]. split; [exact M|].
  split; [exact (proj1 (derived_key_valid G hmac512 key o kb W))|].
  destruct W as (_ & _ & _ & _ & W5). unfold fingerprint, key_identifier, spec_fingerprint. cbn. rewrite W5. reflexivity.
Qed.
Print Assumptions master_conforms.

Theorem master_complete : forall G hmac512 key seed r,
  0 < order G -> order G <= 2 ^ 256 -> hmac_ok hmac512 ->
  master_from hmac512 key false (order G) seed r ->
  exists fuel, master_loop hmac512 (ecdsa_ops G hmac512 key) fuel seed = Ok (spec_ser256 (fst r), snd r).
Proof. intros G hmac512 key seed r H1 H2 H3. eapply master_loop_complete; eassumption. Qed.
Print Assumptions master_complete.

Theorem master_conforms_ed25519 : forall hmac512 ed_pub n_any fuel seed o,
  hmac_ok hmac512 ->
  from_seed hmac512 (ed_ops hmac512 ed_pub) fuel seed = Ok o ->
  exists kb, ed_wf hmac512 ed_pub o kb /\
             master_node hmac512 curve_ed25519_seed true n_any seed (xprv_of_ed hmac512 ed_pub o kb).
Proof.
  intros hmac512 ed_pub n_any fuel seed o H1 H2.
  destruct (from_seed_conforms_ed hmac512 ed_pub n_any H1 fuel seed o H2) as (kb & W & M & _).
  exists kb. split; assumption.
Qed.
Print Assumptions master_conforms_ed25519.

Theorem master_seed_too_short : forall hmac512 D fuel seed,
  (length seed < 16)%nat -> from_seed hmac512 D fuel seed = Err ValueError.
Proof. exact from_seed_short_any. Qed.
Print Assumptions master_seed_too_short.

(* ---- CKDpriv: model = standard, for every key, chain code and index, both ECDSA curves ---- *)
Theorem ckd_priv_conforms : forall G hmac512 fuel kb c i kb' c',
  0 < order G -> order G <= 2 ^ 256 ->
  bytes_ok kb -> length kb = 32%nat -> i <= bip32_index_max ->
  ckd_priv_ecdsa G hmac512 fuel kb (point_of (be_to_int kb)) c i = Ok (kb', c') ->
  CKDpriv hmac512 false (order G) (pt G) point_of ser_c (be_to_int kb) c i (be_to_int kb', c') /\
  kb' = spec_ser256 (be_to_int kb').
Proof. intros. eapply ckd_priv_ecdsa_sound; eassumption. Qed.
Print Assumptions ckd_priv_conforms.

Theorem ckd_priv_complete : forall G hmac512 kb c i r,
  0 < order G -> order G <= 2 ^ 256 ->
  bytes_ok kb -> length kb = 32%nat -> i <= bip32_index_max ->
  CKDpriv hmac512 false (order G) (pt G) point_of ser_c (be_to_int kb) c i r ->
  exists fuel, ckd_priv_ecdsa G hmac512 fuel kb (point_of (be_to_int kb)) c i = Ok (spec_ser256 (fst r), snd r).
Proof. intros. eapply ckd_priv_ecdsa_complete; eassumption. Qed.
Print Assumptions ckd_priv_complete.

(* the standard's procedure determines its result: "model = spec" is an equation between functions *)
Theorem ckd_priv_spec_functional : forall G hmac512 kpar c i r1 r2,
  0 < order G -> order G <= 2 ^ 256 ->
  CKDpriv hmac512 false (order G) (pt G) point_of ser_c kpar c i r1 ->
  CKDpriv hmac512 false (order G) (pt G) point_of ser_c kpar c i r2 -> r1 = r2.
Proof. intros. eapply spec_CKDpriv_functional; eassumption. Qed.
Print Assumptions ckd_priv_spec_functional.

Theorem ckd_priv_conforms_ed25519 : forall hmac512 ed_pub n_any fuel kb K c i kb' c',
  hmac_ok hmac512 -> bytes_ok kb -> length kb = 32%nat -> i <= bip32_index_max ->
  ckd_priv_ed hmac512 fuel kb K c i = Ok (kb', c') ->
  CKDpriv hmac512 true n_any (list N) (fun k => ed_pub (spec_ser256 k)) (fun A => [0] ++ A)
          (be_to_int kb) c i (be_to_int kb', c') /\
  length kb' = 32%nat /\ bytes_ok kb' /\ length c' = 32%nat.
Proof. intros. eapply ckd_priv_ed_sound; eassumption. Qed.
Print Assumptions ckd_priv_conforms_ed25519.

Theorem ckd_priv_complete_ed25519 : forall hmac512 ed_pub n_any kb K c i r fuel,
  hmac_ok hmac512 -> bytes_ok kb -> length kb = 32%nat -> i <= bip32_index_max ->
  CKDpriv hmac512 true n_any (list N) (fun k => ed_pub (spec_ser256 k)) (fun A => [0] ++ A)
          (be_to_int kb) c i r ->
  ckd_priv_ed hmac512 fuel kb K c i = Ok (spec_ser256 (fst r), snd r).
Proof. intros. eapply ckd_priv_ed_complete; eassumption. Qed.
Print Assumptions ckd_priv_complete_ed25519.

(* ---- CKDpub: model = standard (the group laws are needed to read the code's "K + IL*G" as the
   standard's "point(IL) + K" and its zero test as "is the point at infinity") ---- *)
Theorem ckd_pub_conforms : forall G hmac512 fuel K c i K' c',
  group_laws G -> i <= bip32_index_max -> hardened i = false ->
  ckd_pub_ecdsa G hmac512 fuel K c i = Ok (K', c') ->
  CKDpub hmac512 false (order G) (pt G) point_of ser_c add zero K c i (K', c').
Proof. intros. eapply ckd_pub_ecdsa_sound; eassumption. Qed.
Print Assumptions ckd_pub_conforms.

Theorem ckd_pub_complete : forall G hmac512 K c i r,
  0 < order G -> order G <= 2 ^ 256 -> group_laws G -> i <= bip32_index_max ->
  CKDpub hmac512 false (order G) (pt G) point_of ser_c add zero K c i r ->
  exists fuel, ckd_pub_ecdsa G hmac512 fuel K c i = Ok r.
Proof. intros. eapply ckd_pub_ecdsa_complete; eassumption. Qed.
Print Assumptions ckd_pub_complete.

(* ---- BIP-32's own rule (secp256k1: "proceed with the next value for i"): wherever BIP-32 yields a
   key for i, SLIP-0010 yields the same key ---- *)
Theorem slip10_agrees_with_bip32 : forall G hmac512 kpar c i r,
  bip32_ckd_priv hmac512 (order G) (pt G) point_of ser_c kpar c i = Some r ->
  CKDpriv hmac512 false (order G) (pt G) point_of ser_c kpar c i r.
Proof. exact slip10_extends_bip32. Qed.
Print Assumptions slip10_agrees_with_bip32.

(* ---- every child key handed out is valid for the curve: 0 < k < n in exactly 32 bytes; the
   fixed-width encoding cannot overflow (n <= 2^256) and no key error can arise: fuel is the only
   way the derivation step does not return ---- *)
Theorem child_key_valid : forall G hmac512 fuel kb K c i,
  0 < order G -> order G <= 2 ^ 256 -> hmac_ok hmac512 -> i <= bip32_index_max ->
  (forall kb' c', ckd_priv_ecdsa G hmac512 fuel kb K c i = Ok (kb', c') ->
     length kb' = 32%nat /\ bytes_ok kb' /\ 0 < be_to_int kb' < order G /\ length c' = 32%nat) /\
  (forall e, ckd_priv_ecdsa G hmac512 fuel kb K c i = Err e -> e = OutOfFuel).
Proof.
  intros G hmac512 fuel kb K c i H1 H2 H3 H4. split.
  - intros kb' c' E. eapply ckd_priv_ecdsa_key; eassumption.
  - intros e E. eapply ckd_priv_ecdsa_err; eassumption.
Qed.
Print Assumptions child_key_valid.

Theorem child_object_valid : forall G hmac512 hash160 key fuel o kb i,
  0 < order G -> order G <= 2 ^ 256 -> hmac_ok hmac512 ->
  ecdsa_wf G hmac512 key o kb -> i <= bip32_index_max ->
  (forall o', child_key hash160 (ecdsa_ops G hmac512 key) fuel o i = Ok o' ->
     exists kb', ecdsa_wf G hmac512 key o' kb' /\ private_key (ecdsa_ops G hmac512 key) o' = Ok kb' /\
                 ecdsa_priv_valid G kb' = true /\ int_to_be_fixed 32 (be_to_int kb') = Ok kb') /\
  (forall e, child_key hash160 (ecdsa_ops G hmac512 key) fuel o i = Err e -> e = OutOfFuel).
Proof.
  intros G hmac512 hash160 key fuel o kb i H1 H2 H3 W Hi. split.
  - intros o' E. destruct (child_key_conforms G hmac512 hash160 key H1 H2 H3 fuel o kb i o' W E) as (kb' & W' & _).
    exists kb'. split; [exact W'|]. exact (derived_key_valid G hmac512 key o' kb' W').
  - intros e E. eapply child_key_priv_err; eassumption.
Qed.
Print Assumptions child_object_valid.

(* ---- child bookkeeping, any Bip32 class ---- *)
Theorem child_metadata : forall hash160 D fuel o i o',
  child_key hash160 D fuel o i = Ok o' ->
  i <= bip32_index_max /\
  kd_depth (o_data o') = kd_depth (o_data o) + 1 /\
  kd_index (o_data o') = i /\
  kd_fprint (o_data o') = firstn bip32_fprint_len (hash160 (d_pub_ser D (o_pub o))) /\
  (o_priv o' = None <-> o_priv o = None).
Proof. exact Lemmas.Bip32Base.child_metadata. Qed.
Print Assumptions child_metadata.

Theorem child_index_out_of_range : forall hash160 D fuel o i,
  bip32_index_max < i -> child_key hash160 D fuel o i = Err ValueError.
Proof. exact child_key_index_range. Qed.
Print Assumptions child_index_out_of_range.

(* ---- ed25519 schemes: non-hardened derivation refused (model: Bip32KeyError; standard: failure) ---- *)
Theorem ed25519_soft_refused : forall hmac512 hash160 ed_pub fuel (o : obj (ed_ops hmac512 ed_pub)) i,
  i <= bip32_index_max -> hardened i = false ->
  child_key hash160 (ed_ops hmac512 ed_pub) fuel o i = Err (LibError Bip32KeyError) /\
  (forall k c, CKDpriv_fails hmac512 true (list N) (fun k => ed_pub (spec_ser256 k)) (fun A => [0] ++ A) k c i).
Proof. exact Lemmas.Bip32Base.ed25519_soft_refused. Qed.
Print Assumptions ed25519_soft_refused.

(* ---- derivation along a path is the fold of CKD, and conforms node by node ---- *)
Theorem path_fold : forall hash160 D fuel o p q,
  derive_elems hash160 D fuel o (p ++ q) =
  (o' <- derive_elems hash160 D fuel o p ;; derive_elems hash160 D fuel o' q).
Proof. exact Lemmas.Bip32Base.path_fold. Qed.
Print Assumptions path_fold.

Theorem path_conforms : forall G hmac512 hash160 key fuel seed p o,
  0 < order G -> order G <= 2 ^ 256 -> hmac_ok hmac512 ->
  from_seed_and_path hmac512 hash160 (ecdsa_ops G hmac512 key) fuel seed true p = Ok o ->
  exists kb m, ecdsa_wf G hmac512 key o kb /\
    master_node hmac512 key false (order G) seed m /\
    path_node hmac512 hash160 false (order G) (pt G) point_of ser_c m p (xprv_of G hmac512 key o kb).
Proof. intros. eapply derivation_conforms; eassumption. Qed.
Print Assumptions path_conforms.

Theorem path_conforms_from_any_parent : forall G hmac512 hash160 key fuel p o kb o',
  0 < order G -> order G <= 2 ^ 256 -> hmac_ok hmac512 ->
  ecdsa_wf G hmac512 key o kb ->
  derive_elems hash160 (ecdsa_ops G hmac512 key) fuel o p = Ok o' ->
  exists kb', ecdsa_wf G hmac512 key o' kb' /\
    path_node hmac512 hash160 false (order G) (pt G) point_of ser_c
              (xprv_of G hmac512 key o kb) p (xprv_of G hmac512 key o' kb').
Proof. intros. eapply derive_elems_conforms; eassumption. Qed.
Print Assumptions path_conforms_from_any_parent.

Theorem path_conforms_ed25519 : forall hmac512 hash160 ed_pub n_any fuel seed p o,
  hmac_ok hmac512 ->
  from_seed_and_path hmac512 hash160 (ed_ops hmac512 ed_pub) fuel seed true p = Ok o ->
  exists kb m, ed_wf hmac512 ed_pub o kb /\
    master_node hmac512 curve_ed25519_seed true n_any seed m /\
    path_node hmac512 hash160 true n_any (list N) (fun k => ed_pub (spec_ser256 k)) (fun A => [0] ++ A)
              m p (xprv_of_ed hmac512 ed_pub o kb).
Proof. intros. eapply derivation_conforms_ed; eassumption. Qed.
Print Assumptions path_conforms_ed25519.

(* ---- the code as it stands (F1).  Full statement, false of [ckd_priv_ecdsa_current]:
       forall G hmac512 fuel kb c i kb' c', ... ->
         ckd_priv_ecdsa_current G hmac512 fuel kb (point_of (be_to_int kb)) c i = Ok (kb', c') ->
         CKDpriv hmac512 false (order G) (pt G) point_of ser_c (be_to_int kb) c i (be_to_int kb', c')   ---- *)
Theorem ckd_priv_retry_refuted : forall G, In (order G) [secp256k1_order; nist256p1_order] ->
  exists hmac512, hmac_ok hmac512 /\
  exists kb c i r,
    bytes_ok kb /\ length kb = 32%nat /\ 0 < be_to_int kb < order G /\ i <= bip32_index_max /\
    (forall fuel, ckd_priv_ecdsa_current G hmac512 fuel kb (point_of (be_to_int kb)) c i = Ok r) /\
    ~ CKDpriv hmac512 false (order G) (pt G) point_of ser_c (be_to_int kb) c i (be_to_int (fst r), snd r).
Proof.
  intros G H. apply ckd_priv_current_refuted.
  - destruct H as [<-|[<-|[]]]; split; vm_compute; reflexivity.
  - apply orders_witness_ok, H.
Qed.
Print Assumptions ckd_priv_retry_refuted.

Theorem ckd_priv_conforms_partial : forall G hmac512 fuel kb c i kb' c',
  0 < order G -> order G <= 2 ^ 256 ->
  bytes_ok kb -> length kb = 32%nat -> i <= bip32_index_max ->
  be_to_int (IL (first_I G hmac512 kb c i)) < order G ->
  (be_to_int (IL (first_I G hmac512 kb c i)) + be_to_int kb) mod order G <> 0 ->
  ckd_priv_ecdsa_current G hmac512 fuel kb (point_of (be_to_int kb)) c i = Ok (kb', c') ->
  CKDpriv hmac512 false (order G) (pt G) point_of ser_c (be_to_int kb) c i (be_to_int kb', c') /\
  kb' = spec_ser256 (be_to_int kb').
Proof. intros. eapply ckd_priv_current_partial; eassumption. Qed.
Print Assumptions ckd_priv_conforms_partial.

(* ---- the premises are satisfiable: a run with one re-hash on the toy group Z/2Z (n = 2, k = 1)
   under an HMAC oracle whose first left half is out of range ---- *)
Definition hmac_x (key data : list N) : list N :=
  match data with 1 :: _ => repeat 0 64 | _ => I_bad end.

Example hmac_x_ok : hmac_ok hmac_x.
Proof.
  split; intros k m; unfold hmac_x; destruct m as [|[|[p|p|]] t]; try reflexivity;
    apply bytes_okb_spec; vm_compute; reflexivity.
Qed.
Print Assumptions hmac_x_ok.

Example ckd_priv_conforms_premises :
  0 < order Z2_group /\ order Z2_group <= 2 ^ 256 /\ group_laws Z2_group /\
  bytes_ok kb_w /\ length kb_w = 32%nat /\ i_w <= bip32_index_max /\
  ckd_priv_ecdsa Z2_group hmac_x 2 kb_w (point_of (be_to_int kb_w)) c_w i_w = Ok (kb_w, repeat 0 32) /\
  ckd_priv_ecdsa Z2_group hmac_x 1 kb_w (point_of (be_to_int kb_w)) c_w i_w = Err OutOfFuel.
Proof.
  split; [reflexivity|]. split; [vm_compute; discriminate|]. split; [exact Z2_laws|].
  split; [exact (proj1 kb_w_facts)|]. split; [reflexivity|]. split; [exact i_w_le|].
  split; vm_compute; reflexivity.
Qed.
Print Assumptions ckd_priv_conforms_premises.

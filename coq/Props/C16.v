(* C16 -- Monero keys, addresses and sub-addresses follow the Monero scheme.
   Statements only; every proof is [exact <lemma>] (after trivial intros / destructuring of the law
   bundle) with Print Assumptions beneath.

   The ed25519 group, its point encoding and Keccak-256 are oracles, bundled in [backend]; the laws a
   theorem needs are explicit premises ([keccak_laws], [encoding_laws], [module_laws]).  [sc_reduce] is
   concrete (x mod l with l regenerated from the source).  Error outcomes are part of the model:
   [scalarmult_error] (ValueError) is what the library raises for a zero scalar / identity point
   (e.g. Monero.FromSeed(bytes(32))), so the theorems speak about constructions that return. *)
From Coq Require Import NArith ZArith List.
From BU Require Import Base.Exn Base.Bytes Gen.ConstsCardmon.
From BU Require Import Model.EdLib Model.AddrXmr Model.Monero.
From BU Require Import Lemmas.MoneroBackend.   (* [backend], the law bundles, the entry points over a back-end *)
From BU Require Lemmas.Monero Lemmas.AddrXmr Lemmas.MoneroToy Lemmas.CardmonConstsOk Lemmas.EdLib.
Import ListNotations.
Open Scope N_scope.

(* ------------------------------------------------------------------ keys *)

(* a 32-byte seed is reduced as it is, any other length goes through Keccak first *)
Theorem spend_from_seed : forall o seed net w, from_seed o seed net = Ok w ->
  exists sk, w_priv_s w = Some sk /\ length sk = 32%nat /\
    le_to_int sk = le_to_int (if Nat.eqb (length seed) 32 then seed else keccak o seed) mod ed_order.
Proof.
  intros o seed net w H.
  destruct (Lemmas.Monero.spend_from_seed _ _ _ _ _ _ seed net w H) as (sk & A & B & C & _).
  exact (ex_intro _ sk (conj A (conj B C))).
Qed.
Print Assumptions spend_from_seed.

(* seeds of every length are accepted: the only failure is libsodium's on a zero scalar *)
Theorem seed_any_length : forall o seed net,
  (exists w, from_seed o seed net = Ok w) \/ from_seed o seed net = Err scalarmult_error.
Proof. intros o seed net. exact (Lemmas.Monero.from_seed_total _ _ _ _ _ _ seed net). Qed.
Print Assumptions seed_any_length.

(* a spend key is accepted only if it is 32 bytes, below l and non-zero; refusals are MoneroKeyError
   or the libsodium error *)
Theorem spend_key_domain : forall o b net,
  (forall w, from_priv_spend o b net = Ok w ->
     length b = 32%nat /\ le_to_int b < ed_order /\ le_to_int b <> 0 /\ w_priv_s w = Some b) /\
  (forall e, from_priv_spend o b net = Err e -> e = LibError MoneroKeyError \/ e = scalarmult_error).
Proof.
  intros o b net. split.
  - intros w H. destruct (Lemmas.Monero.from_priv_spend_ok _ _ _ _ _ _ b net w H) as (A & B & C & D & _).
    exact (conj A (conj B (conj C D))).
  - intros e H. exact (Lemmas.Monero.from_priv_spend_err _ _ _ _ _ _ b net e H).
Qed.
Print Assumptions spend_key_domain.

Theorem view_is_reduced_keccak : forall o b net w, from_priv_spend o b net = Ok w ->
  w_priv_v w = sc_reduce (keccak o b) /\ length (w_priv_v w) = 32%nat /\
  le_to_int (w_priv_v w) = hash_to_scalar o b.
Proof.
  intros o b net w H. exact (Lemmas.Monero.view_key_props _ _ _ _ _ _ b net w H).
Qed.
Print Assumptions view_is_reduced_keccak.

Theorem pubs_are_scalar_multiples : forall o b net w, from_priv_spend o b net = Ok w ->
  w_pub_s w = pub_of o (le_to_int b) /\ w_pub_v w = pub_of o (hash_to_scalar o b).
Proof.
  intros o b net w H. destruct (Lemmas.Monero.from_priv_spend_ok _ _ _ _ _ _ b net w H) as (_ & _ & _ & _ & _ & _ & A & B & _).
  exact (conj A B).
Qed.
Print Assumptions pubs_are_scalar_multiples.

(* seeds and BIP-44 keys reach the same construction *)
Theorem seed_and_bip44_reduce_to_spend_key : forall o x net,
  from_seed o x net =
    from_priv_spend o (sc_reduce (if Nat.eqb (length x) ed_priv_len then x else keccak o x)) net /\
  from_bip44_priv o x net = from_priv_spend o (sc_reduce (keccak o x)) net.
Proof. intros o x net. exact (conj eq_refl eq_refl). Qed.
Print Assumptions seed_and_bip44_reduce_to_spend_key.

(* ------------------------------------------------------------------ sub-addresses *)

(* m = H_s("SubAddr\0" || a || le32 major || le32 minor) *)
Definition sub_scalar o (vk : list N) (major minor : Z) : N :=
  hash_to_scalar o (xmr_sub_prefix ++ vk ++ le_pad 4 (Z.to_N major) ++ le_pad 4 (Z.to_N minor)).

(* D = B + m*G, C = a*D for every (major, minor) in [0, 2^32)^2 other than (0,0) *)
Theorem subaddress_formula : forall o, encoding_laws o ->
  forall w minor major B ds cs,
  pdec o (w_pub_s w) = Some B -> le_to_int (w_priv_v w) < ed_order ->
  (0 <= minor < 2 ^ 32)%Z -> (0 <= major < 2 ^ 32)%Z -> (minor, major) <> (0, 0)%Z ->
  compute_keys o w minor major = Ok (ds, cs) ->
  let D := gadd o B (gmul o (sub_scalar o (w_priv_v w) major minor) (gbase o)) in
  ds = penc o D /\ cs = penc o (gmul o (le_to_int (w_priv_v w)) D).
Proof.
  intros o (L1 & L2 & L3).
  exact (Lemmas.Monero.subaddress_formula (keccak o) (G o) (gadd o) (gmul o) (gbase o) (g_is_zero o) (penc o) (pdec o)
           (p_refused o) L1 L3).
Qed.
Print Assumptions subaddress_formula.

(* (0,0) is the primary pair; an index outside [0, 2^32) is a ValueError *)
Theorem subaddress_bounds : forall o w,
  compute_keys o w 0 0 = Ok (w_pub_s w, w_pub_v w) /\
  (forall minor major, ~ ((0 <= minor < 2 ^ 32)%Z /\ (0 <= major < 2 ^ 32)%Z) ->
     compute_keys o w minor major = Err ValueError /\ subaddress o w minor major = Err ValueError).
Proof.
  intros o w. split.
  - exact (Lemmas.Monero.subaddress_zero_is_primary _ _ _ _ _ _ _ _ _ w).
  - intros minor major H. split.
    + exact (Lemmas.Monero.subaddress_out_of_range _ _ _ _ _ _ _ _ _ w minor major H).
    + exact (Lemmas.Monero.subaddress_out_of_range_addr _ _ _ _ _ _ _ _ _ w minor major H).
Qed.
Print Assumptions subaddress_bounds.

(* with the module laws: D = (b + m)*G and C = (a*(b + m))*G in terms of the wallet's secrets *)
Theorem subaddress_secret_form : forall o, encoding_laws o -> module_laws o ->
  forall b net w minor major ds cs, from_priv_spend o b net = Ok w ->
  (0 <= minor < 2 ^ 32)%Z -> (0 <= major < 2 ^ 32)%Z -> (minor, major) <> (0, 0)%Z ->
  compute_keys o w minor major = Ok (ds, cs) ->
  let m := sub_scalar o (w_priv_v w) major minor in
  ds = pub_of o (le_to_int b + m) /\ cs = pub_of o (hash_to_scalar o b * (le_to_int b + m)).
Proof.
  intros o (L1 & L2 & L3) (M1 & M2).
  exact (Lemmas.Monero.subaddress_secret_form (keccak o) (G o) (gadd o) (gmul o) (gbase o) (g_is_zero o) (penc o)
           (pdec o) (p_refused o) L1 L3 M1 M2).
Qed.
Print Assumptions subaddress_secret_form.

(* ------------------------------------------------------------------ addresses *)

Theorem xmr_base58_dec_enc : forall b, bytes_ok b -> b58x_decode (b58x_encode b) = Ok b.
Proof. exact Lemmas.AddrXmr.b58x_decode_encode. Qed.
Print Assumptions xmr_base58_dec_enc.

(* net byte || spend || view [|| payment id] || keccak[:4], block Base58 -- for the encoder entry point *)
Theorem address_layout : forall o ps pv net payid s, encode_key o ps pv net payid = Ok s ->
  exists ps' pv' pid,
    EdLib.pub_from_bytes (G o) (pdec o) ps = Ok ps' /\ EdLib.pub_from_bytes (G o) (pdec o) pv = Ok pv' /\
    pid = match payid with Some p => p | None => [] end /\
    (match payid with Some p => length p = xmr_payid_len | None => True end) /\
    s = b58x_encode ((net ++ ps' ++ pv' ++ pid) ++ firstn xmr_addr_cklen (keccak o (net ++ ps' ++ pv' ++ pid))).
Proof. intros o. exact (Lemmas.AddrXmr.encode_key_layout (keccak o) (G o) (pdec o)). Qed.
Print Assumptions address_layout.

(* ... and for the three wallet methods *)
Theorem wallet_address_layout : forall o, encoding_laws o -> forall b net w, from_priv_spend o b net = Ok w ->
  primary_address o w = Ok (b58x_encode (addr_bytes o (net_addr net) (w_pub_s w) (w_pub_v w) [])) /\
  (forall pid, length pid = xmr_payid_len ->
     integrated_address o w pid = Ok (b58x_encode (addr_bytes o (net_int net) (w_pub_s w) (w_pub_v w) pid))) /\
  (forall pid, length pid <> xmr_payid_len -> integrated_address o w pid = Err ValueError) /\
  (forall minor major s, (minor, major) <> (0, 0)%Z -> subaddress o w minor major = Ok s ->
     exists ds cs, compute_keys o w minor major = Ok (ds, cs) /\
                   s = b58x_encode (addr_bytes o (net_sub net) ds cs [])).
Proof.
  intros o (L1 & L2 & L3) b net w H.
  pose proof (Lemmas.Monero.full_wallet_pub_ok (keccak o) (G o) (gmul o) (gbase o) (g_is_zero o) (penc o) (pdec o)
                L1 L2 L3 b net w H) as W.
  destruct (Lemmas.Monero.from_priv_spend_ok _ _ _ _ _ _ b net w H) as (_ & _ & _ & _ & _ & _ & _ & _ & <-).
  split; [|split; [|split]].
  - exact (Lemmas.Monero.primary_address_layout (keccak o) (G o) (gadd o) (gmul o) (gbase o) (g_is_zero o) (penc o)
             (pdec o) (p_refused o) w W).
  - intros pid. exact (Lemmas.Monero.integrated_address_layout (keccak o) (G o) (pdec o) w pid W).
  - intros pid. exact (Lemmas.Monero.integrated_address_bad_id (keccak o) (G o) (pdec o) w pid).
  - exact (Lemmas.Monero.subaddress_layout (keccak o) (G o) (gadd o) (gmul o) (gbase o) (g_is_zero o) (penc o)
             (pdec o) (p_refused o) L1 L3 w).
Qed.
Print Assumptions wallet_address_layout.

(* decode after encode, encoder entry point: any net bytes, optional payment id *)
Theorem address_dec_enc : forall o, keccak_laws o -> forall ps pv net payid s,
  bytes_ok net -> bytes_ok ps -> bytes_ok pv -> (match payid with Some p => bytes_ok p | None => True end) ->
  encode_key o ps pv net payid = Ok s ->
  decode_addr o s net payid = Ok (strip_pub_prefix ps ++ strip_pub_prefix pv).
Proof.
  intros o (K1 & K2). exact (Lemmas.AddrXmr.decode_encode_key (keccak o) (G o) (pdec o) K1 K2).
Qed.
Print Assumptions address_dec_enc.

(* decode after encode for the wallet methods on the three configured networks: standard, integrated and
   sub-addresses decode, under their own net byte, to the public keys they were made of *)
Theorem wallet_address_dec_enc : forall o, keccak_laws o -> encoding_laws o ->
  forall net, In net networks -> forall b w, from_priv_spend o b net = Ok w ->
  (forall s, primary_address o w = Ok s -> decode_addr o s (net_addr net) None = Ok (w_pub_s w ++ w_pub_v w)) /\
  (forall pid s, bytes_ok pid -> integrated_address o w pid = Ok s ->
     decode_addr o s (net_int net) (Some pid) = Ok (w_pub_s w ++ w_pub_v w)) /\
  (forall minor major s, subaddress o w minor major = Ok s ->
     exists ds cs, compute_keys o w minor major = Ok (ds, cs) /\
       decode_addr o s (if ((minor =? 0)%Z && (major =? 0)%Z)%bool then net_addr net else net_sub net) None
         = Ok (ds ++ cs)).
Proof.
  intros o (K1 & K2) (L1 & L2 & L3) net Hin b w H.
  pose proof (Lemmas.Monero.full_wallet_pub_ok (keccak o) (G o) (gmul o) (gbase o) (g_is_zero o) (penc o) (pdec o)
                L1 L2 L3 b net w H) as W.
  destruct (Lemmas.Monero.from_priv_spend_ok _ _ _ _ _ _ b net w H) as (_ & _ & _ & _ & _ & _ & _ & _ & <-).
  destruct (Lemmas.CardmonConstsOk.xmr_nets_ok _ Hin) as (N1 & N2 & N3).
  split; [|split].
  - intros s. exact (Lemmas.Monero.primary_address_dec_enc (keccak o) (G o) (gadd o) (gmul o) (gbase o) (g_is_zero o)
                       (penc o) (pdec o) (p_refused o) K1 K2 w s W N1).
  - intros pid s Hp. exact (Lemmas.Monero.integrated_address_dec_enc (keccak o) (G o) (pdec o) K1 K2 w pid s W N2 Hp).
  - intros minor major s.
    exact (Lemmas.Monero.subaddress_dec_enc (keccak o) (G o) (gadd o) (gmul o) (gbase o) (g_is_zero o) (penc o)
             (pdec o) (p_refused o) K1 K2 L1 L2 L3 w minor major s N3 N1 W).
Qed.
Print Assumptions wallet_address_dec_enc.

(* the decoder refuses only with ValueError (OutOfFuel is the model's artefact and never arises:
   [decode] supplies length + 1 units of fuel) *)
Theorem address_decoder_errors : forall o s net payid e, decode_addr o s net payid = Err e ->
  e = ValueError \/ e = OutOfFuel.
Proof. intros o. exact (Lemmas.AddrXmr.decode_addr_err (keccak o) (G o) (pdec o)). Qed.
Print Assumptions address_decoder_errors.

(* ------------------------------------------------------------------ watch-only wallets *)

(* FromWatchOnly(view key, public spend key) of a full wallet succeeds and every address, sub-address
   and integrated address it gives is the full wallet's *)
Theorem watch_only_equal : forall o, encoding_laws o -> forall b net w, from_priv_spend o b net = Ok w ->
  exists w', from_watch_only o (w_priv_v w) (w_pub_s w) net = Ok w' /\
    w_priv_s w' = None /\
    primary_address o w' = primary_address o w /\
    (forall minor major, subaddress o w' minor major = subaddress o w minor major) /\
    (forall minor major, compute_keys o w' minor major = compute_keys o w minor major) /\
    (forall pid, integrated_address o w' pid = integrated_address o w pid).
Proof.
  intros o (L1 & L2 & L3) b net w H.
  exact (ex_intro _ (Lemmas.Monero.strip_spend w)
    (conj (Lemmas.Monero.watch_only_of_full (keccak o) (G o) (gmul o) (gbase o) (g_is_zero o) (penc o) (pdec o) L1 L3 b net w H)
    (conj eq_refl
      (Lemmas.Monero.addresses_ignore_spend_key (keccak o) (G o) (gadd o) (gmul o) (gbase o) (g_is_zero o) (penc o)
         (pdec o) (p_refused o) w)))).
Qed.
Print Assumptions watch_only_equal.

Theorem watch_only_no_spend_key : forall o vb pb net w, from_watch_only o vb pb net = Ok w ->
  private_spend_key w = Err (LibError MoneroKeyError).
Proof. intros o. exact (Lemmas.Monero.watch_only_no_spend_key (G o) (gmul o) (gbase o) (g_is_zero o) (penc o) (pdec o)). Qed.
Print Assumptions watch_only_no_spend_key.

(* what a watch-only wallet is made of *)
Theorem watch_only_keys : forall o vb pb net w, from_watch_only o vb pb net = Ok w ->
  w_priv_v w = vb /\ length vb = 32%nat /\ le_to_int vb < ed_order /\
  w_pub_s w = strip_pub_prefix pb /\ (exists B, pdec o (w_pub_s w) = Some B) /\
  w_pub_v w = pub_of o (le_to_int vb).
Proof.
  intros o vb pb net w H.
  destruct (Lemmas.Monero.from_watch_only_ok (G o) (gmul o) (gbase o) (g_is_zero o) (penc o) (pdec o) vb pb net w H)
    as (_ & A & B & C & D & _ & E & F & _).
  exact (conj A (conj B (conj C (conj D (conj E F))))).
Qed.
Print Assumptions watch_only_keys.

(* ------------------------------------------------------------------ the premises are satisfiable *)

Example toy_laws : keccak_laws toy /\ encoding_laws toy /\ module_laws toy.
Proof.
  exact (conj (conj MoneroToy.toy_hash32_len MoneroToy.toy_hash32_ok)
        (conj (conj MoneroToy.z3_enc_len (conj MoneroToy.z3_enc_ok MoneroToy.z3_dec_enc))
              (conj MoneroToy.z3_mul_add MoneroToy.z3_mul_mul))).
Qed.
Print Assumptions toy_laws.

(* a full wallet, a sub-address of it, its three kinds of address decoding back, and its watch-only twin *)
Example toy_wallet_ok :
  In toy_net networks /\
  exists w, from_priv_spend toy toy_spend toy_net = Ok w /\
    from_seed toy toy_spend toy_net = Ok w /\
    (exists B, pdec toy (w_pub_s w) = Some B) /\ le_to_int (w_priv_v w) < ed_order /\
    (exists ds cs, compute_keys toy w 7 (2 ^ 32 - 1) = Ok (ds, cs) /\ ds <> w_pub_s w) /\
    (exists s, primary_address toy w = Ok s /\ decode_addr toy s (net_addr toy_net) None = Ok (w_pub_s w ++ w_pub_v w)) /\
    (exists s, subaddress toy w 7 (2 ^ 32 - 1) = Ok s /\
               exists k, decode_addr toy s (net_sub toy_net) None = Ok k /\ k <> w_pub_s w ++ w_pub_v w) /\
    (exists s, integrated_address toy w [1; 2; 3; 4; 5; 6; 7; 8] = Ok s /\
               decode_addr toy s (net_int toy_net) (Some [1; 2; 3; 4; 5; 6; 7; 8]) = Ok (w_pub_s w ++ w_pub_v w)) /\
    (exists w', from_watch_only toy (w_priv_v w) (w_pub_s w) toy_net = Ok w' /\
                private_spend_key w' = Err (LibError MoneroKeyError) /\
                subaddress toy w' 7 (2 ^ 32 - 1) = subaddress toy w 7 (2 ^ 32 - 1)).
Proof. exact Lemmas.MoneroBackend.toy_wallet_ok_proof. Qed.
Print Assumptions toy_wallet_ok.

(* ===== linked to the concrete codec models ===== *)
(* The tree holds two independent models of Monero block Base58: Model/XmrB58.v (used by the address model
   above, constants from Gen/ConstsCardmon.v) and Model/Base58Xmr.v (the C10/C11 codec, constants from
   Gen/Consts.v, with the acceptance / canonicity theorems [xmr_b58_accepts_iff], [xmr_encode_decode]).
   They are proved to be ONE function: equal on every input (Lemmas/LinkXmr.v: [encode_eq], [decode_eq] for any
   table long enough, then on the regenerated constants, which the two generators are shown to read
   identically).  So the C10/C11 theorems hold of the codec the address decoder really calls, and the
   address decoder inherits them.  No hypothesis: these statements involve no oracle law at all. *)
From BU Require Model.Codecs Model.XmrB58 Model.Base58Xmr.
From BU Require Lemmas.XmrConstsOk Lemmas.LinkXmr.

Theorem xmr_b58_models_agree :
  (forall b, Codecs.xmr_encode b = Ok (b58x_encode b)) /\ (forall s, b58x_decode s = Codecs.xmr_decode s).
Proof. exact (conj LinkXmr.b58x_encode_eq LinkXmr.b58x_decode_eq). Qed.
Print Assumptions xmr_b58_models_agree.

(* the same for ANY alphabet / radix / block table with at least dec_max entries, not only the generated one *)
Theorem xmr_b58_models_agree_generic : forall alph radix dec_max enc_max enc_lens,
  (0 < dec_max)%nat -> (0 < enc_max)%nat -> (dec_max <= length enc_lens)%nat ->
  (forall b, Base58Xmr.encode alph radix dec_max enc_max enc_lens b = Ok (XmrB58.encode alph radix dec_max enc_max enc_lens b)) /\
  (forall s, XmrB58.decode alph radix dec_max enc_max enc_lens s = Base58Xmr.decode alph radix dec_max enc_max enc_lens s).
Proof.
  intros alph radix dec_max enc_max enc_lens H1 H2 H3.
  exact (conj (LinkXmr.encode_eq alph radix dec_max enc_max enc_lens H1 H2 H3)
              (LinkXmr.decode_eq alph radix dec_max enc_max enc_lens H1 H2 H3)).
Qed.
Print Assumptions xmr_b58_models_agree_generic.

(* [xmr_b58_accepts_iff] (C10) for the address model's codec: accepted strings = encodings of byte strings *)
Theorem xmr_b58_accepts_iff_linked : forall s,
  (exists b, b58x_decode s = Ok b) <-> (exists b, bytes_ok b /\ b58x_encode b = s).
Proof. exact LinkXmr.b58x_accepts_iff. Qed.
Print Assumptions xmr_b58_accepts_iff_linked.

(* canonicity: re-encoding what was decoded gives the string back *)
Theorem xmr_b58_enc_dec_linked : forall s b, b58x_decode s = Ok b -> b58x_encode b = s /\ bytes_ok b.
Proof. exact LinkXmr.b58x_encode_decode. Qed.
Print Assumptions xmr_b58_enc_dec_linked.

(* the fuel artefact of Model/XmrB58.v is unreachable: the codec of the address model refuses with ValueError only *)
Theorem xmr_b58_decode_errors_linked : forall s e, b58x_decode s = Err e -> e = ValueError.
Proof. exact LinkXmr.b58x_decode_err. Qed.
Print Assumptions xmr_b58_decode_errors_linked.

(* the address decoder: an accepted address string is THE canonical block-Base58 spelling of a byte string (an
   address has no second spelling), and acceptance is a property of the decoded bytes.  Stated through the
   decoder's first step only, so that it is independent of the checks performed on the bytes afterwards (the exact
   condition on the bytes, and ValueError as the only refusal of the whole decoder, follow below:
   [address_decoder_accepts_iff_bytes], [address_decoder_errors_value], Lemmas/LinkXmrAddr.v, re-proved against the
   body of Model/AddrXmr.v as revised after the repair of finding C10-XMR-INTEG-LEN) *)
Theorem address_accepted_is_canonical : forall o addr net payid r, decode_addr o addr net payid = Ok r ->
  exists dec, bytes_ok dec /\ b58x_decode addr = Ok dec /\ b58x_encode dec = addr.
Proof. intros o. exact (LinkXmr.decode_addr_canonical (keccak o) (G o) (pdec o)). Qed.
Print Assumptions address_accepted_is_canonical.

Theorem address_decoder_accepts_iff_canonical : forall o addr net payid r,
  decode_addr o addr net payid = Ok r <->
  exists dec, bytes_ok dec /\ b58x_encode dec = addr /\ decode_addr o (b58x_encode dec) net payid = Ok r.
Proof. intros o. exact (LinkXmr.decode_addr_accepts_iff_canonical (keccak o) (G o) (pdec o)). Qed.
Print Assumptions address_decoder_accepts_iff_canonical.

(* the exact acceptance condition on the decoded bytes: Keccak checksum, net prefix, then -- without an expected
   payment id -- 64 bytes, or -- with one -- an 8-byte id, 72 bytes ending in that id; both keys valid.
   An address has exactly one spelling: the canonical block-Base58 text of such a byte string. *)
From BU Require Lemmas.LinkXmrAddr Lemmas.AddrAcceptXmrLink.
Theorem address_decoder_accepts_iff_bytes : forall o addr net payid r,
  decode_addr o addr net payid = Ok r <->
  exists dec, bytes_ok dec /\ b58x_encode dec = addr /\
    LinkXmrAddr.addr_bytes_accepted (keccak o) (G o) (pdec o) dec net payid r.
Proof. intros o. exact (LinkXmrAddr.decode_addr_accepts_iff (keccak o) (G o) (pdec o)). Qed.
Print Assumptions address_decoder_accepts_iff_bytes.

(* the whole address decoder refuses with ValueError only (the fuel artefact of Model/XmrB58.v is unreachable) *)
Theorem address_decoder_errors_value : forall o addr net payid e,
  decode_addr o addr net payid = Err e -> e = ValueError.
Proof. intros o. exact (LinkXmrAddr.decode_addr_err_value (keccak o) (G o) (pdec o)). Qed.
Print Assumptions address_decoder_errors_value.

(* ... and exactly the address encoder's outputs are accepted (XmrAddrEncoder for payid = None,
   XmrIntegratedAddrEncoder for payid = Some p): Props/C10.v xmr_addr_decode_accepts_iff_encoder, here over a back-end *)
Theorem address_decoder_accepts_iff_encoder : forall o,
  (forall x, length (keccak o x) = 32%nat) -> (forall x, bytes_ok (keccak o x)) ->
  forall addr net payid r, bytes_ok net -> (match payid with Some p => bytes_ok p | None => True end) ->
  (decode_addr o addr net payid = Ok r <->
   exists ps pv, r = ps ++ pv /\ length ps = 32%nat /\ length pv = 32%nat /\ bytes_ok ps /\ bytes_ok pv /\
                 pub_is_valid (G o) (pdec o) ps = true /\ pub_is_valid (G o) (pdec o) pv = true /\
                 encode_key o ps pv net payid = Ok addr).
Proof. intros o H1 H2. exact (AddrAcceptXmrLink.decode_addr_accepts_iff_encoder (keccak o) (G o) (pdec o) H1 H2). Qed.
Print Assumptions address_decoder_accepts_iff_encoder.
